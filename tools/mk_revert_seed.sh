#!/bin/bash
# usage: tools/mk_revert_seed.sh <seed-id> <fix-commit> <property> "<checks space separated>" "<what>" "<needs>" [demo files...]
cd "$(dirname "$0")/.."
ID=$1; C=$2; P=$3; CHECKS=$4; WHAT=$5; NEEDS=$6; shift 6
D=seeded/$ID; mkdir -p $D
git -C /repo diff $C $C~1 > $D/patch.diff
for f in "$@"; do cp "$f" $D/; done
python3 - "$D" "$C" "$P" "$CHECKS" "$WHAT" "$NEEDS" "$@" <<'PY'
import json,sys,os
d,c,p,checks,what,needs=sys.argv[1:7]
json.dump({"property":p,"checks":checks.split(),"origin":"reverse of fix commit "+c,"what_it_breaks":what,"needs_to_manifest":needs,
 "demonstration":[os.path.basename(f) for f in sys.argv[7:]],"command":"tools/seeded_run.sh "+os.path.basename(d)},open(d+'/meta.json','w'),indent=1)
PY
echo created $D
