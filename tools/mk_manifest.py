#!/usr/bin/env python3
"""Assembles MANIFEST.json from manifest.d/Cxx.json fragments (one check entry each); every property without a
fragment is listed under not_applicable with the reason in manifest.d/NOT_APPLICABLE.json (or a default)."""
import json, os, glob
R = os.path.abspath(os.path.join(os.path.dirname(__file__), '..'))
props = [json.loads(l)['id'] for l in open(os.path.join(R, 'properties.jsonl'))]
checks = []
hold_path = os.path.join(R, 'manifest.d', 'HOLD')   # ids whose fragment exists but whose check is not finished: not claimed yet
hold = set(open(hold_path).read().split()) if os.path.exists(hold_path) else set()
for f in sorted(glob.glob(os.path.join(R, 'manifest.d', 'C*.json'))):
    c = json.load(open(f))
    pid = c['property_id']
    if pid in hold:
        continue
    c.setdefault('quick_cmd', './check %s quick' % pid)
    c.setdefault('thorough_cmd', './check %s thorough' % pid)
    c.setdefault('evidence_file', 'evidence/%s.json' % pid)
    c.setdefault('replay_cmd_template', './check %s --replay {path}' % pid)
    c.setdefault('engine', 'coq')
    checks.append(c)
claimed = {c['property_id'] for c in checks}
na_path = os.path.join(R, 'manifest.d', 'NOT_APPLICABLE.json')
na_reasons = json.load(open(na_path)) if os.path.exists(na_path) else {}
na = [{'property_id': p, 'reason': na_reasons.get(p, 'check still being built in this round (model, proofs and harness in progress; see DESIGN.md section 10) — not yet claimed')}
      for p in props if p not in claimed]
hooks = sorted(set(l.split()[0] for l in os.popen("git -C /repo log --format='%h %s' | grep 'verif hook' || true").read().splitlines() if l.strip()))
m = {"version": 1, "setup_cmd": "tools/setup.sh",
     "hooks": {"guard": "verif",
               "enable": "go build -tags verif (add-only *_verif.go files in /repo re-exporting unexported functions; the harness module is regenerated and built by tools/prep_harness.sh)",
               "baseline_off_cmd": "tools/baseline.sh", "source_commits": hooks, "add_only": True},
     "engines": [
         {"name": "coq", "path": "coq/", "serves_properties": sorted(claimed),
          "kind_free_text": "Coq 8.16.1 development: executable Gallina models (Model/), proofs (Proofs/), property theorems (Props/), refuted statements with witnesses (Refuted/), definitions regenerated from the Go source (Gen/, by tools/gotocoq)"},
         {"name": "harness", "path": "harness/", "serves_properties": sorted(claimed),
          "kind_free_text": "Go module driving the real teleport code on generated inputs/histories; traces are compared with the model and checked by the property monitors inside Coq (vm_compute)"}],
     "checks": checks, "not_applicable": na,
     "notes": "DESIGN.md sections 2 and 10 describe the machinery; KNOWN_FINDINGS.txt lists repaired defects (fixed:) and recorded findings (finding:); seeded/ holds the validated breaking changes and tools/seeded_run.sh runs the checks against them."}
json.dump(m, open(os.path.join(R, 'MANIFEST.json'), 'w'), indent=1)
print('MANIFEST.json: %d checks, %d not_applicable' % (len(checks), len(na)))
