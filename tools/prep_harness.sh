#!/bin/bash
# Regenerates harness/go.mod + go.sum from /repo's current go.mod/go.sum and builds the harness
# binaries against /repo's current working tree with the verif build tag.
# usage: tools/prep_harness.sh [cmd ...]   (default: every harness/cmd/*)
set -e
cd "$(dirname "$0")/.."
REPO=${VERIF_REPO:-/repo}
export GOFLAGS=-mod=mod GOPROXY=off GOSUMDB=off GOTOOLCHAIN=local
H=harness
(
  flock 9
  python3 - "$REPO" "$H" <<'PY'
import re,sys
repo,h=sys.argv[1],sys.argv[2]
src=open(repo+'/go.mod').read()
body=src.split('\n',1)[1]
body=re.sub(r'^module .*$','',body,flags=re.M)
out='module verifharness\n'+body
out+='\nrequire github.com/teleport-network/teleport v0.0.0\nreplace github.com/teleport-network/teleport => %s\n'%repo
# test-only helper modules available in the module cache
import os
cur=open(h+'/go.mod').read() if os.path.exists(h+'/go.mod') else ''
if cur!=out: open(h+'/go.mod','w').write(out)
sm=open(repo+'/go.sum').read()
cur=open(h+'/go.sum').read() if os.path.exists(h+'/go.sum') else ''
if cur!=sm: open(h+'/go.sum','w').write(sm)
PY
  mkdir -p $H/bin
  cmds="$@"
  if [ -z "$cmds" ]; then cmds=$(ls $H/cmd); fi
  for c in $cmds; do
    (cd $H && go build -tags verif -o bin/$c ./cmd/$c)
  done
) 9> $H/.lock
