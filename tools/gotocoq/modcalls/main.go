// modcalls: regenerates the inventory of the calls the chain's own modules make into the EVM
// (property C06: "the privileged entry points of the bridge's system contracts ... can be exercised only by the
// chain's own modules") -> Gen/ModCallsGen.v
//
// The inventory is NORMALISED: a sorted, duplicate-free list of triples (from, target, method) — who calls which contract
// with which method — obtained by following calls INTERPROCEDURALLY inside the repo, so that a behaviour-preserving
// restructuring of the Go code (a wrapper more or less, CallPacket delegating to CallEVM, a helper that takes the method
// name as a parameter, a named constant for a method) regenerates the SAME term.  The Go functions in which the resolved
// calls originate are listed in comments only.
//
// Sources (relative to -repo): every non-test .go file under x/ and app/ (not: testing/, simulation/, client/cli), plus
// x/xibc/core/packet/types/keys.go and x/aggregate/types/keys.go (the definitions of the two module addresses).
//
// Method (go/ast only, no type information; functions are identified by package directory + name):
//   - PRIMITIVE: a call of a function named CallEVMWithData(ctx, from, target, data).
//   - symbolic evaluation of an argument inside a function body: string literal; package-qualified name (resolved through
//     the file's imports, module prefix stripped, a leading & dropped); package-level string constant / single-initialiser
//     variable of the same package (resolved recursively); parameter of the enclosing function (symbolic); local variable
//     (every assignment to it is evaluated: several alternatives give several triples); anything else: unknown "?text".
//     The METHOD of a data argument is the first argument of the `.Pack(` call that produced the data value.
//   - a function whose primitive / wrapper calls still depend on its own parameters is a WRAPPER with a summary
//     (from, target, method as functions of its parameters); a call of a wrapper substitutes the actual arguments
//     (evaluated in the caller) — iterated to a fixpoint, so chains such as CallPacket -> CallEVM -> CallEVMWithData resolve.
//   - a call whose triple no longer depends on parameters is an inventory entry.
//   - a callee name is resolved in the caller's package first, otherwise it must be unique among the scanned packages;
//     an ambiguous name that matches a wrapper yields "?ambiguous:<name>" components.
//
// What cannot be traced stays in the inventory as a "?..." component: the obligation C06_module_calls_ok then fails if the
// target is (or may be) the packet or endpoint contract — for C06 only; the translator itself exits non-zero only on a
// parse error or on a module-address definition outside its subset:
// `ModuleAddress = common.BytesToAddress(authtypes.NewModuleAddress(<Const>).Bytes())` with <Const> a string constant of
// the same file.
package main

import (
	"bytes"
	"flag"
	"fmt"
	"go/ast"
	"go/parser"
	"go/printer"
	"go/token"
	"os"
	"path/filepath"
	"sort"
	"strconv"
	"strings"
)

const modPrefix = "github.com/teleport-network/teleport/"
const primitive = "CallEVMWithData"

func die(f string, a ...interface{}) {
	fmt.Fprintf(os.Stderr, "modcalls: "+f+"\n", a...)
	os.Exit(1)
}

// text placed inside a Coq comment must not open or close one
func inComment(s string) string {
	return strings.ReplaceAll(strings.ReplaceAll(s, "(*", "( *"), "*)", "* )")
}

func coqBytes(s string) string {
	if len(s) == 0 {
		return "[]"
	}
	parts := make([]string, len(s))
	for i := 0; i < len(s); i++ {
		parts[i] = fmt.Sprintf("x%02x", s[i])
	}
	return "[" + strings.Join(parts, ";") + "]"
}

var addrFiles = []string{"x/xibc/core/packet/types/keys.go", "x/aggregate/types/keys.go"}

// ---------------------------------------------------------------------------------------------
// symbolic values

type sym struct {
	param int    // >= 0: the enclosing function's parameter with that index (text unused)
	data  bool   // (param only) the METHOD packed into that data parameter is meant
	text  string // concrete text, or "?..." for unknown
}

func conc(s string) sym { return sym{param: -1, text: s} }
func unk(s string) sym  { return sym{param: -1, text: "?" + s} }

type effect struct{ from, target, method sym }

type fn struct {
	pkg, name, file string
	decl            *ast.FuncDecl
	params          []string
	imports         map[string]string
	summary         []effect // effects that still depend on parameters
}

type pkgInfo struct {
	consts map[string]ast.Expr // package-level const / single-initialiser var: name -> initialiser
	cfile  map[string]*fn      // imports context for the initialiser (a pseudo fn carrying the file's imports)
}

var fset = token.NewFileSet()
var funcs = map[string][]*fn{} // name -> definitions
var pkgs = map[string]*pkgInfo{}

func exprText(e ast.Expr) string {
	var b bytes.Buffer
	printer.Fprint(&b, fset, e)
	return strings.Join(strings.Fields(b.String()), " ")
}

func strLit(e ast.Expr) (string, bool) {
	if l, ok := e.(*ast.BasicLit); ok && l.Kind == token.STRING {
		s, err := strconv.Unquote(l.Value)
		if err == nil {
			return s, true
		}
	}
	return "", false
}

// assignments to a local identifier inside f's body: the RHS expressions (tuple assignment from one call: that call)
func assignments(f *fn, name string) []ast.Expr {
	var out []ast.Expr
	ast.Inspect(f.decl.Body, func(nd ast.Node) bool {
		switch s := nd.(type) {
		case *ast.AssignStmt:
			for i, l := range s.Lhs {
				if id, ok := l.(*ast.Ident); ok && id.Name == name {
					if len(s.Rhs) == len(s.Lhs) {
						out = append(out, s.Rhs[i])
					} else if len(s.Rhs) == 1 && i == 0 {
						out = append(out, s.Rhs[0])
					} else {
						out = append(out, nil)
					}
				}
			}
		case *ast.ValueSpec:
			for i, id := range s.Names {
				if id.Name == name && i < len(s.Values) {
					out = append(out, s.Values[i])
				}
			}
		}
		return true
	})
	return out
}

func paramIndex(f *fn, name string) int {
	for i, p := range f.params {
		if p == name {
			return i
		}
	}
	return -1
}

// eval: the alternatives an expression may denote, in the context of function f
func eval(f *fn, e ast.Expr, depth int) []sym {
	if e == nil || depth > 6 {
		return []sym{unk("untraced")}
	}
	if s, ok := strLit(e); ok {
		return []sym{conc(s)}
	}
	switch x := e.(type) {
	case *ast.ParenExpr:
		return eval(f, x.X, depth)
	case *ast.UnaryExpr:
		if x.Op == token.AND {
			return eval(f, x.X, depth)
		}
	case *ast.SelectorExpr:
		if id, ok := x.X.(*ast.Ident); ok {
			if p, ok := f.imports[id.Name]; ok && paramIndex(f, id.Name) < 0 {
				return []sym{conc(strings.TrimPrefix(p, modPrefix) + "." + x.Sel.Name)}
			}
		}
	case *ast.Ident:
		if x.Name == "nil" {
			return []sym{conc("nil")}
		}
		if i := paramIndex(f, x.Name); i >= 0 {
			return []sym{{param: i}}
		}
		if f.decl != nil && f.decl.Body != nil {
			if as := assignments(f, x.Name); len(as) > 0 {
				var out []sym
				for _, a := range as {
					out = append(out, eval(f, a, depth+1)...)
				}
				return out
			}
		}
		if pi := pkgs[f.pkg]; pi != nil {
			if init, ok := pi.consts[x.Name]; ok {
				return eval(pi.cfile[x.Name], init, depth+1)
			}
		}
	}
	return []sym{unk(exprText(e))}
}

// evalMethod: the method names packed into a data expression
func evalMethod(f *fn, e ast.Expr, depth int) []sym {
	if e == nil || depth > 6 {
		return []sym{unk("untraced-data")}
	}
	switch x := e.(type) {
	case *ast.ParenExpr:
		return evalMethod(f, x.X, depth)
	case *ast.CallExpr:
		if se, ok := x.Fun.(*ast.SelectorExpr); ok && se.Sel.Name == "Pack" && len(x.Args) > 0 {
			return eval(f, x.Args[0], depth+1)
		}
	case *ast.Ident:
		if i := paramIndex(f, x.Name); i >= 0 {
			return []sym{{param: i, data: true}}
		}
		if as := assignments(f, x.Name); len(as) > 0 {
			var out []sym
			for _, a := range as {
				out = append(out, evalMethod(f, a, depth+1)...)
			}
			return out
		}
	}
	return []sym{unk("data:" + exprText(e))}
}

// substitute a callee-level symbol by the caller's actual arguments
func subst(caller *fn, s sym, args []ast.Expr, variadicFrom int) []sym {
	if s.param < 0 {
		return []sym{s}
	}
	if s.param >= len(args) || (variadicFrom >= 0 && s.param >= variadicFrom) {
		return []sym{unk("variadic-or-missing-argument")}
	}
	if s.data {
		return evalMethod(caller, args[s.param], 0)
	}
	return eval(caller, args[s.param], 0)
}

func resolveCallee(caller *fn, name string) ([]*fn, bool) {
	defs := funcs[name]
	var same []*fn
	for _, d := range defs {
		if d.pkg == caller.pkg {
			same = append(same, d)
		}
	}
	if len(same) > 0 {
		return same[:1], false
	}
	if len(defs) == 1 {
		return defs, false
	}
	if len(defs) > 1 {
		return defs, true
	}
	return nil, false
}

type entry struct {
	from, target, method string
	site                 string
}

// effects of the calls inside f, in terms of f's parameters
func effectsOf(f *fn) []effect {
	var out []effect
	ast.Inspect(f.decl.Body, func(nd ast.Node) bool {
		ce, ok := nd.(*ast.CallExpr)
		if !ok {
			return true
		}
		name := ""
		switch fu := ce.Fun.(type) {
		case *ast.SelectorExpr:
			name = fu.Sel.Name
		case *ast.Ident:
			name = fu.Name
		}
		if name == "" {
			return true
		}
		if name == primitive {
			if len(ce.Args) != 4 {
				out = append(out, effect{unk("arity"), unk("arity"), unk("arity")})
				return true
			}
			for _, fr := range eval(f, ce.Args[1], 0) {
				for _, tg := range eval(f, ce.Args[2], 0) {
					for _, m := range evalMethod(f, ce.Args[3], 0) {
						out = append(out, effect{fr, tg, m})
					}
				}
			}
			return true
		}
		callees, ambiguous := resolveCallee(f, name)
		for _, c := range callees {
			if len(c.summary) == 0 || c == f {
				continue
			}
			if ambiguous {
				a := unk("ambiguous:" + name)
				out = append(out, effect{a, a, a})
				break
			}
			variadicFrom := -1
			if ce.Ellipsis == token.NoPos {
				// a variadic parameter of the callee collects several arguments: not traced individually
				if n := len(c.decl.Type.Params.List); n > 0 {
					if _, ok := c.decl.Type.Params.List[n-1].Type.(*ast.Ellipsis); ok {
						variadicFrom = len(c.params) - 1
					}
				}
			}
			for _, e := range c.summary {
				for _, fr := range subst(f, e.from, ce.Args, variadicFrom) {
					for _, tg := range subst(f, e.target, ce.Args, variadicFrom) {
						for _, m := range subst(f, e.method, ce.Args, variadicFrom) {
							out = append(out, effect{fr, tg, m})
						}
					}
				}
			}
		}
		return true
	})
	return out
}

func symbolic(e effect) bool { return e.from.param >= 0 || e.target.param >= 0 || e.method.param >= 0 }

func effKey(e effect) string {
	k := func(s sym) string { return fmt.Sprintf("%d/%v/%s", s.param, s.data, s.text) }
	return k(e.from) + "|" + k(e.target) + "|" + k(e.method)
}

func main() {
	repo := flag.String("repo", "/repo", "repository root")
	out := flag.String("out", "", "output directory (coq/theories/Gen)")
	flag.Parse()
	if *out == "" {
		die("-out required")
	}
	var all []*fn
	for _, root := range []string{"x", "app"} {
		filepath.Walk(filepath.Join(*repo, root), func(path string, info os.FileInfo, err error) error {
			if err != nil {
				die("%v", err)
			}
			rel, _ := filepath.Rel(*repo, path)
			if info.IsDir() {
				if b := info.Name(); b == "testing" || b == "simulation" || b == "cli" || b == "testdata" {
					return filepath.SkipDir
				}
				return nil
			}
			n := info.Name()
			if !strings.HasSuffix(n, ".go") || strings.HasSuffix(n, "_test.go") || strings.HasSuffix(n, "_verif.go") || strings.HasSuffix(n, ".pb.go") || strings.HasSuffix(n, ".pb.gw.go") {
				return nil
			}
			f, err := parser.ParseFile(fset, path, nil, 0)
			if err != nil {
				die("%s: %v", rel, err)
			}
			dir := filepath.Dir(rel)
			imports := map[string]string{}
			for _, im := range f.Imports {
				p, _ := strconv.Unquote(im.Path.Value)
				name := filepath.Base(p)
				if im.Name != nil {
					name = im.Name.Name
				}
				imports[name] = p
			}
			pi := pkgs[dir]
			if pi == nil {
				pi = &pkgInfo{consts: map[string]ast.Expr{}, cfile: map[string]*fn{}}
				pkgs[dir] = pi
			}
			ctx := &fn{pkg: dir, file: rel, imports: imports}
			for _, decl := range f.Decls {
				switch d := decl.(type) {
				case *ast.GenDecl:
					if d.Tok != token.CONST && d.Tok != token.VAR {
						continue
					}
					for _, sp := range d.Specs {
						vs := sp.(*ast.ValueSpec)
						for i, nm := range vs.Names {
							if i < len(vs.Values) {
								pi.consts[nm.Name] = vs.Values[i]
								pi.cfile[nm.Name] = ctx
							}
						}
					}
				case *ast.FuncDecl:
					if d.Body == nil {
						continue
					}
					x := &fn{pkg: dir, name: d.Name.Name, file: rel, decl: d, imports: imports}
					for _, fl := range d.Type.Params.List {
						if len(fl.Names) == 0 {
							x.params = append(x.params, "_")
						}
						for _, nm := range fl.Names {
							x.params = append(x.params, nm.Name)
						}
					}
					funcs[x.name] = append(funcs[x.name], x)
					all = append(all, x)
				}
			}
			return nil
		})
	}
	sort.SliceStable(all, func(i, j int) bool {
		if all[i].file != all[j].file {
			return all[i].file < all[j].file
		}
		return all[i].name < all[j].name
	})

	// fixpoint over wrapper summaries
	for round := 0; round < 10; round++ {
		changed := false
		for _, f := range all {
			if f.name == primitive {
				continue
			}
			seen := map[string]bool{}
			var sm []effect
			for _, e := range effectsOf(f) {
				if symbolic(e) && !seen[effKey(e)] {
					seen[effKey(e)] = true
					sm = append(sm, e)
				}
			}
			if len(sm) != len(f.summary) {
				changed = true
			}
			f.summary = sm
		}
		if !changed {
			break
		}
	}
	// entries: parameter-free effects
	triples := map[[3]string][]string{}
	for _, f := range all {
		if f.name == primitive {
			continue
		}
		for _, e := range effectsOf(f) {
			if symbolic(e) {
				continue
			}
			// an untraceable component is "?" in the term (its source text, which changes with any renaming, only in the comments)
			norm := func(t string) string {
				if strings.HasPrefix(t, "?") {
					return "?"
				}
				return t
			}
			k := [3]string{norm(e.from.text), norm(e.target.text), norm(e.method.text)}
			site := f.file + ":" + f.name
			if k[0] == "?" || k[1] == "?" || k[2] == "?" {
				site += fmt.Sprintf("{%s|%s|%s}", e.from.text, e.target.text, e.method.text)
			}
			dup := false
			for _, s := range triples[k] {
				if s == site {
					dup = true
				}
			}
			if !dup {
				triples[k] = append(triples[k], site)
			}
		}
	}
	var keys [][3]string
	for k := range triples {
		keys = append(keys, k)
	}
	sort.Slice(keys, func(i, j int) bool {
		for x := 0; x < 3; x++ {
			if keys[i][x] != keys[j][x] {
				return keys[i][x] < keys[j][x]
			}
		}
		return false
	})

	// module address definitions
	type adef struct{ pkg, name string }
	var adefs []adef
	for _, rel := range addrFiles {
		f, err := parser.ParseFile(fset, filepath.Join(*repo, rel), nil, 0)
		if err != nil {
			die("%s: %v", rel, err)
		}
		consts := map[string]string{}
		for _, decl := range f.Decls {
			gd, ok := decl.(*ast.GenDecl)
			if !ok || gd.Tok != token.CONST {
				continue
			}
			for _, sp := range gd.Specs {
				vs := sp.(*ast.ValueSpec)
				for i, nm := range vs.Names {
					if i < len(vs.Values) {
						if s, ok := strLit(vs.Values[i]); ok {
							consts[nm.Name] = s
						}
					}
				}
			}
		}
		found := ""
		ast.Inspect(f, func(nd ast.Node) bool {
			as, ok := nd.(*ast.AssignStmt)
			if !ok || len(as.Lhs) != 1 || len(as.Rhs) != 1 {
				return true
			}
			if id, ok := as.Lhs[0].(*ast.Ident); !ok || id.Name != "ModuleAddress" {
				return true
			}
			txt := exprText(as.Rhs[0])
			const pre, post = "common.BytesToAddress(authtypes.NewModuleAddress(", ").Bytes())"
			if !strings.HasPrefix(txt, pre) || !strings.HasSuffix(txt, post) {
				die("%s: ModuleAddress defined by an expression outside the subset: %s", rel, txt)
			}
			c := txt[len(pre) : len(txt)-len(post)]
			v, ok := consts[c]
			if !ok {
				die("%s: ModuleAddress: %s is not a string constant of the file", rel, c)
			}
			if found != "" {
				die("%s: ModuleAddress assigned twice", rel)
			}
			found = v
			return true
		})
		if found == "" {
			die("%s: no assignment to ModuleAddress", rel)
		}
		adefs = append(adefs, adef{filepath.Dir(rel), found})
	}

	// the Coq TERM contains only the normalised triples; the originating Go functions are in a separate comment block
	var b bytes.Buffer
	b.WriteString("(* GENERATED by tools/gotocoq/modcalls from the non-test Go files under x/ and app/ and the two types/keys.go -- do not\n   edit.  mod_calls: normalised (from, target, method) triples of the EVM calls the keepers make, calls followed through\n   wrappers and helpers; \"?...\" = could not be traced. *)\nFrom Teleport Require Import Base.Bytes.\n\n")
	b.WriteString("Definition mod_calls : list (bytes * bytes * bytes) :=\n  [")
	for i, k := range keys {
		if i > 0 {
			b.WriteString(";\n   ")
		}
		fmt.Fprintf(&b, "(* from %q target %q method %q *)\n   (%s, %s, %s)", k[0], k[1], k[2], coqBytes(k[0]), coqBytes(k[1]), coqBytes(k[2]))

	}
	b.WriteString("].\n\n(* (package directory, name of the module account whose address is that package's ModuleAddress) *)\n")
	b.WriteString("Definition module_addresses : list (bytes * bytes) :=\n  [")
	for i, a := range adefs {
		if i > 0 {
			b.WriteString(";\n   ")
		}
		fmt.Fprintf(&b, "(%s, %s) (* %s: %q *)", coqBytes(a.pkg), coqBytes(a.name), a.pkg, a.name)
	}
	b.WriteString("].\n\n(* where the resolved calls originate (information only; not part of any term):\n")
	for _, k := range keys {
		s := append([]string(nil), triples[k]...)
		sort.Strings(s)
		fmt.Fprintf(&b, "   SITE from %q target %q method %q in [%s]\n", k[0], k[1], k[2], inComment(strings.Join(s, " ")))
	}
	b.WriteString("*)\n")
	path := filepath.Join(*out, "ModCallsGen.v")
	if old, err := os.ReadFile(path); err == nil && bytes.Equal(old, b.Bytes()) {
		return
	}
	if err := os.WriteFile(path, b.Bytes(), 0o644); err != nil {
		die("%v", err)
	}
}
