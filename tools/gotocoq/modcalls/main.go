// modcalls: regenerates the inventory of the calls the chain's own modules make into the EVM
// (property C06: "the privileged entry points of the bridge's system contracts ... can be exercised only by the
// chain's own modules") -> Gen/ModCallsGen.v
//
// Sources (relative to -repo): every non-test .go file of x/xibc/keeper, x/xibc/core/packet/keeper and
// x/aggregate/keeper, plus x/xibc/core/packet/types/keys.go and x/aggregate/types/keys.go (the definitions of the two
// module addresses).
//
// Inventory entry = one call expression `<recv>.CallPacket(ctx, "method", args...)`,
// `<recv>.CallEVMWithData(ctx, from, target, data)` or `<recv>.CallEVM(ctx, abi, from, contract, "method", args...)`:
// file, enclosing function, kind, the FROM expression and the TARGET expression with their package qualifier resolved
// through the file's imports (e.g. `types.ModuleAddress` in x/aggregate/keeper -> `x/aggregate/types.ModuleAddress`),
// and the method names: the string literal for CallPacket / CallEVM; for CallEVMWithData every string literal passed as
// first argument to a `.Pack(` call in the same function (the payload builders).
//
// A CallPacket / CallEVM method argument that is not a string literal is recorded as "?<expression>" (no method of any
// ABI has that name, so the obligation over the inventory fails — for C06 only).
// Outside the subset (=> exit 1): a call with too few arguments; a module-address definition that is not
// `ModuleAddress = common.BytesToAddress(authtypes.NewModuleAddress(<Const>).Bytes())` with <Const> a string constant of
// the same file.
package main

import (
	"bytes"
	"flag"
	"fmt"
	"go/ast"
	"go/parser"
	"go/printer"
	"go/token"
	"os"
	"path/filepath"
	"sort"
	"strconv"
	"strings"
)

const modPrefix = "github.com/teleport-network/teleport/"

func die(f string, a ...interface{}) {
	fmt.Fprintf(os.Stderr, "modcalls: "+f+"\n", a...)
	os.Exit(1)
}

func coqBytes(s string) string {
	if len(s) == 0 {
		return "[]"
	}
	parts := make([]string, len(s))
	for i := 0; i < len(s); i++ {
		parts[i] = fmt.Sprintf("x%02x", s[i])
	}
	return "[" + strings.Join(parts, ";") + "]"
}

var dirs = []string{"x/xibc/keeper", "x/xibc/core/packet/keeper", "x/aggregate/keeper"}
var addrFiles = []string{"x/xibc/core/packet/types/keys.go", "x/aggregate/types/keys.go"}

type call struct {
	file, fn string
	kind     int // 0 CallPacket, 1 CallEVMWithData, 2 CallEVM
	from     string
	target   string
	methods  []string
}

func exprText(fset *token.FileSet, e ast.Expr) string {
	var b bytes.Buffer
	printer.Fprint(&b, fset, e)
	return b.String()
}

// resolve `pkg.Name` / `&pkg.Name` through the import table of the file; other expressions are returned as written
func resolve(fset *token.FileSet, e ast.Expr, imports map[string]string) string {
	pre := ""
	if u, ok := e.(*ast.UnaryExpr); ok && u.Op == token.AND {
		e = u.X
		pre = "&"
	}
	if s, ok := e.(*ast.SelectorExpr); ok {
		if id, ok := s.X.(*ast.Ident); ok {
			if p, ok := imports[id.Name]; ok {
				return pre + strings.TrimPrefix(p, modPrefix) + "." + s.Sel.Name
			}
		}
	}
	return pre + exprText(fset, e)
}

func strLit(e ast.Expr) (string, bool) {
	if l, ok := e.(*ast.BasicLit); ok && l.Kind == token.STRING {
		s, err := strconv.Unquote(l.Value)
		if err == nil {
			return s, true
		}
	}
	return "", false
}

func main() {
	repo := flag.String("repo", "/repo", "repository root")
	out := flag.String("out", "", "output directory (coq/theories/Gen)")
	flag.Parse()
	if *out == "" {
		die("-out required")
	}
	fset := token.NewFileSet()
	var calls []call
	for _, d := range dirs {
		ents, err := os.ReadDir(filepath.Join(*repo, d))
		if err != nil {
			die("%v", err)
		}
		for _, e := range ents {
			n := e.Name()
			if e.IsDir() || !strings.HasSuffix(n, ".go") || strings.HasSuffix(n, "_test.go") || strings.HasSuffix(n, "_verif.go") {
				continue
			}
			rel := d + "/" + n
			f, err := parser.ParseFile(fset, filepath.Join(*repo, rel), nil, 0)
			if err != nil {
				die("%s: %v", rel, err)
			}
			imports := map[string]string{}
			for _, im := range f.Imports {
				p, _ := strconv.Unquote(im.Path.Value)
				name := filepath.Base(p)
				if im.Name != nil {
					name = im.Name.Name
				}
				imports[name] = p
			}
			for _, decl := range f.Decls {
				fd, ok := decl.(*ast.FuncDecl)
				if !ok || fd.Body == nil {
					continue
				}
				// payload builders of this function
				var packs []string
				ast.Inspect(fd.Body, func(nd ast.Node) bool {
					ce, ok := nd.(*ast.CallExpr)
					if !ok {
						return true
					}
					if se, ok := ce.Fun.(*ast.SelectorExpr); ok && se.Sel.Name == "Pack" && len(ce.Args) > 0 {
						if s, ok := strLit(ce.Args[0]); ok {
							packs = append(packs, s)
						}
					}
					return true
				})
				ast.Inspect(fd.Body, func(nd ast.Node) bool {
					ce, ok := nd.(*ast.CallExpr)
					if !ok {
						return true
					}
					se, ok := ce.Fun.(*ast.SelectorExpr)
					if !ok {
						return true
					}
					pos := fset.Position(ce.Pos())
					switch se.Sel.Name {
					case "CallPacket":
						if len(ce.Args) < 2 {
							die("%s:%d: CallPacket with %d arguments", rel, pos.Line, len(ce.Args))
						}
						m, ok := strLit(ce.Args[1])
						if !ok {
							m = "?" + exprText(fset, ce.Args[1]) // not a literal: recorded as such; the C06 obligation over this inventory then fails
						}
						calls = append(calls, call{rel, fd.Name.Name, 0, "", "", []string{m}})
					case "CallEVMWithData":
						if len(ce.Args) != 4 {
							die("%s:%d: CallEVMWithData with %d arguments", rel, pos.Line, len(ce.Args))
						}
						ms := append([]string(nil), packs...)
						sort.Strings(ms)
						calls = append(calls, call{rel, fd.Name.Name, 1, resolve(fset, ce.Args[1], imports), resolve(fset, ce.Args[2], imports), ms})
					case "CallEVM":
						if len(ce.Args) < 5 {
							die("%s:%d: CallEVM with %d arguments", rel, pos.Line, len(ce.Args))
						}
						m, ok := strLit(ce.Args[4])
						if !ok {
							m = "?" + exprText(fset, ce.Args[4])
						}
						calls = append(calls, call{rel, fd.Name.Name, 2, resolve(fset, ce.Args[2], imports), resolve(fset, ce.Args[3], imports), []string{m}})
					}
					return true
				})
			}
		}
	}
	sort.SliceStable(calls, func(i, j int) bool {
		a, b := calls[i], calls[j]
		if a.file != b.file {
			return a.file < b.file
		}
		if a.fn != b.fn {
			return a.fn < b.fn
		}
		if a.kind != b.kind {
			return a.kind < b.kind
		}
		return strings.Join(a.methods, ",") < strings.Join(b.methods, ",")
	})

	// module address definitions
	type adef struct{ pkg, name string }
	var adefs []adef
	for _, rel := range addrFiles {
		f, err := parser.ParseFile(fset, filepath.Join(*repo, rel), nil, 0)
		if err != nil {
			die("%s: %v", rel, err)
		}
		consts := map[string]string{}
		for _, decl := range f.Decls {
			gd, ok := decl.(*ast.GenDecl)
			if !ok || gd.Tok != token.CONST {
				continue
			}
			for _, sp := range gd.Specs {
				vs := sp.(*ast.ValueSpec)
				for i, nm := range vs.Names {
					if i < len(vs.Values) {
						if s, ok := strLit(vs.Values[i]); ok {
							consts[nm.Name] = s
						}
					}
				}
			}
		}
		found := ""
		ast.Inspect(f, func(nd ast.Node) bool {
			as, ok := nd.(*ast.AssignStmt)
			if !ok || len(as.Lhs) != 1 || len(as.Rhs) != 1 {
				return true
			}
			if id, ok := as.Lhs[0].(*ast.Ident); !ok || id.Name != "ModuleAddress" {
				return true
			}
			// common.BytesToAddress(authtypes.NewModuleAddress(<Const>).Bytes())
			txt := exprText(fset, as.Rhs[0])
			const pre, post = "common.BytesToAddress(authtypes.NewModuleAddress(", ").Bytes())"
			if !strings.HasPrefix(txt, pre) || !strings.HasSuffix(txt, post) {
				die("%s: ModuleAddress defined by an expression outside the subset: %s", rel, txt)
			}
			c := txt[len(pre) : len(txt)-len(post)]
			v, ok := consts[c]
			if !ok {
				die("%s: ModuleAddress: %s is not a string constant of the file", rel, c)
			}
			if found != "" {
				die("%s: ModuleAddress assigned twice", rel)
			}
			found = v
			return true
		})
		if found == "" {
			die("%s: no assignment to ModuleAddress", rel)
		}
		adefs = append(adefs, adef{filepath.Dir(rel), found})
	}

	var b bytes.Buffer
	b.WriteString("(* GENERATED by tools/gotocoq/modcalls from x/xibc/keeper, x/xibc/core/packet/keeper, x/aggregate/keeper and the two\n   types/keys.go -- do not edit.\n   mod_calls: (file, enclosing function, kind (0 CallPacket, 1 CallEVMWithData, 2 CallEVM), from, target, methods) *)\nFrom Teleport Require Import Base.Bytes.\n\n")
	b.WriteString("Definition mod_calls : list (bytes * bytes * nat * bytes * bytes * list bytes) :=\n  [")
	for i, c := range calls {
		if i > 0 {
			b.WriteString(";\n   ")
		}
		var ms []string
		for _, m := range c.methods {
			ms = append(ms, coqBytes(m))
		}
		fmt.Fprintf(&b, "(* %s %s kind %d from %q target %q methods %v *)\n   (%s, %s, %d%%nat, %s, %s, [%s])", c.file, c.fn, c.kind, c.from, c.target, c.methods,
			coqBytes(c.file), coqBytes(c.fn), c.kind, coqBytes(c.from), coqBytes(c.target), strings.Join(ms, "; "))
	}
	b.WriteString("].\n\n(* (package directory, name of the module account whose address is that package's ModuleAddress) *)\n")
	b.WriteString("Definition module_addresses : list (bytes * bytes) :=\n  [")
	for i, a := range adefs {
		if i > 0 {
			b.WriteString(";\n   ")
		}
		fmt.Fprintf(&b, "(%s, %s) (* %s: %q *)", coqBytes(a.pkg), coqBytes(a.name), a.pkg, a.name)
	}
	b.WriteString("].\n")
	path := filepath.Join(*out, "ModCallsGen.v")
	if old, err := os.ReadFile(path); err == nil && bytes.Equal(old, b.Bytes()) {
		return
	}
	if err := os.WriteFile(path, b.Bytes(), 0o644); err != nil {
		die("%v", err)
	}
}
