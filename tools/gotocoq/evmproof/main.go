// evmproof: regenerates, for property C08 (EVM storage proofs of the ETH and BSC light clients), the mechanical
// parts of the hand model Model/EvmProof.v -> Gen/EvmProofSchemaGen.v
//
// For each of the two client packages x/xibc/clients/light-clients/{eth,bsc}/types:
//  1. the fields of the structs Proof and StorageResult (any non-test file of the package): Go name, Go type, json tag
//     name -- the record [proof_rec] / [storage_result] of the model and the honest rendering relayers produce;
//  2. the fields of the struct ProofAccount, in declaration order = the order of the RLP list that the verification
//     compares with the value of the state trie -- [rlp_account] of the model;
//  3. from func verifyMerkleProof AND every function / method of the package it calls, transitively: how each
//     ProofAccount field is computed from the proof record (common.HexToHash(P.F) or common.HexToHash(P.F).Big()) --
//     [account_of_record] of the model -- and the number the length of P.StorageProof is compared with;
//  4. the constants paramsIndex and paramsLenght (any file of the package) -- [pad32_208] of the model.
//
// Item 3 is a small symbolic evaluation: the first parameter of verifyMerkleProof is the proof record; local variables
// (:=, =, var), field selections, common.HexToHash(x), x.Big(), x.Bytes(), indexing, &x, *x, parentheses and calls of
// package-level functions / methods (arguments substituted for parameters, the returned values flowing back into
// the caller's variables; of several return statements the ones returning zero values are error exits) are followed;
// every other expression is opaque.  Control structure (if / switch / for / blocks) is walked in source order.  Where the
// ProofAccount value is built (inline, in a helper, keyed or unkeyed literal, fields given as variables or as
// expressions) does not matter.
//
// The translator never fails: an item it cannot determine is emitted as an entry with conversion "unknown" (wiring), as
// the number 0 (storage proof count: the code compares with 1; constants: 208 and 32) or as an empty field list, with the
// reason in a comment and in [evmproof_notes]; only the obligation of Props/C08_schema.v that reads that item then
// computes to false.  go/parser + go/ast only; no type checking.
package main

import (
	"bytes"
	"flag"
	"fmt"
	"go/ast"
	"go/parser"
	"go/token"
	"os"
	"path/filepath"
	"reflect"
	"sort"
	"strconv"
	"strings"
)

var notes []string

func note(f string, a ...interface{}) { notes = append(notes, fmt.Sprintf(f, a...)) }

// text placed inside a Coq comment
func cmt(s string) string {
	s = strings.ReplaceAll(strings.ReplaceAll(s, "*)", "* )"), "(*", "( *")
	return strings.ReplaceAll(s, "\"", "'")
}

func coqBytes(s string) string {
	if len(s) == 0 {
		return "[]"
	}
	parts := make([]string, len(s))
	for i := 0; i < len(s); i++ {
		parts[i] = fmt.Sprintf("x%02x", s[i])
	}
	return "[" + strings.Join(parts, ";") + "]"
}

func typeString(e ast.Expr) string {
	switch e := e.(type) {
	case *ast.Ident:
		return e.Name
	case *ast.SelectorExpr:
		return typeString(e.X) + "." + e.Sel.Name
	case *ast.ArrayType:
		if e.Len == nil {
			return "[]" + typeString(e.Elt)
		}
		return "[...]" + typeString(e.Elt)
	case *ast.StarExpr:
		return "*" + typeString(e.X)
	case *ast.ParenExpr:
		return typeString(e.X)
	}
	return "?"
}

// ----------------------------------------------------------------------------------------------------
// package: all non-test files
// ----------------------------------------------------------------------------------------------------

type pkg struct {
	where string
	files []*ast.File
	funcs map[string]*ast.FuncDecl // package-level functions by name
	meths map[string]*ast.FuncDecl // methods by name (ambiguous names are dropped)
}

func loadPkg(fset *token.FileSet, repo, dir string) *pkg {
	p := &pkg{where: dir, funcs: map[string]*ast.FuncDecl{}, meths: map[string]*ast.FuncDecl{}}
	ents, err := os.ReadDir(filepath.Join(repo, dir))
	if err != nil {
		note("%s: %v", dir, err)
		return p
	}
	ambiguous := map[string]bool{}
	for _, e := range ents {
		n := e.Name()
		if e.IsDir() || !strings.HasSuffix(n, ".go") || strings.HasSuffix(n, "_test.go") || strings.HasSuffix(n, "_verif.go") ||
			strings.HasSuffix(n, ".pb.gw.go") {
			continue
		}
		f, err := parser.ParseFile(fset, filepath.Join(repo, dir, n), nil, 0)
		if err != nil {
			note("%s/%s: %v", dir, n, err)
			continue
		}
		p.files = append(p.files, f)
		for _, d := range f.Decls {
			fd, ok := d.(*ast.FuncDecl)
			if !ok || fd.Body == nil {
				continue
			}
			if fd.Recv == nil {
				p.funcs[fd.Name.Name] = fd
			} else if _, dup := p.meths[fd.Name.Name]; dup {
				ambiguous[fd.Name.Name] = true
			} else {
				p.meths[fd.Name.Name] = fd
			}
		}
	}
	for n := range ambiguous {
		delete(p.meths, n)
	}
	return p
}

type field struct{ name, typ, json string }

func (p *pkg) structFields(name string) ([]field, bool) {
	for _, f := range p.files {
		for _, d := range f.Decls {
			gd, ok := d.(*ast.GenDecl)
			if !ok || gd.Tok != token.TYPE {
				continue
			}
			for _, sp := range gd.Specs {
				ts := sp.(*ast.TypeSpec)
				st, ok := ts.Type.(*ast.StructType)
				if !ok || ts.Name.Name != name {
					continue
				}
				var out []field
				for _, fl := range st.Fields.List {
					tag := ""
					if fl.Tag != nil {
						if s, err := strconv.Unquote(fl.Tag.Value); err == nil {
							tag = strings.Split(reflect.StructTag(s).Get("json"), ",")[0]
						}
					}
					if len(fl.Names) == 0 {
						out = append(out, field{"(embedded)", typeString(fl.Type), tag})
						continue
					}
					for _, n := range fl.Names {
						out = append(out, field{n.Name, typeString(fl.Type), tag})
					}
				}
				return out, true
			}
		}
	}
	note("%s: struct %s not found", p.where, name)
	return nil, false
}

// constInt evaluates a package-level integer constant: literals, other constants, + - * / and parentheses, conversions
// to integer types
func (p *pkg) constInt(name string, depth int) (int64, bool) {
	if depth > 8 {
		return 0, false
	}
	for _, f := range p.files {
		for _, d := range f.Decls {
			gd, ok := d.(*ast.GenDecl)
			if !ok || (gd.Tok != token.CONST && gd.Tok != token.VAR) {
				continue
			}
			for _, sp := range gd.Specs {
				vs := sp.(*ast.ValueSpec)
				for i, n := range vs.Names {
					if n.Name == name && i < len(vs.Values) {
						return p.evalInt(vs.Values[i], depth)
					}
				}
			}
		}
	}
	return 0, false
}

func (p *pkg) evalInt(e ast.Expr, depth int) (int64, bool) {
	switch e := e.(type) {
	case *ast.BasicLit:
		if e.Kind == token.INT {
			v, err := strconv.ParseInt(e.Value, 0, 64)
			return v, err == nil
		}
	case *ast.Ident:
		return p.constInt(e.Name, depth+1)
	case *ast.ParenExpr:
		return p.evalInt(e.X, depth)
	case *ast.CallExpr: // uint64(x), int(x), ...
		if id, ok := e.Fun.(*ast.Ident); ok && len(e.Args) == 1 && (strings.HasPrefix(id.Name, "int") || strings.HasPrefix(id.Name, "uint") || id.Name == "byte") {
			return p.evalInt(e.Args[0], depth)
		}
	case *ast.BinaryExpr:
		a, ok1 := p.evalInt(e.X, depth)
		b, ok2 := p.evalInt(e.Y, depth)
		if ok1 && ok2 {
			switch e.Op {
			case token.ADD:
				return a + b, true
			case token.SUB:
				return a - b, true
			case token.MUL:
				return a * b, true
			case token.QUO:
				if b != 0 {
					return a / b, true
				}
			case token.SHL:
				if b >= 0 && b < 62 {
					return a << uint(b), true
				}
			}
		}
	}
	return 0, false
}

// ----------------------------------------------------------------------------------------------------
// symbolic values
// ----------------------------------------------------------------------------------------------------

type sym struct {
	kind string // proof | field | hash | big | bytes | index | len | zero | opaque | tuple
	name string // field: field name; index: the literal index
	arg  *sym
	elts []*sym // tuple
}

var opaque = &sym{kind: "opaque"}
var zero = &sym{kind: "zero"}

func (s *sym) String() string {
	switch s.kind {
	case "proof":
		return "P"
	case "field":
		return s.arg.String() + "." + s.name
	case "hash":
		return "HexToHash(" + s.arg.String() + ")"
	case "big":
		return s.arg.String() + ".Big()"
	case "bytes":
		return s.arg.String() + ".Bytes()"
	case "index":
		return s.arg.String() + "[" + s.name + "]"
	case "len":
		return "len(" + s.arg.String() + ")"
	case "zero":
		return "zero"
	case "tuple":
		return "tuple"
	}
	return "?"
}

func (s *sym) known() bool { return s != nil && s.kind != "opaque" && s.kind != "zero" }

type wire struct{ acctField, conv, proofField string }

type facts struct {
	literals [][]wire // one per ProofAccount literal met
	counts   []string // the literal the length of P.StorageProof is compared with by !=, or "?<text>"
}

type evaluator struct {
	p     *pkg
	acct  []field
	facts *facts
	stack []string
}

type env map[string]*sym

func isZeroExpr(e ast.Expr) bool {
	switch e := e.(type) {
	case *ast.Ident:
		return e.Name == "nil" || e.Name == "false"
	case *ast.CompositeLit:
		return len(e.Elts) == 0
	case *ast.BasicLit:
		return e.Value == "0" || e.Value == `""`
	}
	return false
}

func (ev *evaluator) expr(e ast.Expr, en env) *sym {
	switch e := e.(type) {
	case nil:
		return opaque
	case *ast.Ident:
		if v, ok := en[e.Name]; ok {
			return v
		}
		if e.Name == "nil" {
			return zero
		}
		return opaque
	case *ast.ParenExpr:
		return ev.expr(e.X, en)
	case *ast.StarExpr:
		return ev.expr(e.X, en)
	case *ast.UnaryExpr:
		v := ev.expr(e.X, en)
		if e.Op == token.AND {
			return v
		}
		return opaque
	case *ast.SelectorExpr:
		v := ev.expr(e.X, en)
		if v.known() {
			return &sym{kind: "field", name: e.Sel.Name, arg: v}
		}
		return opaque
	case *ast.IndexExpr:
		v := ev.expr(e.X, en)
		ev.expr(e.Index, en)
		if v.known() {
			if bl, ok := e.Index.(*ast.BasicLit); ok {
				return &sym{kind: "index", name: bl.Value, arg: v}
			}
			return &sym{kind: "index", name: "?", arg: v}
		}
		return opaque
	case *ast.SliceExpr:
		ev.expr(e.X, en)
		return opaque
	case *ast.CompositeLit:
		if typeString(e.Type) == "ProofAccount" {
			ev.literal(e, en)
			return opaque
		}
		for _, el := range e.Elts {
			if kv, ok := el.(*ast.KeyValueExpr); ok {
				ev.expr(kv.Value, en)
			} else {
				ev.expr(el, en)
			}
		}
		if len(e.Elts) == 0 {
			return zero
		}
		return opaque
	case *ast.BinaryExpr:
		a, b := ev.expr(e.X, en), ev.expr(e.Y, en)
		ev.compare(e, a, b)
		return opaque
	case *ast.CallExpr:
		return ev.call(e, en)
	case *ast.KeyValueExpr:
		return ev.expr(e.Value, en)
	case *ast.TypeAssertExpr:
		return ev.expr(e.X, en)
	case *ast.FuncLit:
		return opaque
	}
	return opaque
}

func isStorageProofLen(s *sym) bool {
	return s.kind == "len" && s.arg.kind == "field" && s.arg.name == "StorageProof" && s.arg.arg.kind == "proof"
}

func (ev *evaluator) compare(e *ast.BinaryExpr, a, b *sym) {
	var other ast.Expr
	switch {
	case isStorageProofLen(a):
		other = e.Y
	case isStorageProofLen(b):
		other = e.X
	default:
		return
	}
	if e.Op == token.NEQ {
		if v, ok := ev.p.evalInt(other, 0); ok {
			ev.facts.counts = append(ev.facts.counts, strconv.FormatInt(v, 10))
			return
		}
	}
	ev.facts.counts = append(ev.facts.counts, "?len(P.StorageProof) "+e.Op.String()+" ...")
}

func (ev *evaluator) literal(e *ast.CompositeLit, en env) {
	byField := map[string]*sym{}
	for i, el := range e.Elts {
		if kv, ok := el.(*ast.KeyValueExpr); ok {
			if k, ok := kv.Key.(*ast.Ident); ok {
				byField[k.Name] = ev.expr(kv.Value, en)
			}
		} else if i < len(ev.acct) {
			byField[ev.acct[i].name] = ev.expr(el, en)
		}
	}
	var ws []wire
	for _, af := range ev.acct {
		v, ok := byField[af.name]
		switch {
		case !ok:
			ws = append(ws, wire{af.name, "unknown", "not set in the ProofAccount literal"})
		case v.kind == "big" && v.arg.kind == "hash" && v.arg.arg.kind == "field" && v.arg.arg.arg.kind == "proof":
			ws = append(ws, wire{af.name, "big", v.arg.arg.name})
		case v.kind == "hash" && v.arg.kind == "field" && v.arg.arg.kind == "proof":
			ws = append(ws, wire{af.name, "hash", v.arg.name})
		default:
			ws = append(ws, wire{af.name, "unknown", v.String()})
		}
	}
	ev.facts.literals = append(ev.facts.literals, ws)
}

func (ev *evaluator) call(e *ast.CallExpr, en env) *sym {
	args := make([]*sym, len(e.Args))
	for i, a := range e.Args {
		args[i] = ev.expr(a, en)
	}
	switch fn := e.Fun.(type) {
	case *ast.Ident:
		switch fn.Name {
		case "len":
			if len(args) == 1 && args[0].known() {
				return &sym{kind: "len", arg: args[0]}
			}
			return opaque
		case "new", "make", "append", "copy", "panic":
			return opaque
		}
		if fd, ok := ev.p.funcs[fn.Name]; ok {
			return ev.inline(fd, nil, args)
		}
		return opaque
	case *ast.SelectorExpr:
		full := typeString(fn)
		if full == "common.HexToHash" && len(args) == 1 {
			if args[0].known() {
				return &sym{kind: "hash", arg: args[0]}
			}
			return opaque
		}
		recv := ev.expr(fn.X, en)
		if len(args) == 0 && recv.known() {
			switch fn.Sel.Name {
			case "Big":
				return &sym{kind: "big", arg: recv}
			case "Bytes":
				return &sym{kind: "bytes", arg: recv}
			}
		}
		// a method of this package (the receiver is an identifier that is not an imported package: heuristically, a
		// method name the package declares exactly once)
		if fd, ok := ev.p.meths[fn.Sel.Name]; ok {
			if id, isId := fn.X.(*ast.Ident); !isId || !ev.isImport(id.Name) {
				return ev.inline(fd, recv, args)
			}
		}
		return opaque
	}
	return opaque
}

func (ev *evaluator) isImport(name string) bool {
	for _, f := range ev.p.files {
		for _, im := range f.Imports {
			path, _ := strconv.Unquote(im.Path.Value)
			n := filepath.Base(path)
			if im.Name != nil {
				n = im.Name.Name
			}
			if n == name {
				return true
			}
		}
	}
	return false
}

// inline evaluates a function of the package on symbolic arguments and returns what it returns
func (ev *evaluator) inline(fd *ast.FuncDecl, recv *sym, args []*sym) *sym {
	for _, s := range ev.stack {
		if s == fd.Name.Name {
			return opaque // recursion
		}
	}
	if len(ev.stack) > 12 {
		return opaque
	}
	ev.stack = append(ev.stack, fd.Name.Name)
	defer func() { ev.stack = ev.stack[:len(ev.stack)-1] }()
	en := env{}
	if fd.Recv != nil && len(fd.Recv.List) == 1 && len(fd.Recv.List[0].Names) == 1 && recv != nil {
		en[fd.Recv.List[0].Names[0].Name] = recv
	}
	i := 0
	for _, pl := range fd.Type.Params.List {
		for _, n := range pl.Names {
			if i < len(args) {
				en[n.Name] = args[i]
			}
			i++
		}
		if len(pl.Names) == 0 {
			i++
		}
	}
	var named []string
	if fd.Type.Results != nil {
		for _, rl := range fd.Type.Results.List {
			for _, n := range rl.Names {
				named = append(named, n.Name)
			}
		}
	}
	var rets [][]*sym
	ev.block(fd.Body.List, en, &rets, named)
	return mergeReturns(rets)
}

// mergeReturns: per result position, the unique known value among the return statements (zero values = error exits)
func mergeReturns(rets [][]*sym) *sym {
	n := 0
	for _, r := range rets {
		if len(r) > n {
			n = len(r)
		}
	}
	if n == 0 {
		return opaque
	}
	out := make([]*sym, n)
	for i := range out {
		out[i] = opaque
		for _, r := range rets {
			if i < len(r) && r[i].known() {
				if out[i].known() && out[i].String() != r[i].String() {
					out[i] = &sym{kind: "opaque"}
					break
				}
				out[i] = r[i]
			}
		}
	}
	if n == 1 {
		return out[0]
	}
	return &sym{kind: "tuple", elts: out}
}

func (ev *evaluator) assign(lhs []ast.Expr, rhs []ast.Expr, en env) {
	if len(rhs) == 1 && len(lhs) > 1 {
		v := ev.expr(rhs[0], en)
		for i, l := range lhs {
			if id, ok := l.(*ast.Ident); ok && id.Name != "_" {
				if v.kind == "tuple" && i < len(v.elts) {
					en[id.Name] = v.elts[i]
				} else {
					en[id.Name] = opaque
				}
			}
		}
		return
	}
	vals := make([]*sym, len(rhs))
	for i, r := range rhs {
		vals[i] = ev.expr(r, en)
	}
	for i, l := range lhs {
		if id, ok := l.(*ast.Ident); ok && id.Name != "_" && i < len(vals) {
			en[id.Name] = vals[i]
		} else {
			ev.expr(l, en)
		}
	}
}

func (ev *evaluator) block(stmts []ast.Stmt, en env, rets *[][]*sym, named []string) {
	for _, s := range stmts {
		ev.stmt(s, en, rets, named)
	}
}

func (ev *evaluator) stmt(s ast.Stmt, en env, rets *[][]*sym, named []string) {
	switch s := s.(type) {
	case nil:
	case *ast.AssignStmt:
		ev.assign(s.Lhs, s.Rhs, en)
	case *ast.DeclStmt:
		if gd, ok := s.Decl.(*ast.GenDecl); ok {
			for _, sp := range gd.Specs {
				if vs, ok := sp.(*ast.ValueSpec); ok {
					if len(vs.Values) > 0 {
						lhs := make([]ast.Expr, len(vs.Names))
						for i, n := range vs.Names {
							lhs[i] = n
						}
						ev.assign(lhs, vs.Values, en)
					} else {
						for _, n := range vs.Names {
							en[n.Name] = opaque
						}
					}
				}
			}
		}
	case *ast.ExprStmt:
		ev.expr(s.X, en)
	case *ast.ReturnStmt:
		var r []*sym
		if len(s.Results) == 0 {
			for _, n := range named {
				if v, ok := en[n]; ok {
					r = append(r, v)
				} else {
					r = append(r, opaque)
				}
			}
		} else if len(s.Results) == 1 {
			v := ev.expr(s.Results[0], en)
			if v.kind == "tuple" {
				r = v.elts
			} else {
				if isZeroExpr(s.Results[0]) {
					v = zero
				}
				r = []*sym{v}
			}
		} else {
			for _, x := range s.Results {
				v := ev.expr(x, en)
				if isZeroExpr(x) {
					v = zero
				}
				r = append(r, v)
			}
		}
		*rets = append(*rets, r)
	case *ast.IfStmt:
		ev.stmt(s.Init, en, rets, named)
		ev.expr(s.Cond, en)
		ev.block(s.Body.List, en, rets, named)
		ev.stmt(s.Else, en, rets, named)
	case *ast.BlockStmt:
		ev.block(s.List, en, rets, named)
	case *ast.ForStmt:
		ev.stmt(s.Init, en, rets, named)
		ev.expr(s.Cond, en)
		ev.block(s.Body.List, en, rets, named)
		ev.stmt(s.Post, en, rets, named)
	case *ast.RangeStmt:
		ev.expr(s.X, en)
		if id, ok := s.Key.(*ast.Ident); ok {
			en[id.Name] = opaque
		}
		if id, ok := s.Value.(*ast.Ident); ok {
			en[id.Name] = opaque
		}
		ev.block(s.Body.List, en, rets, named)
	case *ast.SwitchStmt:
		ev.stmt(s.Init, en, rets, named)
		ev.expr(s.Tag, en)
		for _, c := range s.Body.List {
			if cc, ok := c.(*ast.CaseClause); ok {
				for _, x := range cc.List {
					ev.expr(x, en)
				}
				ev.block(cc.Body, en, rets, named)
			}
		}
	case *ast.TypeSwitchStmt:
		for _, c := range s.Body.List {
			if cc, ok := c.(*ast.CaseClause); ok {
				ev.block(cc.Body, en, rets, named)
			}
		}
	case *ast.DeferStmt:
		ev.expr(s.Call, en)
	case *ast.GoStmt:
		ev.expr(s.Call, en)
	case *ast.LabeledStmt:
		ev.stmt(s.Stmt, en, rets, named)
	case *ast.IncDecStmt:
		ev.expr(s.X, en)
	}
}

// wiring: the symbolic evaluation of verifyMerkleProof
func (p *pkg) wiring(acct []field) ([]wire, int64, string) {
	unknownAll := func(why string) []wire {
		var ws []wire
		for _, af := range acct {
			ws = append(ws, wire{af.name, "unknown", why})
		}
		return ws
	}
	fd, ok := p.funcs["verifyMerkleProof"]
	if !ok || fd.Type.Params == nil || len(fd.Type.Params.List) == 0 || len(fd.Type.Params.List[0].Names) == 0 {
		note("%s: func verifyMerkleProof not found", p.where)
		return unknownAll("func verifyMerkleProof not found"), 0, "func verifyMerkleProof not found"
	}
	ev := &evaluator{p: p, acct: acct, facts: &facts{}}
	args := []*sym{{kind: "proof"}}
	for i := 1; i < 16; i++ {
		args = append(args, opaque)
	}
	ev.inline(fd, nil, args)

	// the account literal(s)
	var ws []wire
	switch {
	case len(ev.facts.literals) == 0:
		note("%s: no ProofAccount literal reachable from verifyMerkleProof", p.where)
		ws = unknownAll("no ProofAccount literal reachable from verifyMerkleProof")
	default:
		ws = ev.facts.literals[0]
		for _, other := range ev.facts.literals[1:] {
			if fmt.Sprint(other) != fmt.Sprint(ws) {
				note("%s: ProofAccount literals with different wirings", p.where)
				ws = unknownAll("ProofAccount literals with different wirings")
				break
			}
		}
	}
	for _, w := range ws {
		if w.conv == "unknown" {
			note("%s: ProofAccount.%s: %s", p.where, w.acctField, w.proofField)
		}
	}
	// the storage proof count
	count, why := int64(0), ""
	set := map[string]bool{}
	for _, c := range ev.facts.counts {
		set[c] = true
	}
	keys := []string{}
	for c := range set {
		keys = append(keys, c)
	}
	sort.Strings(keys)
	switch {
	case len(keys) == 0:
		why = "no comparison of len(P.StorageProof) reachable from verifyMerkleProof"
	case len(keys) > 1 || strings.HasPrefix(keys[0], "?"):
		why = "len(P.StorageProof) is compared otherwise than by != with one integer: " + strings.Join(keys, ", ")
	default:
		count, _ = strconv.ParseInt(keys[0], 10, 64)
	}
	if why != "" {
		note("%s: %s", p.where, why)
	}
	return ws, count, why
}

func main() {
	repo := flag.String("repo", "/repo", "source tree")
	out := flag.String("out", "", "output directory (coq/theories/Gen)")
	flag.Parse()
	if *out == "" {
		fmt.Fprintln(os.Stderr, "evmproof: -out required")
		os.Exit(1)
	}
	fset := token.NewFileSet()
	var b bytes.Buffer
	b.WriteString("(* GENERATED by tools/gotocoq/evmproof from the packages x/xibc/clients/light-clients/{eth,bsc}/types -- do not edit.\n   An item the translator could not determine is an entry with conversion \"unknown\", the number 0 or an empty list. *)\nFrom Teleport Require Import Base.Bytes.\nLocal Open Scope N_scope.\n\n")
	for _, c := range []string{"eth", "bsc"} {
		dir := filepath.Join("x/xibc/clients/light-clients", c, "types")
		var pf, sf, acct []field
		var ws []wire
		var count int64
		var why string
		consts := map[string]int64{}
		func() {
			defer func() { // never fail: whatever happens, every definition of this client is emitted below
				if r := recover(); r != nil {
					note("%s: internal error: %v", c, r)
				}
			}()
			p := loadPkg(fset, *repo, dir)
			pf, _ = p.structFields("Proof")
			sf, _ = p.structFields("StorageResult")
			acct, _ = p.structFields("ProofAccount")
			for _, cn := range []string{"paramsIndex", "paramsLenght"} {
				if v, ok := p.constInt(cn, 0); ok && v >= 0 {
					consts[cn] = v
				}
			}
			ws, count, why = p.wiring(acct)
		}()
		emitFields := func(name string, fs []field) {
			fmt.Fprintf(&b, "(* Go name, Go type, json tag *)\nDefinition %s_%s_fields : list (bytes * bytes * bytes) :=\n  [", c, name)
			for i, f := range fs {
				if i > 0 {
					b.WriteString(";\n   ")
				}
				fmt.Fprintf(&b, "(%s, %s, %s) (* %s *)", coqBytes(f.name), coqBytes(f.typ), coqBytes(f.json), cmt(f.name+" "+f.typ+" json:"+f.json))
			}
			b.WriteString("].\n\n")
		}
		emitFields("Proof", pf)
		emitFields("StorageResult", sf)
		emitFields("ProofAccount", acct)
		fmt.Fprintf(&b, "(* verifyMerkleProof and what it calls: ProofAccount field (RLP order), conversion (hash = common.HexToHash(s),\n   big = common.HexToHash(s).Big(), unknown = not determined: the third component says why), Proof field *)\nDefinition %s_account_wiring : list (bytes * bytes * bytes) :=\n  [", c)
		for i, w := range ws {
			if i > 0 {
				b.WriteString(";\n   ")
			}
			fmt.Fprintf(&b, "(%s, %s, %s) (* %s *)", coqBytes(w.acctField), coqBytes(w.conv), coqBytes(w.proofField), cmt(w.acctField+" := "+w.conv+"("+w.proofField+")"))
		}
		b.WriteString("].\n\n")
		if why != "" {
			fmt.Fprintf(&b, "(* not determined: %s *)\n", cmt(why))
		}
		fmt.Fprintf(&b, "Definition %s_storage_proof_count : N := %d.\n", c, count)
		for _, cn := range []string{"paramsIndex", "paramsLenght"} {
			v, ok := consts[cn]
			if !ok {
				note("%s: constant %s not determined", dir, cn)
				b.WriteString("(* not determined *)\n")
			}
			fmt.Fprintf(&b, "Definition %s_%s : N := %d.\n", c, cn, v)
		}
		b.WriteString("\n")
	}
	b.WriteString("(* what the translator could not determine (information only; the obligations read the items above) *)\nDefinition evmproof_notes : list bytes :=\n  [")
	for i, e := range notes {
		if i > 0 {
			b.WriteString(";\n   ")
		}
		fmt.Fprintf(&b, "%s (* %s *)", coqBytes(e), cmt(e))
	}
	b.WriteString("].\n")
	path := filepath.Join(*out, "EvmProofSchemaGen.v")
	if old, err := os.ReadFile(path); err == nil && bytes.Equal(old, b.Bytes()) {
		return
	}
	if err := os.WriteFile(path, b.Bytes(), 0o644); err != nil {
		fmt.Fprintf(os.Stderr, "evmproof: %v\n", err)
		os.Exit(1)
	}
}
