// evmproof: regenerates, for property C08 (EVM storage proofs of the ETH and BSC light clients), the mechanical
// parts of the hand model Model/EvmProof.v -> Gen/EvmProofSchemaGen.v
//
// For each of the two client packages x/xibc/clients/light-clients/{eth,bsc}/types:
//  1. the fields of the structs Proof and StorageResult (<c>.pb.go): Go name, Go type, json tag name -- the record
//     [proof_rec] / [storage_result] of the model and the honest rendering relayers have to produce;
//  2. the fields of the struct ProofAccount (<c>.go), in declaration order = the order of the RLP list that
//     verifyMerkleProof compares with the value of the state trie -- [rlp_account] of the model;
//  3. from func verifyMerkleProof (client_state.go): how each ProofAccount field is computed from the proof record
//     (common.HexToHash(P.F) or common.HexToHash(P.F).Big()) -- [account_of_record] of the model -- and the number
//     the length of P.StorageProof is compared with;
//  4. the constants paramsIndex and paramsLenght (keys.go) -- [pad32_208] of the model.
//
// Subset handled in verifyMerkleProof: `v := common.HexToHash(<param>.<Field>)`, `v := common.HexToHash(<param>.<Field>).Big()`,
// one composite literal `&ProofAccount{Key: ident, ...}` (keyed, identifiers bound as above) or unkeyed in field
// order, one comparison `len(<param>.StorageProof) != <int literal>`.  Anything else goes into
// [evmproof_translator_errors] of the generated file: the obligation [C08_schema_matches_go_source] then computes to
// false -- a failed tie of C08 only, without stopping the proof stages of other properties.
// go/parser + go/ast only; no type checking.
package main

import (
	"bytes"
	"flag"
	"fmt"
	"go/ast"
	"go/parser"
	"go/token"
	"os"
	"path/filepath"
	"reflect"
	"strconv"
	"strings"
)

var errs []string

func fail(f string, a ...interface{}) { errs = append(errs, fmt.Sprintf(f, a...)) }

// text placed inside a Coq comment
func cmt(s string) string {
	s = strings.ReplaceAll(strings.ReplaceAll(s, "*)", "* )"), "(*", "( *")
	return strings.ReplaceAll(s, "\"", "'")
}

func coqBytes(s string) string {
	if len(s) == 0 {
		return "[]"
	}
	parts := make([]string, len(s))
	for i := 0; i < len(s); i++ {
		parts[i] = fmt.Sprintf("x%02x", s[i])
	}
	return "[" + strings.Join(parts, ";") + "]"
}

func typeString(e ast.Expr) string {
	switch e := e.(type) {
	case *ast.Ident:
		return e.Name
	case *ast.SelectorExpr:
		return typeString(e.X) + "." + e.Sel.Name
	case *ast.ArrayType:
		if e.Len == nil {
			return "[]" + typeString(e.Elt)
		}
	case *ast.StarExpr:
		return "*" + typeString(e.X)
	}
	return "?"
}

type field struct{ name, typ, json string }

func structFields(f *ast.File, name, where string) []field {
	var out []field
	found := false
	for _, d := range f.Decls {
		gd, ok := d.(*ast.GenDecl)
		if !ok || gd.Tok != token.TYPE {
			continue
		}
		for _, sp := range gd.Specs {
			ts := sp.(*ast.TypeSpec)
			st, ok := ts.Type.(*ast.StructType)
			if !ok || ts.Name.Name != name {
				continue
			}
			found = true
			for _, fl := range st.Fields.List {
				tag := ""
				if fl.Tag != nil {
					if s, err := strconv.Unquote(fl.Tag.Value); err == nil {
						tag = strings.Split(reflect.StructTag(s).Get("json"), ",")[0]
					}
				}
				if len(fl.Names) == 0 {
					fail("%s: struct %s has an embedded field", where, name)
					continue
				}
				for _, n := range fl.Names {
					out = append(out, field{n.Name, typeString(fl.Type), tag})
				}
			}
		}
	}
	if !found {
		fail("%s: struct %s not found", where, name)
	}
	return out
}

func intConst(f *ast.File, name, where string) int64 {
	for _, d := range f.Decls {
		gd, ok := d.(*ast.GenDecl)
		if !ok || gd.Tok != token.CONST {
			continue
		}
		for _, sp := range gd.Specs {
			vs := sp.(*ast.ValueSpec)
			for i, n := range vs.Names {
				if n.Name != name || i >= len(vs.Values) {
					continue
				}
				if bl, ok := vs.Values[i].(*ast.BasicLit); ok && bl.Kind == token.INT {
					if v, err := strconv.ParseInt(bl.Value, 0, 64); err == nil {
						return v
					}
				}
				fail("%s: constant %s is not an integer literal", where, name)
				return -1
			}
		}
	}
	fail("%s: constant %s not found", where, name)
	return -1
}

type wire struct{ acctField, conv, proofField string }

// sel matches <param>.<Field>
func sel(e ast.Expr, param string) (string, bool) {
	s, ok := e.(*ast.SelectorExpr)
	if !ok {
		return "", false
	}
	id, ok := s.X.(*ast.Ident)
	if !ok || id.Name != param {
		return "", false
	}
	return s.Sel.Name, true
}

// hexToHash matches common.HexToHash(<param>.<Field>)
func hexToHash(e ast.Expr, param string) (string, bool) {
	c, ok := e.(*ast.CallExpr)
	if !ok || len(c.Args) != 1 {
		return "", false
	}
	if typeString(c.Fun) != "common.HexToHash" {
		return "", false
	}
	return sel(c.Args[0], param)
}

func wiring(f *ast.File, acct []field, where string) ([]wire, int64) {
	var fd *ast.FuncDecl
	for _, d := range f.Decls {
		if x, ok := d.(*ast.FuncDecl); ok && x.Recv == nil && x.Name.Name == "verifyMerkleProof" {
			fd = x
		}
	}
	if fd == nil || fd.Body == nil || len(fd.Type.Params.List) == 0 || len(fd.Type.Params.List[0].Names) == 0 {
		fail("%s: func verifyMerkleProof not found", where)
		return nil, -1
	}
	param := fd.Type.Params.List[0].Names[0].Name
	bound := map[string][2]string{} // local -> (conv, proof field)
	var lit *ast.CompositeLit
	count := int64(-1)
	ast.Inspect(fd.Body, func(n ast.Node) bool {
		switch x := n.(type) {
		case *ast.AssignStmt:
			if len(x.Lhs) == 1 && len(x.Rhs) == 1 {
				id, ok := x.Lhs[0].(*ast.Ident)
				if !ok {
					return true
				}
				if fld, ok := hexToHash(x.Rhs[0], param); ok {
					if _, dup := bound[id.Name]; dup {
						fail("%s: %s assigned twice", where, id.Name)
					}
					bound[id.Name] = [2]string{"hash", fld}
				} else if c, ok := x.Rhs[0].(*ast.CallExpr); ok && len(c.Args) == 0 {
					if s, ok := c.Fun.(*ast.SelectorExpr); ok && s.Sel.Name == "Big" {
						if fld, ok := hexToHash(s.X, param); ok {
							if _, dup := bound[id.Name]; dup {
								fail("%s: %s assigned twice", where, id.Name)
							}
							bound[id.Name] = [2]string{"big", fld}
						}
					}
				}
			}
		case *ast.CompositeLit:
			if typeString(x.Type) == "ProofAccount" {
				if lit != nil {
					fail("%s: more than one ProofAccount literal", where)
				}
				lit = x
			}
		case *ast.BinaryExpr:
			if c, ok := x.X.(*ast.CallExpr); ok && typeString(c.Fun) == "len" && len(c.Args) == 1 {
				if fld, ok := sel(c.Args[0], param); ok && fld == "StorageProof" {
					bl, ok := x.Y.(*ast.BasicLit)
					if !ok || bl.Kind != token.INT || x.Op != token.NEQ {
						fail("%s: len(%s.StorageProof) is not compared by != with an integer literal", where, param)
					} else if count >= 0 {
						fail("%s: len(%s.StorageProof) compared more than once", where, param)
					} else {
						count, _ = strconv.ParseInt(bl.Value, 0, 64)
					}
				}
			}
		}
		return true
	})
	if count < 0 {
		fail("%s: no comparison of len(%s.StorageProof)", where, param)
	}
	if lit == nil {
		fail("%s: no ProofAccount literal in verifyMerkleProof", where)
		return nil, count
	}
	byField := map[string]ast.Expr{}
	for i, el := range lit.Elts {
		if kv, ok := el.(*ast.KeyValueExpr); ok {
			k, ok := kv.Key.(*ast.Ident)
			if !ok {
				fail("%s: ProofAccount literal key is not an identifier", where)
				continue
			}
			byField[k.Name] = kv.Value
		} else if i < len(acct) {
			byField[acct[i].name] = el
		}
	}
	var out []wire
	for _, af := range acct {
		v, ok := byField[af.name]
		if !ok {
			fail("%s: ProofAccount literal does not set %s", where, af.name)
			continue
		}
		id, ok := v.(*ast.Ident)
		if !ok {
			fail("%s: ProofAccount.%s is not set from a local variable", where, af.name)
			continue
		}
		b, ok := bound[id.Name]
		if !ok {
			fail("%s: ProofAccount.%s = %s, which is not bound by common.HexToHash(%s.F)[.Big()]", where, af.name, id.Name, param)
			continue
		}
		out = append(out, wire{af.name, b[0], b[1]})
	}
	return out, count
}

func main() {
	repo := flag.String("repo", "/repo", "source tree")
	out := flag.String("out", "", "output directory (coq/theories/Gen)")
	flag.Parse()
	if *out == "" {
		fmt.Fprintln(os.Stderr, "evmproof: -out required")
		os.Exit(1)
	}
	fset := token.NewFileSet()
	var b bytes.Buffer
	b.WriteString("(* GENERATED by tools/gotocoq/evmproof from x/xibc/clients/light-clients/{eth,bsc}/types/{<c>.pb.go,<c>.go,keys.go,\n   client_state.go} -- do not edit. *)\nFrom Teleport Require Import Base.Bytes.\nLocal Open Scope N_scope.\n\n")
	for _, c := range []string{"eth", "bsc"} {
		dir := filepath.Join("x/xibc/clients/light-clients", c, "types")
		parse := func(name string) *ast.File {
			f, err := parser.ParseFile(fset, filepath.Join(*repo, dir, name), nil, 0)
			if err != nil {
				fail("%s/%s: %v", dir, name, err)
				return &ast.File{Name: ast.NewIdent("types")}
			}
			return f
		}
		pb, plain, keys, cs := parse(c+".pb.go"), parse(c+".go"), parse("keys.go"), parse("client_state.go")
		emitFields := func(name string, fs []field) {
			fmt.Fprintf(&b, "(* Go name, Go type, json tag *)\nDefinition %s_%s_fields : list (bytes * bytes * bytes) :=\n  [", c, name)
			for i, f := range fs {
				if i > 0 {
					b.WriteString(";\n   ")
				}
				fmt.Fprintf(&b, "(%s, %s, %s) (* %s *)", coqBytes(f.name), coqBytes(f.typ), coqBytes(f.json), cmt(f.name+" "+f.typ+" json:"+f.json))
			}
			b.WriteString("].\n\n")
		}
		emitFields("Proof", structFields(pb, "Proof", dir+"/"+c+".pb.go"))
		emitFields("StorageResult", structFields(pb, "StorageResult", dir+"/"+c+".pb.go"))
		acct := structFields(plain, "ProofAccount", dir+"/"+c+".go")
		emitFields("ProofAccount", acct)
		ws, count := wiring(cs, acct, dir+"/client_state.go")
		fmt.Fprintf(&b, "(* verifyMerkleProof: ProofAccount field (RLP order), conversion (hash = common.HexToHash(s), big = common.HexToHash(s).Big()),\n   Proof field *)\nDefinition %s_account_wiring : list (bytes * bytes * bytes) :=\n  [", c)
		for i, w := range ws {
			if i > 0 {
				b.WriteString(";\n   ")
			}
			fmt.Fprintf(&b, "(%s, %s, %s) (* %s *)", coqBytes(w.acctField), coqBytes(w.conv), coqBytes(w.proofField), cmt(w.acctField+" := "+w.conv+"("+w.proofField+")"))
		}
		b.WriteString("].\n\n")
		if count < 0 {
			count = 0
			// already reported
		}
		fmt.Fprintf(&b, "Definition %s_storage_proof_count : N := %d.\n", c, count)
		pi, pl := intConst(keys, "paramsIndex", dir+"/keys.go"), intConst(keys, "paramsLenght", dir+"/keys.go")
		if pi < 0 {
			pi = 0
		}
		if pl < 0 {
			pl = 0
		}
		fmt.Fprintf(&b, "Definition %s_paramsIndex : N := %d.\nDefinition %s_paramsLenght : N := %d.\n\n", c, pi, c, pl)
	}
	b.WriteString("Definition evmproof_translator_errors : list bytes :=\n  [")
	for i, e := range errs {
		if i > 0 {
			b.WriteString(";\n   ")
		}
		fmt.Fprintf(&b, "%s (* %s *)", coqBytes(e), cmt(e))
	}
	b.WriteString("].\n")
	path := filepath.Join(*out, "EvmProofSchemaGen.v")
	if old, err := os.ReadFile(path); err == nil && bytes.Equal(old, b.Bytes()) {
		return
	}
	if err := os.WriteFile(path, b.Bytes(), 0o644); err != nil {
		fmt.Fprintf(os.Stderr, "evmproof: %v\n", err)
		os.Exit(1)
	}
}
