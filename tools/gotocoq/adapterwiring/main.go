// adapterwiring: regenerates what property C17's model takes from the wiring of the staking / governance adapters
// -> Gen/AdapterWiringGen.v
//
// Sources (relative to -repo):
//
//	syscontracts/contracts.go           : constants StakingContractAddress, GovContractAddress (hex text -> 20 bytes)
//	syscontracts/{staking,gov}/generated.go : the ABI JSON of `XMetaData = &bind.MetaData{ABI: "..."}`: every entry of type
//	                                      "event": name, anonymous, inputs (type, indexed, tuple components) and its
//	                                      id = keccak256 of the canonical signature (computed here)
//	adapter/{staking,gov}/*.go          : (every non-test, non-hook file of the package) the syscontracts address constant given
//	                                      to common.HexToAddress; the association event name -> handler method, in any of
//	                                      the forms `switch name { case "E": … = x.M }`, map literal `{"E": x.M}`, slice of
//	                                      structs `{event: "E", handle: x.M}` / `{"E", x.M}` (how the table is registered —
//	                                      loop, helper method, lookup map — is behaviour the differential run checks);
//	                                      every method M that calls syscontracts.ParseLog: the event name it passes and
//	                                      the SDK message types it builds (composite literals &pkg.MsgX{...})
//	app/app.go (func NewTeleport)       : the arguments of evmkeeper.NewMultiEvmHooks(...) in order, each resolved to the
//	                                      adapter package that built it (WStaking / WGov / WOther); the bank keeper handed
//	                                      to stakingkeeper.NewKeeper and govkeeper.NewKeeper, resolved through the local
//	                                      assignments to its constructor (BKOverride = adapter/bank.NewOverwriteBankKeeper,
//	                                      BKBase = x/bank/keeper.NewBaseKeeper, BKUnknown otherwise); whether the slashing
//	                                      keeper is given the staking keeper built with that bank keeper
//
// Identifiers are resolved through import paths and assignments, never compared by variable name, so renaming is
// silent.  The translator degrades per item and never exits non-zero on the source (only when it cannot write its
// output): a file that does not parse, a missing function / literal or an unresolvable construct yields an empty
// table / WOther / BKUnknown / TOther, so that the Coq obligation over the generated term fails (Props/C17_wiring.v)
// for that item only — never skipped, and never breaking the build of other properties.
package main

import (
	"bytes"
	"encoding/binary"
	"encoding/hex"
	"encoding/json"
	"flag"
	"fmt"
	"go/ast"
	"go/parser"
	"go/token"
	"math/bits"
	"os"
	"path/filepath"
	"sort"
	"strconv"
	"strings"
)

func die(f string, a ...interface{}) {
	fmt.Fprintf(os.Stderr, "adapterwiring: "+f+"\n", a...)
	os.Exit(1)
}

// ---- keccak256 (stdlib has none) -------------------------------------------------------------------

var rc = [24]uint64{
	0x0000000000000001, 0x0000000000008082, 0x800000000000808A, 0x8000000080008000, 0x000000000000808B, 0x0000000080000001,
	0x8000000080008081, 0x8000000000008009, 0x000000000000008A, 0x0000000000000088, 0x0000000080008009, 0x000000008000000A,
	0x000000008000808B, 0x800000000000008B, 0x8000000000008089, 0x8000000000008003, 0x8000000000008002, 0x8000000000000080,
	0x000000000000800A, 0x800000008000000A, 0x8000000080008081, 0x8000000000008080, 0x0000000080000001, 0x8000000080008008,
}
var rotc = [24]int{1, 3, 6, 10, 15, 21, 28, 36, 45, 55, 2, 14, 27, 41, 56, 8, 25, 43, 62, 18, 39, 61, 20, 44}
var piln = [24]int{10, 7, 11, 17, 18, 3, 5, 16, 8, 21, 24, 4, 15, 23, 19, 13, 12, 2, 20, 14, 22, 9, 6, 1}

func keccakF(st *[25]uint64) {
	var bc [5]uint64
	for r := 0; r < 24; r++ {
		for i := 0; i < 5; i++ {
			bc[i] = st[i] ^ st[i+5] ^ st[i+10] ^ st[i+15] ^ st[i+20]
		}
		for i := 0; i < 5; i++ {
			t := bc[(i+4)%5] ^ bits.RotateLeft64(bc[(i+1)%5], 1)
			for j := 0; j < 25; j += 5 {
				st[j+i] ^= t
			}
		}
		t := st[1]
		for i := 0; i < 24; i++ {
			j := piln[i]
			b := st[j]
			st[j] = bits.RotateLeft64(t, rotc[i])
			t = b
		}
		for j := 0; j < 25; j += 5 {
			for i := 0; i < 5; i++ {
				bc[i] = st[j+i]
			}
			for i := 0; i < 5; i++ {
				st[j+i] ^= (^bc[(i+1)%5]) & bc[(i+2)%5]
			}
		}
		st[0] ^= rc[r]
	}
}

func keccak256(data []byte) []byte {
	const rate = 136
	var st [25]uint64
	buf := append([]byte{}, data...)
	buf = append(buf, 0x01)
	for len(buf)%rate != 0 {
		buf = append(buf, 0)
	}
	buf[len(buf)-1] |= 0x80
	for off := 0; off < len(buf); off += rate {
		for i := 0; i < rate/8; i++ {
			st[i] ^= binary.LittleEndian.Uint64(buf[off+8*i:])
		}
		keccakF(&st)
	}
	out := make([]byte, 32)
	for i := 0; i < 4; i++ {
		binary.LittleEndian.PutUint64(out[8*i:], st[i])
	}
	return out
}

// ---- helpers ------------------------------------------------------------------------------------------

func coqBytes(b []byte) string {
	if len(b) == 0 {
		return "[]"
	}
	parts := make([]string, len(b))
	for i, c := range b {
		parts[i] = fmt.Sprintf("x%02x", c)
	}
	return "[" + strings.Join(parts, ";") + "]"
}

func coqList(items []string) string {
	if len(items) == 0 {
		return "[]"
	}
	return "[" + strings.Join(items, ";\n   ") + "]"
}

func warn(f string, a ...interface{}) {
	fmt.Fprintf(os.Stderr, "adapterwiring: warning: "+f+"\n", a...)
}

// parseFile: an unreadable / unparsable file degrades to an empty file (the Coq obligations over the
// generated terms then fail for the items that were to come from it); the translator itself never fails on it.
func parseFile(repo, rel string) (*token.FileSet, *ast.File) {
	fset := token.NewFileSet()
	f, err := parser.ParseFile(fset, filepath.Join(repo, rel), nil, 0)
	if err != nil || f == nil {
		warn("%s: %v", rel, err)
		f = &ast.File{Name: ast.NewIdent("missing")}
	}
	return fset, f
}

// packageFiles parses every non-test, non-verif-hook Go file of a directory.
func packageFiles(repo, dir string) []*ast.File {
	var out []*ast.File
	ents, err := os.ReadDir(filepath.Join(repo, dir))
	if err != nil {
		warn("%s: %v", dir, err)
		return nil
	}
	for _, e := range ents {
		n := e.Name()
		if e.IsDir() || !strings.HasSuffix(n, ".go") || strings.HasSuffix(n, "_test.go") || strings.HasSuffix(n, "_verif.go") {
			continue
		}
		_, f := parseFile(repo, filepath.Join(dir, n))
		out = append(out, f)
	}
	return out
}

// imports: local name -> import path
func imports(f *ast.File) map[string]string {
	m := map[string]string{}
	for _, im := range f.Imports {
		p, _ := strconv.Unquote(im.Path.Value)
		name := p[strings.LastIndex(p, "/")+1:]
		if im.Name != nil {
			name = im.Name.Name
		}
		m[name] = p
	}
	return m
}

func funcDecl(f *ast.File, recv bool, name string) *ast.FuncDecl {
	for _, d := range f.Decls {
		if fd, ok := d.(*ast.FuncDecl); ok && fd.Name.Name == name && (fd.Recv != nil) == recv {
			return fd
		}
	}
	return nil
}

func stringConst(f *ast.File, name string) (string, bool) {
	for _, d := range f.Decls {
		gd, ok := d.(*ast.GenDecl)
		if !ok || gd.Tok != token.CONST {
			continue
		}
		for _, sp := range gd.Specs {
			vs := sp.(*ast.ValueSpec)
			for i, n := range vs.Names {
				if n.Name == name && i < len(vs.Values) {
					if bl, ok := vs.Values[i].(*ast.BasicLit); ok && bl.Kind == token.STRING {
						s, err := strconv.Unquote(bl.Value)
						return s, err == nil
					}
				}
			}
		}
	}
	return "", false
}

// selector "pkg.Name" -> (pkg, Name)
func sel(e ast.Expr) (string, string, bool) {
	s, ok := e.(*ast.SelectorExpr)
	if !ok {
		return "", "", false
	}
	x, ok := s.X.(*ast.Ident)
	if !ok {
		return "", "", false
	}
	return x.Name, s.Sel.Name, true
}

// ---- ABI events ---------------------------------------------------------------------------------------

type abiArg struct {
	Name       string   `json:"name"`
	Type       string   `json:"type"`
	Indexed    bool     `json:"indexed"`
	Components []abiArg `json:"components"`
}
type abiEntry struct {
	Type      string   `json:"type"`
	Name      string   `json:"name"`
	Anonymous bool     `json:"anonymous"`
	Inputs    []abiArg `json:"inputs"`
}

func canonical(a abiArg) string {
	if strings.HasPrefix(a.Type, "tuple") {
		var cs []string
		for _, c := range a.Components {
			cs = append(cs, canonical(c))
		}
		return "(" + strings.Join(cs, ",") + ")" + strings.TrimPrefix(a.Type, "tuple")
	}
	return a.Type
}

func coqTy(a abiArg) string {
	switch canonical(a) {
	case "address":
		return "TAddr"
	case "string":
		return "TStr"
	case "uint256":
		return "TU256"
	case "uint64":
		return "TU64"
	case "uint32":
		return "TU32"
	case "(uint32,uint64)[]":
		return "TOptWeights"
	}
	return "(TOther " + coqBytes([]byte(canonical(a))) + ")"
}

// metaDataABI finds `<X>MetaData = &bind.MetaData{ABI: "..."}` and returns the events of the ABI, sorted by name.
func metaDataABI(repo, rel string) []abiEntry {
	_, f := parseFile(repo, rel)
	var raw string
	found := false
	ast.Inspect(f, func(n ast.Node) bool {
		cl, ok := n.(*ast.CompositeLit)
		if !ok {
			return true
		}
		if _, name, ok := sel(cl.Type); !ok || name != "MetaData" {
			return true
		}
		for _, el := range cl.Elts {
			kv, ok := el.(*ast.KeyValueExpr)
			if !ok {
				continue
			}
			if k, ok := kv.Key.(*ast.Ident); ok && k.Name == "ABI" {
				if bl, ok := kv.Value.(*ast.BasicLit); ok && bl.Kind == token.STRING {
					s, err := strconv.Unquote(bl.Value)
					if err == nil && !found {
						raw, found = s, true
					}
				}
			}
		}
		return true
	})
	if !found {
		warn("%s: no bind.MetaData{ABI: \"...\"} literal", rel)
		return nil
	}
	var entries []abiEntry
	if err := json.Unmarshal([]byte(raw), &entries); err != nil {
		warn("%s: ABI JSON: %v", rel, err)
		return nil
	}
	var evs []abiEntry
	for _, e := range entries {
		if e.Type == "event" {
			evs = append(evs, e)
		}
	}
	sort.Slice(evs, func(i, j int) bool { return evs[i].Name < evs[j].Name })
	return evs
}

// ---- adapter packages -----------------------------------------------------------------------------------

type handlerInfo struct {
	parse []string // event names passed to ParseLog
	msgs  []string // message type names of composite literals &x.MsgY{}
}

// handlerInfos: every method of the package (any file) that calls syscontracts.ParseLog with a literal event name:
// the event names it parses and the Msg* composite literals it builds, by method name.
func handlerInfos(files []*ast.File) map[string]handlerInfo {
	out := map[string]handlerInfo{}
	for _, f := range files {
		for _, d := range f.Decls {
			fd, ok := d.(*ast.FuncDecl)
			if !ok || fd.Recv == nil || fd.Body == nil {
				continue
			}
			var hi handlerInfo
			ast.Inspect(fd.Body, func(n ast.Node) bool {
				switch x := n.(type) {
				case *ast.CallExpr:
					if _, name, ok := sel(x.Fun); ok && name == "ParseLog" && len(x.Args) >= 4 {
						if bl, ok := x.Args[3].(*ast.BasicLit); ok && bl.Kind == token.STRING {
							s, _ := strconv.Unquote(bl.Value)
							hi.parse = append(hi.parse, s)
						} else {
							hi.parse = append(hi.parse, "?")
						}
					}
				case *ast.CompositeLit:
					if _, name, ok := sel(x.Type); ok && strings.HasPrefix(name, "Msg") {
						hi.msgs = append(hi.msgs, name)
					}
				}
				return true
			})
			if len(hi.parse) > 0 {
				out[fd.Name.Name] = hi
			}
		}
	}
	return out
}

type adapterInfo struct {
	addrConst string      // name of the syscontracts constant the hook filters on ("" = unresolved)
	table     [][2]string // event name -> handler method, in source order
}

func strLit(e ast.Expr) (string, bool) {
	if bl, ok := e.(*ast.BasicLit); ok && bl.Kind == token.STRING {
		s, err := strconv.Unquote(bl.Value)
		return s, err == nil
	}
	return "", false
}

// methodValue: `x.M` where M is one of the handler methods.
func methodValue(e ast.Expr, handlers map[string]handlerInfo) (string, bool) {
	if _, m, ok := sel(e); ok {
		if _, is := handlers[m]; is {
			return m, true
		}
	}
	return "", false
}

// adapterTable finds, anywhere in the package, the association event name -> handler method, in any of the forms
//
//	switch name { case "E": ... = x.M }                      (case clause with literal names and one method value)
//	map[...]...{"E": x.M, ...}                                (key/value element of a composite literal)
//	[]T{{event: "E", handle: x.M}, {"E", x.M}, ...}           (struct element holding one string literal and one method value)
//
// and the syscontracts address constant given to common.HexToAddress.  How the table is registered (a loop, a helper
// method, a lookup map) is behaviour the differential run checks, not this translator.
func adapterTable(files []*ast.File, handlers map[string]handlerInfo) adapterInfo {
	var ai adapterInfo
	seen := map[[2]string]bool{}
	add := func(ev, m string) {
		k := [2]string{ev, m}
		if !seen[k] {
			seen[k] = true
			ai.table = append(ai.table, k)
		}
	}
	for _, f := range files {
		imp := imports(f)
		ast.Inspect(f, func(n ast.Node) bool {
			switch x := n.(type) {
			case *ast.CallExpr:
				if _, name, ok := sel(x.Fun); ok && name == "HexToAddress" && len(x.Args) == 1 {
					if p, c, ok := sel(x.Args[0]); ok && strings.HasSuffix(imp[p], "/syscontracts") {
						ai.addrConst = c
					}
				}
			case *ast.CaseClause:
				var names []string
				for _, e := range x.List {
					if s, ok := strLit(e); ok {
						names = append(names, s)
					}
				}
				if len(names) == 0 {
					return true
				}
				var methods []string
				for _, st := range x.Body {
					ast.Inspect(st, func(m ast.Node) bool {
						if e, ok := m.(ast.Expr); ok {
							if mv, ok := methodValue(e, handlers); ok {
								methods = append(methods, mv)
								return false
							}
						}
						return true
					})
				}
				for _, nm := range names {
					for _, mv := range methods {
						add(nm, mv)
					}
				}
			case *ast.CompositeLit:
				for _, el := range x.Elts {
					switch e := el.(type) {
					case *ast.KeyValueExpr:
						if s, ok := strLit(e.Key); ok {
							if mv, ok := methodValue(e.Value, handlers); ok {
								add(s, mv)
							}
						}
					case *ast.CompositeLit:
						var strs, mvs []string
						for _, fe := range e.Elts {
							v := fe
							if kv, ok := fe.(*ast.KeyValueExpr); ok {
								v = kv.Value
							}
							if s, ok := strLit(v); ok {
								strs = append(strs, s)
							} else if mv, ok := methodValue(v, handlers); ok {
								mvs = append(mvs, mv)
							}
						}
						if len(strs) == 1 && len(mvs) == 1 {
							add(strs[0], mvs[0])
						}
					}
				}
			}
			return true
		})
	}
	return ai
}

// ---- app.go ---------------------------------------------------------------------------------------------

type resolver struct {
	imp     map[string]string
	assigns map[string][]ast.Expr // "x" or "app.X" -> right-hand sides in source order
}

func exprKey(e ast.Expr) string {
	switch x := e.(type) {
	case *ast.Ident:
		return x.Name
	case *ast.SelectorExpr:
		if id, ok := x.X.(*ast.Ident); ok {
			return id.Name + "." + x.Sel.Name
		}
	}
	return ""
}

// strip &, *, parentheses and method-call chains that return the receiver (x.SetHooks(...))
func strip(e ast.Expr) ast.Expr {
	for {
		switch x := e.(type) {
		case *ast.UnaryExpr:
			e = x.X
		case *ast.StarExpr:
			e = x.X
		case *ast.ParenExpr:
			e = x.X
		default:
			return e
		}
	}
}

// ctor resolves an expression to the "importpath.Func" of the constructor call that produced it.
func (r *resolver) ctor(e ast.Expr, depth int) (string, *ast.CallExpr) {
	if depth > 8 {
		return "", nil
	}
	e = strip(e)
	if ce, ok := e.(*ast.CallExpr); ok {
		if p, name, ok := sel(ce.Fun); ok {
			if path, ok := r.imp[p]; ok {
				return path + "." + name, ce
			}
		}
		// method call on a value: x.SetHooks(...) -> resolve x
		if s, ok := ce.Fun.(*ast.SelectorExpr); ok {
			return r.ctor(s.X, depth+1)
		}
		return "", nil
	}
	if k := exprKey(e); k != "" {
		rhs := r.assigns[k]
		if len(rhs) > 0 {
			return r.ctor(rhs[0], depth+1) // the first assignment (construction); later ones re-wrap the same value
		}
	}
	return "", nil
}

func bankKind(r *resolver, e ast.Expr) string {
	c, _ := r.ctor(e, 0)
	switch {
	case strings.HasSuffix(c, "/adapter/bank.NewOverwriteBankKeeper"):
		return "BKOverride"
	case strings.HasSuffix(c, "/x/bank/keeper.NewBaseKeeper"):
		return "BKBase"
	}
	return ""
}

func main() {
	repo := flag.String("repo", "/repo", "repository root")
	out := flag.String("out", "", "output directory (coq/theories/Gen)")
	flag.Parse()
	if *out == "" {
		die("-out required")
	}
	var b bytes.Buffer
	b.WriteString("(* GENERATED by tools/gotocoq/adapterwiring from syscontracts/contracts.go, syscontracts/{staking,gov}/generated.go,\n" +
		"   adapter/{staking,gov}/{adapter,handler}.go, app/app.go -- do not edit. *)\n" +
		"From Teleport Require Import Base.Bytes Base.AdapterWiringTypes.\n\n")

	// addresses
	_, cf := parseFile(*repo, "syscontracts/contracts.go")
	addrOf := func(name string) []byte {
		s, ok := stringConst(cf, name)
		if !ok {
			return nil
		}
		bz, err := hex.DecodeString(strings.TrimPrefix(s, "0x"))
		if err != nil {
			return nil
		}
		if len(bz) > 20 {
			bz = bz[len(bz)-20:]
		}
		return append(make([]byte, 20-len(bz)), bz...) // common.HexToAddress left-pads
	}

	contracts := []struct{ id, dir string }{{"WStaking", "staking"}, {"WGov", "gov"}}
	var evItems, tblItems, addrItems []string
	for _, c := range contracts {
		evs := metaDataABI(*repo, "syscontracts/"+c.dir+"/generated.go")
		for _, e := range evs {
			var ins, sig []string
			for _, a := range e.Inputs {
				ins = append(ins, fmt.Sprintf("(%s, %v)", coqTy(a), a.Indexed))
				sig = append(sig, canonical(a))
			}
			signature := e.Name + "(" + strings.Join(sig, ",") + ")"
			evItems = append(evItems, fmt.Sprintf("(* %s *)\n   {| ge_contract := %s; ge_name := %s; ge_anonymous := %v; ge_inputs := [%s];\n      ge_id := %s |}",
				signature, c.id, coqBytes([]byte(e.Name)), e.Anonymous, strings.Join(ins, "; "), coqBytes(keccak256([]byte(signature)))))
		}
		pkg := packageFiles(*repo, "adapter/"+c.dir)
		his := handlerInfos(pkg)
		ai := adapterTable(pkg, his)
		for _, row := range ai.table {
			hi := his[row[1]]
			var ps, ms []string
			for _, p := range hi.parse {
				ps = append(ps, coqBytes([]byte(p)))
			}
			for _, m := range hi.msgs {
				ms = append(ms, coqBytes([]byte(m)))
			}
			tblItems = append(tblItems, fmt.Sprintf("(* %s -> %s: ParseLog %v, builds %v *)\n   {| gh_contract := %s; gh_event := %s; gh_parses := [%s]; gh_msgs := [%s] |}",
				row[0], row[1], hi.parse, hi.msgs, c.id, coqBytes([]byte(row[0])), strings.Join(ps, "; "), strings.Join(ms, "; ")))
		}
		addrItems = append(addrItems, fmt.Sprintf("(%s, %s) (* adapter/%s filters on syscontracts.%s *)",
			c.id, coqBytes(addrOf(ai.addrConst)), c.dir, ai.addrConst))
	}
	fmt.Fprintf(&b, "(* the address each adapter's PostTxProcessing compares log.Address with *)\nDefinition gen_hook_addr : list (whook * bytes) :=\n  %s.\n\n", coqList(addrItems))
	fmt.Fprintf(&b, "(* events of the contracts' ABI (sorted by name); ge_id = keccak256(signature) *)\nDefinition gen_events : list gevent :=\n  %s.\n\n", coqList(evItems))
	fmt.Fprintf(&b, "(* NewHookAdapter's switch: event name -> handler; per handler the event name given to ParseLog and the messages built *)\nDefinition gen_handlers : list ghandler :=\n  %s.\n\n", coqList(tblItems))

	// app.go
	_, af := parseFile(*repo, "app/app.go")
	nt := funcDecl(af, false, "NewTeleport")
	if nt == nil || nt.Body == nil {
		warn("app/app.go: func NewTeleport not found")
		nt = &ast.FuncDecl{Name: ast.NewIdent("NewTeleport"), Body: &ast.BlockStmt{}}
	}
	r := &resolver{imp: imports(af), assigns: map[string][]ast.Expr{}}
	ast.Inspect(nt.Body, func(n ast.Node) bool {
		if as, ok := n.(*ast.AssignStmt); ok && len(as.Lhs) == len(as.Rhs) {
			for i, l := range as.Lhs {
				if k := exprKey(l); k != "" {
					r.assigns[k] = append(r.assigns[k], as.Rhs[i])
				}
			}
		}
		return true
	})
	var hooks []string
	var hooksSeen bool
	stakingBank, govBank, slashingVia := "BKUnknown", "BKUnknown", "BKUnknown"
	ast.Inspect(nt.Body, func(n ast.Node) bool {
		ce, ok := n.(*ast.CallExpr)
		if !ok {
			return true
		}
		p, name, ok := sel(ce.Fun)
		if !ok {
			return true
		}
		path := r.imp[p]
		keeperBank := func() string {
			kind, cnt := "BKUnknown", 0
			for _, a := range ce.Args {
				if k := bankKind(r, a); k != "" {
					kind = k
					cnt++
				}
			}
			if cnt != 1 {
				return "BKUnknown"
			}
			return kind
		}
		switch {
		case name == "NewMultiEvmHooks" && strings.HasSuffix(path, "/x/evm/keeper"):
			hooksSeen = true
			for _, a := range ce.Args {
				c, _ := r.ctor(a, 0)
				switch {
				case strings.HasSuffix(c, "/adapter/staking.NewHookAdapter"):
					hooks = append(hooks, "WStaking")
				case strings.HasSuffix(c, "/adapter/gov.NewHookAdapter"):
					hooks = append(hooks, "WGov")
				default:
					hooks = append(hooks, "WOther")
				}
			}
		case name == "NewKeeper" && strings.HasSuffix(path, "/x/staking/keeper"):
			stakingBank = keeperBank()
		case name == "NewKeeper" && strings.HasSuffix(path, "/x/gov/keeper"):
			govBank = keeperBank()
		case name == "NewKeeper" && strings.HasSuffix(path, "/x/slashing/keeper"):
			// the slashing keeper burns through the staking keeper it is given
			for _, a := range ce.Args {
				if c, call := r.ctor(a, 0); strings.HasSuffix(c, "/x/staking/keeper.NewKeeper") && call != nil {
					kind, cnt := "BKUnknown", 0
					for _, x := range call.Args {
						if k := bankKind(r, x); k != "" {
							kind = k
							cnt++
						}
					}
					if cnt == 1 {
						slashingVia = kind
					}
				}
			}
		}
		return true
	})
	if !hooksSeen {
		warn("app/app.go: no evmkeeper.NewMultiEvmHooks(...) call in NewTeleport")
	}
	fmt.Fprintf(&b, "(* app.go: evmkeeper.NewMultiEvmHooks(...) in order *)\nDefinition gen_evm_hooks : list whook := [%s].\n\n", strings.Join(hooks, "; "))
	fmt.Fprintf(&b, "(* app.go: the bank keeper given to stakingkeeper.NewKeeper / govkeeper.NewKeeper, and the one behind the staking\n   keeper given to slashingkeeper.NewKeeper *)\n")
	fmt.Fprintf(&b, "Definition gen_staking_bank : bank_kind := %s.\nDefinition gen_gov_bank : bank_kind := %s.\nDefinition gen_slashing_bank : bank_kind := %s.\n", stakingBank, govBank, slashingVia)

	path := filepath.Join(*out, "AdapterWiringGen.v")
	if old, err := os.ReadFile(path); err == nil && bytes.Equal(old, b.Bytes()) {
		return
	}
	if err := os.WriteFile(path, b.Bytes(), 0o644); err != nil {
		die("%v", err)
	}
}
