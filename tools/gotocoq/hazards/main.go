// hazards: inventory of the places in /repo's state-machine code where Go's semantics is NOT a function
// of the inputs (property C14).  Output: Gen/HazardsGen.v
//
//   - every `range` over a map-typed expression (go/types; an expression whose type cannot be determined is
//     reported too, kind "unknown" — conservative), with file, enclosing function and the go/printer text of
//     the whole statement, whitespace-normalised, plus its sha256 prefix;
//   - every other hazard: wall clock (time.Now …), math/rand, crypto/rand, os / ioutil / filepath / exec /
//     syscall / mmap, `go` statements, select, channel operations, unsafe, runtime.*, sync.* (Pool, Map,
//     mutexes …), reflect.*, floating-point arithmetic / conversions / math.* functions, json.Marshal of a
//     map-containing value (ordered, reported as a note).
//
// Scope: non-test .go files under app/ x/ adapter/ syscontracts/ types/ ibc/ except client/cli, simulation,
// testing, *_test.go, *.pb.go, *.pb.gw.go and files excluded by build constraints under the default tags
// (the verif hooks).  Type information: the scope packages are type-checked from source; their imports come
// from the compiler's export data (`go list -export -deps`, offline, warm build cache ~1 s).
//
// The output carries the sha256 of all inputs; when it is unchanged the translator exits immediately.
package main

import (
	"bytes"
	"crypto/sha256"
	"encoding/hex"
	"encoding/json"
	"flag"
	"fmt"
	"go/ast"
	"go/build"
	"go/importer"
	"go/parser"
	"go/printer"
	"go/token"
	"go/types"
	"io"
	"os"
	"os/exec"
	"path/filepath"
	"regexp"
	"sort"
	"strings"
)

const version = "hazards-v16"

var scopeDirs = []string{"app", "x", "adapter", "syscontracts", "types", "ibc"}

type site struct {
	File, Func, Kind, Hash, FnHash, Text string
	KVar, VVar, Ranged, Body, After    string // loop IR (Coq terms of Model/MapLoopsIR.v)
}

type hazard struct {
	File, Func, Kind, Detail string
	Count                    int
}

// the ETH seal verification's environment touch points, regenerated: fields of the Config literal(s) and arguments of
// the VerifySeal call(s) in eth/types/header.go VerifyCascadingFields
// Every construction of the ethash engine (call of the package's New) and every call of (*Ethash).VerifySeal outside the
// vendored engine files: where it is, the fields of the Config it is given (resolved through a local or package-level
// variable assigned once and through a call of a parameterless same-package function that just returns the value), and
// the arguments of VerifySeal.
type ethUse struct {
	Where  string
	Fields [][2]string
}

var ethNewUses []ethUse
var ethSealUses []ethUse

const ethPkgDir = "x/xibc/clients/light-clients/eth/types"

var ethEngineFiles = map[string]bool{"ethash.go": true, "sealer.go": true, "algorithm.go": true, "verify_header.go": true}

func die(f string, a ...interface{}) {
	fmt.Fprintf(os.Stderr, "hazards: "+f+"\n", a...)
	os.Exit(1)
}

func inScope(rel string) bool {
	rel = filepath.ToSlash(rel)
	if !strings.HasSuffix(rel, ".go") || strings.HasSuffix(rel, "_test.go") || strings.HasSuffix(rel, ".pb.go") ||
		strings.HasSuffix(rel, ".pb.gw.go") {
		return false
	}
	p := "/" + rel
	for _, ex := range []string{"/client/cli/", "/simulation/", "/testing/"} {
		if strings.Contains(p, ex) {
			return false
		}
	}
	return true
}

type listPkg struct {
	ImportPath string
	Dir        string
	Export     string
	GoFiles    []string
	CgoFiles   []string
	Standard   bool
	Error      *struct{ Err string }
}

func main() {
	repo := flag.String("repo", "/repo", "source tree")
	out := flag.String("out", "", "output directory (coq/theories/Gen)")
	force := flag.Bool("force", false, "ignore the input hash")
	flag.Parse()
	if *out == "" {
		die("missing -out")
	}
	repoAbs, err := filepath.Abs(*repo)
	if err != nil {
		die("%v", err)
	}

	// ---- scope files + input hash -----------------------------------------------------------------
	ctx := build.Default
	ctx.CgoEnabled = true
	var files []string // relative, slash-separated
	for _, d := range scopeDirs {
		root := filepath.Join(repoAbs, d)
		filepath.Walk(root, func(p string, fi os.FileInfo, err error) error {
			if err != nil || fi.IsDir() {
				return nil
			}
			rel, _ := filepath.Rel(repoAbs, p)
			if !inScope(rel) {
				return nil
			}
			ok, err := ctx.MatchFile(filepath.Dir(p), filepath.Base(p))
			if err != nil || !ok {
				return nil
			}
			files = append(files, filepath.ToSlash(rel))
			return nil
		})
	}
	sort.Strings(files)
	if len(files) == 0 {
		die("no Go files in scope under %s", repoAbs)
	}
	h := sha256.New()
	io.WriteString(h, version+"\n")
	gomod, err := os.ReadFile(filepath.Join(repoAbs, "go.mod"))
	if err != nil {
		die("%v", err)
	}
	h.Write(gomod)
	// every .go file of the scope packages takes part in type checking: hash all of them (incl. *.pb.go)
	dirs := map[string]bool{}
	for _, f := range files {
		dirs[filepath.Dir(f)] = true
	}
	var dirList []string
	for d := range dirs {
		dirList = append(dirList, d)
	}
	sort.Strings(dirList)
	for _, d := range dirList {
		ents, _ := os.ReadDir(filepath.Join(repoAbs, d))
		for _, e := range ents {
			if e.IsDir() || !strings.HasSuffix(e.Name(), ".go") || strings.HasSuffix(e.Name(), "_test.go") {
				continue
			}
			b, err := os.ReadFile(filepath.Join(repoAbs, d, e.Name()))
			if err != nil {
				die("%v", err)
			}
			fmt.Fprintf(h, "%s/%s %d\n", d, e.Name(), len(b))
			h.Write(b)
		}
	}
	inputHash := hex.EncodeToString(h.Sum(nil))
	outFile := filepath.Join(*out, "HazardsGen.v")
	if old, err := os.ReadFile(outFile); err == nil && !*force {
		if bytes.Contains(old, []byte("(* input-hash: "+inputHash+" *)")) {
			return
		}
	}

	// ---- export data of all dependencies ----------------------------------------------------------
	modPath := modulePath(gomod)
	pkgs := goList(repoAbs, modPath, gomod, dirList)
	exports := map[string]string{}
	byPath := map[string]*listPkg{}
	for _, p := range pkgs {
		if p.Export != "" {
			exports[p.ImportPath] = p.Export
		}
		byPath[p.ImportPath] = p
	}
	fset := token.NewFileSet()
	imp := importer.ForCompiler(fset, "gc", func(path string) (io.ReadCloser, error) {
		e, ok := exports[path]
		if !ok {
			return nil, fmt.Errorf("no export data for %s", path)
		}
		return os.Open(e)
	})

	// ---- type-check each scope package from source and walk it ------------------------------------
	var sites []site
	var lessMethods [][2]string
	hz := map[[4]string]int{}
	typeErrs := 0
	var firstErrs []string
	nRange := 0
	for _, d := range dirList {
		ip := modPath + "/" + filepath.ToSlash(d)
		lp := byPath[ip]
		if lp == nil {
			die("go list did not return package %s", ip)
		}
		if lp.Error != nil {
			die("package %s: %s", ip, lp.Error.Err)
		}
		var asts []*ast.File
		names := append(append([]string{}, lp.GoFiles...), lp.CgoFiles...)
		sort.Strings(names)
		inv := map[*ast.File]string{}
		for _, n := range names {
			f, err := parser.ParseFile(fset, filepath.Join(repoAbs, d, n), nil, parser.SkipObjectResolution)
			if err != nil {
				die("parse %s/%s: %v", d, n, err)
			}
			asts = append(asts, f)
			rel := filepath.ToSlash(filepath.Join(d, n))
			if inScope(rel) {
				inv[f] = rel
			}
		}
		info := &types.Info{Types: map[ast.Expr]types.TypeAndValue{}, Uses: map[*ast.Ident]types.Object{},
			Defs: map[*ast.Ident]types.Object{}, Selections: map[*ast.SelectorExpr]*types.Selection{}}
		conf := types.Config{Importer: imp, FakeImportC: true, Error: func(err error) {
			typeErrs++
			if len(firstErrs) < 5 {
				firstErrs = append(firstErrs, err.Error())
			}
		}}
		conf.Check(ip, fset, asts, info)
		if filepath.ToSlash(d) == ethPkgDir {
			ethAnalysis(fset, asts, info, d)
		}
		pkgFuncs := map[types.Object]*ast.FuncDecl{}
		for _, f := range asts {
			for _, dd := range f.Decls {
				if fd, isFd := dd.(*ast.FuncDecl); isFd && fd.Recv == nil && info.Defs[fd.Name] != nil {
					pkgFuncs[info.Defs[fd.Name]] = fd
				}
			}
		}
		for _, f := range asts {
			rel, ok := inv[f]
			if !ok {
				continue
			}
			w := &walker{fset: fset, info: info, file: rel, hz: hz, less: &lessMethods, funcs: pkgFuncs}
			w.walkFile(f)
			sites = append(sites, w.sites...)
			nRange += w.nRange
		}
	}
	sort.Slice(sites, func(i, j int) bool {
		a, b := sites[i], sites[j]
		if a.File != b.File {
			return a.File < b.File
		}
		if a.Func != b.Func {
			return a.Func < b.Func
		}
		return a.Text < b.Text
	})
	var hazards []hazard
	for k, c := range hz {
		hazards = append(hazards, hazard{k[0], k[1], k[2], k[3], c})
	}
	sort.Slice(hazards, func(i, j int) bool {
		a, b := hazards[i], hazards[j]
		return a.File+"\x00"+a.Func+"\x00"+a.Kind+"\x00"+a.Detail < b.File+"\x00"+b.Func+"\x00"+b.Kind+"\x00"+b.Detail
	})

	// ---- emit -------------------------------------------------------------------------------------
	var b bytes.Buffer
	fmt.Fprintf(&b, "(* GENERATED by tools/gotocoq/hazards from the Go source tree — do not edit. *)\n")
	fmt.Fprintf(&b, "(* input-hash: %s *)\n", inputHash)
	fmt.Fprintf(&b, "From Coq Require Import String List NArith.\nFrom Teleport Require Import Model.MapLoopsIR.\nImport ListNotations.\nLocal Open Scope string_scope.\n\n")
	fmt.Fprintf(&b, "(* files scanned / range statements seen / go/types errors (must be 0: otherwise classification is unreliable) *)\n")
	fmt.Fprintf(&b, "Definition files_scanned : N := %d%%N.\nDefinition range_statements : N := %d%%N.\nDefinition typecheck_errors : N := %d%%N.\n", len(files), nRange, typeErrs)
	for _, e := range firstErrs {
		fmt.Fprintf(&b, "(* type error: %s *)\n", strings.ReplaceAll(strings.ReplaceAll(e, "(*", "( *"), "*)", "* )"))
	}
	fmt.Fprintf(&b, "\n(* range over a map (kind \"map\") or over an expression of undetermined type (kind \"unknown\"):\n   (file, function, kind, sha256 prefix of the normalised statement, sha256 prefix of the normalised enclosing\n   function declaration — what happens to the loop's result afterwards (e.g. a sort) is part of the obligation —,\n   normalised statement) *)\n")
	fmt.Fprintf(&b, "Definition map_range_sites : list (string * string * string * string * string * string) := [\n")
	for i, s := range sites {
		sep := ";"
		if i == len(sites)-1 {
			sep = ""
		}
		fmt.Fprintf(&b, "  (%s, %s, %s, %s, %s,\n   %s)%s\n", q(s.File), q(s.Func), q(s.Kind), q(s.Hash), q(s.FnHash), q(s.Text), sep)
	}
	fmt.Fprintf(&b, "].\n\n(* the same statements as terms of the loop language of Model/MapLoopsIR.v (mechanical translation: statements by\n   syntactic form, expressions opaque with the variables they read and the functions they call) *)\n")
	fmt.Fprintf(&b, "Definition map_range_sites_ir : list site := [\n")
	for i, s := range sites {
		sep := ";"
		if i == len(sites)-1 {
			sep = ""
		}
		fmt.Fprintf(&b, "  {| s_file := %s; s_func := %s; s_hash := %s; s_kvar := %s; s_vvar := %s;\n     s_ranged := %s;\n     s_body := %s;\n     s_after := %s;\n     s_text := %s |}%s\n",
			q(s.File), q(s.Func), q(s.Hash), q(s.KVar), q(s.VVar), s.Ranged, s.Body, s.After, q(s.Text), sep)
	}
	fmt.Fprintf(&b, "].\n\n(* every method named Less in the scope: (receiver type, normalised declaration) — what sort.Sort(T(x)) orders by *)\n")
	sort.Slice(lessMethods, func(i, j int) bool { return lessMethods[i][0]+lessMethods[i][1] < lessMethods[j][0]+lessMethods[j][1] })
	fmt.Fprintf(&b, "Definition less_methods : list (string * string) := [\n")
	for i, m := range lessMethods {
		sep := ";"
		if i == len(lessMethods)-1 {
			sep = ""
		}
		fmt.Fprintf(&b, "  (%s, %s)%s\n", q(m[0]), q(m[1]), sep)
	}
	fmt.Fprintf(&b, "].\n\n(* ETH seal verification: every construction of the ethash engine outside the engine's own files (place, fields of the\n   Config it receives — resolved through once-assigned variables and parameterless helper functions; \"?\" = not resolved)\n   and every call of VerifySeal outside them (place, arguments by position) *)\n")
	emitUses := func(name string, uses []ethUse) {
		var rows []string
		for _, u := range uses {
			var fs []string
			for _, kv := range u.Fields {
				fs = append(fs, fmt.Sprintf("(%s, %s)", q(kv[0]), q(kv[1])))
			}
			rows = append(rows, fmt.Sprintf("(%s, %s)", q(u.Where), coqList(fs)))
		}
		fmt.Fprintf(&b, "Definition %s : list (string * list (string * string)) := %s.\n", name, coqList(rows))
	}
	emitUses("eth_engine_constructions", ethNewUses)
	emitUses("eth_verify_seal_calls", ethSealUses)
	fmt.Fprintf(&b, "\n(* every other construct whose value is not a function of the block inputs:\n   (file, function, kind, detail, number of occurrences in that function) *)\n")
	fmt.Fprintf(&b, "Definition other_hazards : list (string * string * string * string * N) := [\n")
	for i, z := range hazards {
		sep := ";"
		if i == len(hazards)-1 {
			sep = ""
		}
		fmt.Fprintf(&b, "  (%s, %s, %s, %s, %d%%N)%s\n", q(z.File), q(z.Func), q(z.Kind), q(z.Detail), z.Count, sep)
	}
	fmt.Fprintf(&b, "].\n")
	if err := os.MkdirAll(*out, 0o755); err != nil {
		die("%v", err)
	}
	if old, err := os.ReadFile(outFile); err == nil && bytes.Equal(old, b.Bytes()) {
		return
	}
	tmp := outFile + ".tmp"
	if err := os.WriteFile(tmp, b.Bytes(), 0o644); err != nil {
		die("%v", err)
	}
	if err := os.Rename(tmp, outFile); err != nil {
		die("%v", err)
	}
}

func q(s string) string {
	var b strings.Builder
	b.WriteByte('"')
	for i := 0; i < len(s); i++ {
		c := s[i]
		switch {
		case c == '"':
			b.WriteString(`""`)
		case c < 32 || c > 126:
			fmt.Fprintf(&b, "\\x%02x", c) // kept readable; never interpreted (Coq has no escapes): only identity matters
		default:
			b.WriteByte(c)
		}
	}
	b.WriteByte('"')
	// keep comment delimiters out of string literals (only the identity of the text matters; hashes are taken before)
	return strings.ReplaceAll(strings.ReplaceAll(b.String(), "(*", "( *"), "*)", "* )")
}

func modulePath(gomod []byte) string {
	m := regexp.MustCompile(`(?m)^module\s+(\S+)`).FindSubmatch(gomod)
	if m == nil {
		die("no module line in go.mod")
	}
	return string(m[1])
}

// goList runs `go list -export -deps -json` from a scratch module that requires the tree through a replace
// directive (the same construction as the harness module), so nothing is ever written into the tree itself.
func goList(repo, modPath string, gomod []byte, dirs []string) []*listPkg {
	tmp, err := os.MkdirTemp("", "hazards-mod-")
	if err != nil {
		die("%v", err)
	}
	defer os.RemoveAll(tmp)
	body := string(gomod)
	if i := strings.Index(body, "\n"); i >= 0 {
		body = body[i+1:]
	}
	body = regexp.MustCompile(`(?m)^module .*$`).ReplaceAllString(body, "")
	mod := "module hazardsscan\n" + body + "\nrequire " + modPath + " v0.0.0\nreplace " + modPath + " => " + repo + "\n"
	if err := os.WriteFile(filepath.Join(tmp, "go.mod"), []byte(mod), 0o644); err != nil {
		die("%v", err)
	}
	if sum, err := os.ReadFile(filepath.Join(repo, "go.sum")); err == nil {
		os.WriteFile(filepath.Join(tmp, "go.sum"), sum, 0o644)
	}
	args := []string{"list", "-export", "-deps", "-json=ImportPath,Dir,Export,GoFiles,CgoFiles,Standard,Error"}
	for _, d := range dirs {
		args = append(args, modPath+"/"+filepath.ToSlash(d))
	}
	cmd := exec.Command("go", args...)
	cmd.Dir = tmp
	cmd.Env = append(os.Environ(), "GOFLAGS=-mod=mod", "GOPROXY=off", "GOSUMDB=off", "GOTOOLCHAIN=local", "GOWORK=off")
	var stderr bytes.Buffer
	cmd.Stderr = &stderr
	outb, err := cmd.Output()
	if err != nil {
		die("go list failed: %v\n%s", err, tail(stderr.String(), 3000))
	}
	var res []*listPkg
	dec := json.NewDecoder(bytes.NewReader(outb))
	for {
		p := &listPkg{}
		if err := dec.Decode(p); err == io.EOF {
			break
		} else if err != nil {
			die("go list output: %v", err)
		}
		res = append(res, p)
	}
	return res
}

func tail(s string, n int) string {
	if len(s) > n {
		return s[len(s)-n:]
	}
	return s
}

// ---------------------------------------------------------------------------------------------------

type walker struct {
	fset   *token.FileSet
	info   *types.Info
	file   string
	fn     string
	fnHash string
	sites  []site
	hz     map[[4]string]int
	nRange int
	stack  []ast.Node        // ancestors of the node being visited
	less   *[][2]string      // (receiver type, normalised text) of every method named Less
	vname  map[*types.Var]string // per site: emitted name of each variable (capture-free: a declaration that shadows gets a fresh name)
	vused  map[string]*types.Var
	body   *ast.BlockStmt // body of the function declaration being walked
	loop   *ast.RangeStmt // the range statement being translated (nil outside loopIR)
	funcs  map[types.Object]*ast.FuncDecl // the package's functions (not methods), for comparators given by name
	depth  int // nesting depth of loops inside the range body being translated (continue/break refer to the innermost)
}

// varName gives every variable object of the current site ONE name; two different objects never share a name
func (w *walker) varName(v *types.Var) string {
	if n, ok := w.vname[v]; ok {
		return n
	}
	n := v.Name()
	if o, taken := w.vused[n]; taken && o != v {
		for i := 2; ; i++ {
			c := fmt.Sprintf("%s#%d", v.Name(), i)
			if _, t := w.vused[c]; !t {
				n = c
				break
			}
		}
	}
	w.vname[v] = n
	w.vused[n] = v
	return n
}

func (w *walker) add(kind, detail string) {
	w.hz[[4]string{w.file, w.fn, kind, detail}]++
}

func recvName(fd *ast.FuncDecl) string {
	if fd.Recv == nil || len(fd.Recv.List) == 0 {
		return fd.Name.Name
	}
	// "T.m" for a value receiver, "*T.m" for a pointer receiver (no parentheses: "(*" would open a comment for
	// tools that strip Coq comments without lexing strings)
	var b bytes.Buffer
	printer.Fprint(&b, token.NewFileSet(), fd.Recv.List[0].Type)
	return b.String() + "." + fd.Name.Name
}

func (w *walker) walkFile(f *ast.File) {
	for _, d := range f.Decls {
		switch d := d.(type) {
		case *ast.FuncDecl:
			w.fn = recvName(d)
			if d.Name.Name == "Less" && d.Recv != nil && len(d.Recv.List) > 0 {
				var rb bytes.Buffer
				printer.Fprint(&rb, token.NewFileSet(), d.Recv.List[0].Type)
				*w.less = append(*w.less, [2]string{strings.TrimPrefix(rb.String(), "*"), w.norm(&ast.FuncDecl{Recv: d.Recv, Name: d.Name, Type: d.Type, Body: d.Body})})
			}
			fsum := sha256.Sum256([]byte(w.norm(&ast.FuncDecl{Recv: d.Recv, Name: d.Name, Type: d.Type, Body: d.Body})))
			w.fnHash = hex.EncodeToString(fsum[:8])
			w.body = d.Body
			if d.Body != nil {
				w.inspect(d.Body)
			}
			if d.Type != nil {
				w.inspect(d.Type)
			}
		case *ast.GenDecl:
			for _, sp := range d.Specs {
				switch sp := sp.(type) {
				case *ast.ValueSpec:
					nm := "_"
					if len(sp.Names) > 0 {
						nm = sp.Names[0].Name
					}
					w.fn = "<package-level " + nm + ">"
					vsum := sha256.Sum256([]byte(w.norm(sp)))
					w.fnHash = hex.EncodeToString(vsum[:8])
					w.inspect(sp)
				case *ast.TypeSpec:
					w.fn = "<type " + sp.Name.Name + ">"
					w.inspect(sp)
				}
			}
		}
	}
}

var ws = regexp.MustCompile(`\s+`)

func (w *walker) norm(n ast.Node) string {
	var b bytes.Buffer
	cfg := printer.Config{Mode: printer.RawFormat, Tabwidth: 1}
	cfg.Fprint(&b, w.fset, n)
	return strings.TrimSpace(ws.ReplaceAllString(b.String(), " "))
}

// hazardous packages: import path -> kind; a nil selector set means every exported member counts
var pkgKinds = map[string]string{
	"math/rand": "math-rand", "crypto/rand": "crypto-rand", "os": "os", "io/ioutil": "ioutil", "path/filepath": "filepath",
	"os/exec": "os-exec", "os/user": "os-user", "os/signal": "os-signal", "syscall": "syscall", "unsafe": "unsafe",
	"runtime": "runtime", "runtime/debug": "runtime", "sync": "sync", "sync/atomic": "sync", "reflect": "reflect",
	"github.com/edsrzf/mmap-go": "mmap", "net": "net", "io/fs": "os", "embed": "os",
	"maps": "map-order", "golang.org/x/exp/maps": "map-order", // Keys / Values / All ...: map iteration order in a slice or iterator
}

var timeFuncs = map[string]bool{"Now": true, "Since": true, "Until": true, "After": true, "Tick": true, "NewTimer": true,
	"NewTicker": true, "Sleep": true, "AfterFunc": true}

// time values in the node's local zone: time.Unix & co return Local times, time.Local / LoadLocation read TZ and the zone database
var localTimeFuncs = map[string]bool{"Unix": true, "UnixMilli": true, "UnixMicro": true, "Local": true, "LoadLocation": true,
	"LoadLocationFromTZData": true, "FixedZone": false}

func isFloat(t types.Type) bool {
	if t == nil {
		return false
	}
	b, ok := t.Underlying().(*types.Basic)
	return ok && b.Info()&(types.IsFloat|types.IsComplex) != 0
}

func containsMap(t types.Type, depth int, seen map[types.Type]bool) bool {
	if t == nil || depth > 6 || seen[t] {
		return false
	}
	seen[t] = true
	switch u := t.Underlying().(type) {
	case *types.Map:
		return true
	case *types.Pointer:
		return containsMap(u.Elem(), depth+1, seen)
	case *types.Slice:
		return containsMap(u.Elem(), depth+1, seen)
	case *types.Array:
		return containsMap(u.Elem(), depth+1, seen)
	case *types.Struct:
		for i := 0; i < u.NumFields(); i++ {
			if containsMap(u.Field(i).Type(), depth+1, seen) {
				return true
			}
		}
	}
	return false
}

func (w *walker) visit(n ast.Node) bool {
	switch n := n.(type) {
	case *ast.RangeStmt:
		w.nRange++
		t := w.info.TypeOf(n.X)
		kind := ""
		if t == nil || t == types.Typ[types.Invalid] {
			kind = "unknown"
		} else {
			switch u := t.Underlying().(type) {
			case *types.Map:
				kind = "map"
			case *types.Chan:
				w.add("chan-op", "range")
			case *types.Basic:
				if u.Kind() == types.Invalid {
					kind = "unknown"
				}
			case *types.Interface: // type parameter or the like
				kind = "unknown"
			}
		}
		if kind != "" {
			txt := w.norm(n)
			sum := sha256.Sum256([]byte(txt))
			st := site{File: w.file, Func: w.fn, Kind: kind, Hash: hex.EncodeToString(sum[:8]), FnHash: w.fnHash, Text: txt}
			w.loopIR(n, &st)
			w.sites = append(w.sites, st)
		}
	case *ast.GoStmt:
		w.add("go-stmt", "go")
	case *ast.SelectStmt:
		w.add("select", "select")
	case *ast.SendStmt:
		w.add("chan-op", "send")
	case *ast.UnaryExpr:
		if n.Op == token.ARROW {
			w.add("chan-op", "recv")
		}
	case *ast.ChanType:
		w.add("chan-op", "chan-type")
	case *ast.BinaryExpr:
		switch n.Op {
		case token.ADD, token.SUB, token.MUL, token.QUO, token.LSS, token.GTR, token.LEQ, token.GEQ, token.EQL, token.NEQ:
			tv, ok := w.info.Types[n]
			if ok && tv.Value != nil {
				break // constant expression, folded exactly by the compiler
			}
			if isFloat(w.info.TypeOf(n.X)) || isFloat(w.info.TypeOf(n.Y)) {
				w.add("float", "arith "+n.Op.String())
			}
		}
	case *ast.AssignStmt:
		switch n.Tok {
		case token.ADD_ASSIGN, token.SUB_ASSIGN, token.MUL_ASSIGN, token.QUO_ASSIGN:
			if len(n.Lhs) == 1 && isFloat(w.info.TypeOf(n.Lhs[0])) {
				w.add("float", "arith "+n.Tok.String())
			}
		}
	case *ast.CallExpr:
		// conversion to a float type of a non-constant value
		if tv, ok := w.info.Types[n.Fun]; ok && tv.IsType() && isFloat(tv.Type) {
			if atv, ok := w.info.Types[n]; !ok || atv.Value == nil {
				w.add("float", "conversion to "+tv.Type.String())
			}
		}
		// conversion FROM float to integer of a non-constant value
		if tv, ok := w.info.Types[n.Fun]; ok && tv.IsType() && !isFloat(tv.Type) && len(n.Args) == 1 && isFloat(w.info.TypeOf(n.Args[0])) {
			if atv, ok := w.info.Types[n]; !ok || atv.Value == nil {
				w.add("float", "conversion from float to "+tv.Type.String())
			}
		}
		// builtin close / make(chan)
		if id, ok := n.Fun.(*ast.Ident); ok {
			if _, isB := w.info.Uses[id].(*types.Builtin); isB && id.Name == "close" {
				w.add("chan-op", "close")
			}
		}
		// cosmos-sdk typed events: v0.45.2 TypedEventToEvent builds the attribute list by ranging over a Go map
		if sel, ok := n.Fun.(*ast.SelectorExpr); ok {
			if obj, ok := w.info.Uses[sel.Sel].(*types.Func); ok && obj.Pkg() != nil && obj.Pkg().Path() == "github.com/cosmos/cosmos-sdk/types" {
				switch obj.Name() {
				case "EmitTypedEvent", "EmitTypedEvents", "TypedEventToEvent":
					w.add("sdk-typed-event", "sdk."+obj.Name()+" (attribute order = map iteration order in cosmos-sdk v0.45.2)")
				}
			}
		}
		// json.Marshal & friends on a value whose type contains a map: ordered by key (deterministic) — a note
		if sel, ok := n.Fun.(*ast.SelectorExpr); ok {
			if obj, ok := w.info.Uses[sel.Sel].(*types.Func); ok && obj.Pkg() != nil && obj.Pkg().Path() == "encoding/json" {
				for _, a := range n.Args {
					if containsMap(w.info.TypeOf(a), 0, map[types.Type]bool{}) {
						w.add("json-map", "json."+obj.Name()+" of a map-containing value (encoding/json sorts map keys)")
					}
				}
			}
		}
	case *ast.SelectorExpr:
		if f, isF := w.info.Uses[n.Sel].(*types.Func); isF && f.FullName() == "(time.Time).Local" {
			w.add("local-time", "(time.Time).Local (conversion to the node's LOCAL zone)")
		}
		id, ok := n.X.(*ast.Ident)
		if !ok {
			break
		}
		pn, ok := w.info.Uses[id].(*types.PkgName)
		if !ok {
			break
		}
		path := pn.Imported().Path()
		if k, ok := pkgKinds[path]; ok {
			w.add(k, path+"."+n.Sel.Name)
			break
		}
		switch path {
		case "time":
			if timeFuncs[n.Sel.Name] {
				w.add("wall-clock", "time."+n.Sel.Name+w.clockSink())
			}
			if localTimeFuncs[n.Sel.Name] {
				w.add("local-time", "time."+n.Sel.Name+" (a time in the node's LOCAL zone: String / Format / Date fields depend on TZ)")
			}
		case "math", "math/cmplx":
			if _, isFn := w.info.Uses[n.Sel].(*types.Func); isFn {
				w.add("float", path+"."+n.Sel.Name)
			}
		case "math/big":
			if n.Sel.Name == "Float" || n.Sel.Name == "NewFloat" || n.Sel.Name == "ParseFloat" {
				w.add("float", "big."+n.Sel.Name+" (software floating point: deterministic, reported for review)")
			}
		case "strconv":
			if n.Sel.Name == "ParseFloat" || n.Sel.Name == "FormatFloat" {
				w.add("float", "strconv."+n.Sel.Name)
			}
		}
	case *ast.ImportSpec:
		return false
	}
	return true
}

// ---------------------------------------------------------------------------------------------------
// loop IR (Model/MapLoopsIR.v): a mechanical translation of the range statement.  Statements by syntactic form;
// expressions stay opaque: printed text, variables read, functions called.
// ---------------------------------------------------------------------------------------------------

// inspect is ast.Inspect with the ancestor stack maintained (needed to find the statements after a loop)
func (w *walker) inspect(root ast.Node) {
	ast.Inspect(root, func(n ast.Node) bool {
		if n == nil {
			w.stack = w.stack[:len(w.stack)-1]
			return true
		}
		ok := w.visit(n)
		if ok {
			w.stack = append(w.stack, n)
		}
		return ok
	})
}

func coqList(items []string) string {
	return "[" + strings.Join(items, "; ") + "]"
}

func coqStrList(items []string) string {
	var qs []string
	for _, i := range items {
		qs = append(qs, q(i))
	}
	return coqList(qs)
}

// exprIR: (E text reads calls); ok = false when the expression's value is not a function of the variables it reads
// as far as this translator can tell (function literal, channel receive, call through a function value)
func (w *walker) exprIR(e ast.Expr) (string, bool) {
	ok := true
	var reads, calls []string
	seenR, seenC := map[string]bool{}, map[string]bool{}
	ast.Inspect(e, func(n ast.Node) bool {
		switch n := n.(type) {
		case *ast.FuncLit:
			ok = false
			return false
		case *ast.UnaryExpr:
			if n.Op == token.ARROW {
				ok = false
			}
			// &x of a variable that is not declared inside the loop body: with per-loop variables (go.mod < 1.22) every
			// iteration sees the SAME variable, so the address aliases whatever entry comes last
			if n.Op == token.AND && w.outlivesIteration(n.X) {
				ok = false
			}
		case *ast.SliceExpr:
			// x[:] of an ARRAY variable aliases the variable's storage in the same way
			if t := w.info.TypeOf(n.X); t != nil {
				if _, isArr := t.Underlying().(*types.Array); isArr && w.outlivesIteration(n.X) {
					ok = false
				}
			}
		case *ast.SelectorExpr:
			// the selected name is a field or method, not a variable read (unless it is a package-level variable)
			if id, isId := n.X.(*ast.Ident); isId {
				if _, isPkg := w.info.Uses[id].(*types.PkgName); isPkg {
					if v, isVar := w.info.Uses[n.Sel].(*types.Var); isVar && !seenR[id.Name+"."+v.Name()] {
						seenR[id.Name+"."+v.Name()] = true
						reads = append(reads, id.Name+"."+v.Name())
					}
					return false
				}
			}
			ast.Inspect(n.X, func(m ast.Node) bool { // only the receiver expression is read
				if id, isId := m.(*ast.Ident); isId {
					if v, isVar := w.info.Uses[id].(*types.Var); isVar && !v.IsField() && !seenR[w.varName(v)] {
						seenR[w.varName(v)] = true
						reads = append(reads, w.varName(v))
					}
				}
				if _, isLit := m.(*ast.FuncLit); isLit {
					ok = false
					return false
				}
				return true
			})
			// calls inside the receiver expression are still visited by the outer Inspect (return true), reads were taken above
			return true
		case *ast.Ident:
			if v, isVar := w.info.Uses[n].(*types.Var); isVar && !v.IsField() && !seenR[w.varName(v)] {
				seenR[w.varName(v)] = true
				reads = append(reads, w.varName(v))
			}
		case *ast.CallExpr:
			if tv, has := w.info.Types[n.Fun]; has && tv.IsType() {
				break // conversion
			}
			name := ""
			switch f := n.Fun.(type) {
			case *ast.Ident:
				switch o := w.info.Uses[f].(type) {
				case *types.Builtin:
					name = o.Name()
				case *types.Func:
					name = o.FullName()
				}
			case *ast.SelectorExpr:
				if o, isF := w.info.Uses[f.Sel].(*types.Func); isF {
					name = o.FullName()
				}
			case *ast.ParenExpr:
			}
			if name == "" {
				ok = false // call through a function value (or something this translator does not resolve)
			} else if !seenC[name] {
				seenC[name] = true
				calls = append(calls, name)
			}
		}
		return true
	})
	return fmt.Sprintf("(E %s %s %s)", q(w.norm(e)), coqStrList(reads), coqStrList(calls)), ok
}

// nameOf: the site-unique name of the variable an identifier defines or uses ("" if it is not a variable)
func (w *walker) nameOf(id *ast.Ident) string {
	if v, ok := w.info.Defs[id].(*types.Var); ok {
		return w.varName(v)
	}
	if v, ok := w.info.Uses[id].(*types.Var); ok {
		return w.varName(v)
	}
	return ""
}

// outlivesIteration: is the storage designated by e (x, x.f, x[i], (x)) that of a variable declared OUTSIDE the body of the
// loop being translated (this includes the loop variables themselves)?  Pointer indirections end the chain: *p / p.f
// with p a pointer designate storage that is not the variable's own.
func (w *walker) outlivesIteration(e ast.Expr) bool {
	for {
		switch x := e.(type) {
		case *ast.ParenExpr:
			e = x.X
			continue
		case *ast.SelectorExpr:
			if t := w.info.TypeOf(x.X); t != nil {
				if _, isPtr := t.Underlying().(*types.Pointer); isPtr {
					return false
				}
			}
			e = x.X
			continue
		case *ast.IndexExpr:
			if t := w.info.TypeOf(x.X); t != nil {
				if _, isArr := t.Underlying().(*types.Array); !isArr {
					return false // element of a slice or map: not the variable's own storage
				}
			}
			e = x.X
			continue
		case *ast.Ident:
			v, ok := w.info.Uses[x].(*types.Var)
			if !ok {
				return false
			}
			if w.loop == nil || w.loop.Body == nil {
				return true
			}
			return !(v.Pos() >= w.loop.Body.Pos() && v.Pos() <= w.loop.Body.End())
		default:
			return false
		}
	}
}

// fresh: is the object (map or slice variable) written by the loop created in this function by make(...) / a composite
// literal / a zero-value var declaration, and never assigned as a whole anywhere else?  Otherwise it may alias the ranged
// map (storing into the map being ranged over makes the set of iterations itself unspecified) or another live object.
func (w *walker) fresh(id *ast.Ident) bool {
	obj, ok := w.info.Uses[id].(*types.Var)
	if !ok || w.body == nil {
		return false
	}
	created, reassigned := false, false
	ast.Inspect(w.body, func(m ast.Node) bool {
		switch m := m.(type) {
		case *ast.AssignStmt:
			for i, l := range m.Lhs {
				lid, isId := l.(*ast.Ident)
				if !isId {
					continue
				}
				if m.Tok == token.DEFINE && w.info.Defs[lid] == obj && len(m.Lhs) == len(m.Rhs) {
					switch r := m.Rhs[i].(type) {
					case *ast.CallExpr:
						if w.isBuiltin(r.Fun, "make") {
							created = true
						}
					case *ast.CompositeLit:
						created = true
					}
					continue
				}
				if w.info.Uses[lid] == obj { // x = ... (x = append(x, e) keeps x its own object)
					if call, isCall := m.Rhs[min(i, len(m.Rhs)-1)].(*ast.CallExpr); isCall && w.isBuiltin(call.Fun, "append") && len(call.Args) > 0 {
						if a0, isId0 := call.Args[0].(*ast.Ident); isId0 && w.info.Uses[a0] == obj {
							continue
						}
					}
					reassigned = true
				}
			}
		case *ast.ValueSpec: // var x T  (zero value)
			for _, nm := range m.Names {
				if w.info.Defs[nm] == obj && len(m.Values) == 0 {
					created = true
				}
			}
		}
		return true
	})
	return created && !reassigned
}

func (w *walker) other(s ast.Node) []string {
	return []string{"SOther " + q(w.norm(s))}
}

func (w *walker) isMapIdent(e ast.Expr) (string, bool) {
	id, ok := e.(*ast.Ident)
	if !ok {
		return "", false
	}
	t := w.info.TypeOf(id)
	if t == nil {
		return "", false
	}
	_, isMap := t.Underlying().(*types.Map)
	n := w.nameOf(id)
	return n, isMap && n != ""
}

func (w *walker) isBuiltin(f ast.Expr, name string) bool {
	id, ok := f.(*ast.Ident)
	if !ok {
		return false
	}
	b, ok := w.info.Uses[id].(*types.Builtin)
	return ok && b.Name() == name
}

// stmtsIR translates a statement list; every statement outside the subset becomes SOther
func (w *walker) stmtsIR(list []ast.Stmt) string {
	var out []string
	for i := 0; i < len(list); i++ {
		if i+1 < len(list) {
			if st := w.fillIR(list[i], list[i+1]); st != "" { // s[i] = e; i++
				out = append(out, st)
				i++
				continue
			}
		}
		out = append(out, w.stmtIR(list[i])...)
	}
	return coqList(out)
}

// fillIR: `s[i] = e; i++` inside the loop being translated, where s := make([]T, len(<ranged expression>)) and i := 0 are
// defined in the function before the loop, i is written by nothing else in the function and read nowhere else in the
// loop body, and s is not otherwise assigned: the loop fills the pre-sized slice in iteration order, which is what
// appending to an empty slice does.  Anything short of that returns "" (the statements are then translated one by one:
// an indexed store into a slice and a ++ are SOther).
func (w *walker) fillIR(a, b ast.Stmt) string {
	as, ok := a.(*ast.AssignStmt)
	inc, ok2 := b.(*ast.IncDecStmt)
	if !ok || !ok2 || w.loop == nil || w.body == nil || as.Tok != token.ASSIGN || len(as.Lhs) != 1 || len(as.Rhs) != 1 || inc.Tok != token.INC {
		return ""
	}
	ix, ok := as.Lhs[0].(*ast.IndexExpr)
	if !ok {
		return ""
	}
	sid, ok := ix.X.(*ast.Ident)
	iid, ok2 := ix.Index.(*ast.Ident)
	cid, ok3 := inc.X.(*ast.Ident)
	if !ok || !ok2 || !ok3 {
		return ""
	}
	sobj, iobj := w.info.Uses[sid], w.info.Uses[iid]
	if sobj == nil || iobj == nil || w.info.Uses[cid] != iobj {
		return ""
	}
	if t := w.info.TypeOf(sid); t == nil {
		return ""
	} else if _, isSlice := t.Underlying().(*types.Slice); !isSlice {
		return ""
	}
	// definitions and other uses
	sOK, iOK := false, false
	bad := false
	ast.Inspect(w.body, func(m ast.Node) bool {
		switch m := m.(type) {
		case *ast.AssignStmt:
			for k, l := range m.Lhs {
				lid, isId := l.(*ast.Ident)
				if !isId {
					continue
				}
				if m.Tok == token.DEFINE && len(m.Lhs) == len(m.Rhs) {
					if w.info.Defs[lid] == sobj { // s := make([]T, len(X)) with X the ranged expression
						if mk, isCall := m.Rhs[k].(*ast.CallExpr); isCall && w.isBuiltin(mk.Fun, "make") && len(mk.Args) == 2 {
							if ln, isLen := mk.Args[1].(*ast.CallExpr); isLen && w.isBuiltin(ln.Fun, "len") && len(ln.Args) == 1 &&
								w.norm(ln.Args[0]) == w.norm(w.loop.X) && m.Pos() < w.loop.Pos() {
								sOK = true
								continue
							}
						}
						bad = true
					}
					if w.info.Defs[lid] == iobj { // i := 0
						if lit, isLit := m.Rhs[k].(*ast.BasicLit); isLit && lit.Value == "0" && m.Pos() < w.loop.Pos() {
							iOK = true
							continue
						}
						bad = true
					}
					continue
				}
				if w.info.Uses[lid] == sobj || w.info.Uses[lid] == iobj {
					bad = true // re-assigned somewhere
				}
			}
		case *ast.IncDecStmt:
			if id, isId := m.X.(*ast.Ident); isId && w.info.Uses[id] == iobj && m != inc {
				bad = true
			}
		case *ast.UnaryExpr:
			if id, isId := m.X.(*ast.Ident); isId && m.Op == token.AND && (w.info.Uses[id] == iobj || w.info.Uses[id] == sobj) {
				bad = true
			}
		}
		return true
	})
	// i is read nowhere else in the loop body (only as the index of this store and in this ++); s nowhere else in the body
	ast.Inspect(w.loop.Body, func(m ast.Node) bool {
		if id, isId := m.(*ast.Ident); isId && id != iid && id != cid && id != sid {
			if o := w.info.Uses[id]; o == iobj || o == sobj {
				bad = true
			}
		}
		return true
	})
	if !sOK || !iOK || bad {
		return ""
	}
	e, okE := w.exprIR(as.Rhs[0])
	if !okE {
		return ""
	}
	return fmt.Sprintf("SFill %s %s %s", q(w.nameOf(sid)), q(w.nameOf(iid)), e)
}

func (w *walker) stmtIR(s ast.Stmt) []string {
	switch s := s.(type) {
	case *ast.AssignStmt:
		if len(s.Lhs) == 2 && len(s.Rhs) == 1 && s.Tok == token.DEFINE { // v, ok := m[k]  (lookup with presence flag: pure)
			if ix, isIx := s.Rhs[0].(*ast.IndexExpr); isIx {
				if t := w.info.TypeOf(ix.X); t != nil {
					if _, isMap := t.Underlying().(*types.Map); isMap {
						e, okE := w.exprIR(s.Rhs[0])
						var outs []string
						for n, l := range s.Lhs {
							id, isId := l.(*ast.Ident)
							if !isId || !okE {
								return w.other(s)
							}
							if id.Name == "_" {
								continue
							}
							if w.info.Defs[id] == nil {
								return w.other(s)
							}
							ex := e
							if n == 1 { // the presence flag: another function of the same variables
								ex = strings.Replace(e, "(E "+q(w.norm(s.Rhs[0])), "(E "+q("present("+w.norm(s.Rhs[0])+")"), 1)
							}
							outs = append(outs, fmt.Sprintf("SLocal %s %s", q(w.nameOf(id)), ex))
						}
						return outs
					}
				}
			}
			return w.other(s)
		}
		if len(s.Lhs) != 1 || len(s.Rhs) != 1 {
			return w.other(s)
		}
		switch s.Tok {
		case token.DEFINE: // x := e
			id, ok := s.Lhs[0].(*ast.Ident)
			if !ok {
				return w.other(s)
			}
			e, ok := w.exprIR(s.Rhs[0])
			if !ok || w.info.Defs[id] == nil || id.Name == "_" { // not a NEW variable (or blank)
				return w.other(s)
			}
			return []string{fmt.Sprintf("SLocal %s %s", q(w.nameOf(id)), e)}
		case token.ASSIGN:
			if ix, ok := s.Lhs[0].(*ast.IndexExpr); ok { // m[k] = v
				if m, isMap := w.isMapIdent(ix.X); isMap && w.fresh(ix.X.(*ast.Ident)) {
					k, ok1 := w.exprIR(ix.Index)
					v, ok2 := w.exprIR(s.Rhs[0])
					if ok1 && ok2 {
						return []string{fmt.Sprintf("SStore %s %s %s", q(m), k, v)}
					}
				}
				return w.other(s)
			}
			if id, ok := s.Lhs[0].(*ast.Ident); ok { // x = append(x, e)
				if call, ok := s.Rhs[0].(*ast.CallExpr); ok && w.isBuiltin(call.Fun, "append") && len(call.Args) == 2 && !call.Ellipsis.IsValid() {
					if a0, ok := call.Args[0].(*ast.Ident); ok && a0.Name == id.Name && w.info.Uses[a0] == w.info.Uses[id] && w.fresh(id) {
						if e, ok := w.exprIR(call.Args[1]); ok && w.nameOf(id) != "" {
							return []string{fmt.Sprintf("SAppend %s %s", q(w.nameOf(id)), e)}
						}
					}
				}
			}
		}
		return w.other(s)
	case *ast.DeclStmt: // var x T = e
		if gd, ok := s.Decl.(*ast.GenDecl); ok && gd.Tok == token.VAR && len(gd.Specs) == 1 {
			if vs, ok := gd.Specs[0].(*ast.ValueSpec); ok && len(vs.Names) == 1 && len(vs.Values) == 1 {
				if e, ok := w.exprIR(vs.Values[0]); ok && w.nameOf(vs.Names[0]) != "" {
					return []string{fmt.Sprintf("SLocal %s %s", q(w.nameOf(vs.Names[0])), e)}
				}
			}
		}
		return w.other(s)
	case *ast.IfStmt:
		var out []string
		if s.Init != nil {
			init := w.stmtIR(s.Init)
			if len(init) != 1 || !strings.HasPrefix(init[0], "SLocal ") {
				return w.other(s)
			}
			out = append(out, init[0])
		}
		c, ok := w.exprIR(s.Cond)
		if !ok {
			return w.other(s)
		}
		els := "[]"
		switch e := s.Else.(type) {
		case nil:
		case *ast.BlockStmt:
			els = w.stmtsIR(e.List)
		case *ast.IfStmt:
			els = coqList(w.stmtIR(e))
		default:
			return w.other(s)
		}
		return append(out, fmt.Sprintf("SIf %s %s %s", c, w.stmtsIR(s.Body.List), els))
	case *ast.SwitchStmt: // expression switch without fallthrough = the if-else chain it abbreviates
		if s.Init != nil {
			return w.other(s)
		}
		type clause struct {
			cond string
			body string
		}
		var clauses []clause
		dflt := "[]"
		for _, c := range s.Body.List {
			cc, ok := c.(*ast.CaseClause)
			if !ok {
				return w.other(s)
			}
			for _, b := range cc.Body {
				if br, isBr := b.(*ast.BranchStmt); isBr && br.Tok == token.FALLTHROUGH {
					return w.other(s)
				}
			}
			if cc.List == nil {
				dflt = w.stmtsIR(cc.Body)
				continue
			}
			// condition: tag == c1 || tag == c2 ...   (tagless switch: c1 || c2 ...)
			var cond ast.Expr
			for _, ce := range cc.List {
				var one ast.Expr = ce
				if s.Tag != nil {
					one = &ast.BinaryExpr{X: s.Tag, Op: token.EQL, Y: ce}
				}
				if cond == nil {
					cond = one
				} else {
					cond = &ast.BinaryExpr{X: cond, Op: token.LOR, Y: one}
				}
			}
			e, ok := w.exprIR(cond)
			if !ok {
				return w.other(s)
			}
			clauses = append(clauses, clause{e, w.stmtsIR(cc.Body)})
		}
		chain := dflt
		for i := len(clauses) - 1; i >= 0; i-- {
			chain = coqList([]string{fmt.Sprintf("SIf %s %s %s", clauses[i].cond, clauses[i].body, chain)})
		}
		if len(clauses) == 0 {
			return w.other(s)
		}
		return []string{strings.TrimSuffix(strings.TrimPrefix(chain, "["), "]")}
	case *ast.BranchStmt:
		if s.Tok == token.CONTINUE && s.Label == nil && w.depth == 0 {
			return []string{"SContinue"}
		}
		return w.other(s)
	case *ast.ReturnStmt:
		var vs []string
		for _, r := range s.Results {
			e, ok := w.exprIR(r)
			if !ok {
				return w.other(s)
			}
			vs = append(vs, e)
		}
		return []string{"SReturn " + coqList(vs)}
	case *ast.ExprStmt:
		call, ok := s.X.(*ast.CallExpr)
		if !ok {
			return w.other(s)
		}
		if w.isBuiltin(call.Fun, "panic") && len(call.Args) == 1 {
			if e, ok := w.exprIR(call.Args[0]); ok {
				return []string{"SPanic " + e}
			}
			return w.other(s)
		}
		if st := w.sortIR(call); st != "" {
			return []string{st}
		}
		return w.other(s)
	}
	return w.other(s)
}

func identName(e ast.Expr) (string, bool) {
	if e == nil {
		return "_", true
	}
	id, ok := e.(*ast.Ident)
	if !ok {
		return "", false
	}
	return id.Name, true
}

// loopIR fills the IR fields of a site
func (w *walker) loopIR(n *ast.RangeStmt, st *site) {
	w.vname, w.vused, w.depth = map[*types.Var]string{}, map[string]*types.Var{}, 0
	w.loop = n
	defer func() { w.loop = nil }()
	st.KVar, st.VVar, st.After = "_", "_", "[]"
	ranged, okR := w.exprIR(n.X)
	st.Ranged = ranged
	k, okK := identName(n.Key)
	v, okV := identName(n.Value)
	if !okR || !okK || !okV || (n.Tok != token.DEFINE && !(k == "_" && v == "_")) {
		// the loop variables are existing variables (they keep the LAST entry after the loop), or not plain names
		st.Body = coqList([]string{"SOther " + q("range assigns to existing variables or the ranged expression is not pure")})
		return
	}
	if id, isId := n.Key.(*ast.Ident); isId && k != "_" {
		k = w.nameOf(id)
	}
	if id, isId := n.Value.(*ast.Ident); isId && v != "_" {
		v = w.nameOf(id)
	}
	st.KVar, st.VVar = k, v
	st.Body = w.stmtsIR(n.Body.List)
	// the statements that follow the loop in its block (at most three)
	if len(w.stack) > 0 {
		var list []ast.Stmt
		switch p := w.stack[len(w.stack)-1].(type) {
		case *ast.BlockStmt:
			list = p.List
		case *ast.CaseClause:
			list = p.Body
		case *ast.CommClause:
			list = p.Body
		}
		for i, s := range list {
			if s == ast.Stmt(n) {
				rest := list[i+1:]
				if len(rest) > 3 {
					rest = rest[:3]
				}
				st.After = w.stmtsIR(rest)
			}
		}
	}
}

// telemetryCall: is this call a call of a function of a metrics package (the value only leaves the process as a metric)?
func (w *walker) telemetryCall(c *ast.CallExpr) bool {
	var id *ast.Ident
	switch f := c.Fun.(type) {
	case *ast.Ident:
		id = f
	case *ast.SelectorExpr:
		id = f.Sel
	}
	if id == nil {
		return false
	}
	f, ok := w.info.Uses[id].(*types.Func)
	if !ok || f.Pkg() == nil {
		return false
	}
	switch f.Pkg().Path() {
	case "github.com/cosmos/cosmos-sdk/telemetry", "github.com/armon/go-metrics":
		return true
	}
	return false
}

// clockSink: called at the selector of a wall-clock read (time.Now ...) with the ancestor stack in place.  Returns
// " [only into telemetry]" when the value read is a direct argument of a metrics call, or is assigned to a new
// variable whose every use in the function is a direct argument of a metrics call; "" otherwise.
func (w *walker) clockSink() string {
	const yes = " [only into telemetry]"
	n := len(w.stack)
	if n < 2 {
		return ""
	}
	call, ok := w.stack[n-1].(*ast.CallExpr) // time.Now()
	if !ok {
		return ""
	}
	switch p := w.stack[n-2].(type) {
	case *ast.CallExpr:
		for _, a := range p.Args {
			if a == ast.Expr(call) && w.telemetryCall(p) {
				return yes
			}
		}
	case *ast.AssignStmt:
		if p.Tok != token.DEFINE || len(p.Lhs) != 1 || len(p.Rhs) != 1 || p.Rhs[0] != ast.Expr(call) || w.body == nil {
			return ""
		}
		id, ok := p.Lhs[0].(*ast.Ident)
		if !ok {
			return ""
		}
		obj := w.info.Defs[id]
		if obj == nil {
			return ""
		}
		uses, good := 0, 0
		var stack []ast.Node
		ast.Inspect(w.body, func(m ast.Node) bool {
			if m == nil {
				stack = stack[:len(stack)-1]
				return true
			}
			if u, isId := m.(*ast.Ident); isId && w.info.Uses[u] == obj {
				uses++
				if len(stack) > 0 {
					if c, isCall := stack[len(stack)-1].(*ast.CallExpr); isCall && w.telemetryCall(c) {
						for _, a := range c.Args {
							if a == ast.Expr(u) {
								good++
							}
						}
					}
				}
			}
			stack = append(stack, m)
			return true
		})
		if uses > 0 && uses == good {
			return yes
		}
	}
	return ""
}

// ---------------------------------------------------------------------------------------------------
// sort statements: SSort slice comparator
//   sort.Sort(T(x))                                   -> CmpNamed "T"
//   sort.Slice / sort.SliceStable (x, func(i, j int) bool { return L REL R })
//   slices.SortFunc / SortStableFunc (x, func(a, b T) bool|int { return ... })
//   sort.Strings(x) / sort.Ints(x) / sort.Float64s(x)
// The comparator is emitted as CmpKey rel via key_type ki kj: what is compared (L, R) as key terms over the two
// elements, how (directly with < / >, or through bytes.Compare / strings.Compare ... < 0), and the type of the keys.
// Anything else is CmpOther.
// ---------------------------------------------------------------------------------------------------

func (w *walker) funcFullName(f ast.Expr) string {
	var id *ast.Ident
	switch f := f.(type) {
	case *ast.Ident:
		id = f
	case *ast.SelectorExpr:
		id = f.Sel
	}
	if id == nil {
		return ""
	}
	if fn, ok := w.info.Uses[id].(*types.Func); ok {
		return fn.FullName()
	}
	return ""
}

// keyTerm: e as a key term over the element recognised by isElem
func (w *walker) keyTerm(e ast.Expr, isElem func(ast.Expr) bool) string {
	if isElem(e) {
		return "KElem"
	}
	switch x := e.(type) {
	case *ast.ParenExpr:
		return w.keyTerm(x.X, isElem)
	case *ast.CallExpr:
		if tv, has := w.info.Types[x.Fun]; has && tv.IsType() && len(x.Args) == 1 {
			return fmt.Sprintf("(KConv %s %s)", q(types.TypeString(tv.Type, nil)), w.keyTerm(x.Args[0], isElem))
		}
		if sel, ok := x.Fun.(*ast.SelectorExpr); ok && len(x.Args) == 0 {
			if fn, isF := w.info.Uses[sel.Sel].(*types.Func); isF {
				if sig, _ := fn.Type().(*types.Signature); sig != nil && sig.Recv() != nil {
					return fmt.Sprintf("(KMethod %s %s)", q(fn.FullName()), w.keyTerm(sel.X, isElem))
				}
			}
		}
	case *ast.SliceExpr:
		if x.Low == nil && x.High == nil && x.Max == nil {
			return fmt.Sprintf("(KSliceAll %s)", w.keyTerm(x.X, isElem))
		}
	}
	return "(KOther " + q(w.norm(e)) + ")"
}

func (w *walker) sameVar(a ast.Expr, obj types.Object) bool {
	id, ok := a.(*ast.Ident)
	return ok && obj != nil && w.info.Uses[id] == obj
}

func (w *walker) sortIR(call *ast.CallExpr) string {
	name := w.funcFullName(call.Fun)
	if name == "" || len(call.Args) == 0 {
		return ""
	}
	other := func(x *ast.Ident) string {
		return fmt.Sprintf("SSort %s (CmpOther %s)", q(w.nameOf(x)), q(w.norm(call)))
	}
	switch name {
	case "sort.Sort", "sort.Stable":
		if conv, ok := call.Args[0].(*ast.CallExpr); ok && len(conv.Args) == 1 {
			if tv, has := w.info.Types[conv.Fun]; has && tv.IsType() {
				if x, ok := conv.Args[0].(*ast.Ident); ok && w.nameOf(x) != "" {
					return fmt.Sprintf("SSort %s (CmpNamed %s)", q(w.nameOf(x)), q(w.norm(conv.Fun)))
				}
			}
		}
		return ""
	case "sort.Strings", "sort.Ints", "sort.Float64s":
		if x, ok := call.Args[0].(*ast.Ident); ok && w.nameOf(x) != "" {
			kt := map[string]string{"sort.Strings": "string", "sort.Ints": "int", "sort.Float64s": "float64"}[name]
			return fmt.Sprintf("SSort %s (CmpKey \"<\" \"\" %s KElem KElem)", q(w.nameOf(x)), q(kt))
		}
		return ""
	case "sort.Slice", "sort.SliceStable", "slices.SortFunc", "slices.SortStableFunc",
		"golang.org/x/exp/slices.SortFunc", "golang.org/x/exp/slices.SortStableFunc":
	default:
		return ""
	}
	x, ok := call.Args[0].(*ast.Ident)
	if !ok || w.nameOf(x) == "" || len(call.Args) != 2 {
		return ""
	}
	xobj := w.info.Uses[x]
	// the comparator: a function literal, or a function of this package given by name
	var ftype *ast.FuncType
	var fbody *ast.BlockStmt
	switch f := call.Args[1].(type) {
	case *ast.FuncLit:
		ftype, fbody = f.Type, f.Body
	case *ast.Ident:
		if fd, ok := w.funcs[w.info.Uses[f]]; ok {
			ftype, fbody = fd.Type, fd.Body
		}
	}
	params, ret := singleReturn(w, ftype, fbody)
	if ret == nil || len(params) != 2 {
		return other(x)
	}
	byIndex := strings.HasPrefix(name, "sort.")
	elem := func(p types.Object) func(ast.Expr) bool {
		return func(e ast.Expr) bool {
			if byIndex { // x[p]
				ix, ok := e.(*ast.IndexExpr)
				return ok && w.sameVar(ix.X, xobj) && w.sameVar(ix.Index, p)
			}
			return w.sameVar(e, p)
		}
	}
	c := w.analyseCmp(ret, elem(params[0]), elem(params[1]), !byIndex, 0)
	if !c.ok {
		return other(x)
	}
	return fmt.Sprintf("SSort %s (CmpKey %s %s %s %s %s)", q(w.nameOf(x)), q(c.rel), q(c.via), q(c.kt), c.ki, c.kj)
}

// singleReturn: the parameters and the returned expression of a function whose body is one `return e`
func singleReturn(w *walker, ft *ast.FuncType, body *ast.BlockStmt) ([]types.Object, ast.Expr) {
	if ft == nil || body == nil || len(body.List) != 1 || ft.Params == nil {
		return nil, nil
	}
	ret, ok := body.List[0].(*ast.ReturnStmt)
	if !ok || len(ret.Results) != 1 {
		return nil, nil
	}
	var params []types.Object
	for _, f := range ft.Params.List {
		for _, n := range f.Names {
			if w.info.Defs[n] == nil {
				return nil, nil
			}
			params = append(params, w.info.Defs[n])
		}
	}
	return params, ret.Results[0]
}

type cmpRes struct {
	rel, via, kt, ki, kj string
	ok                   bool
}

// analyseCmp reads a comparator's returned expression:  L REL R  |  cmp(L, R) REL 0  |  cmp(L, R) (int comparators)  |
// f(A, B) with f a function of this package whose body is one return (read the same way, its parameters standing for A, B).
// e0 / e1 recognise the first / second element.
func (w *walker) analyseCmp(res ast.Expr, e0, e1 func(ast.Expr) bool, intCmp bool, depth int) cmpRes {
	for {
		if pe, isP := res.(*ast.ParenExpr); isP {
			res = pe.X
			continue
		}
		break
	}
	if depth > 3 {
		return cmpRes{}
	}
	cmpCall := func(e ast.Expr) (*ast.CallExpr, string) {
		c, ok := e.(*ast.CallExpr)
		if !ok || len(c.Args) != 2 {
			return nil, ""
		}
		switch n := w.funcFullName(c.Fun); n {
		case "bytes.Compare", "strings.Compare":
			return c, n
		}
		return nil, ""
	}
	var l, r ast.Expr
	rel, via := "", ""
	switch e := res.(type) {
	case *ast.BinaryExpr:
		switch e.Op {
		case token.LSS:
			rel = "<"
		case token.GTR:
			rel = ">"
		default:
			return cmpRes{}
		}
		if c, n := cmpCall(e.X); c != nil {
			if lit, isLit := e.Y.(*ast.BasicLit); !isLit || lit.Value != "0" {
				return cmpRes{}
			}
			l, r, via = c.Args[0], c.Args[1], n
		} else {
			l, r = e.X, e.Y
		}
	case *ast.CallExpr:
		if c, n := cmpCall(e); c != nil {
			if !intCmp {
				return cmpRes{}
			}
			l, r, via, rel = c.Args[0], c.Args[1], n, "<"
			break
		}
		// a named comparator of this package
		if id, isId := e.Fun.(*ast.Ident); isId && len(e.Args) == 2 {
			if fd, ok := w.funcs[w.info.Uses[id]]; ok {
				params, ret := singleReturn(w, fd.Type, fd.Body)
				if ret == nil || len(params) != 2 {
					return cmpRes{}
				}
				isP := func(p types.Object) func(ast.Expr) bool { return func(x ast.Expr) bool { return w.sameVar(x, p) } }
				in := w.analyseCmp(ret, isP(params[0]), isP(params[1]), intCmp, depth+1)
				if !in.ok {
					return cmpRes{}
				}
				o0, o1 := w.keyTerm(e.Args[0], e0), w.keyTerm(e.Args[1], e1)
				if !strings.Contains(o0, "KElem") && !strings.Contains(o1, "KElem") {
					o0, o1 = w.keyTerm(e.Args[0], e1), w.keyTerm(e.Args[1], e0)
				}
				in.ki = strings.Replace(in.ki, "KElem", o0, 1)
				in.kj = strings.Replace(in.kj, "KElem", o1, 1)
				return in
			}
		}
		return cmpRes{}
	default:
		return cmpRes{}
	}
	ki, kj := w.keyTerm(l, e0), w.keyTerm(r, e1)
	if !strings.Contains(ki, "KElem") && !strings.Contains(kj, "KElem") { // written the other way round: x[j] < x[i]
		ki, kj = w.keyTerm(l, e1), w.keyTerm(r, e0)
	}
	kt := "?"
	if t := w.info.TypeOf(l); t != nil {
		kt = types.TypeString(t, nil)
	}
	return cmpRes{rel, via, kt, ki, kj, true}
}

// ---------------------------------------------------------------------------------------------------
// ETH engine uses
// ---------------------------------------------------------------------------------------------------

func ethAnalysis(fset *token.FileSet, asts []*ast.File, info *types.Info, dir string) {
	w := &walker{fset: fset, info: info}
	funcs := map[types.Object]*ast.FuncDecl{}
	pkgVars := map[types.Object]ast.Expr{}
	for _, f := range asts {
		for _, d := range f.Decls {
			switch d := d.(type) {
			case *ast.FuncDecl:
				if d.Recv == nil {
					funcs[info.Defs[d.Name]] = d
				}
			case *ast.GenDecl:
				if d.Tok != token.VAR {
					continue
				}
				for _, sp := range d.Specs {
					if vs, ok := sp.(*ast.ValueSpec); ok && len(vs.Names) == len(vs.Values) {
						for i, n := range vs.Names {
							pkgVars[info.Defs[n]] = vs.Values[i]
						}
					}
				}
			}
		}
	}
	// writes(obj): number of statements anywhere in the package that assign to obj or to a part of it, or take its
	// address, other than its defining statement
	rootObj := func(e ast.Expr) types.Object {
		for {
			switch x := e.(type) {
			case *ast.ParenExpr:
				e = x.X
			case *ast.SelectorExpr:
				e = x.X
			case *ast.IndexExpr:
				e = x.X
			case *ast.StarExpr:
				e = x.X
			case *ast.Ident:
				if o := info.Uses[x]; o != nil {
					return o
				}
				return info.Defs[x]
			default:
				return nil
			}
		}
	}
	writes := func(obj types.Object) int {
		n := 0
		for _, f := range asts {
			ast.Inspect(f, func(m ast.Node) bool {
				switch m := m.(type) {
				case *ast.AssignStmt:
					for _, l := range m.Lhs {
						if id, isId := l.(*ast.Ident); isId && m.Tok == token.DEFINE && info.Defs[id] == obj {
							continue
						}
						if rootObj(l) == obj {
							n++
						}
					}
				case *ast.UnaryExpr:
					if m.Op == token.AND && rootObj(m.X) == obj {
						n++
					}
				case *ast.IncDecStmt:
					if rootObj(m.X) == obj {
						n++
					}
				}
				return true
			})
		}
		return n
	}
	var resolve func(e ast.Expr, body *ast.BlockStmt, depth int) [][2]string
	resolve = func(e ast.Expr, body *ast.BlockStmt, depth int) [][2]string {
		unresolved := [][2]string{{"?", w.norm(e)}}
		if depth > 4 {
			return unresolved
		}
		switch x := e.(type) {
		case *ast.ParenExpr:
			return resolve(x.X, body, depth+1)
		case *ast.CompositeLit:
			var out [][2]string
			for _, el := range x.Elts {
				if kv, ok := el.(*ast.KeyValueExpr); ok {
					out = append(out, [2]string{w.norm(kv.Key), w.norm(kv.Value)})
				} else {
					out = append(out, [2]string{"?", w.norm(el)})
				}
			}
			if out == nil {
				out = [][2]string{}
			}
			return out
		case *ast.Ident:
			obj := info.Uses[x]
			if obj == nil {
				return unresolved
			}
			if v, ok := pkgVars[obj]; ok && writes(obj) == 0 {
				return resolve(v, nil, depth+1)
			}
			if body != nil && writes(obj) == 0 { // a local defined once: x := <expr>
				var def ast.Expr
				ast.Inspect(body, func(m ast.Node) bool {
					if as, ok := m.(*ast.AssignStmt); ok && as.Tok == token.DEFINE && len(as.Lhs) == len(as.Rhs) {
						for i, l := range as.Lhs {
							if id, isId := l.(*ast.Ident); isId && info.Defs[id] == obj {
								def = as.Rhs[i]
							}
						}
					}
					return true
				})
				if def != nil {
					return resolve(def, body, depth+1)
				}
			}
			return unresolved
		case *ast.CallExpr: // helper() with `return <expr>` as its whole body
			if id, ok := x.Fun.(*ast.Ident); ok && len(x.Args) == 0 {
				if fd, ok := funcs[info.Uses[id]]; ok && fd.Body != nil && len(fd.Body.List) == 1 {
					if ret, ok := fd.Body.List[0].(*ast.ReturnStmt); ok && len(ret.Results) == 1 {
						return resolve(ret.Results[0], fd.Body, depth+1)
					}
				}
			}
			return unresolved
		}
		return unresolved
	}
	newObj := types.Object(nil)
	for o, fd := range funcs {
		if fd.Name.Name == "New" {
			newObj = o
		}
	}
	for _, f := range asts {
		base := filepath.Base(fset.Position(f.Pos()).Filename)
		if ethEngineFiles[base] || strings.HasSuffix(base, "_test.go") {
			continue
		}
		for _, d := range f.Decls {
			fd, ok := d.(*ast.FuncDecl)
			if !ok || fd.Body == nil {
				continue
			}
			where := filepath.ToSlash(filepath.Join(dir, base)) + ":" + recvName(fd)
			ast.Inspect(fd.Body, func(m ast.Node) bool {
				c, ok := m.(*ast.CallExpr)
				if !ok {
					return true
				}
				if id, isId := c.Fun.(*ast.Ident); isId && newObj != nil && info.Uses[id] == newObj && len(c.Args) > 0 {
					ethNewUses = append(ethNewUses, ethUse{where, resolve(c.Args[0], fd.Body, 0)})
				}
				if sel, isSel := c.Fun.(*ast.SelectorExpr); isSel {
					if fn, isF := info.Uses[sel.Sel].(*types.Func); isF && fn.Name() == "VerifySeal" && fn.Pkg() != nil && strings.HasSuffix(fn.Pkg().Path(), ethPkgDir) {
						var args [][2]string
						for i, a := range c.Args {
							args = append(args, [2]string{fmt.Sprint(i), w.norm(a)})
						}
						ethSealUses = append(ethSealUses, ethUse{where, args})
					}
				}
				return true
			})
		}
	}
	sort.Slice(ethNewUses, func(i, j int) bool { return ethNewUses[i].Where < ethNewUses[j].Where })
	sort.Slice(ethSealUses, func(i, j int) bool { return ethSealUses[i].Where < ethSealUses[j].Where })
}
