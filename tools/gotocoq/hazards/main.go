// hazards: inventory of the places in /repo's state-machine code where Go's semantics is NOT a function
// of the inputs (property C14).  Output: Gen/HazardsGen.v
//
//   - every `range` over a map-typed expression (go/types; an expression whose type cannot be determined is
//     reported too, kind "unknown" — conservative), with file, enclosing function and the go/printer text of
//     the whole statement, whitespace-normalised, plus its sha256 prefix;
//   - every other hazard: wall clock (time.Now …), math/rand, crypto/rand, os / ioutil / filepath / exec /
//     syscall / mmap, `go` statements, select, channel operations, unsafe, runtime.*, sync.* (Pool, Map,
//     mutexes …), reflect.*, floating-point arithmetic / conversions / math.* functions, json.Marshal of a
//     map-containing value (ordered, reported as a note).
//
// Scope: non-test .go files under app/ x/ adapter/ syscontracts/ types/ ibc/ except client/cli, simulation,
// testing, *_test.go, *.pb.go, *.pb.gw.go and files excluded by build constraints under the default tags
// (the verif hooks).  Type information: the scope packages are type-checked from source; their imports come
// from the compiler's export data (`go list -export -deps`, offline, warm build cache ~1 s).
//
// The output carries the sha256 of all inputs; when it is unchanged the translator exits immediately.
package main

import (
	"bytes"
	"crypto/sha256"
	"encoding/hex"
	"encoding/json"
	"flag"
	"fmt"
	"go/ast"
	"go/build"
	"go/importer"
	"go/parser"
	"go/printer"
	"go/token"
	"go/types"
	"io"
	"os"
	"os/exec"
	"path/filepath"
	"regexp"
	"sort"
	"strings"
)

const version = "hazards-v10"

var scopeDirs = []string{"app", "x", "adapter", "syscontracts", "types", "ibc"}

type site struct {
	File, Func, Kind, Hash, FnHash, Text string
}

type hazard struct {
	File, Func, Kind, Detail string
	Count                    int
}

func die(f string, a ...interface{}) {
	fmt.Fprintf(os.Stderr, "hazards: "+f+"\n", a...)
	os.Exit(1)
}

func inScope(rel string) bool {
	rel = filepath.ToSlash(rel)
	if !strings.HasSuffix(rel, ".go") || strings.HasSuffix(rel, "_test.go") || strings.HasSuffix(rel, ".pb.go") ||
		strings.HasSuffix(rel, ".pb.gw.go") {
		return false
	}
	p := "/" + rel
	for _, ex := range []string{"/client/cli/", "/simulation/", "/testing/"} {
		if strings.Contains(p, ex) {
			return false
		}
	}
	return true
}

type listPkg struct {
	ImportPath string
	Dir        string
	Export     string
	GoFiles    []string
	CgoFiles   []string
	Standard   bool
	Error      *struct{ Err string }
}

func main() {
	repo := flag.String("repo", "/repo", "source tree")
	out := flag.String("out", "", "output directory (coq/theories/Gen)")
	force := flag.Bool("force", false, "ignore the input hash")
	flag.Parse()
	if *out == "" {
		die("missing -out")
	}
	repoAbs, err := filepath.Abs(*repo)
	if err != nil {
		die("%v", err)
	}

	// ---- scope files + input hash -----------------------------------------------------------------
	ctx := build.Default
	ctx.CgoEnabled = true
	var files []string // relative, slash-separated
	for _, d := range scopeDirs {
		root := filepath.Join(repoAbs, d)
		filepath.Walk(root, func(p string, fi os.FileInfo, err error) error {
			if err != nil || fi.IsDir() {
				return nil
			}
			rel, _ := filepath.Rel(repoAbs, p)
			if !inScope(rel) {
				return nil
			}
			ok, err := ctx.MatchFile(filepath.Dir(p), filepath.Base(p))
			if err != nil || !ok {
				return nil
			}
			files = append(files, filepath.ToSlash(rel))
			return nil
		})
	}
	sort.Strings(files)
	if len(files) == 0 {
		die("no Go files in scope under %s", repoAbs)
	}
	h := sha256.New()
	io.WriteString(h, version+"\n")
	gomod, err := os.ReadFile(filepath.Join(repoAbs, "go.mod"))
	if err != nil {
		die("%v", err)
	}
	h.Write(gomod)
	// every .go file of the scope packages takes part in type checking: hash all of them (incl. *.pb.go)
	dirs := map[string]bool{}
	for _, f := range files {
		dirs[filepath.Dir(f)] = true
	}
	var dirList []string
	for d := range dirs {
		dirList = append(dirList, d)
	}
	sort.Strings(dirList)
	for _, d := range dirList {
		ents, _ := os.ReadDir(filepath.Join(repoAbs, d))
		for _, e := range ents {
			if e.IsDir() || !strings.HasSuffix(e.Name(), ".go") || strings.HasSuffix(e.Name(), "_test.go") {
				continue
			}
			b, err := os.ReadFile(filepath.Join(repoAbs, d, e.Name()))
			if err != nil {
				die("%v", err)
			}
			fmt.Fprintf(h, "%s/%s %d\n", d, e.Name(), len(b))
			h.Write(b)
		}
	}
	inputHash := hex.EncodeToString(h.Sum(nil))
	outFile := filepath.Join(*out, "HazardsGen.v")
	if old, err := os.ReadFile(outFile); err == nil && !*force {
		if bytes.Contains(old, []byte("(* input-hash: "+inputHash+" *)")) {
			return
		}
	}

	// ---- export data of all dependencies ----------------------------------------------------------
	modPath := modulePath(gomod)
	pkgs := goList(repoAbs, modPath, gomod, dirList)
	exports := map[string]string{}
	byPath := map[string]*listPkg{}
	for _, p := range pkgs {
		if p.Export != "" {
			exports[p.ImportPath] = p.Export
		}
		byPath[p.ImportPath] = p
	}
	fset := token.NewFileSet()
	imp := importer.ForCompiler(fset, "gc", func(path string) (io.ReadCloser, error) {
		e, ok := exports[path]
		if !ok {
			return nil, fmt.Errorf("no export data for %s", path)
		}
		return os.Open(e)
	})

	// ---- type-check each scope package from source and walk it ------------------------------------
	var sites []site
	hz := map[[4]string]int{}
	typeErrs := 0
	var firstErrs []string
	nRange := 0
	for _, d := range dirList {
		ip := modPath + "/" + filepath.ToSlash(d)
		lp := byPath[ip]
		if lp == nil {
			die("go list did not return package %s", ip)
		}
		if lp.Error != nil {
			die("package %s: %s", ip, lp.Error.Err)
		}
		var asts []*ast.File
		names := append(append([]string{}, lp.GoFiles...), lp.CgoFiles...)
		sort.Strings(names)
		inv := map[*ast.File]string{}
		for _, n := range names {
			f, err := parser.ParseFile(fset, filepath.Join(repoAbs, d, n), nil, parser.SkipObjectResolution)
			if err != nil {
				die("parse %s/%s: %v", d, n, err)
			}
			asts = append(asts, f)
			rel := filepath.ToSlash(filepath.Join(d, n))
			if inScope(rel) {
				inv[f] = rel
			}
		}
		info := &types.Info{Types: map[ast.Expr]types.TypeAndValue{}, Uses: map[*ast.Ident]types.Object{},
			Defs: map[*ast.Ident]types.Object{}, Selections: map[*ast.SelectorExpr]*types.Selection{}}
		conf := types.Config{Importer: imp, FakeImportC: true, Error: func(err error) {
			typeErrs++
			if len(firstErrs) < 5 {
				firstErrs = append(firstErrs, err.Error())
			}
		}}
		conf.Check(ip, fset, asts, info)
		for _, f := range asts {
			rel, ok := inv[f]
			if !ok {
				continue
			}
			w := &walker{fset: fset, info: info, file: rel, hz: hz}
			w.walkFile(f)
			sites = append(sites, w.sites...)
			nRange += w.nRange
		}
	}
	sort.Slice(sites, func(i, j int) bool {
		a, b := sites[i], sites[j]
		if a.File != b.File {
			return a.File < b.File
		}
		if a.Func != b.Func {
			return a.Func < b.Func
		}
		return a.Text < b.Text
	})
	var hazards []hazard
	for k, c := range hz {
		hazards = append(hazards, hazard{k[0], k[1], k[2], k[3], c})
	}
	sort.Slice(hazards, func(i, j int) bool {
		a, b := hazards[i], hazards[j]
		return a.File+"\x00"+a.Func+"\x00"+a.Kind+"\x00"+a.Detail < b.File+"\x00"+b.Func+"\x00"+b.Kind+"\x00"+b.Detail
	})

	// ---- emit -------------------------------------------------------------------------------------
	var b bytes.Buffer
	fmt.Fprintf(&b, "(* GENERATED by tools/gotocoq/hazards from the Go source tree — do not edit. *)\n")
	fmt.Fprintf(&b, "(* input-hash: %s *)\n", inputHash)
	fmt.Fprintf(&b, "From Coq Require Import String List NArith.\nImport ListNotations.\nLocal Open Scope string_scope.\n\n")
	fmt.Fprintf(&b, "(* files scanned / range statements seen / go/types errors (must be 0: otherwise classification is unreliable) *)\n")
	fmt.Fprintf(&b, "Definition files_scanned : N := %d%%N.\nDefinition range_statements : N := %d%%N.\nDefinition typecheck_errors : N := %d%%N.\n", len(files), nRange, typeErrs)
	for _, e := range firstErrs {
		fmt.Fprintf(&b, "(* type error: %s *)\n", strings.ReplaceAll(strings.ReplaceAll(e, "(*", "( *"), "*)", "* )"))
	}
	fmt.Fprintf(&b, "\n(* range over a map (kind \"map\") or over an expression of undetermined type (kind \"unknown\"):\n   (file, function, kind, sha256 prefix of the normalised statement, sha256 prefix of the normalised enclosing\n   function declaration — what happens to the loop's result afterwards (e.g. a sort) is part of the obligation —,\n   normalised statement) *)\n")
	fmt.Fprintf(&b, "Definition map_range_sites : list (string * string * string * string * string * string) := [\n")
	for i, s := range sites {
		sep := ";"
		if i == len(sites)-1 {
			sep = ""
		}
		fmt.Fprintf(&b, "  (%s, %s, %s, %s, %s,\n   %s)%s\n", q(s.File), q(s.Func), q(s.Kind), q(s.Hash), q(s.FnHash), q(s.Text), sep)
	}
	fmt.Fprintf(&b, "].\n\n(* every other construct whose value is not a function of the block inputs:\n   (file, function, kind, detail, number of occurrences in that function) *)\n")
	fmt.Fprintf(&b, "Definition other_hazards : list (string * string * string * string * N) := [\n")
	for i, z := range hazards {
		sep := ";"
		if i == len(hazards)-1 {
			sep = ""
		}
		fmt.Fprintf(&b, "  (%s, %s, %s, %s, %d%%N)%s\n", q(z.File), q(z.Func), q(z.Kind), q(z.Detail), z.Count, sep)
	}
	fmt.Fprintf(&b, "].\n")
	if err := os.MkdirAll(*out, 0o755); err != nil {
		die("%v", err)
	}
	if old, err := os.ReadFile(outFile); err == nil && bytes.Equal(old, b.Bytes()) {
		return
	}
	tmp := outFile + ".tmp"
	if err := os.WriteFile(tmp, b.Bytes(), 0o644); err != nil {
		die("%v", err)
	}
	if err := os.Rename(tmp, outFile); err != nil {
		die("%v", err)
	}
}

func q(s string) string {
	var b strings.Builder
	b.WriteByte('"')
	for i := 0; i < len(s); i++ {
		c := s[i]
		switch {
		case c == '"':
			b.WriteString(`""`)
		case c < 32 || c > 126:
			fmt.Fprintf(&b, "\\x%02x", c) // kept readable; never interpreted (Coq has no escapes): only identity matters
		default:
			b.WriteByte(c)
		}
	}
	b.WriteByte('"')
	// keep comment delimiters out of string literals (only the identity of the text matters; hashes are taken before)
	return strings.ReplaceAll(strings.ReplaceAll(b.String(), "(*", "( *"), "*)", "* )")
}

func modulePath(gomod []byte) string {
	m := regexp.MustCompile(`(?m)^module\s+(\S+)`).FindSubmatch(gomod)
	if m == nil {
		die("no module line in go.mod")
	}
	return string(m[1])
}

// goList runs `go list -export -deps -json` from a scratch module that requires the tree through a replace
// directive (the same construction as the harness module), so nothing is ever written into the tree itself.
func goList(repo, modPath string, gomod []byte, dirs []string) []*listPkg {
	tmp, err := os.MkdirTemp("", "hazards-mod-")
	if err != nil {
		die("%v", err)
	}
	defer os.RemoveAll(tmp)
	body := string(gomod)
	if i := strings.Index(body, "\n"); i >= 0 {
		body = body[i+1:]
	}
	body = regexp.MustCompile(`(?m)^module .*$`).ReplaceAllString(body, "")
	mod := "module hazardsscan\n" + body + "\nrequire " + modPath + " v0.0.0\nreplace " + modPath + " => " + repo + "\n"
	if err := os.WriteFile(filepath.Join(tmp, "go.mod"), []byte(mod), 0o644); err != nil {
		die("%v", err)
	}
	if sum, err := os.ReadFile(filepath.Join(repo, "go.sum")); err == nil {
		os.WriteFile(filepath.Join(tmp, "go.sum"), sum, 0o644)
	}
	args := []string{"list", "-export", "-deps", "-json=ImportPath,Dir,Export,GoFiles,CgoFiles,Standard,Error"}
	for _, d := range dirs {
		args = append(args, modPath+"/"+filepath.ToSlash(d))
	}
	cmd := exec.Command("go", args...)
	cmd.Dir = tmp
	cmd.Env = append(os.Environ(), "GOFLAGS=-mod=mod", "GOPROXY=off", "GOSUMDB=off", "GOTOOLCHAIN=local", "GOWORK=off")
	var stderr bytes.Buffer
	cmd.Stderr = &stderr
	outb, err := cmd.Output()
	if err != nil {
		die("go list failed: %v\n%s", err, tail(stderr.String(), 3000))
	}
	var res []*listPkg
	dec := json.NewDecoder(bytes.NewReader(outb))
	for {
		p := &listPkg{}
		if err := dec.Decode(p); err == io.EOF {
			break
		} else if err != nil {
			die("go list output: %v", err)
		}
		res = append(res, p)
	}
	return res
}

func tail(s string, n int) string {
	if len(s) > n {
		return s[len(s)-n:]
	}
	return s
}

// ---------------------------------------------------------------------------------------------------

type walker struct {
	fset   *token.FileSet
	info   *types.Info
	file   string
	fn     string
	fnHash string
	sites  []site
	hz     map[[4]string]int
	nRange int
}

func (w *walker) add(kind, detail string) {
	w.hz[[4]string{w.file, w.fn, kind, detail}]++
}

func recvName(fd *ast.FuncDecl) string {
	if fd.Recv == nil || len(fd.Recv.List) == 0 {
		return fd.Name.Name
	}
	// "T.m" for a value receiver, "*T.m" for a pointer receiver (no parentheses: "(*" would open a comment for
	// tools that strip Coq comments without lexing strings)
	var b bytes.Buffer
	printer.Fprint(&b, token.NewFileSet(), fd.Recv.List[0].Type)
	return b.String() + "." + fd.Name.Name
}

func (w *walker) walkFile(f *ast.File) {
	for _, d := range f.Decls {
		switch d := d.(type) {
		case *ast.FuncDecl:
			w.fn = recvName(d)
			fsum := sha256.Sum256([]byte(w.norm(&ast.FuncDecl{Recv: d.Recv, Name: d.Name, Type: d.Type, Body: d.Body})))
			w.fnHash = hex.EncodeToString(fsum[:8])
			if d.Body != nil {
				ast.Inspect(d.Body, w.visit)
			}
			if d.Type != nil {
				ast.Inspect(d.Type, w.visit)
			}
		case *ast.GenDecl:
			for _, sp := range d.Specs {
				switch sp := sp.(type) {
				case *ast.ValueSpec:
					nm := "_"
					if len(sp.Names) > 0 {
						nm = sp.Names[0].Name
					}
					w.fn = "<package-level " + nm + ">"
					vsum := sha256.Sum256([]byte(w.norm(sp)))
					w.fnHash = hex.EncodeToString(vsum[:8])
					ast.Inspect(sp, w.visit)
				case *ast.TypeSpec:
					w.fn = "<type " + sp.Name.Name + ">"
					ast.Inspect(sp, w.visit)
				}
			}
		}
	}
}

var ws = regexp.MustCompile(`\s+`)

func (w *walker) norm(n ast.Node) string {
	var b bytes.Buffer
	cfg := printer.Config{Mode: printer.RawFormat, Tabwidth: 1}
	cfg.Fprint(&b, w.fset, n)
	return strings.TrimSpace(ws.ReplaceAllString(b.String(), " "))
}

// hazardous packages: import path -> kind; a nil selector set means every exported member counts
var pkgKinds = map[string]string{
	"math/rand": "math-rand", "crypto/rand": "crypto-rand", "os": "os", "io/ioutil": "ioutil", "path/filepath": "filepath",
	"os/exec": "os-exec", "os/user": "os-user", "os/signal": "os-signal", "syscall": "syscall", "unsafe": "unsafe",
	"runtime": "runtime", "runtime/debug": "runtime", "sync": "sync", "sync/atomic": "sync", "reflect": "reflect",
	"github.com/edsrzf/mmap-go": "mmap", "net": "net", "io/fs": "os", "embed": "os",
}

var timeFuncs = map[string]bool{"Now": true, "Since": true, "Until": true, "After": true, "Tick": true, "NewTimer": true,
	"NewTicker": true, "Sleep": true, "AfterFunc": true}

func isFloat(t types.Type) bool {
	if t == nil {
		return false
	}
	b, ok := t.Underlying().(*types.Basic)
	return ok && b.Info()&(types.IsFloat|types.IsComplex) != 0
}

func containsMap(t types.Type, depth int, seen map[types.Type]bool) bool {
	if t == nil || depth > 6 || seen[t] {
		return false
	}
	seen[t] = true
	switch u := t.Underlying().(type) {
	case *types.Map:
		return true
	case *types.Pointer:
		return containsMap(u.Elem(), depth+1, seen)
	case *types.Slice:
		return containsMap(u.Elem(), depth+1, seen)
	case *types.Array:
		return containsMap(u.Elem(), depth+1, seen)
	case *types.Struct:
		for i := 0; i < u.NumFields(); i++ {
			if containsMap(u.Field(i).Type(), depth+1, seen) {
				return true
			}
		}
	}
	return false
}

func (w *walker) visit(n ast.Node) bool {
	switch n := n.(type) {
	case *ast.RangeStmt:
		w.nRange++
		t := w.info.TypeOf(n.X)
		kind := ""
		if t == nil || t == types.Typ[types.Invalid] {
			kind = "unknown"
		} else {
			switch u := t.Underlying().(type) {
			case *types.Map:
				kind = "map"
			case *types.Chan:
				w.add("chan-op", "range")
			case *types.Basic:
				if u.Kind() == types.Invalid {
					kind = "unknown"
				}
			case *types.Interface: // type parameter or the like
				kind = "unknown"
			}
		}
		if kind != "" {
			txt := w.norm(n)
			sum := sha256.Sum256([]byte(txt))
			w.sites = append(w.sites, site{w.file, w.fn, kind, hex.EncodeToString(sum[:8]), w.fnHash, txt})
		}
	case *ast.GoStmt:
		w.add("go-stmt", "go")
	case *ast.SelectStmt:
		w.add("select", "select")
	case *ast.SendStmt:
		w.add("chan-op", "send")
	case *ast.UnaryExpr:
		if n.Op == token.ARROW {
			w.add("chan-op", "recv")
		}
	case *ast.ChanType:
		w.add("chan-op", "chan-type")
	case *ast.BinaryExpr:
		switch n.Op {
		case token.ADD, token.SUB, token.MUL, token.QUO, token.LSS, token.GTR, token.LEQ, token.GEQ, token.EQL, token.NEQ:
			tv, ok := w.info.Types[n]
			if ok && tv.Value != nil {
				break // constant expression, folded exactly by the compiler
			}
			if isFloat(w.info.TypeOf(n.X)) || isFloat(w.info.TypeOf(n.Y)) {
				w.add("float", "arith "+n.Op.String())
			}
		}
	case *ast.AssignStmt:
		switch n.Tok {
		case token.ADD_ASSIGN, token.SUB_ASSIGN, token.MUL_ASSIGN, token.QUO_ASSIGN:
			if len(n.Lhs) == 1 && isFloat(w.info.TypeOf(n.Lhs[0])) {
				w.add("float", "arith "+n.Tok.String())
			}
		}
	case *ast.CallExpr:
		// conversion to a float type of a non-constant value
		if tv, ok := w.info.Types[n.Fun]; ok && tv.IsType() && isFloat(tv.Type) {
			if atv, ok := w.info.Types[n]; !ok || atv.Value == nil {
				w.add("float", "conversion to "+tv.Type.String())
			}
		}
		// conversion FROM float to integer of a non-constant value
		if tv, ok := w.info.Types[n.Fun]; ok && tv.IsType() && !isFloat(tv.Type) && len(n.Args) == 1 && isFloat(w.info.TypeOf(n.Args[0])) {
			if atv, ok := w.info.Types[n]; !ok || atv.Value == nil {
				w.add("float", "conversion from float to "+tv.Type.String())
			}
		}
		// builtin close / make(chan)
		if id, ok := n.Fun.(*ast.Ident); ok {
			if _, isB := w.info.Uses[id].(*types.Builtin); isB && id.Name == "close" {
				w.add("chan-op", "close")
			}
		}
		// cosmos-sdk typed events: v0.45.2 TypedEventToEvent builds the attribute list by ranging over a Go map
		if sel, ok := n.Fun.(*ast.SelectorExpr); ok {
			if obj, ok := w.info.Uses[sel.Sel].(*types.Func); ok && obj.Pkg() != nil && obj.Pkg().Path() == "github.com/cosmos/cosmos-sdk/types" {
				switch obj.Name() {
				case "EmitTypedEvent", "EmitTypedEvents", "TypedEventToEvent":
					w.add("sdk-typed-event", "sdk."+obj.Name()+" (attribute order = map iteration order in cosmos-sdk v0.45.2)")
				}
			}
		}
		// json.Marshal & friends on a value whose type contains a map: ordered by key (deterministic) — a note
		if sel, ok := n.Fun.(*ast.SelectorExpr); ok {
			if obj, ok := w.info.Uses[sel.Sel].(*types.Func); ok && obj.Pkg() != nil && obj.Pkg().Path() == "encoding/json" {
				for _, a := range n.Args {
					if containsMap(w.info.TypeOf(a), 0, map[types.Type]bool{}) {
						w.add("json-map", "json."+obj.Name()+" of a map-containing value (encoding/json sorts map keys)")
					}
				}
			}
		}
	case *ast.SelectorExpr:
		id, ok := n.X.(*ast.Ident)
		if !ok {
			break
		}
		pn, ok := w.info.Uses[id].(*types.PkgName)
		if !ok {
			break
		}
		path := pn.Imported().Path()
		if k, ok := pkgKinds[path]; ok {
			w.add(k, path+"."+n.Sel.Name)
			break
		}
		switch path {
		case "time":
			if timeFuncs[n.Sel.Name] {
				w.add("wall-clock", "time."+n.Sel.Name)
			}
		case "math", "math/cmplx":
			if _, isFn := w.info.Uses[n.Sel].(*types.Func); isFn {
				w.add("float", path+"."+n.Sel.Name)
			}
		case "math/big":
			if n.Sel.Name == "Float" || n.Sel.Name == "NewFloat" || n.Sel.Name == "ParseFloat" {
				w.add("float", "big."+n.Sel.Name+" (software floating point: deterministic, reported for review)")
			}
		case "strconv":
			if n.Sel.Name == "ParseFloat" || n.Sel.Name == "FormatFloat" {
				w.add("float", "strconv."+n.Sel.Name)
			}
		}
	case *ast.ImportSpec:
		return false
	}
	return true
}
