// abischema: regenerates the ABI schemas of the XIBC packet encodings -> Gen/AbiSchemaGen.v
//
// Sources (relative to -repo), package x/xibc/core/packet/types:
//
//	evm.go      : every `X, err := abi.NewType("tuple", "", []abi.ArgumentMarshaling{{Name: .., Type: ..}, ...})`
//	              and the package variable the result is finally assigned to (TuplePacketData = tuplePacketData)
//	packet.go   : methods ABIPack / ABIDecode: receiver struct and the tuple variable in
//	              abi.Arguments{{Type: TupleX}}.Pack / .Unpack
//	*.go        : the receiver structs (packet.pb.go: Packet, Acknowledgement, TransferData, CallData; packet.go:
//	              Result): field names, Go types, raw json tags
//
// Subset handled (anything else => exit 1): component types uint64 / string / bytes with ASCII names
// [A-Za-z0-9_]+, no nested components, no `abi:` struct tags, struct field types uint64 / string / []byte.
package main

import (
	"bytes"
	"flag"
	"fmt"
	"go/ast"
	"go/parser"
	"go/token"
	"os"
	"path/filepath"
	"reflect"
	"regexp"
	"sort"
	"strconv"
	"strings"
)

func die(f string, a ...interface{}) {
	fmt.Fprintf(os.Stderr, "abischema: "+f+"\n", a...)
	os.Exit(1)
}

const dir = "x/xibc/core/packet/types"

// the five encodings of property C19: output name -> receiver struct
var wanted = []struct{ out, recv string }{
	{"packet", "Packet"}, {"ack", "Acknowledgement"}, {"transfer_data", "TransferData"},
	{"call_data", "CallData"}, {"result", "Result"},
}

type tfield struct{ name, ty string }
type sfield struct {
	goName string
	tag    string
	hasTag bool
	ty     string
}

var nameRe = regexp.MustCompile(`^[A-Za-z0-9_]+$`)

func coqBytes(s string) string {
	if len(s) == 0 {
		return "[]"
	}
	parts := make([]string, len(s))
	for i := 0; i < len(s); i++ {
		parts[i] = fmt.Sprintf("x%02x", s[i])
	}
	return "[" + strings.Join(parts, ";") + "]"
}

func coqTy(t string, where string) string {
	switch t {
	case "uint64":
		return "TU64"
	case "string":
		return "TStr"
	case "bytes", "[]byte":
		return "TBytes"
	}
	die("%s: type %q is outside the translator's subset (uint64, string, bytes)", where, t)
	return ""
}

func typeString(e ast.Expr) string {
	switch e := e.(type) {
	case *ast.Ident:
		return e.Name
	case *ast.SelectorExpr:
		return typeString(e.X) + "." + e.Sel.Name
	case *ast.ArrayType:
		if e.Len == nil {
			return "[]" + typeString(e.Elt)
		}
	case *ast.StarExpr:
		return "*" + typeString(e.X)
	}
	return "?"
}

func recvName(e ast.Expr) string {
	switch e := e.(type) {
	case *ast.StarExpr:
		return recvName(e.X)
	case *ast.Ident:
		return e.Name
	}
	return "?"
}

func main() {
	repo := flag.String("repo", "/repo", "source tree")
	out := flag.String("out", "", "output directory (coq/theories/Gen)")
	flag.Parse()
	if *out == "" {
		die("-out required")
	}
	fset := token.NewFileSet()
	ents, err := os.ReadDir(filepath.Join(*repo, dir))
	if err != nil {
		die("%v", err)
	}
	var files []*ast.File
	for _, e := range ents {
		n := e.Name()
		if e.IsDir() || !strings.HasSuffix(n, ".go") || strings.HasSuffix(n, "_test.go") || strings.HasSuffix(n, "_verif.go") ||
			strings.HasSuffix(n, ".pb.gw.go") {
			continue
		}
		f, err := parser.ParseFile(fset, filepath.Join(*repo, dir, n), nil, 0)
		if err != nil {
			die("parse %s: %v", n, err)
		}
		files = append(files, f)
	}

	// 1. tuples: local variable := abi.NewType("tuple", "", []abi.ArgumentMarshaling{...}); Global = local
	tuples := map[string][]tfield{} // by package variable
	for _, f := range files {
		for _, d := range f.Decls {
			fd, ok := d.(*ast.FuncDecl)
			if !ok || fd.Body == nil {
				continue
			}
			locals := map[string][]tfield{}
			ast.Inspect(fd.Body, func(n ast.Node) bool {
				as, ok := n.(*ast.AssignStmt)
				if !ok {
					return true
				}
				// x, err := abi.NewType(...)
				if len(as.Rhs) == 1 {
					if call, ok := as.Rhs[0].(*ast.CallExpr); ok {
						if se, ok := call.Fun.(*ast.SelectorExpr); ok && se.Sel.Name == "NewType" {
							if id, ok := se.X.(*ast.Ident); ok && id.Name == "abi" {
								pos := fset.Position(call.Pos())
								if len(call.Args) != 3 {
									die("%s: abi.NewType with %d arguments", pos, len(call.Args))
								}
								k, ok := call.Args[0].(*ast.BasicLit)
								if !ok || k.Value != `"tuple"` {
									die("%s: abi.NewType of something other than \"tuple\"", pos)
								}
								cl, ok := call.Args[2].(*ast.CompositeLit)
								if !ok {
									die("%s: components are not a composite literal", pos)
								}
								var fields []tfield
								for _, el := range cl.Elts {
									c, ok := el.(*ast.CompositeLit)
									if !ok {
										die("%s: component is not a composite literal", pos)
									}
									var tf tfield
									for _, kvE := range c.Elts {
										kv, ok := kvE.(*ast.KeyValueExpr)
										if !ok {
											die("%s: positional ArgumentMarshaling fields", pos)
										}
										key := kv.Key.(*ast.Ident).Name
										lit, ok := kv.Value.(*ast.BasicLit)
										if !ok || lit.Kind != token.STRING {
											die("%s: ArgumentMarshaling.%s is not a string literal (nested components are outside the subset)", pos, key)
										}
										v, _ := strconv.Unquote(lit.Value)
										switch key {
										case "Name":
											tf.name = v
										case "Type":
											tf.ty = v
										case "InternalType":
										default:
											die("%s: ArgumentMarshaling.%s outside the subset", pos, key)
										}
									}
									if !nameRe.MatchString(tf.name) {
										die("%s: component name %q outside the subset [A-Za-z0-9_]+", pos, tf.name)
									}
									fields = append(fields, tf)
								}
								seen := map[string]bool{}
								for _, tf := range fields {
									if seen[tf.name] {
										die("%s: duplicate component name %q", pos, tf.name)
									}
									seen[tf.name] = true
								}
								if len(as.Lhs) < 1 {
									die("%s: NewType result not assigned", pos)
								}
								if id, ok := as.Lhs[0].(*ast.Ident); ok {
									locals[id.Name] = fields
								}
								return true
							}
						}
					}
				}
				// Global = local
				if len(as.Lhs) == 1 && len(as.Rhs) == 1 && as.Tok == token.ASSIGN {
					l, ok1 := as.Lhs[0].(*ast.Ident)
					r, ok2 := as.Rhs[0].(*ast.Ident)
					if ok1 && ok2 {
						if fl, ok := locals[r.Name]; ok {
							if _, dup := tuples[l.Name]; dup {
								die("%s: tuple variable %s assigned twice", fset.Position(as.Pos()), l.Name)
							}
							tuples[l.Name] = fl
						}
					}
				}
				return true
			})
		}
	}

	// 2. ABIPack / ABIDecode methods: receiver -> tuple variable
	packOf, unpackOf := map[string]string{}, map[string]string{}
	for _, f := range files {
		for _, d := range f.Decls {
			fd, ok := d.(*ast.FuncDecl)
			if !ok || fd.Recv == nil || fd.Body == nil || (fd.Name.Name != "ABIPack" && fd.Name.Name != "ABIDecode") {
				continue
			}
			recv := recvName(fd.Recv.List[0].Type)
			var found []string
			var method string
			ast.Inspect(fd.Body, func(n ast.Node) bool {
				call, ok := n.(*ast.CallExpr)
				if !ok {
					return true
				}
				se, ok := call.Fun.(*ast.SelectorExpr)
				if !ok || (se.Sel.Name != "Pack" && se.Sel.Name != "Unpack") {
					return true
				}
				cl, ok := se.X.(*ast.CompositeLit)
				if !ok || typeString(cl.Type) != "abi.Arguments" {
					return true
				}
				pos := fset.Position(call.Pos())
				if len(cl.Elts) != 1 {
					die("%s: abi.Arguments with %d arguments (exactly one tuple expected)", pos, len(cl.Elts))
				}
				arg, ok := cl.Elts[0].(*ast.CompositeLit)
				if !ok || len(arg.Elts) != 1 {
					die("%s: abi.Argument literal outside the subset", pos)
				}
				kv, ok := arg.Elts[0].(*ast.KeyValueExpr)
				if !ok || kv.Key.(*ast.Ident).Name != "Type" {
					die("%s: abi.Argument literal outside the subset", pos)
				}
				id, ok := kv.Value.(*ast.Ident)
				if !ok {
					die("%s: abi.Argument Type is not a package variable", pos)
				}
				found = append(found, id.Name)
				method = se.Sel.Name
				return true
			})
			if len(found) != 1 {
				die("%s.%s: %d abi.Arguments{...}.Pack/Unpack calls (exactly one expected)", recv, fd.Name.Name, len(found))
			}
			if fd.Name.Name == "ABIPack" {
				if method != "Pack" {
					die("%s.ABIPack does not call Pack", recv)
				}
				packOf[recv] = found[0]
			} else {
				if method != "Unpack" {
					die("%s.ABIDecode does not call Unpack", recv)
				}
				// the JSON re-mapping step must be there: json.Marshal(dataBz[0]) ; json.Unmarshal(bzTmp, &recv)
				var marshal, unmarshal bool
				ast.Inspect(fd.Body, func(n ast.Node) bool {
					if call, ok := n.(*ast.CallExpr); ok {
						if se, ok := call.Fun.(*ast.SelectorExpr); ok {
							if id, ok := se.X.(*ast.Ident); ok && id.Name == "json" {
								marshal = marshal || se.Sel.Name == "Marshal"
								unmarshal = unmarshal || se.Sel.Name == "Unmarshal"
							}
						}
					}
					return true
				})
				if !marshal || !unmarshal {
					die("%s.ABIDecode no longer converts through json.Marshal / json.Unmarshal: the model's re-mapping step does not apply", recv)
				}
				unpackOf[recv] = found[0]
			}
		}
	}

	// 3. structs
	structs := map[string][]sfield{}
	for _, f := range files {
		for _, d := range f.Decls {
			gd, ok := d.(*ast.GenDecl)
			if !ok || gd.Tok != token.TYPE {
				continue
			}
			for _, sp := range gd.Specs {
				ts := sp.(*ast.TypeSpec)
				st, ok := ts.Type.(*ast.StructType)
				if !ok {
					continue
				}
				need := false
				for _, w := range wanted {
					need = need || w.recv == ts.Name.Name
				}
				if !need {
					continue
				}
				var fields []sfield
				for _, fl := range st.Fields.List {
					if len(fl.Names) == 0 {
						die("struct %s: embedded field outside the subset", ts.Name.Name)
					}
					for _, nm := range fl.Names {
						if !ast.IsExported(nm.Name) {
							continue // invisible to both abi and encoding/json
						}
						sf := sfield{goName: nm.Name, ty: typeString(fl.Type)}
						if fl.Tag != nil {
							raw, _ := strconv.Unquote(fl.Tag.Value)
							stag := reflect.StructTag(raw)
							if _, has := stag.Lookup("abi"); has {
								die("struct %s.%s: `abi:` tag outside the subset", ts.Name.Name, nm.Name)
							}
							if v, has := stag.Lookup("json"); has {
								sf.tag, sf.hasTag = v, true
							}
						}
						fields = append(fields, sf)
					}
				}
				// encoding/json drops BOTH of two fields with the same JSON name: outside the subset
				seenJSON := map[string]bool{}
				for _, f := range fields {
					n := f.goName
					if f.hasTag {
						if f.tag == "-" {
							continue
						}
						if t := strings.Split(f.tag, ",")[0]; t != "" {
							n = t
						}
					}
					if seenJSON[strings.ToUpper(n)] {
						die("struct %s: two fields share the JSON name %q (case-insensitively): outside the subset", ts.Name.Name, n)
					}
					seenJSON[strings.ToUpper(n)] = true
				}
				structs[ts.Name.Name] = fields
			}
		}
	}

	var b bytes.Buffer
	b.WriteString("(* GENERATED by tools/gotocoq/abischema from x/xibc/core/packet/types -- do not edit. *)\n")
	b.WriteString("From Teleport Require Import Base.Bytes Base.AbiSchema.\n\n")
	tnames := make([]string, 0, len(tuples))
	for n := range tuples {
		tnames = append(tnames, n)
	}
	sort.Strings(tnames)
	for _, n := range tnames {
		var parts []string
		var human []string
		for _, tf := range tuples[n] {
			parts = append(parts, fmt.Sprintf("{| tf_name := %s; tf_ty := %s |}", coqBytes(tf.name), coqTy(tf.ty, "tuple "+n+"."+tf.name)))
			human = append(human, tf.name+":"+tf.ty)
		}
		fmt.Fprintf(&b, "(* evm.go %s = (%s) *)\nDefinition tuple_%s : list tfield :=\n  [%s].\n\n", n, strings.Join(human, ", "), n, strings.Join(parts, ";\n   "))
	}
	for _, w := range wanted {
		sf, ok := structs[w.recv]
		if !ok {
			die("struct %s not found", w.recv)
		}
		pk, ok1 := packOf[w.recv]
		up, ok2 := unpackOf[w.recv]
		if !ok1 || !ok2 {
			die("%s: ABIPack / ABIDecode method not found", w.recv)
		}
		if _, ok := tuples[pk]; !ok {
			die("%s.ABIPack uses %s, which is not a tuple built by abi.NewType in this package", w.recv, pk)
		}
		if _, ok := tuples[up]; !ok {
			die("%s.ABIDecode uses %s, which is not a tuple built by abi.NewType in this package", w.recv, up)
		}
		var parts, human []string
		for _, f := range sf {
			tag := "None"
			if f.hasTag {
				tag = "(Some " + coqBytes(f.tag) + ")"
			}
			parts = append(parts, fmt.Sprintf("{| sf_go := %s; sf_tag := %s; sf_ty := %s |}", coqBytes(f.goName), tag,
				coqTy(f.ty, "struct "+w.recv+"."+f.goName)))
			h := f.goName + " " + f.ty
			if f.hasTag {
				h += " json:" + strings.ReplaceAll(f.tag, "\"", "'")
			}
			human = append(human, h)
		}
		fmt.Fprintf(&b, "(* struct %s { %s }; ABIPack: %s; ABIDecode: %s *)\n", w.recv, strings.Join(human, "; "), pk, up)
		fmt.Fprintf(&b, "Definition %s_schema : schema :=\n  {| sc_struct :=\n  [%s];\n     sc_pack := tuple_%s; sc_unpack := tuple_%s |}.\n\n",
			w.out, strings.Join(parts, ";\n   "), pk, up)
	}

	path := filepath.Join(*out, "AbiSchemaGen.v")
	old, err := os.ReadFile(path)
	if err == nil && bytes.Equal(old, b.Bytes()) {
		return
	}
	tmp := path + ".tmp"
	if err := os.WriteFile(tmp, b.Bytes(), 0o644); err != nil {
		die("%v", err)
	}
	if err := os.Rename(tmp, path); err != nil {
		die("%v", err)
	}
}
