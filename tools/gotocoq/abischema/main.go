// abischema: regenerates the ABI schemas of the XIBC packet encodings -> Gen/AbiSchemaGen.v
//
// Sources (relative to -repo), package x/xibc/core/packet/types:
//
//	evm.go      : every `X, err := abi.NewType("tuple", "", []abi.ArgumentMarshaling{{Name: .., Type: ..}, ...})`
//	              and the package variable the result is finally assigned to (TuplePacketData = tuplePacketData)
//	packet.go   : methods ABIPack / ABIDecode: receiver struct and the tuple variable in
//	              abi.Arguments{{Type: TupleX}}.Pack / .Unpack
//	*.go        : the receiver structs (packet.pb.go: Packet, Acknowledgement, TransferData, CallData; packet.go:
//	              Result): field names, Go types, raw json tags
//
// Subset: component types uint64 / string / bytes with ASCII names [A-Za-z0-9_]+, no nested components, no `abi:` struct
// tags, struct field types uint64 / string / []byte.
//
// The tuple an ABIPack / ABIDecode method uses is found by a small symbolic evaluation, not by the shape of the method:
// the `X.Pack(v)` / `X.Unpack(bz)` call may sit in the method itself or in unexported same-package helpers it calls
// (transitively; the tuple type / the abi.Arguments value handed down as a parameter), X may be the literal
// abi.Arguments{{Type: T}}, a local variable or a package variable holding it; T may be a package variable assigned once
// (in an init function from a local, directly from abi.NewType, or by a `var T = f(...)` initialiser), a parameter, a local
// variable, or a call of a same-package function returning the abi.NewType result; the components may be a literal or a
// variable / parameter holding the literal.  The JSON re-mapping step (json.Marshal + json.Unmarshal) may be in the method or
// in a helper.  Degradation is PER TUPLE: when the tuple of one method cannot be determined (or is outside the subset) that
// schema gets a poisoned tuple (a component no struct field matches), so that exactly the obligations of that encoding fail;
// the translator exits non-zero only when the package cannot be read or parsed.
package main

import (
	"bytes"
	"flag"
	"fmt"
	"go/ast"
	"go/parser"
	"go/token"
	"os"
	"path/filepath"
	"reflect"
	"regexp"
	"sort"
	"strconv"
	"strings"
)

func die(f string, a ...interface{}) {
	fmt.Fprintf(os.Stderr, "abischema: "+f+"\n", a...)
	os.Exit(1)
}

const dir = "x/xibc/core/packet/types"

// the five encodings of property C19: output name -> receiver struct
var wanted = []struct{ out, recv string }{
	{"packet", "Packet"}, {"ack", "Acknowledgement"}, {"transfer_data", "TransferData"},
	{"call_data", "CallData"}, {"result", "Result"},
}

type tfield struct{ name, ty string }
type sfield struct {
	goName string
	tag    string
	hasTag bool
	ty     string
}

var nameRe = regexp.MustCompile(`^[A-Za-z0-9_]+$`)

func coqBytes(s string) string {
	if len(s) == 0 {
		return "[]"
	}
	parts := make([]string, len(s))
	for i := 0; i < len(s); i++ {
		parts[i] = fmt.Sprintf("x%02x", s[i])
	}
	return "[" + strings.Join(parts, ";") + "]"
}

func coqTy(t string) (string, bool) {
	switch t {
	case "uint64":
		return "TU64", true
	case "string":
		return "TStr", true
	case "bytes", "[]byte":
		return "TBytes", true
	}
	return "", false
}

func warn(f string, a ...interface{}) { fmt.Fprintf(os.Stderr, "abischema: "+f+"\n", a...) }

func typeString(e ast.Expr) string {
	switch e := e.(type) {
	case *ast.Ident:
		return e.Name
	case *ast.SelectorExpr:
		return typeString(e.X) + "." + e.Sel.Name
	case *ast.ArrayType:
		if e.Len == nil {
			return "[]" + typeString(e.Elt)
		}
	case *ast.StarExpr:
		return "*" + typeString(e.X)
	}
	return "?"
}

func recvName(e ast.Expr) string {
	switch e := e.(type) {
	case *ast.StarExpr:
		return recvName(e.X)
	case *ast.Ident:
		return e.Name
	}
	return "?"
}

// ---------------------------------------------------------------------------------------------
// symbolic evaluation

type scope struct {
	fd     *ast.FuncDecl
	params map[string]bound    // parameter -> the caller's argument
	locals map[string]ast.Expr // local variables assigned exactly once
}

type bound struct {
	e  ast.Expr
	sc *scope
}

type tupleVal struct {
	name   string // the package variable it was reached through ("" = anonymous)
	fields []tfield
}

type world struct {
	fset    *token.FileSet
	files   []*ast.File
	funcs   map[string]*ast.FuncDecl // plain functions
	methods map[string]*ast.FuncDecl // "Recv.Name"
	gvars   map[string]ast.Expr      // package-level var with an initialiser
	gtuples map[string]*tupleVal     // memo (nil entry = undetermined)
	structs map[string][]string      // struct type -> field names in order
	gconsts map[string]string        // package-level string constants
	gdone   map[string]bool
}

func paren(e ast.Expr) ast.Expr {
	for {
		switch v := e.(type) {
		case *ast.ParenExpr:
			e = v.X
		case *ast.UnaryExpr:
			if v.Op != token.AND {
				return e
			}
			e = v.X
		case *ast.StarExpr:
			e = v.X
		default:
			return e
		}
	}
}

// localsOf: x := e, x, err := f(), var x = e  (assigned exactly once)
func localsOf(fd *ast.FuncDecl) map[string]ast.Expr {
	count := map[string]int{}
	val := map[string]ast.Expr{}
	defined := map[string]bool{} // declared inside the function (:= or var), i.e. not a package variable
	if fd.Type.Results != nil {
		for _, r := range fd.Type.Results.List {
			for _, nm := range r.Names {
				defined[nm.Name] = true
			}
		}
	}
	ast.Inspect(fd.Body, func(n ast.Node) bool {
		switch st := n.(type) {
		case *ast.AssignStmt:
			for i, l := range st.Lhs {
				id, ok := l.(*ast.Ident)
				if !ok || id.Name == "_" {
					continue
				}
				count[id.Name]++
				if st.Tok == token.DEFINE {
					defined[id.Name] = true
				}
				switch {
				case len(st.Lhs) == len(st.Rhs):
					val[id.Name] = st.Rhs[i]
				case len(st.Rhs) == 1 && i == 0:
					val[id.Name] = st.Rhs[0] // first result of a multi-valued call
				default:
					val[id.Name] = nil
				}
			}
		case *ast.ValueSpec:
			for i, id := range st.Names {
				defined[id.Name] = true
				switch {
				case i < len(st.Values):
					count[id.Name]++
					val[id.Name] = st.Values[i]
				case len(st.Values) == 1 && i == 0:
					count[id.Name]++
					val[id.Name] = st.Values[0]
				}
			}
		}
		return true
	})
	out := map[string]ast.Expr{}
	for n, c := range count {
		if c == 1 && val[n] != nil && defined[n] {
			out[n] = val[n]
		}
	}
	return out
}

func (w *world) newScope(fd *ast.FuncDecl, args []ast.Expr, caller *scope) *scope {
	sc := &scope{fd: fd, params: map[string]bound{}, locals: localsOf(fd)}
	i := 0
	for _, p := range fd.Type.Params.List {
		for _, nm := range p.Names {
			if i < len(args) {
				sc.params[nm.Name] = bound{args[i], caller}
			}
			i++
		}
		if len(p.Names) == 0 {
			i++
		}
	}
	return sc
}

// the components literal []abi.ArgumentMarshaling{{Name: .., Type: ..}, ...}
func (w *world) components(e ast.Expr, sc *scope, depth int) ([]tfield, bool) {
	if depth > 8 {
		return nil, false
	}
	switch v := paren(e).(type) {
	case *ast.Ident:
		if sc != nil {
			if b, ok := sc.params[v.Name]; ok {
				return w.components(b.e, b.sc, depth+1)
			}
			if rhs, ok := sc.locals[v.Name]; ok {
				return w.components(rhs, sc, depth+1)
			}
		}
		if rhs, ok := w.gvars[v.Name]; ok {
			return w.components(rhs, nil, depth+1)
		}
		if sc != nil {
			return w.mappedComponents(v.Name, sc, depth+1)
		}
		return nil, false
	case *ast.CompositeLit:
		var fields []tfield
		seen := map[string]bool{}
		for _, el := range v.Elts {
			c, ok := el.(*ast.CompositeLit)
			if !ok {
				return nil, false
			}
			var tf tfield
			for _, kvE := range c.Elts {
				kv, ok := kvE.(*ast.KeyValueExpr)
				if !ok {
					return nil, false
				}
				key, ok := kv.Key.(*ast.Ident)
				if !ok {
					return nil, false
				}
				s, ok := w.strVal(kv.Value)
				if !ok {
					return nil, false // nested components etc.
				}
				switch key.Name {
				case "Name":
					tf.name = s
				case "Type":
					tf.ty = s
				case "InternalType":
				default:
					return nil, false
				}
			}
			if _, ok := coqTy(tf.ty); !ok || !nameRe.MatchString(tf.name) || seen[tf.name] {
				return nil, false
			}
			seen[tf.name] = true
			fields = append(fields, tf)
		}
		return fields, true
	}
	return nil, false
}

// a string literal or a package-level string constant
func (w *world) strVal(e ast.Expr) (string, bool) {
	switch v := paren(e).(type) {
	case *ast.BasicLit:
		if v.Kind == token.STRING {
			s, err := strconv.Unquote(v.Value)
			return s, err == nil
		}
	case *ast.Ident:
		s, ok := w.gconsts[v.Name]
		return s, ok
	}
	return "", false
}

// the slice literal an expression denotes (through parameters, single-assignment locals, package variables)
func (w *world) sliceLit(e ast.Expr, sc *scope, depth int) (*ast.CompositeLit, bool) {
	if depth > 10 {
		return nil, false
	}
	switch v := paren(e).(type) {
	case *ast.CompositeLit:
		return v, true
	case *ast.Ident:
		if sc != nil {
			if b, ok := sc.params[v.Name]; ok {
				return w.sliceLit(b.e, b.sc, depth+1)
			}
			if rhs, ok := sc.locals[v.Name]; ok {
				return w.sliceLit(rhs, sc, depth+1)
			}
		}
		if rhs, ok := w.gvars[v.Name]; ok {
			return w.sliceLit(rhs, nil, depth+1)
		}
	}
	return nil, false
}

// components built by a mapping loop:
//
//	for _, f := range SRC { name = append(name, abi.ArgumentMarshaling{Name: f.a, Type: f.b}) }
//
// with SRC a slice literal of a struct type of this package whose fields a and b hold string literals / constants
func (w *world) mappedComponents(name string, sc *scope, depth int) ([]tfield, bool) {
	var res []tfield
	found, good := false, false
	ast.Inspect(sc.fd.Body, func(n ast.Node) bool {
		rs, ok := n.(*ast.RangeStmt)
		if !ok || found {
			return !found
		}
		elem, ok := rs.Value.(*ast.Ident)
		if !ok {
			return true
		}
		var nameField, typeField string
		ast.Inspect(rs.Body, func(m ast.Node) bool {
			as, ok := m.(*ast.AssignStmt)
			if !ok || len(as.Lhs) != 1 || len(as.Rhs) != 1 {
				return true
			}
			l, ok := as.Lhs[0].(*ast.Ident)
			call, ok2 := as.Rhs[0].(*ast.CallExpr)
			if !ok || !ok2 || l.Name != name || len(call.Args) != 2 {
				return true
			}
			if f, ok := call.Fun.(*ast.Ident); !ok || f.Name != "append" {
				return true
			}
			cl, ok := call.Args[1].(*ast.CompositeLit)
			if !ok || typeString(cl.Type) != "abi.ArgumentMarshaling" {
				return true
			}
			for _, el := range cl.Elts {
				kv, ok := el.(*ast.KeyValueExpr)
				if !ok {
					return true
				}
				k, ok := kv.Key.(*ast.Ident)
				se, ok2 := kv.Value.(*ast.SelectorExpr)
				if !ok || !ok2 {
					nameField, typeField = "", ""
					return true
				}
				if x, ok := se.X.(*ast.Ident); !ok || x.Name != elem.Name {
					nameField, typeField = "", ""
					return true
				}
				switch k.Name {
				case "Name":
					nameField = se.Sel.Name
				case "Type":
					typeField = se.Sel.Name
				default:
					nameField, typeField = "", ""
					return true
				}
			}
			return true
		})
		if nameField == "" || typeField == "" {
			return true
		}
		found = true
		lit, ok := w.sliceLit(rs.X, sc, depth+1)
		if !ok {
			return false
		}
		at, ok := lit.Type.(*ast.ArrayType)
		if !ok {
			return false
		}
		order, ok := w.structs[typeString(at.Elt)]
		if !ok {
			return false
		}
		seen := map[string]bool{}
		for _, el := range lit.Elts {
			c, ok := el.(*ast.CompositeLit)
			if !ok {
				return false
			}
			vals := map[string]ast.Expr{}
			for i, x := range c.Elts {
				if kv, ok := x.(*ast.KeyValueExpr); ok {
					if k, ok := kv.Key.(*ast.Ident); ok {
						vals[k.Name] = kv.Value
					}
				} else if i < len(order) {
					vals[order[i]] = x
				}
			}
			var tf tfield
			var ok1, ok2 bool
			if vals[nameField] != nil {
				tf.name, ok1 = w.strVal(vals[nameField])
			}
			if vals[typeField] != nil {
				tf.ty, ok2 = w.strVal(vals[typeField])
			}
			if _, okT := coqTy(tf.ty); !ok1 || !ok2 || !okT || !nameRe.MatchString(tf.name) || seen[tf.name] {
				return false
			}
			seen[tf.name] = true
			res = append(res, tf)
		}
		good = true
		return false
	})
	return res, found && good
}

func isPkgCall(call *ast.CallExpr, pkg, fn string) bool {
	se, ok := call.Fun.(*ast.SelectorExpr)
	if !ok || se.Sel.Name != fn {
		return false
	}
	id, ok := se.X.(*ast.Ident)
	return ok && id.Name == pkg
}

// the value a function returns (first result): the last return statement whose first result evaluates
func (w *world) returned(fd *ast.FuncDecl, sc *scope, depth int, eval func(ast.Expr, *scope, int) (*tupleVal, bool)) (*tupleVal, bool) {
	var rets []*ast.ReturnStmt
	ast.Inspect(fd.Body, func(n ast.Node) bool {
		if _, isLit := n.(*ast.FuncLit); isLit {
			return false
		}
		if r, ok := n.(*ast.ReturnStmt); ok && len(r.Results) > 0 {
			rets = append(rets, r)
		}
		return true
	})
	for i := len(rets) - 1; i >= 0; i-- {
		if t, ok := eval(rets[i].Results[0], sc, depth+1); ok {
			return t, true
		}
	}
	// named result assigned in the body
	if fd.Type.Results != nil && len(fd.Type.Results.List) > 0 && len(fd.Type.Results.List[0].Names) > 0 {
		if rhs, ok := sc.locals[fd.Type.Results.List[0].Names[0].Name]; ok {
			return eval(rhs, sc, depth+1)
		}
	}
	return nil, false
}

// an expression of type abi.Type
func (w *world) tuple(e ast.Expr, sc *scope, depth int) (*tupleVal, bool) {
	if depth > 10 {
		return nil, false
	}
	switch v := paren(e).(type) {
	case *ast.Ident:
		if sc != nil {
			if b, ok := sc.params[v.Name]; ok {
				return w.tuple(b.e, b.sc, depth+1)
			}
			if rhs, ok := sc.locals[v.Name]; ok {
				return w.tuple(rhs, sc, depth+1)
			}
		}
		return w.globalTuple(v.Name, depth)
	case *ast.CallExpr:
		if isPkgCall(v, "abi", "NewType") {
			if len(v.Args) != 3 {
				return nil, false
			}
			k, ok := v.Args[0].(*ast.BasicLit)
			if !ok || k.Value != `"tuple"` {
				return nil, false
			}
			f, ok := w.components(v.Args[2], sc, depth+1)
			if !ok {
				return nil, false
			}
			return &tupleVal{fields: f}, true
		}
		if id, ok := v.Fun.(*ast.Ident); ok {
			if g, ok := w.funcs[id.Name]; ok && g.Body != nil {
				return w.returned(g, w.newScope(g, v.Args, sc), depth, w.tuple)
			}
		}
	}
	return nil, false
}

// a package variable of type abi.Type: `var G = e`, or assigned exactly once inside a function (G = e / G, err = e)
func (w *world) globalTuple(name string, depth int) (*tupleVal, bool) {
	if w.gdone[name] {
		t := w.gtuples[name]
		return t, t != nil
	}
	w.gdone[name] = true
	var found []*tupleVal
	undetermined := false
	if rhs, ok := w.gvars[name]; ok {
		if t, ok := w.tuple(rhs, nil, depth+1); ok {
			found = append(found, t)
		} else {
			undetermined = true
		}
	}
	for _, fd := range w.allFuncs() {
		var sc *scope
		ast.Inspect(fd.Body, func(n ast.Node) bool {
			as, ok := n.(*ast.AssignStmt)
			if !ok || as.Tok != token.ASSIGN {
				return true
			}
			for i, l := range as.Lhs {
				id, ok := l.(*ast.Ident)
				if !ok || id.Name != name {
					continue
				}
				var rhs ast.Expr
				switch {
				case len(as.Lhs) == len(as.Rhs):
					rhs = as.Rhs[i]
				case len(as.Rhs) == 1 && i == 0:
					rhs = as.Rhs[0]
				}
				if sc == nil {
					sc = &scope{fd: fd, params: map[string]bound{}, locals: localsOf(fd)}
				}
				if _, shadow := sc.locals[name]; shadow {
					continue
				}
				if rhs == nil {
					undetermined = true
					continue
				}
				if t, ok := w.tuple(rhs, sc, depth+1); ok {
					found = append(found, t)
				} else {
					undetermined = true
				}
			}
			return true
		})
	}
	if undetermined || len(found) != 1 {
		w.gtuples[name] = nil
		return nil, false
	}
	t := &tupleVal{name: name, fields: found[0].fields}
	w.gtuples[name] = t
	return t, true
}

func (w *world) allFuncs() []*ast.FuncDecl {
	var out []*ast.FuncDecl
	for _, f := range w.files {
		for _, d := range f.Decls {
			if fd, ok := d.(*ast.FuncDecl); ok && fd.Body != nil {
				out = append(out, fd)
			}
		}
	}
	return out
}

// an expression of type abi.Arguments with exactly one (tuple) argument
func (w *world) arguments(e ast.Expr, sc *scope, depth int) (t *tupleVal, isArgs bool, ok bool) {
	if depth > 10 {
		return nil, false, false
	}
	switch v := paren(e).(type) {
	case *ast.CompositeLit:
		if typeString(v.Type) != "abi.Arguments" {
			return nil, false, false
		}
		if len(v.Elts) != 1 {
			return nil, true, false
		}
		arg, ok := v.Elts[0].(*ast.CompositeLit)
		if !ok {
			return nil, true, false
		}
		for _, el := range arg.Elts {
			kv, ok := el.(*ast.KeyValueExpr)
			if !ok {
				return nil, true, false
			}
			if k, ok := kv.Key.(*ast.Ident); ok && k.Name == "Type" {
				t, ok := w.tuple(kv.Value, sc, depth+1)
				return t, true, ok
			}
		}
		return nil, true, false
	case *ast.Ident:
		if sc != nil {
			if b, ok := sc.params[v.Name]; ok {
				return w.arguments(b.e, b.sc, depth+1)
			}
			if rhs, ok := sc.locals[v.Name]; ok {
				return w.arguments(rhs, sc, depth+1)
			}
		}
		if rhs, ok := w.gvars[v.Name]; ok {
			return w.arguments(rhs, nil, depth+1)
		}
	case *ast.CallExpr:
		if id, ok := v.Fun.(*ast.Ident); ok {
			if g, ok := w.funcs[id.Name]; ok && g.Body != nil {
				sc2 := w.newScope(g, v.Args, sc)
				var res *tupleVal
				var isA, good bool
				w.returned(g, sc2, depth, func(e ast.Expr, s *scope, d int) (*tupleVal, bool) {
					t, a, ok := w.arguments(e, s, d)
					if a {
						res, isA, good = t, true, ok
					}
					return t, a
				})
				return res, isA, good
			}
		}
	}
	return nil, false, false
}

type abiOp struct {
	kind string // Pack | Unpack
	t    *tupleVal
	ok   bool
	pos  token.Position
}

type analysis struct {
	ops                []abiOp
	marshal, unmarshal bool
}

// walks the body of fd (and, transitively, of the same-package functions / own-receiver methods it calls)
func (w *world) analyse(fd *ast.FuncDecl, sc *scope, depth int, stack map[*ast.FuncDecl]bool, a *analysis) {
	if depth > 6 || stack[fd] {
		return
	}
	stack[fd] = true
	defer delete(stack, fd)
	recvVar, recvType := "", ""
	if fd.Recv != nil && len(fd.Recv.List) == 1 {
		recvType = recvName(fd.Recv.List[0].Type)
		if len(fd.Recv.List[0].Names) == 1 {
			recvVar = fd.Recv.List[0].Names[0].Name
		}
	}
	ast.Inspect(fd.Body, func(n ast.Node) bool {
		call, ok := n.(*ast.CallExpr)
		if !ok {
			return true
		}
		switch f := call.Fun.(type) {
		case *ast.SelectorExpr:
			if id, ok := f.X.(*ast.Ident); ok && id.Name == "json" {
				a.marshal = a.marshal || f.Sel.Name == "Marshal"
				a.unmarshal = a.unmarshal || f.Sel.Name == "Unmarshal"
				return true
			}
			if f.Sel.Name == "Pack" || f.Sel.Name == "Unpack" {
				if t, isArgs, ok := w.arguments(f.X, sc, 0); isArgs {
					a.ops = append(a.ops, abiOp{f.Sel.Name, t, ok, w.fset.Position(call.Pos())})
					return true
				}
			}
			// a method of the own receiver
			if id, ok := f.X.(*ast.Ident); ok && recvVar != "" && id.Name == recvVar {
				if g, ok := w.methods[recvType+"."+f.Sel.Name]; ok && g.Body != nil {
					w.analyse(g, w.newScope(g, call.Args, sc), depth+1, stack, a)
				}
			}
		case *ast.Ident:
			if g, ok := w.funcs[f.Name]; ok && g.Body != nil {
				w.analyse(g, w.newScope(g, call.Args, sc), depth+1, stack, a)
			}
		}
		return true
	})
}

func main() {
	repo := flag.String("repo", "/repo", "source tree")
	out := flag.String("out", "", "output directory (coq/theories/Gen)")
	flag.Parse()
	if *out == "" {
		die("-out required")
	}
	fset := token.NewFileSet()
	ents, err := os.ReadDir(filepath.Join(*repo, dir))
	if err != nil {
		die("%v", err)
	}
	w := &world{fset: fset, funcs: map[string]*ast.FuncDecl{}, methods: map[string]*ast.FuncDecl{}, gvars: map[string]ast.Expr{},
		gtuples: map[string]*tupleVal{}, gdone: map[string]bool{}, structs: map[string][]string{}, gconsts: map[string]string{}}
	var typeVars []string // package variables declared with type abi.Type (in source order)
	for _, e := range ents {
		n := e.Name()
		if e.IsDir() || !strings.HasSuffix(n, ".go") || strings.HasSuffix(n, "_test.go") || strings.HasSuffix(n, "_verif.go") ||
			strings.HasSuffix(n, ".pb.gw.go") {
			continue
		}
		f, err := parser.ParseFile(fset, filepath.Join(*repo, dir, n), nil, 0)
		if err != nil {
			die("parse %s: %v", n, err)
		}
		w.files = append(w.files, f)
	}
	for _, f := range w.files {
		for _, d := range f.Decls {
			switch d := d.(type) {
			case *ast.FuncDecl:
				if d.Recv != nil && len(d.Recv.List) == 1 {
					w.methods[recvName(d.Recv.List[0].Type)+"."+d.Name.Name] = d
				} else {
					w.funcs[d.Name.Name] = d
				}
			case *ast.GenDecl:
				if d.Tok == token.TYPE {
					for _, sp := range d.Specs {
						ts := sp.(*ast.TypeSpec)
						if st, ok := ts.Type.(*ast.StructType); ok {
							var names []string
							for _, fl := range st.Fields.List {
								for _, nm := range fl.Names {
									names = append(names, nm.Name)
								}
							}
							w.structs[ts.Name.Name] = names
						}
					}
				}
				if d.Tok == token.CONST {
					for _, sp := range d.Specs {
						vs := sp.(*ast.ValueSpec)
						for i, id := range vs.Names {
							if i < len(vs.Values) {
								if lit, ok := vs.Values[i].(*ast.BasicLit); ok && lit.Kind == token.STRING {
									if sv, err := strconv.Unquote(lit.Value); err == nil {
										w.gconsts[id.Name] = sv
									}
								}
							}
						}
					}
				}
				if d.Tok != token.VAR {
					continue
				}
				for _, sp := range d.Specs {
					vs := sp.(*ast.ValueSpec)
					for i, id := range vs.Names {
						switch {
						case i < len(vs.Values):
							w.gvars[id.Name] = vs.Values[i]
						case len(vs.Values) == 1 && i == 0:
							w.gvars[id.Name] = vs.Values[0]
						}
						if vs.Type != nil && typeString(vs.Type) == "abi.Type" {
							typeVars = append(typeVars, id.Name)
						}
					}
				}
			}
		}
	}

	// 1. the tuples held in package variables
	named := map[string][]tfield{}
	for _, n := range typeVars {
		if t, ok := w.globalTuple(n, 0); ok {
			named[n] = t.fields
		}
	}
	for n := range w.gvars {
		if t, ok := w.globalTuple(n, 0); ok {
			named[n] = t.fields
		}
	}

	// 2. ABIPack / ABIDecode of the wanted receivers
	type use struct {
		t    *tupleVal
		why  string // "" = determined
		name string // Coq name of the tuple definition
	}
	packOf, unpackOf := map[string]*use{}, map[string]*use{}
	for _, wd := range wanted {
		for _, m := range []string{"ABIPack", "ABIDecode"} {
			u := &use{}
			fd, ok := w.methods[wd.recv+"."+m]
			switch {
			case !ok || fd.Body == nil:
				u.why = "method " + wd.recv + "." + m + " not found"
			default:
				a := &analysis{}
				w.analyse(fd, w.newScope(fd, nil, nil), 0, map[*ast.FuncDecl]bool{}, a)
				want := map[string]string{"ABIPack": "Pack", "ABIDecode": "Unpack"}[m]
				var ops []abiOp
				for _, o := range a.ops {
					if o.kind == want {
						ops = append(ops, o)
					}
				}
				switch {
				case len(ops) != 1:
					u.why = fmt.Sprintf("%d abi.Arguments.%s calls reachable from %s.%s (exactly one expected)", len(ops), want, wd.recv, m)
				case len(a.ops) != 1:
					u.why = fmt.Sprintf("%s.%s also reaches abi.Arguments.%s", wd.recv, m, map[string]string{"Pack": "Unpack", "Unpack": "Pack"}[want])
				case !ops[0].ok || ops[0].t == nil:
					u.why = fmt.Sprintf("%s: the tuple type handed to %s cannot be determined (or is outside the subset)", ops[0].pos, want)
				case m == "ABIDecode" && !(a.marshal && a.unmarshal):
					u.why = wd.recv + ".ABIDecode no longer converts through json.Marshal / json.Unmarshal: the model's re-mapping step does not apply"
				default:
					u.t = ops[0].t
				}
			}
			if u.why != "" {
				warn("%s_schema: %s: poisoned tuple", wd.out, u.why)
			}
			if m == "ABIPack" {
				packOf[wd.recv] = u
			} else {
				unpackOf[wd.recv] = u
			}
		}
	}

	// 3. structs
	structs := map[string][]sfield{}
	structBad := map[string]string{}
	for _, f := range w.files {
		for _, d := range f.Decls {
			gd, ok := d.(*ast.GenDecl)
			if !ok || gd.Tok != token.TYPE {
				continue
			}
			for _, sp := range gd.Specs {
				ts := sp.(*ast.TypeSpec)
				st, ok := ts.Type.(*ast.StructType)
				if !ok {
					continue
				}
				need := false
				for _, wd := range wanted {
					need = need || wd.recv == ts.Name.Name
				}
				if !need {
					continue
				}
				bad := func(f string, a ...interface{}) { structBad[ts.Name.Name] = fmt.Sprintf(f, a...) }
				var fields []sfield
				for _, fl := range st.Fields.List {
					if len(fl.Names) == 0 {
						bad("embedded field outside the subset")
					}
					for _, nm := range fl.Names {
						if !ast.IsExported(nm.Name) {
							continue // invisible to both abi and encoding/json
						}
						sf := sfield{goName: nm.Name, ty: typeString(fl.Type)}
						if _, ok := coqTy(sf.ty); !ok {
							bad("field %s has type %s, outside the subset (uint64, string, []byte)", nm.Name, sf.ty)
						}
						if fl.Tag != nil {
							raw, _ := strconv.Unquote(fl.Tag.Value)
							stag := reflect.StructTag(raw)
							if _, has := stag.Lookup("abi"); has {
								bad("field %s: `abi:` tag outside the subset", nm.Name)
							}
							if v, has := stag.Lookup("json"); has {
								sf.tag, sf.hasTag = v, true
							}
						}
						fields = append(fields, sf)
					}
				}
				// encoding/json drops BOTH of two fields with the same JSON name: outside the subset
				seenJSON := map[string]bool{}
				for _, f := range fields {
					n := f.goName
					if f.hasTag {
						if f.tag == "-" {
							continue
						}
						if t := strings.Split(f.tag, ",")[0]; t != "" {
							n = t
						}
					}
					if seenJSON[strings.ToUpper(n)] {
						bad("two fields share the JSON name %q (case-insensitively): outside the subset", n)
					}
					seenJSON[strings.ToUpper(n)] = true
				}
				structs[ts.Name.Name] = fields
			}
		}
	}

	var b bytes.Buffer
	b.WriteString("(* GENERATED by tools/gotocoq/abischema from x/xibc/core/packet/types -- do not edit. *)\n")
	b.WriteString("From Teleport Require Import Base.Bytes Base.AbiSchema.\n\n")
	clean := func(s string) string {
		return strings.ReplaceAll(strings.ReplaceAll(strings.ReplaceAll(s, "(*", "( *"), "*)", "* )"), "\"", "'")
	}
	emitTuple := func(coqName, comment string, fields []tfield) {
		var parts, human []string
		for _, tf := range fields {
			ty, _ := coqTy(tf.ty)
			parts = append(parts, fmt.Sprintf("{| tf_name := %s; tf_ty := %s |}", coqBytes(tf.name), ty))
			human = append(human, tf.name+":"+tf.ty)
		}
		fmt.Fprintf(&b, "(* %s = (%s) *)\nDefinition %s : list tfield :=\n  [%s].\n\n", comment, strings.Join(human, ", "), coqName, strings.Join(parts, ";\n   "))
	}
	tnames := make([]string, 0, len(named))
	for n := range named {
		tnames = append(tnames, n)
	}
	sort.Strings(tnames)
	for _, n := range tnames {
		emitTuple("tuple_"+n, "evm.go "+n, named[n])
	}
	// the poisoned component: no Go struct field is called ToCamelCase("?") and no json name matches it
	poison := func(coqName, why string) {
		fmt.Fprintf(&b, "(* POISONED: %s *)\nDefinition %s : list tfield :=\n  [{| tf_name := [x3f]; tf_ty := TU64 |}].\n\n", clean(why), coqName)
	}
	for _, wd := range wanted {
		pk, up := packOf[wd.recv], unpackOf[wd.recv]
		for _, x := range []struct {
			u   *use
			suf string
		}{{pk, "pack"}, {up, "unpack"}} {
			switch {
			case x.u.why != "":
				x.u.name = "tuple_undetermined_" + wd.out + "_" + x.suf
				poison(x.u.name, x.u.why)
			case x.u.t.name != "":
				x.u.name = "tuple_" + x.u.t.name
			default:
				x.u.name = "tuple_anonymous_" + wd.out + "_" + x.suf
				emitTuple(x.u.name, "the tuple built in place for "+wd.recv, x.u.t.fields)
			}
		}
		sf, ok := structs[wd.recv]
		if !ok {
			structBad[wd.recv] = "struct " + wd.recv + " not found"
		}
		if why, bad := structBad[wd.recv]; bad {
			warn("%s_schema: struct %s: %s: schema without fields", wd.out, wd.recv, why)
			fmt.Fprintf(&b, "(* POISONED: struct %s: %s *)\nDefinition %s_schema : schema :=\n  {| sc_struct :=\n  [];\n     sc_pack := %s; sc_unpack := %s |}.\n\n",
				wd.recv, clean(why), wd.out, pk.name, up.name)
			continue
		}
		var parts, human []string
		for _, f := range sf {
			tag := "None"
			if f.hasTag {
				tag = "(Some " + coqBytes(f.tag) + ")"
			}
			ty, _ := coqTy(f.ty)
			parts = append(parts, fmt.Sprintf("{| sf_go := %s; sf_tag := %s; sf_ty := %s |}", coqBytes(f.goName), tag, ty))
			h := f.goName + " " + f.ty
			if f.hasTag {
				h += " json:" + strings.ReplaceAll(f.tag, "\"", "'")
			}
			human = append(human, h)
		}
		fmt.Fprintf(&b, "(* struct %s { %s }; ABIPack: %s; ABIDecode: %s *)\n", wd.recv, strings.Join(human, "; "),
			strings.TrimPrefix(pk.name, "tuple_"), strings.TrimPrefix(up.name, "tuple_"))
		fmt.Fprintf(&b, "Definition %s_schema : schema :=\n  {| sc_struct :=\n  [%s];\n     sc_pack := %s; sc_unpack := %s |}.\n\n",
			wd.out, strings.Join(parts, ";\n   "), pk.name, up.name)
	}

	path := filepath.Join(*out, "AbiSchemaGen.v")
	old, err := os.ReadFile(path)
	if err == nil && bytes.Equal(old, b.Bytes()) {
		return
	}
	tmp := path + ".tmp"
	if err := os.WriteFile(tmp, b.Bytes(), 0o644); err != nil {
		die("%v", err)
	}
	if err := os.Rename(tmp, path); err != nil {
		die("%v", err)
	}
}
