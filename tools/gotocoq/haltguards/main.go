// haltguards: regenerates, from the Go source tree, the REJECTING GUARDS of the stateless validation functions
// that the panic-freedom proofs of property C15 rest on, and the named constants those guards and the guarded
// slicing code use.  Output: Gen/HaltGuardsGen.v
//
// For every target function the top-level statements of the body are walked in order and every statement of
// the shape
//
//	if COND { ...; return <something that is not the identifier nil> }        (no else branch)
//
// yields one guard.  COND is translated into the little language of Model/HaltGuardIR.v:
//
//	terms       len(<root>.A.B)            -> TLen "A.B"
//	            <root>.A.B  (unsigned int) -> TField "A.B"
//	            constant expression >= 0   -> TConst n          (value computed by go/types)
//	            local x := <term>          -> the term (aliases are resolved)
//	            uintN(<term>), int(len..)  -> the term
//	conditions  < <= > >= == != on terms, ||, &&, !, parentheses; everything else is COpaque
//
// Also guards: the conditions of an if / else-if chain and of a tagless switch whose branches all end in a return;
// `if err := F(..); err != nil { return .. }` and a final `return F(..)` where F is a function or method declared in
// the SAME package applied to (field paths of) the validated value: the guards of F are inlined with the paths
// prefixed (ClientState.Validate ends in `return m.Header.ValidateBasic()`: its guards arrive as "Header.Bloom" ...),
// so extracting a helper or merging functions re-checks.
//
// <root> is the receiver (or the named parameter) of the function.  The walk stops at the first statement that
// can make the function return nil before its end (an `if` that returns nil, a loop or switch containing a
// return): guards after such a statement are not executed on every accepting path, so they are NOT reported.
// Soundness contract used by the Coq side: if the function returns nil, every reported guard whose condition
// is evaluable was false.  (Statements that are not guards are ignored: they can only add rejections or panics.)
//
// An unknown construct inside a target (a target that disappeared, a body that is not a block of statements,
// a constant that does not fit) makes the translator exit non-zero: a failed tie, never silently skipped.
package main

import (
	"bytes"
	"crypto/sha256"
	"encoding/hex"
	"encoding/json"
	"flag"
	"fmt"
	"go/ast"
	"go/constant"
	"go/importer"
	"go/parser"
	"go/token"
	"go/types"
	"io"
	"math/big"
	"os"
	"os/exec"
	"path/filepath"
	"regexp"
	"sort"
	"strings"
)

const version = "haltguards-v3"

type target struct {
	Dir  string // package directory
	Recv string // receiver type ("" for a function)
	Name string
	Root string // "" = the receiver; otherwise the parameter whose fields the guards talk about
	Coq  string // name of the generated definition
	Loop string // "" = the function body; otherwise the guards of the body of the top-level `for _, x := range <root>.<Loop>`,
	// about the fields of the element x (executed for every element on every accepting path)
}

var targets = []target{
	{"x/xibc/clients/light-clients/bsc/types", "ClientState", "Validate", "", "bsc_client_validate_guards", ""},
	{"x/xibc/clients/light-clients/bsc/types", "", "ecrecover", "header", "bsc_ecrecover_guards", ""},
	{"x/xibc/clients/light-clients/eth/types", "ClientState", "Validate", "", "eth_client_validate_guards", ""},
	{"x/xibc/core/client/types", "GenesisMetadata", "Validate", "", "genesis_metadata_validate_guards", ""},
	{"x/aggregate/types", "GenesisState", "Validate", "", "aggregate_genesis_pair_guards", "TokenPairs"},
	{"x/xibc/core/packet/types", "GenesisState", "Validate", "", "packet_genesis_ack_guards", "Acknowledgements"},
	{"x/xibc/core/packet/types", "GenesisState", "Validate", "", "packet_genesis_commitment_guards", "Commitments"},
}

// named constants (package directory, name, generated definition)
var consts = [][3]string{
	{"x/xibc/clients/light-clients/bsc/types", "extraVanity", "bsc_extra_vanity"},
	{"x/xibc/clients/light-clients/bsc/types", "extraSeal", "bsc_extra_seal"},
	{"x/xibc/clients/light-clients/bsc/types", "addressLength", "bsc_address_length"},
	{"x/xibc/clients/light-clients/bsc/types", "bloomByteLength", "bsc_bloom_byte_length"},
	{"x/xibc/clients/light-clients/bsc/types", "nonceByteLength", "bsc_nonce_byte_length"},
}

func die(f string, a ...interface{}) {
	fmt.Fprintf(os.Stderr, "haltguards: "+f+"\n", a...)
	os.Exit(1)
}

type listPkg struct {
	ImportPath string
	Dir        string
	Export     string
	GoFiles    []string
	CgoFiles   []string
	Error      *struct{ Err string }
}

func main() {
	repo := flag.String("repo", "/repo", "source tree")
	out := flag.String("out", "", "output directory (coq/theories/Gen)")
	force := flag.Bool("force", false, "ignore the input hash")
	flag.Parse()
	if *out == "" {
		die("missing -out")
	}
	repoAbs, err := filepath.Abs(*repo)
	if err != nil {
		die("%v", err)
	}
	gomod, err := os.ReadFile(filepath.Join(repoAbs, "go.mod"))
	if err != nil {
		die("%v", err)
	}
	modPath := modulePath(gomod)

	dirSet := map[string]bool{}
	for _, t := range targets {
		dirSet[t.Dir] = true
	}
	for _, c := range consts {
		dirSet[c[0]] = true
	}
	var dirs []string
	for d := range dirSet {
		dirs = append(dirs, d)
	}
	sort.Strings(dirs)

	// ---- input hash --------------------------------------------------------------------------------
	h := sha256.New()
	io.WriteString(h, version+"\n")
	h.Write(gomod)
	for _, d := range dirs {
		ents, err := os.ReadDir(filepath.Join(repoAbs, d))
		if err != nil {
			die("package directory %s is missing (the tree was restructured: update the translator)", d)
		}
		for _, e := range ents {
			if e.IsDir() || !strings.HasSuffix(e.Name(), ".go") || strings.HasSuffix(e.Name(), "_test.go") {
				continue
			}
			b, err := os.ReadFile(filepath.Join(repoAbs, d, e.Name()))
			if err != nil {
				die("%v", err)
			}
			fmt.Fprintf(h, "%s/%s %d\n", d, e.Name(), len(b))
			h.Write(b)
		}
	}
	inputHash := hex.EncodeToString(h.Sum(nil))
	outFile := filepath.Join(*out, "HaltGuardsGen.v")
	if old, err := os.ReadFile(outFile); err == nil && !*force {
		if bytes.Contains(old, []byte("(* input-hash: "+inputHash+" *)")) {
			return
		}
	}

	// ---- type-check the packages from source ---------------------------------------------------------
	pkgs := goList(repoAbs, modPath, gomod, dirs)
	exports := map[string]string{}
	byPath := map[string]*listPkg{}
	for _, p := range pkgs {
		if p.Export != "" {
			exports[p.ImportPath] = p.Export
		}
		byPath[p.ImportPath] = p
	}
	fset := token.NewFileSet()
	imp := importer.ForCompiler(fset, "gc", func(path string) (io.ReadCloser, error) {
		e, ok := exports[path]
		if !ok {
			return nil, fmt.Errorf("no export data for %s", path)
		}
		return os.Open(e)
	})
	type pkgInfo struct {
		files []*ast.File
		info  *types.Info
		pkg   *types.Package
	}
	loaded := map[string]*pkgInfo{}
	for _, d := range dirs {
		ip := modPath + "/" + filepath.ToSlash(d)
		lp := byPath[ip]
		if lp == nil {
			die("go list did not return package %s", ip)
		}
		if lp.Error != nil {
			die("package %s: %s", ip, lp.Error.Err)
		}
		names := append(append([]string{}, lp.GoFiles...), lp.CgoFiles...)
		sort.Strings(names)
		var asts []*ast.File
		for _, n := range names {
			f, err := parser.ParseFile(fset, filepath.Join(repoAbs, d, n), nil, parser.SkipObjectResolution)
			if err != nil {
				die("parse %s/%s: %v", d, n, err)
			}
			asts = append(asts, f)
		}
		info := &types.Info{Types: map[ast.Expr]types.TypeAndValue{}, Uses: map[*ast.Ident]types.Object{}, Defs: map[*ast.Ident]types.Object{}}
		nerr := 0
		var first string
		conf := types.Config{Importer: imp, FakeImportC: true, Error: func(err error) {
			nerr++
			if first == "" {
				first = err.Error()
			}
		}}
		pkg, _ := conf.Check(ip, fset, asts, info)
		if nerr != 0 {
			die("%d type errors in %s, e.g. %s", nerr, d, first)
		}
		loaded[d] = &pkgInfo{asts, info, pkg}
	}

	// ---- translate -----------------------------------------------------------------------------------
	var b bytes.Buffer
	fmt.Fprintf(&b, "(* GENERATED by tools/gotocoq/haltguards from the Go source tree - do not edit. *)\n")
	fmt.Fprintf(&b, "(* input-hash: %s *)\n", inputHash)
	fmt.Fprintf(&b, "From Coq Require Import String List NArith.\nImport ListNotations.\nFrom Teleport Require Import Model.HaltGuardIR.\nLocal Open Scope string_scope.\nLocal Open Scope N_scope.\n\n")
	for _, c := range consts {
		p := loaded[c[0]]
		obj := p.pkg.Scope().Lookup(c[1])
		k, ok := obj.(*types.Const)
		if !ok {
			die("constant %s not found in %s (renamed? update the translator)", c[1], c[0])
		}
		n, ok := natOf(k.Val())
		if !ok {
			die("constant %s.%s = %s is not a natural number", c[0], c[1], k.Val())
		}
		fmt.Fprintf(&b, "(* %s: %s *)\nDefinition %s : N := %s.\n", c[0], c[1], c[2], n)
	}
	fmt.Fprintf(&b, "\n")
	for _, t := range targets {
		p := loaded[t.Dir]
		fd := findFunc(p.files, t.Recv, t.Name)
		if fd == nil || fd.Body == nil {
			die("function (%s).%s not found in %s (renamed? update the translator)", t.Recv, t.Name, t.Dir)
		}
		root := t.Root
		if root == "" {
			if fd.Recv == nil || len(fd.Recv.List) != 1 || len(fd.Recv.List[0].Names) != 1 {
				die("(%s).%s: cannot determine the receiver name", t.Recv, t.Name)
			}
			root = fd.Recv.List[0].Names[0].Name
		} else if !hasParam(fd, root) {
			die("%s: parameter %s not found (renamed? update the translator)", t.Name, root)
		}
		tr := &translator{info: p.info, files: p.files, roots: map[string]string{root: ""}, alias: map[string]string{}}
		body := fd.Body
		if t.Loop != "" {
			// the loop must be a top-level statement reached on every accepting path: no early accepting return before it
			body = nil
			for _, st := range fd.Body.List {
				if rs, ok := st.(*ast.RangeStmt); ok {
					if pth, ok := tr.path(rs.X); ok && pth == t.Loop {
						v, ok := rs.Value.(*ast.Ident)
						if !ok || v.Name == "_" {
							die("%s: the loop over %s has no element variable", t.Name, t.Loop)
						}
						if hasBranch(rs.Body) {
							die("%s: the loop over %s contains break / continue / goto (outside the translator's subset)", t.Name, t.Loop)
						}
						tr = &translator{info: p.info, files: p.files, roots: map[string]string{v.Name: ""}, alias: map[string]string{}}
						body = rs.Body
						break
					}
				}
				if returnsNil(st) {
					break
				}
			}
			if body == nil {
				die("%s: no top-level loop over %s.%s reached on every accepting path (restructured? update the translator)", t.Name, root, t.Loop)
			}
		}
		guards, stopped := tr.guards(body)
		name := t.Name
		if t.Recv != "" {
			name = t.Recv + "." + t.Name
		}
		fmt.Fprintf(&b, "(* %s: %s%s *)\nDefinition %s : list gcond := [", t.Dir, name, map[bool]string{true: " (walk stopped at an early accepting return)", false: ""}[stopped], t.Coq)
		for i, g := range guards {
			if i > 0 {
				b.WriteString(";")
			}
			b.WriteString("\n  " + g)
		}
		if len(guards) > 0 {
			b.WriteString("\n")
		}
		b.WriteString("].\n\n")
	}
	if err := os.MkdirAll(*out, 0o755); err != nil {
		die("%v", err)
	}
	if old, err := os.ReadFile(outFile); err == nil && bytes.Equal(old, b.Bytes()) {
		return
	}
	tmp := outFile + ".tmp"
	if err := os.WriteFile(tmp, b.Bytes(), 0o644); err != nil {
		die("%v", err)
	}
	if err := os.Rename(tmp, outFile); err != nil {
		die("%v", err)
	}
}

func natOf(v constant.Value) (string, bool) {
	if v == nil || v.Kind() != constant.Int {
		return "", false
	}
	i, ok := new(big.Int).SetString(v.ExactString(), 10)
	if !ok || i.Sign() < 0 || i.BitLen() > 64 {
		return "", false
	}
	return i.String(), true
}

func findFunc(files []*ast.File, recv, name string) *ast.FuncDecl {
	for _, f := range files {
		for _, d := range f.Decls {
			fd, ok := d.(*ast.FuncDecl)
			if !ok || fd.Name.Name != name {
				continue
			}
			r := ""
			if fd.Recv != nil && len(fd.Recv.List) > 0 {
				r = recvName(fd.Recv.List[0].Type)
			}
			if r == recv {
				return fd
			}
		}
	}
	return nil
}

func hasParam(fd *ast.FuncDecl, name string) bool {
	for _, f := range fd.Type.Params.List {
		for _, n := range f.Names {
			if n.Name == name {
				return true
			}
		}
	}
	return false
}

func recvName(e ast.Expr) string {
	switch t := e.(type) {
	case *ast.StarExpr:
		return recvName(t.X)
	case *ast.Ident:
		return t.Name
	}
	return "?"
}

// ---------------------------------------------------------------------------------------------------

type translator struct {
	info  *types.Info
	files []*ast.File       // the package's files: same-package helpers are inlined
	roots map[string]string // identifier -> field path it denotes ("" = the validated value itself)
	alias map[string]string // local variable -> Coq term
	depth int
}

func hasBranch(n ast.Node) bool {
	found := false
	ast.Inspect(n, func(m ast.Node) bool {
		switch m.(type) {
		case *ast.FuncLit:
			return false
		case *ast.RangeStmt, *ast.ForStmt, *ast.SwitchStmt, *ast.TypeSwitchStmt, *ast.SelectStmt:
			if m != n {
				return false // break / continue inside a nested loop or switch belong to it
			}
		case *ast.BranchStmt:
			found = true
		}
		return true
	})
	return found
}

func returnsNil(n ast.Node) bool {
	found := false
	ast.Inspect(n, func(m ast.Node) bool {
		switch r := m.(type) {
		case *ast.FuncLit:
			return false
		case *ast.ReturnStmt:
			// a bare return or a return whose (last) result is the identifier nil
			if len(r.Results) == 0 {
				found = true
			} else if id, ok := r.Results[len(r.Results)-1].(*ast.Ident); ok && id.Name == "nil" {
				found = true
			}
		}
		return true
	})
	return found
}

// endsInReturn: the block's last statement is a return (of something that is not the identifier nil: callers have
// excluded that with returnsNil)
func endsInReturn(b *ast.BlockStmt) bool {
	if b == nil || len(b.List) == 0 {
		return false
	}
	ret, ok := b.List[len(b.List)-1].(*ast.ReturnStmt)
	return ok && len(ret.Results) > 0
}

// guards walks the top-level statements of the body.
func (t *translator) guards(body *ast.BlockStmt) ([]string, bool) {
	var out []string
	for _, s := range body.List {
		switch st := s.(type) {
		case *ast.IfStmt:
			if returnsNil(st) {
				return out, true
			}
			// if A {...return} else if B {...return} ...: B is evaluated only when A was false, and the function
			// goes on (or accepts) only when both were: every condition of the chain is a guard as long as all the
			// branches before it end in a return
			for cur := st; cur != nil; {
				if !endsInReturn(cur.Body) {
					break
				}
				if cur.Init != nil {
					out = append(out, t.initGuard(cur)...)
				} else {
					out = append(out, t.cond(cur.Cond))
				}
				next, _ := cur.Else.(*ast.IfStmt)
				cur = next
			}
		case *ast.SwitchStmt:
			if returnsNil(st) {
				return out, true
			}
			if st.Init != nil || st.Tag != nil {
				continue
			}
			// switch { case A: return ..; case B: return .. }: as the if / else-if chain
			for _, c := range st.Body.List {
				cc, ok := c.(*ast.CaseClause)
				if !ok || cc.List == nil { // default
					break
				}
				if len(cc.Body) == 0 {
					break
				}
				ret, ok := cc.Body[len(cc.Body)-1].(*ast.ReturnStmt)
				if !ok || len(ret.Results) == 0 {
					break
				}
				g := t.cond(cc.List[0])
				for _, e := range cc.List[1:] {
					g = "(COr " + g + " " + t.cond(e) + ")"
				}
				out = append(out, g)
			}
		case *ast.AssignStmt:
			if st.Tok == token.DEFINE && len(st.Lhs) == 1 && len(st.Rhs) == 1 {
				if id, ok := st.Lhs[0].(*ast.Ident); ok {
					if tm, ok := t.term(st.Rhs[0]); ok {
						t.alias[id.Name] = tm
					} else {
						delete(t.alias, id.Name)
					}
				}
			} else {
				for _, l := range st.Lhs {
					if id, ok := l.(*ast.Ident); ok {
						delete(t.alias, id.Name)
					}
				}
			}
		case *ast.ReturnStmt:
			// tail call of a same-package validation: the function accepts iff the callee does
			if len(st.Results) == 1 {
				if call, ok := st.Results[0].(*ast.CallExpr); ok {
					if g, ok := t.inline(call); ok {
						out = append(out, g...)
					}
				}
			}
			return out, false
		default:
			if returnsNil(s) {
				return out, true
			}
		}
	}
	return out, false
}

// initGuard: `if err := CALL; err != nil { ...; return .. }` - the guards of a same-package callee are inlined,
// anything else is one opaque guard.
func (t *translator) initGuard(st *ast.IfStmt) []string {
	as, ok := st.Init.(*ast.AssignStmt)
	// `if n := len(x); n < c {`: a local alias
	if ok && as.Tok == token.DEFINE && len(as.Lhs) == 1 && len(as.Rhs) == 1 {
		if id, isID := as.Lhs[0].(*ast.Ident); isID {
			if tm, isTerm := t.term(as.Rhs[0]); isTerm {
				t.alias[id.Name] = tm
				return []string{t.cond(st.Cond)}
			}
		}
	}
	if ok && as.Tok == token.DEFINE && len(as.Lhs) == 1 && len(as.Rhs) == 1 {
		errID, ok1 := as.Lhs[0].(*ast.Ident)
		call, ok2 := as.Rhs[0].(*ast.CallExpr)
		be, ok3 := st.Cond.(*ast.BinaryExpr)
		if ok1 && ok2 && ok3 && be.Op == token.NEQ {
			l, okl := be.X.(*ast.Ident)
			r, okr := be.Y.(*ast.Ident)
			if okl && okr && l.Name == errID.Name && r.Name == "nil" {
				if g, ok := t.inline(call); ok {
					return g
				}
			}
		}
	}
	return []string{"COpaque"}
}

// inline returns the guards of a call of a function / method declared in the same package whose receiver or
// arguments are field paths of the validated value (the callee returns nil only if all of them were false).
func (t *translator) inline(call *ast.CallExpr) ([]string, bool) {
	if t.depth >= 4 {
		return nil, false
	}
	var obj types.Object
	var recvExpr ast.Expr
	switch f := call.Fun.(type) {
	case *ast.Ident:
		obj = t.info.Uses[f]
	case *ast.SelectorExpr:
		obj = t.info.Uses[f.Sel]
		recvExpr = f.X
	}
	fn, ok := obj.(*types.Func)
	if !ok {
		return nil, false
	}
	var decl *ast.FuncDecl
	for _, file := range t.files {
		for _, d := range file.Decls {
			if fd, ok := d.(*ast.FuncDecl); ok && fd.Body != nil && t.info.Defs[fd.Name] == fn {
				decl = fd
			}
		}
	}
	if decl == nil {
		return nil, false
	}
	roots := map[string]string{}
	if decl.Recv != nil {
		if recvExpr == nil || len(decl.Recv.List) != 1 || len(decl.Recv.List[0].Names) != 1 {
			return nil, false
		}
		if p, ok := t.pathOf(recvExpr); ok {
			roots[decl.Recv.List[0].Names[0].Name] = p
		}
	}
	i := 0
	for _, fld := range decl.Type.Params.List {
		for _, n := range fld.Names {
			if i < len(call.Args) {
				if p, ok := t.pathOf(call.Args[i]); ok {
					roots[n.Name] = p
				}
			}
			i++
		}
	}
	if len(roots) == 0 {
		return nil, false
	}
	sub := &translator{info: t.info, files: t.files, roots: roots, alias: map[string]string{}, depth: t.depth + 1}
	g, _ := sub.guards(decl.Body)
	return g, true
}

func (t *translator) cond(e ast.Expr) string {
	switch c := e.(type) {
	case *ast.ParenExpr:
		return t.cond(c.X)
	case *ast.UnaryExpr:
		if c.Op == token.NOT {
			return "(CNot " + t.cond(c.X) + ")"
		}
	case *ast.BinaryExpr:
		switch c.Op {
		case token.LOR:
			return "(COr " + t.cond(c.X) + " " + t.cond(c.Y) + ")"
		case token.LAND:
			return "(CAnd " + t.cond(c.X) + " " + t.cond(c.Y) + ")"
		case token.LSS, token.LEQ, token.GTR, token.GEQ, token.EQL, token.NEQ:
			a, ok1 := t.term(c.X)
			b, ok2 := t.term(c.Y)
			if !ok1 || !ok2 {
				return "COpaque"
			}
			switch c.Op {
			case token.LSS:
				return "(CLt " + a + " " + b + ")"
			case token.LEQ:
				return "(CLe " + a + " " + b + ")"
			case token.GTR:
				return "(CLt " + b + " " + a + ")"
			case token.GEQ:
				return "(CLe " + b + " " + a + ")"
			case token.EQL:
				return "(CEq " + a + " " + b + ")"
			default:
				return "(CNot (CEq " + a + " " + b + "))"
			}
		}
	}
	return "COpaque"
}

// pathOf: the field path an expression denotes: <root>.A.B -> join(path of root, "A.B"); a root identifier alone
// denotes its own path when that is not the whole validated value.
func (t *translator) pathOf(e ast.Expr) (string, bool) {
	var parts []string
	for {
		switch x := e.(type) {
		case *ast.SelectorExpr:
			parts = append([]string{x.Sel.Name}, parts...)
			e = x.X
			continue
		case *ast.ParenExpr:
			e = x.X
			continue
		case *ast.StarExpr:
			e = x.X
			continue
		case *ast.UnaryExpr:
			if x.Op == token.AND {
				e = x.X
				continue
			}
		case *ast.Ident:
			if base, ok := t.roots[x.Name]; ok {
				if base != "" {
					parts = append([]string{base}, parts...)
				}
				return strings.Join(parts, "."), true
			}
		}
		return "", false
	}
}

// path: a NON-EMPTY field path
func (t *translator) path(e ast.Expr) (string, bool) {
	p, ok := t.pathOf(e)
	return p, ok && p != ""
}

func unsignedInt(ty types.Type) bool {
	if ty == nil {
		return false
	}
	b, ok := ty.Underlying().(*types.Basic)
	return ok && b.Info()&types.IsInteger != 0 && b.Info()&types.IsUnsigned != 0
}

func (t *translator) term(e ast.Expr) (string, bool) {
	if tv, ok := t.info.Types[e]; ok && tv.Value != nil {
		if n, ok := natOf(tv.Value); ok {
			return "(TConst " + n + ")", true
		}
		return "", false
	}
	switch x := e.(type) {
	case *ast.ParenExpr:
		return t.term(x.X)
	case *ast.Ident:
		if a, ok := t.alias[x.Name]; ok {
			return a, true
		}
		if p, ok := t.path(x); ok && unsignedInt(t.info.Types[e].Type) {
			return "(TField \"" + p + "\")", true
		}
	case *ast.SelectorExpr:
		if p, ok := t.path(x); ok && unsignedInt(t.info.Types[e].Type) {
			return "(TField \"" + p + "\")", true
		}
	case *ast.CallExpr:
		if len(x.Args) != 1 {
			return "", false
		}
		if id, ok := x.Fun.(*ast.Ident); ok {
			if b, isB := t.info.Uses[id].(*types.Builtin); isB && b.Name() == "len" {
				if p, ok := t.path(x.Args[0]); ok {
					return "(TLen \"" + p + "\")", true
				}
				return "", false
			}
		}
		// conversion to an integer type of a length / unsigned field
		if tv, ok := t.info.Types[x.Fun]; ok && tv.IsType() {
			if b, ok := tv.Type.Underlying().(*types.Basic); ok && b.Info()&types.IsInteger != 0 {
				inner, ok := t.term(x.Args[0])
				if ok && (strings.HasPrefix(inner, "(TLen") || (strings.HasPrefix(inner, "(TField") && b.Info()&types.IsUnsigned != 0 && b.Kind() != types.Uint8 && b.Kind() != types.Uint16 && b.Kind() != types.Uint32)) {
					return inner, true
				}
			}
		}
	}
	return "", false
}

func modulePath(gomod []byte) string {
	m := regexp.MustCompile(`(?m)^module\s+(\S+)`).FindSubmatch(gomod)
	if m == nil {
		die("no module line in go.mod")
	}
	return string(m[1])
}

// goList runs `go list -export -deps -json` from a scratch module that requires the tree through a replace
// directive, so nothing is ever written into the tree itself.
func goList(repo, modPath string, gomod []byte, dirs []string) []*listPkg {
	tmp, err := os.MkdirTemp("", "haltguards-mod-")
	if err != nil {
		die("%v", err)
	}
	defer os.RemoveAll(tmp)
	body := string(gomod)
	body = regexp.MustCompile(`(?m)^module .*$`).ReplaceAllString(body, "")
	mod := "module haltguardsscan\n" + body + "\nrequire " + modPath + " v0.0.0\nreplace " + modPath + " => " + repo + "\n"
	if err := os.WriteFile(filepath.Join(tmp, "go.mod"), []byte(mod), 0o644); err != nil {
		die("%v", err)
	}
	if sum, err := os.ReadFile(filepath.Join(repo, "go.sum")); err == nil {
		os.WriteFile(filepath.Join(tmp, "go.sum"), sum, 0o644)
	}
	args := []string{"list", "-export", "-deps", "-json=ImportPath,Dir,Export,GoFiles,CgoFiles,Error"}
	for _, d := range dirs {
		args = append(args, modPath+"/"+filepath.ToSlash(d))
	}
	cmd := exec.Command("go", args...)
	cmd.Dir = tmp
	cmd.Env = append(os.Environ(), "GOFLAGS=-mod=mod", "GOPROXY=off", "GOSUMDB=off", "GOTOOLCHAIN=local", "GOWORK=off")
	var stderr bytes.Buffer
	cmd.Stderr = &stderr
	outb, err := cmd.Output()
	if err != nil {
		s := stderr.String()
		if len(s) > 3000 {
			s = s[len(s)-3000:]
		}
		die("go list failed: %v\n%s", err, s)
	}
	var res []*listPkg
	dec := json.NewDecoder(bytes.NewReader(outb))
	for {
		p := &listPkg{}
		if err := dec.Decode(p); err == io.EOF {
			break
		} else if err != nil {
			die("go list output: %v", err)
		}
		res = append(res, p)
	}
	return res
}
