// registry: regenerates from the Go source what the token-pair registry model (property C12) takes as given
// -> Gen/RegistryGen.v
//
// Sources (relative to -repo):
//
//	x/aggregate/types/token_pair.go : (TokenPair).GetID
//	    the operands of the string concatenation that is hashed, in order: 0 = <recv>.ERC20Address,
//	    1 = <recv>.Denoms[0], 2 = string literal (its bytes), 9 = anything else (source text); and the hash function.
//	x/aggregate/types/proposal.go   : CreateDenom, CreateDenomDescription
//	    body `return fmt.Sprintf(<literal>, args...)`: the format and the arguments: 3 = package constant (its string
//	    value, resolved in x/aggregate/types), 4 = the function's parameter, 9 = anything else.
//	x/aggregate/types/aggregate.pb.go : the constants of type Owner with their values.
//	every non-test .go file of the repository:
//	    registry_writers     : for every function that calls one of the registry write methods (SetTokenPair,
//	                           SetDenomsMap, SetDenomMap, SetERC20Map, DeleteTokenPair, deleteTokenPair,
//	                           deleteERC20Map, deleteDenomMap): "<file>:<Recv>.<Func>" and the calls in source order;
//	    registry_raw_access  : for every function that mentions one of the constants KeyPrefixTokenPair /
//	                           KeyPrefixTokenPairByERC20 / KeyPrefixTokenPairByDenom: the constant and, sorted, the
//	                           methods called on the prefix store / the iterator constructor used with it.
//
// Proofs/RegistrySource.v states what the model needs of these terms (decidable conditions evaluated on the
// regenerated values): the hashed string is text|denom0, the two format functions are the model's create_denom /
// create_descr, the owner values are the model's, every function that writes the registry is one the model has, and
// the six primitives write the prefix the model says.  A missing function / unparsable file is a failed tie (exit 1).
package main

import (
	"bytes"
	"flag"
	"fmt"
	"go/ast"
	"go/parser"
	"go/printer"
	"go/token"
	"os"
	"path/filepath"
	"sort"
	"strconv"
	"strings"
)

func die(f string, a ...interface{}) {
	fmt.Fprintf(os.Stderr, "registry: "+f+"\n", a...)
	os.Exit(1)
}

var fset = token.NewFileSet()

func src(n ast.Node) string {
	var b bytes.Buffer
	printer.Fprint(&b, fset, n)
	return strings.Join(strings.Fields(b.String()), " ")
}

func parse(path string) *ast.File {
	f, err := parser.ParseFile(fset, path, nil, 0)
	if err != nil {
		die("%v", err)
	}
	return f
}

func coqBytes(s string) string {
	if len(s) == 0 {
		return "[]"
	}
	parts := make([]string, len(s))
	for i := 0; i < len(s); i++ {
		parts[i] = fmt.Sprintf("x%02x", s[i])
	}
	return "[" + strings.Join(parts, ";") + "]"
}

func comment(s string) string {
	return strings.ReplaceAll(strings.ReplaceAll(s, "(*", "( *"), "*)", "* )")
}

func recvName(fd *ast.FuncDecl) string {
	if fd.Recv == nil || len(fd.Recv.List) != 1 {
		return ""
	}
	t := fd.Recv.List[0].Type
	if s, ok := t.(*ast.StarExpr); ok {
		t = s.X
	}
	if id, ok := t.(*ast.Ident); ok {
		return id.Name
	}
	return "?"
}

func recvVar(fd *ast.FuncDecl) string {
	if fd.Recv == nil || len(fd.Recv.List) != 1 || len(fd.Recv.List[0].Names) != 1 {
		return ""
	}
	return fd.Recv.List[0].Names[0].Name
}

func findFunc(f *ast.File, recv, name string) *ast.FuncDecl {
	for _, d := range f.Decls {
		if fd, ok := d.(*ast.FuncDecl); ok && fd.Name.Name == name && recvName(fd) == recv {
			return fd
		}
	}
	return nil
}

type part struct {
	kind int
	text string
}

func flattenAdd(e ast.Expr, out *[]ast.Expr) {
	if p, ok := e.(*ast.ParenExpr); ok {
		flattenAdd(p.X, out)
		return
	}
	if b, ok := e.(*ast.BinaryExpr); ok && b.Op == token.ADD {
		flattenAdd(b.X, out)
		flattenAdd(b.Y, out)
		return
	}
	*out = append(*out, e)
}

// GetID: `id := A + "|" + B; return H([]byte(id))` or `return H([]byte(A + "|" + B))`
func getID(fd *ast.FuncDecl) (parts []part, hash string) {
	rv := recvVar(fd)
	binds := map[string]ast.Expr{}
	var ret *ast.ReturnStmt
	for _, st := range fd.Body.List {
		switch s := st.(type) {
		case *ast.AssignStmt:
			if len(s.Lhs) == 1 && len(s.Rhs) == 1 {
				if id, ok := s.Lhs[0].(*ast.Ident); ok {
					binds[id.Name] = s.Rhs[0]
					continue
				}
			}
			return []part{{9, src(st)}}, "?"
		case *ast.ReturnStmt:
			ret = s
		default:
			return []part{{9, src(st)}}, "?"
		}
	}
	if ret == nil || len(ret.Results) != 1 {
		return []part{{9, "no single return"}}, "?"
	}
	call, ok := ret.Results[0].(*ast.CallExpr)
	if !ok || len(call.Args) != 1 {
		return []part{{9, src(ret)}}, "?"
	}
	hash = src(call.Fun)
	arg := call.Args[0]
	// []byte(x)
	if conv, ok := arg.(*ast.CallExpr); ok && len(conv.Args) == 1 {
		if at, ok := conv.Fun.(*ast.ArrayType); ok && at.Len == nil && src(at.Elt) == "byte" {
			arg = conv.Args[0]
		}
	}
	if id, ok := arg.(*ast.Ident); ok {
		if e, ok := binds[id.Name]; ok {
			arg = e
		}
	}
	var ops []ast.Expr
	flattenAdd(arg, &ops)
	for _, o := range ops {
		switch x := o.(type) {
		case *ast.BasicLit:
			if x.Kind == token.STRING {
				s, err := strconv.Unquote(x.Value)
				if err != nil {
					die("GetID: %v", err)
				}
				parts = append(parts, part{2, s})
				continue
			}
		case *ast.SelectorExpr:
			if id, ok := x.X.(*ast.Ident); ok && id.Name == rv && x.Sel.Name == "ERC20Address" {
				parts = append(parts, part{0, ""})
				continue
			}
		case *ast.IndexExpr:
			if sel, ok := x.X.(*ast.SelectorExpr); ok {
				if id, ok := sel.X.(*ast.Ident); ok && id.Name == rv && sel.Sel.Name == "Denoms" {
					if lit, ok := x.Index.(*ast.BasicLit); ok && lit.Value == "0" {
						parts = append(parts, part{1, ""})
						continue
					}
				}
			}
		}
		parts = append(parts, part{9, src(o)})
	}
	return parts, hash
}

// string constants of a package directory (const X = "lit" and const Y = X)
func stringConsts(dir string) map[string]string {
	out := map[string]string{}
	alias := map[string]string{}
	files, _ := filepath.Glob(filepath.Join(dir, "*.go"))
	for _, p := range files {
		if strings.HasSuffix(p, "_test.go") {
			continue
		}
		f := parse(p)
		for _, d := range f.Decls {
			gd, ok := d.(*ast.GenDecl)
			if !ok || gd.Tok != token.CONST {
				continue
			}
			for _, sp := range gd.Specs {
				vs := sp.(*ast.ValueSpec)
				for i, n := range vs.Names {
					if i >= len(vs.Values) {
						continue
					}
					switch v := vs.Values[i].(type) {
					case *ast.BasicLit:
						if v.Kind == token.STRING {
							if s, err := strconv.Unquote(v.Value); err == nil {
								out[n.Name] = s
							}
						}
					case *ast.Ident:
						alias[n.Name] = v.Name
					}
				}
			}
		}
	}
	for i := 0; i < 4; i++ {
		for k, a := range alias {
			if v, ok := out[a]; ok {
				out[k] = v
			}
		}
	}
	return out
}

// `return fmt.Sprintf(<lit>, args...)`
func sprintfFunc(fd *ast.FuncDecl, consts map[string]string) (format string, args []part) {
	if fd.Body == nil || len(fd.Body.List) != 1 {
		return "?", []part{{9, "body is not a single return"}}
	}
	ret, ok := fd.Body.List[0].(*ast.ReturnStmt)
	if !ok || len(ret.Results) != 1 {
		return "?", []part{{9, src(fd.Body.List[0])}}
	}
	call, ok := ret.Results[0].(*ast.CallExpr)
	if !ok || src(call.Fun) != "fmt.Sprintf" || len(call.Args) < 1 {
		return "?", []part{{9, src(ret)}}
	}
	lit, ok := call.Args[0].(*ast.BasicLit)
	if !ok || lit.Kind != token.STRING {
		return "?", []part{{9, src(call.Args[0])}}
	}
	format, err := strconv.Unquote(lit.Value)
	if err != nil {
		die("%s: %v", fd.Name.Name, err)
	}
	params := map[string]bool{}
	for _, fl := range fd.Type.Params.List {
		for _, n := range fl.Names {
			params[n.Name] = true
		}
	}
	for _, a := range call.Args[1:] {
		if id, ok := a.(*ast.Ident); ok {
			if params[id.Name] {
				args = append(args, part{4, ""})
				continue
			}
			if v, ok := consts[id.Name]; ok {
				args = append(args, part{3, v})
				continue
			}
		}
		args = append(args, part{9, src(a)})
	}
	return format, args
}

var writeMethods = map[string]bool{
	"SetTokenPair": true, "SetDenomsMap": true, "SetDenomMap": true, "SetERC20Map": true,
	"DeleteTokenPair": true, "deleteTokenPair": true, "deleteERC20Map": true, "deleteDenomMap": true,
}

func partsTerm(ps []part) string {
	items := []string{}
	for _, p := range ps {
		items = append(items, fmt.Sprintf("(%d%%nat, %s)", p.kind, coqBytes(p.text)))
	}
	return "[" + strings.Join(items, "; ") + "]"
}

func main() {
	repo := flag.String("repo", "/repo", "repository root")
	out := flag.String("out", "", "output directory (coq/theories/Gen)")
	flag.Parse()
	if *out == "" {
		die("-out required")
	}
	typesDir := filepath.Join(*repo, "x", "aggregate", "types")

	// GetID
	tp := parse(filepath.Join(typesDir, "token_pair.go"))
	gid := findFunc(tp, "TokenPair", "GetID")
	if gid == nil || gid.Body == nil {
		die("x/aggregate/types/token_pair.go: method (TokenPair).GetID not found")
	}
	parts, hash := getID(gid)

	// CreateDenom / CreateDenomDescription
	consts := stringConsts(typesDir)
	prop := parse(filepath.Join(typesDir, "proposal.go"))
	cd := findFunc(prop, "", "CreateDenom")
	cdd := findFunc(prop, "", "CreateDenomDescription")
	if cd == nil || cdd == nil {
		die("x/aggregate/types/proposal.go: CreateDenom / CreateDenomDescription not found")
	}
	cdFmt, cdArgs := sprintfFunc(cd, consts)
	cddFmt, cddArgs := sprintfFunc(cdd, consts)

	// Owner constants
	pb := parse(filepath.Join(typesDir, "aggregate.pb.go"))
	type ov struct {
		name string
		val  string
	}
	var owners []ov
	for _, d := range pb.Decls {
		gd, ok := d.(*ast.GenDecl)
		if !ok || gd.Tok != token.CONST {
			continue
		}
		for _, sp := range gd.Specs {
			vs := sp.(*ast.ValueSpec)
			if vs.Type == nil || src(vs.Type) != "Owner" {
				continue
			}
			for i, n := range vs.Names {
				if i >= len(vs.Values) {
					die("aggregate.pb.go: Owner constant %s without explicit value", n.Name)
				}
				lit, ok := vs.Values[i].(*ast.BasicLit)
				if !ok || lit.Kind != token.INT {
					die("aggregate.pb.go: Owner constant %s: value %s is not an integer literal", n.Name, src(vs.Values[i]))
				}
				owners = append(owners, ov{n.Name, lit.Value})
			}
		}
	}
	if len(owners) == 0 {
		die("aggregate.pb.go: no constant of type Owner")
	}

	// writers / raw access over the whole repository
	type fn struct {
		name  string
		calls []string
	}
	var writers []fn
	var raws []fn
	err := filepath.Walk(*repo, func(path string, info os.FileInfo, err error) error {
		if err != nil {
			return err
		}
		if info.IsDir() {
			b := info.Name()
			if path != *repo && (strings.HasPrefix(b, ".") || b == "vendor" || b == "third_party" || b == "node_modules" || b == "build" || b == "testdata") {
				return filepath.SkipDir
			}
			return nil
		}
		if !strings.HasSuffix(path, ".go") || strings.HasSuffix(path, "_test.go") {
			return nil
		}
		rel, _ := filepath.Rel(*repo, path)
		if strings.HasPrefix(rel, filepath.Join("x", "aggregate", "client")) {
			// CLI / REST clients build messages, they hold no keeper
		}
		f, perr := parser.ParseFile(fset, path, nil, 0)
		if perr != nil {
			die("%v", perr)
		}
		for _, d := range f.Decls {
			fd, ok := d.(*ast.FuncDecl)
			if !ok || fd.Body == nil {
				continue
			}
			name := rel + ":" + fd.Name.Name
			if r := recvName(fd); r != "" {
				name = rel + ":" + r + "." + fd.Name.Name
			}
			var calls []string
			prefixes := map[string]bool{}
			methods := map[string]bool{}
			stores := map[string]bool{}
			ast.Inspect(fd.Body, func(n ast.Node) bool {
				switch x := n.(type) {
				case *ast.AssignStmt:
					// store := prefix.NewStore(..., types.KeyPrefixTokenPairX) / iterator := sdk.KVStorePrefixIterator(store, types.KeyPrefixTokenPairX)
					for i, rhs := range x.Rhs {
						if c, ok := rhs.(*ast.CallExpr); ok && strings.Contains(src(c), "KeyPrefixTokenPair") && i < len(x.Lhs) {
							if id, ok := x.Lhs[i].(*ast.Ident); ok {
								stores[id.Name] = true
							}
							methods["<-"+src(c.Fun)] = true
						}
					}
				case *ast.SelectorExpr:
					if strings.HasPrefix(x.Sel.Name, "KeyPrefixTokenPair") {
						prefixes[x.Sel.Name] = true
					}
				case *ast.Ident:
					if strings.HasPrefix(x.Name, "KeyPrefixTokenPair") {
						prefixes[x.Name] = true
					}
				case *ast.CallExpr:
					if sel, ok := x.Fun.(*ast.SelectorExpr); ok {
						if writeMethods[sel.Sel.Name] {
							calls = append(calls, sel.Sel.Name)
						}
						if id, ok := sel.X.(*ast.Ident); ok && stores[id.Name] {
							methods[sel.Sel.Name] = true
						}
					}
				}
				return true
			})
			if len(calls) > 0 {
				writers = append(writers, fn{name, calls})
			}
			if len(prefixes) > 0 && !(rel == filepath.Join("x", "aggregate", "types", "keys.go")) {
				var items []string
				for p := range prefixes {
					items = append(items, p)
				}
				sort.Strings(items)
				var ms []string
				for m := range methods {
					ms = append(ms, m)
				}
				sort.Strings(ms)
				raws = append(raws, fn{name, append(items, ms...)})
			}
		}
		return nil
	})
	if err != nil {
		die("%v", err)
	}
	sort.Slice(writers, func(i, j int) bool { return writers[i].name < writers[j].name })
	sort.Slice(raws, func(i, j int) bool { return raws[i].name < raws[j].name })
	if len(writers) == 0 {
		die("no function writing the registry found (method names changed?)")
	}

	var b bytes.Buffer
	b.WriteString("(* GENERATED by tools/gotocoq/registry from x/aggregate/types/{token_pair,proposal,aggregate.pb}.go and every\n   non-test .go file of the repository -- do not edit. *)\nFrom Teleport Require Import Base.Bytes.\nLocal Open Scope N_scope.\n\n")
	fmt.Fprintf(&b, "(* (TokenPair).GetID hashes, in order (0 = ERC20Address, 1 = Denoms[0], 2 = literal, 9 = other): %s *)\n", comment(src(gid.Body)))
	fmt.Fprintf(&b, "Definition getid_parts : list (nat * bytes) := %s.\n", partsTerm(parts))
	fmt.Fprintf(&b, "Definition getid_hash : bytes := %s. (* %s *)\n\n", coqBytes(hash), comment(hash))
	fmt.Fprintf(&b, "(* CreateDenom: Sprintf(%q, ...) with (3 = constant value, 4 = the parameter, 9 = other) *)\n", cdFmt)
	fmt.Fprintf(&b, "Definition create_denom_fmt : bytes := %s.\nDefinition create_denom_args : list (nat * bytes) := %s.\n\n", coqBytes(cdFmt), partsTerm(cdArgs))
	fmt.Fprintf(&b, "(* CreateDenomDescription: Sprintf(%q, ...) *)\n", cddFmt)
	fmt.Fprintf(&b, "Definition create_descr_fmt : bytes := %s.\nDefinition create_descr_args : list (nat * bytes) := %s.\n\n", coqBytes(cddFmt), partsTerm(cddArgs))
	b.WriteString("(* constants of type Owner (aggregate.pb.go) *)\nDefinition owner_values : list (bytes * N) :=\n  [")
	for i, o := range owners {
		if i > 0 {
			b.WriteString(";\n   ")
		}
		fmt.Fprintf(&b, "(%s, %s) (* %s *)", coqBytes(o.name), o.val, o.name)
	}
	b.WriteString("].\n\n")
	emit := func(name, doc string, fs []fn) {
		fmt.Fprintf(&b, "(* %s *)\nDefinition %s : list (bytes * list bytes) :=\n  [", doc, name)
		for i, w := range fs {
			if i > 0 {
				b.WriteString(";\n   ")
			}
			var cs []string
			for _, c := range w.calls {
				cs = append(cs, coqBytes(c))
			}
			fmt.Fprintf(&b, "(%s, [%s]) (* %s: %s *)", coqBytes(w.name), strings.Join(cs, "; "), comment(w.name), comment(strings.Join(w.calls, " ")))
		}
		b.WriteString("].\n\n")
	}
	emit("registry_writers", "functions that call a registry write method, with the calls in source order", writers)
	emit("registry_raw_access", "functions that mention a KeyPrefixTokenPair* constant: the constants, then how the store is obtained (<-) and the methods called on it", raws)
	path := filepath.Join(*out, "RegistryGen.v")
	if old, err := os.ReadFile(path); err == nil && bytes.Equal(old, b.Bytes()) {
		return
	}
	if err := os.WriteFile(path, b.Bytes(), 0o644); err != nil {
		die("%v", err)
	}
}
