// registry: regenerates from the Go source what the token-pair registry model (property C12) takes as given
// -> Gen/RegistryGen.v
//
// Everything is SEMANTIC (what the code computes / which stores it can write), not a transcript of names and
// statements, so that extracting or inlining helpers, store accessors, loops written out etc. changes nothing:
//
//	getid_parts          the byte string (TokenPair).GetID hashes, as a normalised operand list
//	                     (0 = <recv>.ERC20Address, 1 = <recv>.Denoms[0], 2 = literal bytes, 9 = not understood).  A small
//	                     symbolic evaluator follows delegation to helpers of the package (parameters bound to the
//	                     caller's operands) and understands string concatenation, []byte / string conversions,
//	                     append(b, s...) / append(b, 'c', ...), make([]byte, 0, n), fmt.Sprintf with %s verbs,
//	                     strings.Join of a literal slice, bytes.Buffer / strings.Builder Write* calls and straight-line
//	                     assignments.  getid_hash = the hash function applied to it.
//	create_denom_parts,  CreateDenom / CreateDenomDescription evaluated the same way (2 = literal, package constants are
//	create_descr_parts   resolved to their value; 4 = the function's parameter).
//	owner_values         the constants of type Owner (aggregate.pb.go).
//	registry writers     interprocedural, over the packages under x/aggregate: a RAW WRITE is Set / Delete on a prefix store
//	                     of KeyPrefixTokenPair (1), ...ByERC20 (2), ...ByDenom (3) - obtained by prefix.NewStore or through any
//	                     chain of accessor functions returning such a store, held in a variable or used directly.  The
//	                     footprint of a function = the raw writes (code 10*prefix + 0 Set / 1 Delete) it can reach through
//	                     any chain of calls (callees resolved by name inside x/aggregate: an over-approximation).
//	  registry_entry_footprints   every EXPORTED function under x/aggregate with a non-empty footprint, named
//	                              "<package dir>:<Recv>.<Name>", with its sorted footprint;
//	  registry_unmodelled_writers functions that reach a raw write WITHOUT passing through one of the model's operations
//	                              (registry_ops_assumed) and are neither an operation nor one of the exported primitives
//	                              (registry_primitives_assumed): exported ones, and unexported ones nobody modelled calls;
//	  registry_external_primitive_callers  functions OUTSIDE x/aggregate that call a primitive by name;
//	  registry_undetermined       constructs the analysis does not understand (a prefix constant used outside
//	                              prefix.NewStore / KVStorePrefixIterator, a prefix store passed to an unknown function,
//	                              a file that does not parse ...): the writers obligation then fails, nothing else.
//
// Proofs/RegistrySource.v has the generic lemmas, Props/C12Source*.v one obligation file per item, so an item the
// translator cannot determine fails ITS obligation only.  The translator never exits non-zero.
package main

import (
	"bytes"
	"flag"
	"fmt"
	"go/ast"
	"go/parser"
	"go/printer"
	"go/token"
	"os"
	"path/filepath"
	"sort"
	"strconv"
	"strings"
)

var fset = token.NewFileSet()
var undetermined []string

func undet(f string, a ...interface{}) { undetermined = append(undetermined, fmt.Sprintf(f, a...)) }

func src(n ast.Node) string {
	var b bytes.Buffer
	printer.Fprint(&b, fset, n)
	return strings.Join(strings.Fields(b.String()), " ")
}

func coqBytes(s string) string {
	if len(s) == 0 {
		return "[]"
	}
	parts := make([]string, len(s))
	for i := 0; i < len(s); i++ {
		parts[i] = fmt.Sprintf("x%02x", s[i])
	}
	return "[" + strings.Join(parts, ";") + "]"
}

func comment(s string) string {
	return strings.ReplaceAll(strings.ReplaceAll(s, "(*", "( *"), "*)", "* )")
}

func recvName(fd *ast.FuncDecl) string {
	if fd.Recv == nil || len(fd.Recv.List) != 1 {
		return ""
	}
	t := fd.Recv.List[0].Type
	if s, ok := t.(*ast.StarExpr); ok {
		t = s.X
	}
	if id, ok := t.(*ast.Ident); ok {
		return id.Name
	}
	return "?"
}

func recvVar(fd *ast.FuncDecl) string {
	if fd.Recv == nil || len(fd.Recv.List) != 1 || len(fd.Recv.List[0].Names) != 1 {
		return ""
	}
	return fd.Recv.List[0].Names[0].Name
}

// ---------------------------------------------------------------------------------------------------
// symbolic evaluation of byte-string expressions

type part struct {
	kind int
	text string
}

type value struct {
	parts []part
	hash  string // non-empty: the value is hash(parts)
}

func lit(s string) value { return value{parts: []part{{2, s}}} }
func other(n ast.Node) value {
	return value{parts: []part{{9, src(n)}}}
}

func concat(a, b value) value {
	if a.hash != "" || b.hash != "" {
		return value{parts: []part{{9, "concatenation with a hash value"}}}
	}
	return value{parts: append(append([]part{}, a.parts...), b.parts...)}
}

func normalise(ps []part) []part {
	out := []part{}
	for _, p := range ps {
		if p.kind == 2 && p.text == "" {
			continue
		}
		if p.kind == 2 && len(out) > 0 && out[len(out)-1].kind == 2 {
			out[len(out)-1].text += p.text
			continue
		}
		out = append(out, p)
	}
	return out
}

type evaluator struct {
	funcs  map[string]*ast.FuncDecl // package-level functions and methods of the package, by name (methods: "Recv.Name")
	consts map[string]string
	depth  int
}

type env struct {
	vars map[string]value
	recv string // receiver variable of the ROOT function (GetID): its fields give kinds 0 / 1
}

func (ev *evaluator) expr(e ast.Expr, en *env) value {
	switch x := e.(type) {
	case *ast.ParenExpr:
		return ev.expr(x.X, en)
	case *ast.BasicLit:
		switch x.Kind {
		case token.STRING:
			if s, err := strconv.Unquote(x.Value); err == nil {
				return lit(s)
			}
		case token.CHAR:
			if s, err := strconv.Unquote(x.Value); err == nil && len(s) == 1 {
				return lit(s)
			}
		}
		return other(e)
	case *ast.Ident:
		if v, ok := en.vars[x.Name]; ok {
			return v
		}
		if c, ok := ev.consts[x.Name]; ok {
			return lit(c)
		}
		return other(e)
	case *ast.SelectorExpr:
		if id, ok := x.X.(*ast.Ident); ok && en.recv != "" && id.Name == en.recv && x.Sel.Name == "ERC20Address" {
			return value{parts: []part{{0, ""}}}
		}
		return other(e)
	case *ast.IndexExpr:
		if sel, ok := x.X.(*ast.SelectorExpr); ok {
			if id, ok := sel.X.(*ast.Ident); ok && en.recv != "" && id.Name == en.recv && sel.Sel.Name == "Denoms" {
				if l, ok := x.Index.(*ast.BasicLit); ok && l.Value == "0" {
					return value{parts: []part{{1, ""}}}
				}
			}
		}
		return other(e)
	case *ast.BinaryExpr:
		if x.Op == token.ADD {
			return concat(ev.expr(x.X, en), ev.expr(x.Y, en))
		}
		return other(e)
	case *ast.SliceExpr:
		// v[:] (the whole value: an array digest turned into a slice, a full re-slice)
		if x.Low == nil && x.High == nil && x.Max == nil {
			return ev.expr(x.X, en)
		}
		return other(e)
	case *ast.CallExpr:
		return ev.call(x, en)
	}
	return other(e)
}

// the same hash function under its different names
var hashNames = map[string]string{
	"tmhash.Sum": "sha256", "sha256.Sum256": "sha256", "crypto.Sha256": "sha256",
}

func hashName(s string) string {
	if c, ok := hashNames[s]; ok {
		return c
	}
	return s
}

func isByteSlice(t ast.Expr) bool {
	at, ok := t.(*ast.ArrayType)
	return ok && at.Len == nil && src(at.Elt) == "byte"
}

func (ev *evaluator) call(c *ast.CallExpr, en *env) value {
	// conversions
	if isByteSlice(c.Fun) && len(c.Args) == 1 {
		return ev.expr(c.Args[0], en)
	}
	if id, ok := c.Fun.(*ast.Ident); ok {
		switch id.Name {
		case "string":
			if len(c.Args) == 1 {
				return ev.expr(c.Args[0], en)
			}
		case "make":
			// make([]byte, 0) / make([]byte, 0, n): the empty string
			if len(c.Args) >= 2 && isByteSlice(c.Args[0]) {
				if l, ok := c.Args[1].(*ast.BasicLit); ok && l.Value == "0" {
					return value{}
				}
			}
			return other(c)
		case "append":
			if len(c.Args) == 0 {
				return other(c)
			}
			v := ev.expr(c.Args[0], en)
			for _, a := range c.Args[1:] {
				v = concat(v, ev.expr(a, en))
			}
			return v
		}
		// a function of the package
		if fd, ok := ev.funcs[id.Name]; ok && fd.Recv == nil {
			return ev.apply(fd, c.Args, en)
		}
		return other(c)
	}
	if sel, ok := c.Fun.(*ast.SelectorExpr); ok {
		name := src(sel)
		switch name {
		case "fmt.Sprintf":
			if len(c.Args) >= 1 {
				if l, ok := c.Args[0].(*ast.BasicLit); ok && l.Kind == token.STRING {
					if f, err := strconv.Unquote(l.Value); err == nil {
						return ev.sprintf(f, c.Args[1:], en, c)
					}
				}
			}
			return other(c)
		case "strings.Join":
			if len(c.Args) == 2 {
				if cl, ok := c.Args[0].(*ast.CompositeLit); ok {
					sep := ev.expr(c.Args[1], en)
					v := value{}
					for i, el := range cl.Elts {
						if i > 0 {
							v = concat(v, sep)
						}
						v = concat(v, ev.expr(el, en))
					}
					return v
				}
			}
			return other(c)
		}
		// buffer.String() / buffer.Bytes()
		if id, ok := sel.X.(*ast.Ident); ok {
			if v, ok := en.vars[id.Name]; ok && (sel.Sel.Name == "String" || sel.Sel.Name == "Bytes") && len(c.Args) == 0 {
				return v
			}
			// pkg.Func(x) with one argument and not a function of this package: a hash application
			if _, isVar := en.vars[id.Name]; !isVar && len(c.Args) == 1 && id.Name != en.recv {
				arg := ev.expr(c.Args[0], en)
				if arg.hash == "" {
					return value{parts: arg.parts, hash: hashName(name)}
				}
			}
		}
	}
	return other(c)
}

func (ev *evaluator) sprintf(f string, args []ast.Expr, en *env, n ast.Node) value {
	v := value{}
	ai := 0
	for i := 0; i < len(f); i++ {
		if f[i] != '%' {
			v = concat(v, lit(string(f[i])))
			continue
		}
		if i+1 < len(f) && f[i+1] == '%' {
			v = concat(v, lit("%"))
			i++
			continue
		}
		if i+1 < len(f) && f[i+1] == 's' && ai < len(args) {
			v = concat(v, ev.expr(args[ai], en))
			ai++
			i++
			continue
		}
		return other(n)
	}
	if ai != len(args) {
		return other(n)
	}
	return v
}

// apply evaluates a straight-line function body with its parameters bound to the arguments
func (ev *evaluator) apply(fd *ast.FuncDecl, args []ast.Expr, caller *env) value {
	if ev.depth > 6 || fd.Body == nil {
		return value{parts: []part{{9, "call depth / no body: " + fd.Name.Name}}}
	}
	ev.depth++
	defer func() { ev.depth-- }()
	en := &env{vars: map[string]value{}}
	i := 0
	for _, fl := range fd.Type.Params.List {
		for _, n := range fl.Names {
			if i < len(args) {
				en.vars[n.Name] = ev.expr(args[i], caller)
			}
			i++
		}
	}
	if i != len(args) {
		return value{parts: []part{{9, "arity: " + fd.Name.Name}}}
	}
	return ev.body(fd.Body, en)
}

func (ev *evaluator) body(b *ast.BlockStmt, en *env) value {
	for _, st := range b.List {
		switch s := st.(type) {
		case *ast.AssignStmt:
			if len(s.Lhs) == 1 && len(s.Rhs) == 1 {
				if id, ok := s.Lhs[0].(*ast.Ident); ok {
					switch s.Tok {
					case token.DEFINE, token.ASSIGN:
						en.vars[id.Name] = ev.expr(s.Rhs[0], en)
						continue
					case token.ADD_ASSIGN:
						en.vars[id.Name] = concat(en.vars[id.Name], ev.expr(s.Rhs[0], en))
						continue
					}
				}
			}
			return other(st)
		case *ast.DeclStmt:
			gd, ok := s.Decl.(*ast.GenDecl)
			if !ok || gd.Tok != token.VAR {
				return other(st)
			}
			for _, sp := range gd.Specs {
				vs := sp.(*ast.ValueSpec)
				for i, n := range vs.Names {
					if i < len(vs.Values) {
						en.vars[n.Name] = ev.expr(vs.Values[i], en)
					} else {
						en.vars[n.Name] = value{} // zero value: empty string / nil slice / empty buffer
					}
				}
			}
		case *ast.ExprStmt:
			// buf.WriteString(x) / buf.WriteByte(c) / buf.Write(x)
			if c, ok := s.X.(*ast.CallExpr); ok {
				if sel, ok := c.Fun.(*ast.SelectorExpr); ok {
					if id, ok := sel.X.(*ast.Ident); ok && len(c.Args) == 1 {
						if cur, ok := en.vars[id.Name]; ok && (sel.Sel.Name == "WriteString" || sel.Sel.Name == "WriteByte" || sel.Sel.Name == "Write" || sel.Sel.Name == "WriteRune") {
							en.vars[id.Name] = concat(cur, ev.expr(c.Args[0], en))
							continue
						}
						if _, ok := en.vars[id.Name]; ok && sel.Sel.Name == "Grow" {
							continue // capacity only
						}
					}
					if id, ok := sel.X.(*ast.Ident); ok && len(c.Args) == 0 {
						if _, ok := en.vars[id.Name]; ok && sel.Sel.Name == "Reset" {
							en.vars[id.Name] = value{}
							continue
						}
					}
				}
			}
			return other(st)
		case *ast.ReturnStmt:
			if len(s.Results) != 1 {
				return other(st)
			}
			return ev.expr(s.Results[0], en)
		default:
			return other(st)
		}
	}
	return value{parts: []part{{9, "no return"}}}
}

// string constants of a package directory (const X = "lit" and const Y = X)
func stringConsts(files []*ast.File) map[string]string {
	out := map[string]string{}
	alias := map[string]string{}
	for _, f := range files {
		for _, d := range f.Decls {
			gd, ok := d.(*ast.GenDecl)
			if !ok || gd.Tok != token.CONST {
				continue
			}
			for _, sp := range gd.Specs {
				vs := sp.(*ast.ValueSpec)
				for i, n := range vs.Names {
					if i >= len(vs.Values) {
						continue
					}
					switch v := vs.Values[i].(type) {
					case *ast.BasicLit:
						if v.Kind == token.STRING || v.Kind == token.CHAR {
							if s, err := strconv.Unquote(v.Value); err == nil && (v.Kind == token.STRING || len(s) == 1) {
								out[n.Name] = s
							}
						}
					case *ast.Ident:
						alias[n.Name] = v.Name
					}
				}
			}
		}
	}
	for i := 0; i < 4; i++ {
		for k, a := range alias {
			if v, ok := out[a]; ok {
				out[k] = v
			}
		}
	}
	return out
}

func partsTerm(ps []part) string {
	items := []string{}
	for _, p := range ps {
		items = append(items, fmt.Sprintf("(%d%%nat, %s)", p.kind, coqBytes(p.text)))
	}
	return "[" + strings.Join(items, "; ") + "]"
}

// ---------------------------------------------------------------------------------------------------
// who can write the three prefixes

var prefixCode = map[string]int{"KeyPrefixTokenPair": 1, "KeyPrefixTokenPairByERC20": 2, "KeyPrefixTokenPairByDenom": 3}

// the model's operations and the exported write primitives they are made of (Model/Registry.v)
var opsAssumed = []string{
	"x/aggregate:InitGenesis",
	"x/aggregate/keeper:Keeper.AddCoin",
	"x/aggregate/keeper:Keeper.ConvertCoin",
	"x/aggregate/keeper:Keeper.ConvertERC20",
	"x/aggregate/keeper:Keeper.RegisterCoin",
	"x/aggregate/keeper:Keeper.RegisterERC20",
	"x/aggregate/keeper:Keeper.ToggleRelay",
	"x/aggregate/keeper:Keeper.UpdateTokenPairERC20",
}
var primitivesAssumed = []string{
	"x/aggregate/keeper:Keeper.DeleteTokenPair",
	"x/aggregate/keeper:Keeper.SetDenomMap",
	"x/aggregate/keeper:Keeper.SetDenomsMap",
	"x/aggregate/keeper:Keeper.SetERC20Map",
	"x/aggregate/keeper:Keeper.SetTokenPair",
}

// functions a prefix store may be handed to without being written
var readOnlyCallees = map[string]bool{
	"query.Paginate": true, "sdk.KVStorePrefixIterator": true, "sdk.KVStoreReversePrefixIterator": true,
	"storetypes.KVStorePrefixIterator": true, "types.KVStorePrefixIterator": true,
}

type fn struct {
	key      string
	pkg      string
	recv     string
	name     string
	exported bool
	decl     *ast.FuncDecl
	calls    []callRef
	raw      map[int]bool
	accessor int
}

type callRef struct {
	sel  bool
	name string
}

func isExported(s string) bool { return s != "" && s[0] >= 'A' && s[0] <= 'Z' }

func mentionsPrefix(e ast.Node) int {
	code := 0
	ast.Inspect(e, func(n ast.Node) bool {
		switch x := n.(type) {
		case *ast.SelectorExpr:
			if c, ok := prefixCode[x.Sel.Name]; ok {
				code = c
			}
		case *ast.Ident:
			if c, ok := prefixCode[x.Name]; ok {
				code = c
			}
		}
		return true
	})
	return code
}

type analysis struct {
	fns          []*fn
	byName       map[string][]*fn // simple name -> functions under x/aggregate
	accessorName map[string]int   // simple name of accessor functions -> prefix
}

// storeExpr: does the expression denote a prefix store of one of the three prefixes (0 = no)
func (a *analysis) storeExpr(e ast.Expr, vars map[string]int) int {
	switch x := e.(type) {
	case *ast.ParenExpr:
		return a.storeExpr(x.X, vars)
	case *ast.Ident:
		return vars[x.Name]
	case *ast.CallExpr:
		if src(x.Fun) == "prefix.NewStore" && len(x.Args) == 2 {
			return mentionsPrefix(x.Args[1])
		}
		switch f := x.Fun.(type) {
		case *ast.Ident:
			return a.accessorName[f.Name]
		case *ast.SelectorExpr:
			return a.accessorName[f.Sel.Name]
		}
	}
	return 0
}

func (a *analysis) storeVars(fd *ast.FuncDecl) map[string]int {
	vars := map[string]int{}
	for changed := true; changed; {
		changed = false
		ast.Inspect(fd.Body, func(n ast.Node) bool {
			switch s := n.(type) {
			case *ast.AssignStmt:
				for i, rhs := range s.Rhs {
					if i < len(s.Lhs) && len(s.Lhs) == len(s.Rhs) {
						if id, ok := s.Lhs[i].(*ast.Ident); ok {
							if p := a.storeExpr(rhs, vars); p > 0 && vars[id.Name] != p {
								vars[id.Name] = p
								changed = true
							}
						}
					}
				}
			case *ast.ValueSpec:
				for i, v := range s.Values {
					if i < len(s.Names) {
						if p := a.storeExpr(v, vars); p > 0 && vars[s.Names[i].Name] != p {
							vars[s.Names[i].Name] = p
							changed = true
						}
					}
				}
			}
			return true
		})
	}
	return vars
}

// isAccessor: every return statement returns a prefix store of the same prefix
func (a *analysis) isAccessor(f *fn) int {
	fd := f.decl
	if fd.Type.Results == nil || len(fd.Type.Results.List) != 1 {
		return 0
	}
	vars := a.storeVars(fd)
	p, n := 0, 0
	ok := true
	ast.Inspect(fd.Body, func(nd ast.Node) bool {
		if _, isLit := nd.(*ast.FuncLit); isLit {
			return false
		}
		if r, isRet := nd.(*ast.ReturnStmt); isRet {
			n++
			if len(r.Results) != 1 {
				ok = false
				return true
			}
			q := a.storeExpr(r.Results[0], vars)
			if q == 0 || (p != 0 && q != p) {
				ok = false
			}
			p = q
		}
		return true
	})
	if !ok || n == 0 {
		return 0
	}
	return p
}

func (a *analysis) analyse(f *fn) {
	fd := f.decl
	vars := a.storeVars(fd)
	recognised := map[ast.Node]bool{} // prefix-constant mentions inside prefix.NewStore / iterator constructors
	ast.Inspect(fd.Body, func(n ast.Node) bool {
		c, ok := n.(*ast.CallExpr)
		if !ok {
			return true
		}
		fname := src(c.Fun)
		if fname == "prefix.NewStore" || readOnlyCallees[fname] {
			for _, arg := range c.Args {
				ast.Inspect(arg, func(m ast.Node) bool {
					switch x := m.(type) {
					case *ast.SelectorExpr:
						if _, ok := prefixCode[x.Sel.Name]; ok {
							recognised[x] = true
							recognised[x.Sel] = true
						}
					case *ast.Ident:
						if _, ok := prefixCode[x.Name]; ok {
							recognised[x] = true
						}
					}
					return true
				})
			}
		}
		// calls and raw writes
		switch fun := c.Fun.(type) {
		case *ast.Ident:
			f.calls = append(f.calls, callRef{false, fun.Name})
		case *ast.SelectorExpr:
			if p := a.storeExpr(fun.X, vars); p > 0 {
				switch fun.Sel.Name {
				case "Set":
					f.raw[10*p] = true
				case "Delete":
					f.raw[10*p+1] = true
				case "Get", "Has", "Iterator", "ReverseIterator":
				default:
					undet("%s: method %s called on a prefix store of the registry", f.key, fun.Sel.Name)
				}
			} else {
				f.calls = append(f.calls, callRef{true, fun.Sel.Name})
			}
		}
		// a prefix store handed to another function
		if !readOnlyCallees[fname] {
			for _, arg := range c.Args {
				if p := a.storeExpr(arg, vars); p > 0 {
					undet("%s: a prefix store of the registry is passed to %s", f.key, fname)
				}
			}
		}
		return true
	})
	// prefix constants used in any other way
	ast.Inspect(fd.Body, func(n ast.Node) bool {
		switch x := n.(type) {
		case *ast.SelectorExpr:
			if _, ok := prefixCode[x.Sel.Name]; ok && !recognised[x] {
				undet("%s: %s used outside prefix.NewStore / a prefix iterator", f.key, x.Sel.Name)
			}
		case *ast.Ident:
			if _, ok := prefixCode[x.Name]; ok && !recognised[x] {
				undet("%s: %s used outside prefix.NewStore / a prefix iterator", f.key, x.Name)
			}
		}
		return true
	})
}

func (a *analysis) callees(f *fn) []*fn {
	var out []*fn
	for _, c := range f.calls {
		for _, g := range a.byName[c.name] {
			if !c.sel && (g.recv != "" || g.pkg != f.pkg) {
				continue // a plain identifier call resolves to a package-level function of the same package
			}
			out = append(out, g)
		}
	}
	return out
}

func setOf(l []string) map[string]bool {
	m := map[string]bool{}
	for _, s := range l {
		m[s] = true
	}
	return m
}

func codes(m map[int]bool) []int {
	var out []int
	for c := range m {
		out = append(out, c)
	}
	sort.Ints(out)
	return out
}

func main() {
	repo := flag.String("repo", "/repo", "repository root")
	out := flag.String("out", "", "output directory (coq/theories/Gen)")
	flag.Parse()
	if *out == "" {
		fmt.Fprintln(os.Stderr, "registry: -out required")
		return
	}
	var b bytes.Buffer
	func() {
		defer func() {
			if r := recover(); r != nil {
				undet("translator panic: %v", r)
			}
		}()
		generate(*repo, &b)
	}()
	if b.Len() == 0 || !strings.Contains(b.String(), "Definition registry_undetermined") {
		// nothing could be generated: every item undetermined
		b.Reset()
		b.WriteString("(* GENERATED by tools/gotocoq/registry -- generation failed, every item is undetermined *)\nFrom Teleport Require Import Base.Bytes.\nLocal Open Scope N_scope.\n")
		b.WriteString("Definition getid_parts : list (nat * bytes) := [(9%nat, [])].\nDefinition getid_hash : bytes := [].\n")
		b.WriteString("Definition create_denom_parts : list (nat * bytes) := [(9%nat, [])].\nDefinition create_descr_parts : list (nat * bytes) := [(9%nat, [])].\n")
		b.WriteString("Definition owner_values : list (bytes * N) := [].\n")
		b.WriteString("Definition registry_ops_assumed : list bytes := [].\nDefinition registry_primitives_assumed : list bytes := [].\n")
		b.WriteString("Definition registry_entry_footprints : list (bytes * list nat) := [].\nDefinition registry_unmodelled_writers : list bytes := [].\n")
		b.WriteString("Definition registry_external_primitive_callers : list bytes := [].\n")
		fmt.Fprintf(&b, "Definition registry_undetermined : list bytes := [%s].\n", coqBytes(strings.Join(undetermined, "; ")))
	}
	path := filepath.Join(*out, "RegistryGen.v")
	if old, err := os.ReadFile(path); err == nil && bytes.Equal(old, b.Bytes()) {
		return
	}
	if err := os.WriteFile(path, b.Bytes(), 0o644); err != nil {
		fmt.Fprintf(os.Stderr, "registry: %v\n", err)
	}
}

func generate(repo string, b *bytes.Buffer) {
	// ---- parse everything
	type pf struct {
		rel  string
		file *ast.File
	}
	var files []pf
	filepath.Walk(repo, func(path string, info os.FileInfo, err error) error {
		if err != nil {
			return nil
		}
		if info.IsDir() {
			bn := info.Name()
			if path != repo && (strings.HasPrefix(bn, ".") || bn == "vendor" || bn == "third_party" || bn == "node_modules" || bn == "build" || bn == "testdata") {
				return filepath.SkipDir
			}
			return nil
		}
		if !strings.HasSuffix(path, ".go") || strings.HasSuffix(path, "_test.go") {
			return nil
		}
		rel, _ := filepath.Rel(repo, path)
		f, perr := parser.ParseFile(fset, path, nil, 0)
		if perr != nil {
			if strings.HasPrefix(rel, filepath.Join("x", "aggregate")) {
				undet("%s does not parse: %v", rel, perr)
			}
			return nil
		}
		files = append(files, pf{rel, f})
		return nil
	})
	inU := func(rel string) bool { return strings.HasPrefix(rel, "x/aggregate/") }

	// ---- the types package: GetID, CreateDenom, CreateDenomDescription, Owner
	var typesFiles []*ast.File
	for _, f := range files {
		if filepath.Dir(f.rel) == "x/aggregate/types" {
			typesFiles = append(typesFiles, f.file)
		}
	}
	ev := &evaluator{funcs: map[string]*ast.FuncDecl{}, consts: stringConsts(typesFiles)}
	var getID *ast.FuncDecl
	for _, f := range typesFiles {
		for _, d := range f.Decls {
			if fd, ok := d.(*ast.FuncDecl); ok && fd.Body != nil {
				if fd.Recv == nil {
					ev.funcs[fd.Name.Name] = fd
				} else if recvName(fd) == "TokenPair" && fd.Name.Name == "GetID" {
					getID = fd
				}
			}
		}
	}
	getidParts, getidHash := []part{{9, "method (TokenPair).GetID not found"}}, ""
	getidSrc := ""
	if getID != nil {
		getidSrc = src(getID.Body)
		v := ev.body(getID.Body, &env{vars: map[string]value{}, recv: recvVar(getID)})
		if v.hash == "" {
			getidParts = []part{{9, "GetID does not return a hash of a byte string: " + partsTerm(v.parts)}}
		} else {
			getidParts, getidHash = normalise(v.parts), v.hash
		}
	}
	formatParts := func(name string) []part {
		fd, ok := ev.funcs[name]
		if !ok {
			return []part{{9, name + " not found"}}
		}
		en := &env{vars: map[string]value{}}
		n := 0
		for _, fl := range fd.Type.Params.List {
			for _, p := range fl.Names {
				en.vars[p.Name] = value{parts: []part{{4, ""}}}
				n++
			}
		}
		if n != 1 {
			return []part{{9, name + " does not take one parameter"}}
		}
		v := ev.body(fd.Body, en)
		if v.hash != "" {
			return []part{{9, name + " returns a hash"}}
		}
		return normalise(v.parts)
	}
	cdParts, cddParts := formatParts("CreateDenom"), formatParts("CreateDenomDescription")

	type ov struct{ name, val string }
	var owners []ov
	for _, f := range typesFiles {
		for _, d := range f.Decls {
			gd, ok := d.(*ast.GenDecl)
			if !ok || gd.Tok != token.CONST {
				continue
			}
			for _, sp := range gd.Specs {
				vs := sp.(*ast.ValueSpec)
				if vs.Type == nil || src(vs.Type) != "Owner" {
					continue
				}
				for i, n := range vs.Names {
					if i < len(vs.Values) {
						if l, ok := vs.Values[i].(*ast.BasicLit); ok && l.Kind == token.INT {
							owners = append(owners, ov{n.Name, l.Value})
						}
					}
				}
			}
		}
	}

	// ---- the call graph under x/aggregate
	a := &analysis{byName: map[string][]*fn{}, accessorName: map[string]int{}}
	primNames := map[string]bool{}
	for _, p := range primitivesAssumed {
		primNames[p[strings.LastIndex(p, ".")+1:]] = true
	}
	var external []string
	for _, f := range files {
		for _, d := range f.file.Decls {
			fd, ok := d.(*ast.FuncDecl)
			if !ok || fd.Body == nil {
				continue
			}
			pkg := filepath.Dir(f.rel)
			r := recvName(fd)
			name := fd.Name.Name
			key := pkg + ":" + name
			if r != "" {
				key = pkg + ":" + r + "." + name
			}
			if inU(f.rel) {
				g := &fn{key: key, pkg: pkg, recv: r, name: name, decl: fd, raw: map[int]bool{},
					exported: isExported(name) && (r == "" || isExported(r))}
				a.fns = append(a.fns, g)
				a.byName[name] = append(a.byName[name], g)
				continue
			}
			// outside x/aggregate: nobody may call a write primitive or touch the prefixes
			seen := map[string]bool{}
			ast.Inspect(fd.Body, func(n ast.Node) bool {
				switch x := n.(type) {
				case *ast.CallExpr:
					if sel, ok := x.Fun.(*ast.SelectorExpr); ok && primNames[sel.Sel.Name] && !seen[sel.Sel.Name] {
						seen[sel.Sel.Name] = true
						external = append(external, key+" calls "+sel.Sel.Name)
					}
				case *ast.SelectorExpr:
					if _, ok := prefixCode[x.Sel.Name]; ok {
						undet("%s: %s used outside x/aggregate", key, x.Sel.Name)
					}
				}
				return true
			})
		}
	}
	// accessors (fixed point: an accessor may delegate to an accessor)
	for changed := true; changed; {
		changed = false
		for _, f := range a.fns {
			if f.accessor == 0 {
				if p := a.isAccessor(f); p > 0 {
					f.accessor = p
					if q, dup := a.accessorName[f.name]; dup && q != p {
						undet("two store accessors named %s for different prefixes", f.name)
					}
					a.accessorName[f.name] = p
					changed = true
				}
			}
		}
	}
	for _, f := range a.fns {
		a.analyse(f)
	}
	// footprints: full, and without passing through an operation
	ops, prims := setOf(opsAssumed), setOf(primitivesAssumed)
	full := map[*fn]map[int]bool{}
	noOp := map[*fn]map[int]bool{}
	for _, f := range a.fns {
		full[f], noOp[f] = map[int]bool{}, map[int]bool{}
		for c := range f.raw {
			full[f][c], noOp[f][c] = true, true
		}
	}
	for changed := true; changed; {
		changed = false
		for _, f := range a.fns {
			for _, g := range a.callees(f) {
				for c := range full[g] {
					if !full[f][c] {
						full[f][c] = true
						changed = true
					}
				}
				if !ops[g.key] {
					for c := range noOp[g] {
						if !noOp[f][c] {
							noOp[f][c] = true
							changed = true
						}
					}
				}
			}
		}
	}
	// reachable from the modelled functions
	reach := map[*fn]bool{}
	var stack []*fn
	for _, f := range a.fns {
		if ops[f.key] || prims[f.key] {
			reach[f] = true
			stack = append(stack, f)
		}
	}
	for len(stack) > 0 {
		f := stack[len(stack)-1]
		stack = stack[:len(stack)-1]
		for _, g := range a.callees(f) {
			if !reach[g] {
				reach[g] = true
				stack = append(stack, g)
			}
		}
	}
	type ent struct {
		key string
		fp  []int
	}
	var entries []ent
	var unmodelled []string
	for _, f := range a.fns {
		if f.exported && len(full[f]) > 0 {
			entries = append(entries, ent{f.key, codes(full[f])})
		}
		if len(noOp[f]) > 0 && !ops[f.key] && !prims[f.key] && (f.exported || !reach[f]) {
			unmodelled = append(unmodelled, f.key)
		}
	}
	sort.Slice(entries, func(i, j int) bool { return entries[i].key < entries[j].key })
	sort.Strings(unmodelled)
	sort.Strings(external)
	sort.Strings(undetermined)

	// ---- output
	b.WriteString("(* GENERATED by tools/gotocoq/registry from the packages under x/aggregate (and, for callers of the write\n   primitives, every non-test .go file of the repository) -- do not edit. *)\nFrom Teleport Require Import Base.Bytes.\nLocal Open Scope N_scope.\n\n")
	fmt.Fprintf(b, "(* what (TokenPair).GetID hashes (0 = ERC20Address, 1 = Denoms[0], 2 = literal, 9 = not understood); source: %s *)\n", comment(getidSrc))
	fmt.Fprintf(b, "Definition getid_parts : list (nat * bytes) := %s.\n", partsTerm(getidParts))
	fmt.Fprintf(b, "Definition getid_hash : bytes := %s. (* %s *)\n\n", coqBytes(getidHash), comment(getidHash))
	fmt.Fprintf(b, "(* CreateDenom / CreateDenomDescription as operand lists (2 = literal, 4 = the parameter, 9 = not understood) *)\n")
	fmt.Fprintf(b, "Definition create_denom_parts : list (nat * bytes) := %s.\n", partsTerm(cdParts))
	fmt.Fprintf(b, "Definition create_descr_parts : list (nat * bytes) := %s.\n\n", partsTerm(cddParts))
	b.WriteString("(* constants of type Owner *)\nDefinition owner_values : list (bytes * N) :=\n  [")
	for i, o := range owners {
		if i > 0 {
			b.WriteString(";\n   ")
		}
		fmt.Fprintf(b, "(%s, %s) (* %s *)", coqBytes(o.name), o.val, o.name)
	}
	b.WriteString("].\n\n")
	list := func(name, doc string, l []string) {
		fmt.Fprintf(b, "(* %s *)\nDefinition %s : list bytes :=\n  [", doc, name)
		for i, s := range l {
			if i > 0 {
				b.WriteString(";\n   ")
			}
			fmt.Fprintf(b, "%s (* %s *)", coqBytes(s), comment(s))
		}
		b.WriteString("].\n\n")
	}
	list("registry_ops_assumed", "the model's operations: reaching a raw write through one of them is fine", opsAssumed)
	list("registry_primitives_assumed", "the exported write primitives the operations are made of", primitivesAssumed)
	fmt.Fprintf(b, "(* exported functions under x/aggregate that can reach a raw write, with the writes they can reach\n   (10 / 11 = Set / Delete on prefix 0x01, 20 / 21 on 0x02, 30 / 31 on 0x03) *)\nDefinition registry_entry_footprints : list (bytes * list nat) :=\n  [")
	for i, e := range entries {
		if i > 0 {
			b.WriteString(";\n   ")
		}
		var cs []string
		for _, c := range e.fp {
			cs = append(cs, fmt.Sprintf("%d%%nat", c))
		}
		fmt.Fprintf(b, "(%s, [%s]) (* %s *)", coqBytes(e.key), strings.Join(cs, "; "), comment(e.key))
	}
	b.WriteString("].\n\n")
	list("registry_unmodelled_writers", "functions reaching a raw write without passing through an operation that are neither operation nor primitive", unmodelled)
	list("registry_external_primitive_callers", "functions outside x/aggregate calling a write primitive", external)
	list("registry_undetermined", "constructs the analysis does not understand", undetermined)
}
