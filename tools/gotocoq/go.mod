module gotocoq

go 1.21
