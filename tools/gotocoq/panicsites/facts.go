package main

// Two additions to the inventory that make the site table robust against behaviour-preserving refactorings:
//
//  1. norm: a NORMALISED text of every site expression - the receiver is written $r, local variables that are
//     defined exactly once from a pure expression and never assigned again are replaced by that expression
//     (number := m.Header.Height.RevisionHeight; number % epoch  ->  $r.Header.Height.RevisionHeight % $r.Epoch).
//     The Coq side lets a site inherit the row of a baseline site with the same (package, kind, norm) when it was
//     only renamed or moved into a new unexported helper called from the functions that held it before.
//
//  2. auto: for index / slice sites X[c], X[a:b], X[len(X)-c:] ... over a LOCAL slice / string (or a field path of
//     a local struct value) the lower bound on len(X) the expression needs, together with the lower bounds
//     (len(X) >= k) and divisibility facts (len(X) % c == 0) that the enclosing control flow establishes
//     syntactically before the site: conditions of enclosing if / for statements, negated conditions of preceding
//     `if C { ...; return | panic | continue | break }`.  A fact is dropped as soon as X (or its root variable)
//     may have been assigned between the place that establishes it and the site; facts from outside a loop are
//     dropped when the loop assigns the variable, except len(X) % c == 0 when every assignment in the loop is
//     X = X[c:] (which preserves it).  The Coq side discharges the site when the facts imply the need (generic
//     lemma + vm_compute); nothing is assumed about sites for which no need can be computed.

import (
	"go/ast"
	"go/constant"
	"go/token"
	"go/types"
	"strings"
)

type fnCtx struct {
	info  *types.Info
	decl  *ast.FuncDecl
	recv  types.Object          // receiver variable (may be nil)
	alias map[types.Object]ast.Expr // single-definition pure locals
	def1  map[types.Object]ast.Expr // every local defined exactly once and never assigned again -> its defining expression
	never map[types.Object]bool     // locals / parameters that are assigned somewhere (besides their definition)
}

func newFnCtx(info *types.Info, decl *ast.FuncDecl) *fnCtx {
	c := &fnCtx{info: info, decl: decl, alias: map[types.Object]ast.Expr{}}
	if decl.Recv != nil && len(decl.Recv.List) == 1 && len(decl.Recv.List[0].Names) == 1 {
		c.recv = info.Defs[decl.Recv.List[0].Names[0]]
	}
	defs := map[types.Object]ast.Expr{}
	bad := map[types.Object]bool{}
	markAssigned := func(e ast.Expr) {
		if id := c.lenRoot(e); id != nil {
			if o := c.obj(id); o != nil {
				bad[o] = true
			}
		}
	}
	ast.Inspect(decl.Body, func(n ast.Node) bool {
		switch s := n.(type) {
		case *ast.AssignStmt:
			if s.Tok == token.DEFINE && len(s.Lhs) == len(s.Rhs) {
				for i, l := range s.Lhs {
					id, ok := l.(*ast.Ident)
					if !ok {
						continue
					}
					if o := info.Defs[id]; o != nil {
						if _, dup := defs[o]; dup {
							bad[o] = true
						}
						defs[o] = s.Rhs[i]
					} else if o := info.Uses[id]; o != nil {
						bad[o] = true // redeclaration form assigns an existing variable
					}
				}
			} else {
				for _, l := range s.Lhs {
					markAssigned(l)
				}
			}
		case *ast.IncDecStmt:
			markAssigned(s.X)
		case *ast.RangeStmt:
			if s.Key != nil {
				markAssigned(s.Key)
				if id, ok := s.Key.(*ast.Ident); ok {
					if o := info.Defs[id]; o != nil {
						bad[o] = true
					}
				}
			}
			if s.Value != nil {
				markAssigned(s.Value)
				if id, ok := s.Value.(*ast.Ident); ok {
					if o := info.Defs[id]; o != nil {
						bad[o] = true
					}
				}
			}
		case *ast.UnaryExpr:
			if s.Op == token.AND {
				markAssigned(s.X)
			}
		}
		return true
	})
	c.def1, c.never = map[types.Object]ast.Expr{}, bad
	for o, rhs := range defs {
		if !bad[o] {
			c.def1[o] = rhs
		}
		if !bad[o] && c.pure(rhs, 0) {
			c.alias[o] = rhs
		}
	}
	return c
}

func (c *fnCtx) obj(id *ast.Ident) types.Object {
	if o := c.info.Uses[id]; o != nil {
		return o
	}
	return c.info.Defs[id]
}

// lenRoot: like rootIdent, but nil when the path goes through an element of a SLICE (x[i] = v, &x[i], x[i].M() with a
// pointer receiver): that does not change len(x) nor which array x denotes
func (c *fnCtx) lenRoot(e ast.Expr) *ast.Ident {
	for {
		switch x := e.(type) {
		case *ast.Ident:
			return x
		case *ast.SelectorExpr:
			e = x.X
		case *ast.IndexExpr:
			if t := c.info.Types[x.X].Type; t != nil {
				if _, isSlice := t.Underlying().(*types.Slice); isSlice {
					return nil
				}
			}
			e = x.X
		case *ast.SliceExpr:
			e = x.X
		case *ast.ParenExpr:
			e = x.X
		case *ast.StarExpr:
			e = x.X
		default:
			return nil
		}
	}
}

func rootIdent(e ast.Expr) *ast.Ident {
	for {
		switch x := e.(type) {
		case *ast.Ident:
			return x
		case *ast.SelectorExpr:
			e = x.X
		case *ast.IndexExpr:
			e = x.X
		case *ast.SliceExpr:
			e = x.X
		case *ast.ParenExpr:
			e = x.X
		case *ast.StarExpr:
			e = x.X
		default:
			return nil
		}
	}
}

// pure: evaluating the expression again gives the same value and has no effect (field paths, literals,
// constants, len, conversions, arithmetic)
func (c *fnCtx) pure(e ast.Expr, depth int) bool {
	if depth > 8 {
		return false
	}
	if tv, ok := c.info.Types[e]; ok && tv.Value != nil {
		return true
	}
	switch x := e.(type) {
	case *ast.Ident, *ast.BasicLit:
		return true
	case *ast.SelectorExpr:
		return c.pure(x.X, depth+1)
	case *ast.ParenExpr:
		return c.pure(x.X, depth+1)
	case *ast.BinaryExpr:
		return c.pure(x.X, depth+1) && c.pure(x.Y, depth+1)
	case *ast.UnaryExpr:
		return x.Op != token.AND && x.Op != token.ARROW && c.pure(x.X, depth+1)
	case *ast.CallExpr:
		if len(x.Args) != 1 {
			return false
		}
		if id, ok := x.Fun.(*ast.Ident); ok {
			if b, isB := c.info.Uses[id].(*types.Builtin); isB && b.Name() == "len" {
				return c.pure(x.Args[0], depth+1)
			}
		}
		if tv, ok := c.info.Types[x.Fun]; ok && tv.IsType() {
			return c.pure(x.Args[0], depth+1)
		}
	}
	return false
}

func shortQual(p *types.Package) string { return p.Name() }

// normSite: the normalised text of a site.  Library / Must* calls are identified by the callee and the TYPES of the
// receiver and the arguments (vestedCoins.Add(reward) and vested.Add(cappedReward(..)) are the same site); other
// sites by the normalised expression.
func (c *fnCtx) normSite(w *walker, kind string, n ast.Node) string {
	if call, ok := n.(*ast.CallExpr); ok && (kind == "lib" || kind == "must") {
		var callee *types.Func
		recv := ""
		switch f := call.Fun.(type) {
		case *ast.Ident:
			callee, _ = c.info.Uses[f].(*types.Func)
		case *ast.SelectorExpr:
			if sel := c.info.Selections[f]; sel != nil {
				callee, _ = sel.Obj().(*types.Func)
				if t := c.info.Types[f.X].Type; t != nil {
					recv = "(" + types.TypeString(t, shortQual) + ")."
				}
			} else {
				callee, _ = c.info.Uses[f.Sel].(*types.Func)
			}
		}
		if callee != nil {
			var args []string
			for _, a := range call.Args {
				if tv, ok := c.info.Types[a]; ok && tv.Value != nil {
					args = append(args, tv.Value.ExactString())
				} else if t := c.info.Types[a].Type; t != nil {
					args = append(args, types.TypeString(t, shortQual))
				} else {
					args = append(args, "?")
				}
			}
			pkg := ""
			if callee.Pkg() != nil {
				pkg = callee.Pkg().Name() + "."
			}
			name := callee.Name()
			if (name == "LT" || name == "GT") && strings.HasPrefix(recv, "(types.Int)") {
				name = "LT|GT" // the two strict comparisons of sdk.Int dereference the same operands
			}
			return recv + pkg + name + "(" + strings.Join(args, ", ") + ")"
		}
	}
	return c.norm(w, n, 0)
}

// norm prints an expression in the normalised form described above.
func (c *fnCtx) norm(w *walker, e ast.Node, depth int) string {
	if depth > 12 {
		return w.text(e)
	}
	switch x := e.(type) {
	case *ast.Ident:
		o := c.obj(x)
		if o != nil && o == c.recv {
			return "$r"
		}
		if o != nil {
			if rhs, ok := c.alias[o]; ok {
				s := c.norm(w, rhs, depth+1)
				if _, isBin := rhs.(*ast.BinaryExpr); isBin {
					return "(" + s + ")"
				}
				return s
			}
			// any other local variable / parameter: only its type matters for what the expression can do
			if v, isVar := o.(*types.Var); isVar && !v.IsField() && v.Pkg() != nil && v.Parent() != v.Pkg().Scope() {
				return "$" + types.TypeString(v.Type(), shortQual)
			}
		}
		return x.Name
	case *ast.BasicLit:
		return x.Value
	case *ast.ParenExpr:
		if _, isBin := x.X.(*ast.BinaryExpr); isBin {
			return "(" + c.norm(w, x.X, depth+1) + ")"
		}
		return c.norm(w, x.X, depth+1)
	case *ast.SelectorExpr:
		return c.norm(w, x.X, depth+1) + "." + x.Sel.Name
	case *ast.StarExpr:
		return "*" + c.norm(w, x.X, depth+1)
	case *ast.UnaryExpr:
		return x.Op.String() + c.norm(w, x.X, depth+1)
	case *ast.BinaryExpr:
		l, r := c.norm(w, x.X, depth+1), c.norm(w, x.Y, depth+1)
		if _, isBin := x.X.(*ast.BinaryExpr); isBin {
			l = "(" + l + ")"
		}
		if _, isBin := x.Y.(*ast.BinaryExpr); isBin {
			r = "(" + r + ")"
		}
		return l + " " + x.Op.String() + " " + r
	case *ast.IndexExpr:
		return c.norm(w, x.X, depth+1) + "[" + c.norm(w, x.Index, depth+1) + "]"
	case *ast.SliceExpr:
		s := c.norm(w, x.X, depth+1) + "["
		if x.Low != nil {
			s += c.norm(w, x.Low, depth+1)
		}
		s += ":"
		if x.High != nil {
			s += c.norm(w, x.High, depth+1)
		}
		if x.Max != nil {
			s += ":" + c.norm(w, x.Max, depth+1)
		}
		return s + "]"
	case *ast.CallExpr:
		var args []string
		for _, a := range x.Args {
			args = append(args, c.norm(w, a, depth+1))
		}
		return c.norm(w, x.Fun, depth+1) + "(" + strings.Join(args, ", ") + ")"
	case *ast.TypeAssertExpr:
		if x.Type != nil {
			return c.norm(w, x.X, depth+1) + ".(" + w.text(x.Type) + ")"
		}
	}
	s := w.text(e)
	return s
}

// ---------------------------------------------------------------------------------------------------
// auto-discharge information

type autoInfo struct {
	need  uint64
	facts [][2]uint64 // (0, k): len >= k; (1, c): len % c == 0
}

// lenPath: the expression is a local variable or a field path of a local struct VALUE (not reached through a
// pointer); returns the root object and the path text
func (c *fnCtx) lenPath(e ast.Expr) (types.Object, string, bool) {
	var parts []string
	for {
		switch x := e.(type) {
		case *ast.ParenExpr:
			e = x.X
			continue
		case *ast.SelectorExpr:
			if sel := c.info.Selections[x]; sel == nil || sel.Kind() != types.FieldVal || sel.Indirect() {
				return nil, "", false
			}
			parts = append([]string{x.Sel.Name}, parts...)
			e = x.X
			continue
		case *ast.Ident:
			o := c.obj(x)
			v, ok := o.(*types.Var)
			if !ok || v.IsField() || v.Pkg() == nil || v.Parent() == v.Pkg().Scope() {
				return nil, "", false
			}
			if _, isPtr := v.Type().Underlying().(*types.Pointer); isPtr {
				return nil, "", false
			}
			return o, strings.Join(append([]string{x.Name}, parts...), "."), true
		}
		return nil, "", false
	}
}

func (c *fnCtx) constNat(e ast.Expr) (uint64, bool) {
	tv, ok := c.info.Types[e]
	if !ok || tv.Value == nil || tv.Value.Kind() != constant.Int {
		return 0, false
	}
	v, ok := constant.Uint64Val(tv.Value)
	if !ok || v > 1<<40 {
		return 0, false
	}
	return v, true
}

// isLenOf: e is len(<the same path>)
func (c *fnCtx) isLenOf(e ast.Expr, root types.Object, path string) bool {
	for {
		p, ok := e.(*ast.ParenExpr)
		if !ok {
			break
		}
		e = p.X
	}
	call, ok := e.(*ast.CallExpr)
	if !ok || len(call.Args) != 1 {
		return false
	}
	id, ok := call.Fun.(*ast.Ident)
	if !ok {
		return false
	}
	if b, isB := c.info.Uses[id].(*types.Builtin); !isB || b.Name() != "len" {
		return false
	}
	r, p, ok := c.lenPath(call.Args[0])
	return ok && r == root && p == path
}

// bound: a slice bound or index of one of the forms  c  |  len(X)  |  len(X)-c ; (fromLen, c)
func (c *fnCtx) bound(e ast.Expr, root types.Object, path string) (bool, uint64, bool) {
	if e == nil {
		return false, 0, false
	}
	if v, ok := c.constNat(e); ok {
		return false, v, true
	}
	if c.isLenOf(e, root, path) {
		return true, 0, true
	}
	for {
		p, ok := e.(*ast.ParenExpr)
		if !ok {
			break
		}
		e = p.X
	}
	if be, ok := e.(*ast.BinaryExpr); ok && be.Op == token.SUB && c.isLenOf(be.X, root, path) {
		if v, ok := c.constNat(be.Y); ok {
			return true, v, true
		}
	}
	return false, 0, false
}

// need: the lower bound on len(X) under which the index / slice expression cannot panic
func (c *fnCtx) need(n ast.Node) (ast.Expr, uint64, bool) {
	switch x := n.(type) {
	case *ast.IndexExpr:
		t := c.info.Types[x.X].Type
		if t == nil {
			return nil, 0, false
		}
		switch u := t.Underlying().(type) {
		case *types.Slice:
		case *types.Basic:
			if u.Info()&types.IsString == 0 {
				return nil, 0, false
			}
		default:
			return nil, 0, false
		}
		root, path, ok := c.lenPath(x.X)
		if !ok {
			return nil, 0, false
		}
		fromLen, v, ok := c.bound(x.Index, root, path)
		if !ok {
			return nil, 0, false
		}
		if fromLen {
			if v == 0 {
				return nil, 0, false // X[len(X)] always panics
			}
			return x.X, v, true // X[len-c]: len >= c
		}
		return x.X, v + 1, true
	case *ast.SliceExpr:
		if x.Max != nil {
			return nil, 0, false
		}
		t := c.info.Types[x.X].Type
		if t == nil {
			return nil, 0, false
		}
		switch u := t.Underlying().(type) {
		case *types.Slice:
		case *types.Basic:
			if u.Info()&types.IsString == 0 {
				return nil, 0, false
			}
		default:
			return nil, 0, false
		}
		root, path, ok := c.lenPath(x.X)
		if !ok {
			return nil, 0, false
		}
		loLen, lo, hiLen, hi := false, uint64(0), true, uint64(0)
		if x.Low != nil {
			if loLen, lo, ok = c.bound(x.Low, root, path); !ok {
				return nil, 0, false
			}
		}
		if x.High != nil {
			if hiLen, hi, ok = c.bound(x.High, root, path); !ok {
				return nil, 0, false
			}
		}
		// need 0 <= low <= high <= len (len instead of cap: conservative)
		switch {
		case !loLen && !hiLen: // [a:b]
			if lo > hi {
				return nil, 0, false
			}
			return x.X, hi, true
		case !loLen && hiLen: // [a : len-d]: a <= len-d
			return x.X, lo + hi, true
		case loLen && hiLen: // [len-c : len-d]: d <= c <= len
			if hi > lo {
				return nil, 0, false
			}
			return x.X, lo, true
		default: // [len-c : b]
			return nil, 0, false
		}
	}
	return nil, 0, false
}

// condFacts: the facts about len(path) implied by cond (positive) or by its negation
func (c *fnCtx) condFacts(cond ast.Expr, positive bool, root types.Object, path string) [][2]uint64 {
	switch x := cond.(type) {
	case *ast.CallExpr:
		// <path>.Amount.IsNil() known to be false: fact (2, 0)
		if !positive && len(x.Args) == 0 {
			if sel, ok := x.Fun.(*ast.SelectorExpr); ok && sel.Sel.Name == "IsNil" {
				if am, ok := unparen(sel.X).(*ast.SelectorExpr); ok && am.Sel.Name == "Amount" {
					if r, p, ok := c.lenPath(am.X); ok && r == root && p == path {
						return [][2]uint64{{2, 0}}
					}
				}
			}
		}
		return nil
	case *ast.ParenExpr:
		return c.condFacts(x.X, positive, root, path)
	case *ast.UnaryExpr:
		if x.Op == token.NOT {
			return c.condFacts(x.X, !positive, root, path)
		}
	case *ast.BinaryExpr:
		switch x.Op {
		case token.LAND:
			if positive {
				return append(c.condFacts(x.X, true, root, path), c.condFacts(x.Y, true, root, path)...)
			}
			return nil
		case token.LOR:
			if !positive {
				return append(c.condFacts(x.X, false, root, path), c.condFacts(x.Y, false, root, path)...)
			}
			return nil
		case token.LSS, token.LEQ, token.GTR, token.GEQ, token.EQL, token.NEQ:
			op := x.Op
			var k uint64
			var ok bool
			lenLeft := c.isLenOf(x.X, root, path)
			if lenLeft {
				k, ok = c.constNat(x.Y)
			} else if c.isLenOf(x.Y, root, path) {
				k, ok = c.constNat(x.X)
				// mirror: k OP len  ==  len OP' k
				switch op {
				case token.LSS:
					op = token.GTR
				case token.LEQ:
					op = token.GEQ
				case token.GTR:
					op = token.LSS
				case token.GEQ:
					op = token.LEQ
				}
			} else {
				// len(X) % c == 0  /  != 0
				if be, isBin := unparen(x.X).(*ast.BinaryExpr); isBin && be.Op == token.REM && c.isLenOf(be.X, root, path) {
					m, okm := c.constNat(be.Y)
					z, okz := c.constNat(x.Y)
					if okm && okz && z == 0 && m > 0 {
						if (op == token.EQL && positive) || (op == token.NEQ && !positive) {
							return [][2]uint64{{1, m}}
						}
					}
				}
				return nil
			}
			if !ok {
				return nil
			}
			if !positive { // negate the comparison
				switch op {
				case token.LSS:
					op = token.GEQ
				case token.LEQ:
					op = token.GTR
				case token.GTR:
					op = token.LEQ
				case token.GEQ:
					op = token.LSS
				case token.EQL:
					op = token.NEQ
				case token.NEQ:
					op = token.EQL
				}
			}
			switch op {
			case token.GTR:
				return [][2]uint64{{0, k + 1}}
			case token.GEQ, token.EQL:
				return [][2]uint64{{0, k}}
			case token.NEQ:
				if k == 0 {
					return [][2]uint64{{0, 1}}
				}
			}
		}
	}
	return nil
}

func unparen(e ast.Expr) ast.Expr {
	for {
		p, ok := e.(*ast.ParenExpr)
		if !ok {
			return e
		}
		e = p.X
	}
}

// assigns: does the node (possibly) change the variable root / take its address?  skipTerminatingIfBody: the body
// of a guard statement that leaves the block is not on the way to the site
func (c *fnCtx) assigns(n ast.Node, root types.Object) bool {
	if n == nil {
		return false
	}
	found := false
	hit := func(e ast.Expr) {
		if id := c.lenRoot(e); id != nil && c.obj(id) == root {
			found = true
		}
	}
	ast.Inspect(n, func(m ast.Node) bool {
		switch s := m.(type) {
		case *ast.AssignStmt:
			for _, l := range s.Lhs {
				hit(l)
			}
		case *ast.IncDecStmt:
			hit(s.X)
		case *ast.RangeStmt:
			if s.Key != nil {
				hit(s.Key)
			}
			if s.Value != nil {
				hit(s.Value)
			}
		case *ast.UnaryExpr:
			if s.Op == token.AND {
				hit(s.X)
			}
		case *ast.CallExpr:
			// a method with a pointer receiver called on the addressable value takes its address
			if sel, ok := s.Fun.(*ast.SelectorExpr); ok {
				if se := c.info.Selections[sel]; se != nil && se.Kind() == types.MethodVal {
					if sig, ok := se.Obj().Type().(*types.Signature); ok && sig.Recv() != nil {
						if _, ptr := sig.Recv().Type().(*types.Pointer); ptr {
							hit(sel.X)
						}
					}
				}
			}
		}
		return !found
	})
	return found
}

// onlyDropPrefix: every assignment to root inside n is root = root[c:] with the same constant c (and there is no
// other way its length changes); returns c
func (c *fnCtx) onlyDropPrefix(n ast.Node, root types.Object) (uint64, bool) {
	var cst uint64
	ok, any := true, false
	ast.Inspect(n, func(m ast.Node) bool {
		switch s := m.(type) {
		case *ast.AssignStmt:
			for i, l := range s.Lhs {
				id := rootIdent(l)
				if id == nil || c.obj(id) != root {
					continue
				}
				lid, isIdent := l.(*ast.Ident)
				if !isIdent || s.Tok != token.ASSIGN || len(s.Lhs) != len(s.Rhs) {
					ok = false
					continue
				}
				se, isSlice := unparen(s.Rhs[i]).(*ast.SliceExpr)
				if !isSlice || se.High != nil || se.Max != nil || se.Low == nil {
					ok = false
					continue
				}
				xid, isX := unparen(se.X).(*ast.Ident)
				v, isC := c.constNat(se.Low)
				if !isX || c.obj(xid) != root || !isC || v == 0 || (any && v != cst) {
					ok = false
					continue
				}
				_ = lid
				cst, any = v, true
			}
		case *ast.IncDecStmt:
			if id := rootIdent(s.X); id != nil && c.obj(id) == root {
				ok = false
			}
		case *ast.RangeStmt:
			for _, e := range []ast.Expr{s.Key, s.Value} {
				if e != nil {
					if id := rootIdent(e); id != nil && c.obj(id) == root {
						ok = false
					}
				}
			}
		case *ast.UnaryExpr:
			if s.Op == token.AND {
				if id := rootIdent(s.X); id != nil && c.obj(id) == root {
					ok = false
				}
			}
		}
		return true
	})
	return cst, ok && any
}

func terminates(b *ast.BlockStmt) bool {
	if b == nil || len(b.List) == 0 {
		return false
	}
	switch s := b.List[len(b.List)-1].(type) {
	case *ast.ReturnStmt, *ast.BranchStmt:
		return true
	case *ast.ExprStmt:
		if call, ok := s.X.(*ast.CallExpr); ok {
			if id, ok := call.Fun.(*ast.Ident); ok && id.Name == "panic" {
				return true
			}
		}
	}
	return false
}

// auto computes the need and the facts for the site node given its ancestors (outermost first, the function body
// first; the site itself is not included).
func (c *fnCtx) auto(site ast.Node, path []ast.Node) *autoInfo {
	if a := c.rangeIndex(site, path); a != nil {
		return a
	}
	if a := c.searchIndex(site, path); a != nil {
		return a
	}
	xe, need, ok := c.need(site)
	wantNotNil := false
	if !ok {
		// X.IsNegative() of an sdk.Coin: Int.IsNegative dereferences the amount - needs X.Amount.IsNil() == false
		if xe = c.coinIsNegativeRecv(site); xe == nil {
			return nil
		}
		need, wantNotNil = 0, true
	}
	root, pth, ok := c.lenPath(xe)
	if !ok {
		return nil
	}
	var facts [][2]uint64
	defer func() { _ = wantNotNil }()
	before := func(list []ast.Stmt, child ast.Node) {
		for _, s := range list {
			if s == child {
				return
			}
			if ifs, isIf := s.(*ast.IfStmt); isIf && ifs.Else == nil && terminates(ifs.Body) {
				if c.assigns(ifs.Init, root) || c.assigns(ifs.Cond, root) {
					facts = nil
					continue
				}
				facts = append(facts, c.condFacts(ifs.Cond, false, root, pth)...)
				continue
			}
			if c.assigns(s, root) {
				facts = nil
			}
		}
	}
	for i, p := range path {
		var child ast.Node = site
		if i+1 < len(path) {
			child = path[i+1]
		}
		switch s := p.(type) {
		case *ast.BlockStmt:
			// the clause list of a tagless switch without fallthrough: the conditions of the earlier clauses were false
			if i > 0 {
				if sw, isSw := path[i-1].(*ast.SwitchStmt); isSw && sw.Body == s {
					if sw.Tag == nil && !hasFallthrough(sw) {
						for _, cl := range s.List {
							if ast.Node(cl) == child {
								break
							}
							cc, ok := cl.(*ast.CaseClause)
							if !ok || cc.List == nil {
								break
							}
							for _, e := range cc.List {
								if c.assigns(e, root) {
									facts = nil
								}
								facts = append(facts, c.condFacts(e, false, root, pth)...)
							}
						}
					}
					break
				}
			}
			before(s.List, child)
		case *ast.CaseClause:
			before(s.Body, child)
		case *ast.CommClause:
			before(s.Body, child)
		case *ast.IfStmt:
			if c.assigns(s.Init, root) || c.assigns(s.Cond, root) {
				facts = nil
			}
			if child == ast.Node(s.Body) {
				facts = append(facts, c.condFacts(s.Cond, true, root, pth)...)
			} else if s.Else != nil && child == ast.Node(s.Else) {
				facts = append(facts, c.condFacts(s.Cond, false, root, pth)...)
			}
		case *ast.ForStmt:
			if c.assigns(s.Init, root) {
				facts = nil
			}
			if c.assigns(s.Body, root) || c.assigns(s.Post, root) || c.assigns(s.Cond, root) {
				// keep divisibility facts preserved by X = X[c:]
				var kept [][2]uint64
				loop := &ast.BlockStmt{List: []ast.Stmt{s.Body}}
				if s.Post != nil {
					loop.List = append(loop.List, s.Post)
				}
				if cst, only := c.onlyDropPrefix(loop, root); only && !c.assigns(s.Cond, root) {
					if id, isIdent := unparen(xe).(*ast.Ident); isIdent && c.obj(id) == root {
						for _, f := range facts {
							if f[0] == 1 && f[1] == cst {
								kept = append(kept, f)
							}
						}
					}
				}
				facts = kept
			}
			if s.Cond != nil && (child == ast.Node(s.Body) || (s.Post != nil && child == ast.Node(s.Post))) {
				if child == ast.Node(s.Post) && c.assigns(s.Body, root) {
					// the body ran between the condition and the post statement
				} else {
					facts = append(facts, c.condFacts(s.Cond, true, root, pth)...)
				}
			}
		case *ast.RangeStmt:
			if c.assigns(s.Body, root) || c.assigns(s.Key, root) || c.assigns(s.Value, root) {
				facts = nil
			}
		case *ast.SwitchStmt:
			if c.assigns(s.Init, root) || c.assigns(s.Tag, root) {
				facts = nil
			}
		case *ast.TypeSwitchStmt:
			if c.assigns(s.Init, root) || c.assigns(s.Assign, root) {
				facts = nil
			}
		case *ast.FuncLit, *ast.DeferStmt, *ast.GoStmt:
			facts = nil // runs at another time
		case *ast.AssignStmt:
			// the right-hand sides are evaluated before the assignment takes place: nothing to do
		}
	}
	// an assignment to the variable anywhere inside a closure of the function: give up
	bad := false
	ast.Inspect(c.decl.Body, func(m ast.Node) bool {
		if fl, ok := m.(*ast.FuncLit); ok && c.assigns(fl.Body, root) {
			bad = true
		}
		return !bad
	})
	if bad {
		facts = nil
	}
	if wantNotNil {
		for _, f := range facts {
			if f[0] == 2 {
				return &autoInfo{need: 0, facts: [][2]uint64{f}}
			}
		}
		return nil
	}
	var num [][2]uint64
	for _, f := range facts {
		if f[0] != 2 {
			num = append(num, f)
		}
	}
	return &autoInfo{need: need, facts: num}
}

func hasFallthrough(sw *ast.SwitchStmt) bool {
	found := false
	ast.Inspect(sw.Body, func(m ast.Node) bool {
		if b, ok := m.(*ast.BranchStmt); ok && b.Tok == token.FALLTHROUGH {
			found = true
		}
		return !found
	})
	return found
}

// rangeIndex: X[i], X[:i], X[i:] where i is the key variable of an enclosing `for i := range X` over the same local
// slice / string, or the counter of an enclosing `for i := c; i < len(X); i++` (c a constant >= 0, i changed by the
// post statement only), and neither X nor i is assigned inside the loop body: always in bounds
func (c *fnCtx) rangeIndex(site ast.Node, path []ast.Node) *autoInfo {
	var xe, ie ast.Expr
	switch x := site.(type) {
	case *ast.IndexExpr:
		xe, ie = x.X, x.Index
	case *ast.SliceExpr:
		if x.Max != nil {
			return nil
		}
		switch {
		case x.Low == nil && x.High != nil:
			xe, ie = x.X, x.High
		case x.Low != nil && x.High == nil:
			xe, ie = x.X, x.Low
		default:
			return nil
		}
	default:
		return nil
	}
	t := c.info.Types[xe].Type
	if t == nil {
		return nil
	}
	switch u := t.Underlying().(type) {
	case *types.Slice:
	case *types.Basic:
		if u.Info()&types.IsString == 0 {
			return nil
		}
	default:
		return nil
	}
	root, pth, ok := c.lenPath(xe)
	if !ok {
		return nil
	}
	iid, ok := unparen(ie).(*ast.Ident)
	if !ok {
		return nil
	}
	iobj := c.obj(iid)
	if iobj == nil {
		return nil
	}
	noClosure := func(loop ast.Node) bool {
		inLoop := false
		for _, q := range path {
			if q == loop {
				inLoop = true
			}
			if _, isLit := q.(*ast.FuncLit); isLit && inLoop {
				return false
			}
			if _, isDefer := q.(*ast.DeferStmt); isDefer && inLoop {
				return false
			}
			if _, isGo := q.(*ast.GoStmt); isGo && inLoop {
				return false
			}
		}
		return true
	}
	for _, p := range path {
		switch rs := p.(type) {
		case *ast.RangeStmt:
			if rs.Tok != token.DEFINE {
				continue
			}
			kid, ok := rs.Key.(*ast.Ident)
			if !ok || c.info.Defs[kid] == nil || c.info.Defs[kid] != iobj {
				continue
			}
			r2, p2, ok := c.lenPath(rs.X)
			if !ok || r2 != root || p2 != pth {
				return nil
			}
			if c.assigns(rs.Body, root) || c.assigns(rs.Body, iobj) || !noClosure(p) {
				return nil
			}
			return &autoInfo{need: 0}
		case *ast.ForStmt:
			// for i := c; i < len(X); i++ { ... }
			init, ok := rs.Init.(*ast.AssignStmt)
			if !ok || init.Tok != token.DEFINE || len(init.Lhs) != 1 || len(init.Rhs) != 1 {
				continue
			}
			lid, ok := init.Lhs[0].(*ast.Ident)
			if !ok || c.info.Defs[lid] != iobj {
				continue
			}
			if _, ok := c.constNat(init.Rhs[0]); !ok {
				return nil
			}
			post, ok := rs.Post.(*ast.IncDecStmt)
			if !ok || post.Tok != token.INC {
				return nil
			}
			if pid, ok := post.X.(*ast.Ident); !ok || c.obj(pid) != iobj {
				return nil
			}
			cond, ok := unparen(rs.Cond).(*ast.BinaryExpr)
			if !ok || cond.Op != token.LSS {
				return nil
			}
			cid, ok := unparen(cond.X).(*ast.Ident)
			if !ok || c.obj(cid) != iobj || !(c.isLenOf(cond.Y, root, pth) || c.madeWithLenOf(root, pth, cond.Y)) {
				return nil
			}
			if c.assigns(rs.Body, root) || c.assigns(rs.Body, iobj) || !noClosure(p) {
				return nil
			}
			// the site must be in the body (not in the post statement, where i may already equal len(X))
			inBody := false
			for _, q := range path {
				if q == ast.Node(rs.Body) {
					inBody = true
				}
			}
			if !inBody {
				return nil
			}
			return &autoInfo{need: 0}
		}
	}
	return nil
}

// madeWithLenOf: X (a local slice variable defined once as make([]T, len(Y)) and never assigned again) and the
// expression e = len(Y) with Y a local / field path that is never assigned in the function: len(X) = len(Y)
func (c *fnCtx) madeWithLenOf(root types.Object, pth string, e ast.Expr) bool {
	if strings.Contains(pth, ".") {
		return false
	}
	rhs, ok := c.def1[root]
	if !ok {
		return false
	}
	mk, ok := unparen(rhs).(*ast.CallExpr)
	if !ok || len(mk.Args) < 2 {
		return false
	}
	if id, ok := mk.Fun.(*ast.Ident); !ok || id.Name != "make" {
		return false
	} else if _, isB := c.info.Uses[id].(*types.Builtin); !isB {
		return false
	}
	lenArg, ok := unparen(mk.Args[1]).(*ast.CallExpr)
	if !ok || len(lenArg.Args) != 1 {
		return false
	}
	yr, yp, ok := c.lenPath(lenArg.Args[0])
	if !ok || c.never[yr] || !c.isLenOf(mk.Args[1], yr, yp) {
		return false
	}
	return c.isLenOf(e, yr, yp)
}

// coinIsNegativeRecv: the receiver X of a call X.IsNegative() on a cosmos-sdk Coin
func (c *fnCtx) coinIsNegativeRecv(site ast.Node) ast.Expr {
	call, ok := site.(*ast.CallExpr)
	if !ok || len(call.Args) != 0 {
		return nil
	}
	sel, ok := call.Fun.(*ast.SelectorExpr)
	if !ok || sel.Sel.Name != "IsNegative" {
		return nil
	}
	se := c.info.Selections[sel]
	if se == nil {
		return nil
	}
	fn, ok := se.Obj().(*types.Func)
	if !ok || fn.Pkg() == nil || !strings.HasSuffix(fn.Pkg().Path(), "cosmos-sdk/types") {
		return nil
	}
	if n, ok := se.Recv().(*types.Named); !ok || n.Obj().Name() != "Coin" {
		return nil
	}
	return sel.X
}


// searchIndex: X[:i], X[i:], X[i+c:], X[i] where i is defined once as strings.Index / IndexByte / IndexRune /
// LastIndex (X, sep) - then -1 <= i <= len(X)-len(sep) - or sort.SearchStrings / SearchInts (X, v) - then
// 0 <= i <= len(X) - is never assigned again, X is not assigned before the site (no enclosing loop, every
// assignment to X comes later in the source), and for the strings functions a dominating test establishes i >= 0
// (for X[i] after sort.Search*: i < len(X)).  Also the standard insert idiom after sort.Search*:
//     X = append(X, v0); copy(X[i+1:], X[i:]); X[i] = v
func (c *fnCtx) searchIndex(site ast.Node, path []ast.Node) *autoInfo {
	var xe, ie ast.Expr
	isIndex := false
	switch x := site.(type) {
	case *ast.IndexExpr:
		xe, ie, isIndex = x.X, x.Index, true
	case *ast.SliceExpr:
		if x.Max != nil {
			return nil
		}
		switch {
		case x.Low == nil && x.High != nil:
			xe, ie = x.X, x.High
		case x.Low != nil && x.High == nil:
			xe, ie = x.X, x.Low
		default:
			return nil
		}
	default:
		return nil
	}
	root, pth, ok := c.lenPath(xe)
	if !ok || strings.Contains(pth, ".") {
		return nil
	}
	// i or i + c
	var plus uint64
	ie = unparen(ie)
	if be, ok := ie.(*ast.BinaryExpr); ok && be.Op == token.ADD {
		v, okc := c.constNat(be.Y)
		if !okc {
			return nil
		}
		plus, ie = v, unparen(be.X)
	}
	iid, ok := ie.(*ast.Ident)
	if !ok {
		return nil
	}
	iobj := c.obj(iid)
	def, ok := c.def1[iobj]
	if !ok {
		return nil
	}
	call, ok := unparen(def).(*ast.CallExpr)
	if !ok || len(call.Args) != 2 {
		return nil
	}
	sel, ok := call.Fun.(*ast.SelectorExpr)
	if !ok {
		return nil
	}
	fn, ok := c.info.Uses[sel.Sel].(*types.Func)
	if !ok || fn.Pkg() == nil {
		return nil
	}
	r0, p0, ok := c.lenPath(call.Args[0])
	if !ok || r0 != root || p0 != pth {
		return nil
	}
	for _, p := range path {
		switch p.(type) {
		case *ast.ForStmt, *ast.RangeStmt, *ast.FuncLit, *ast.DeferStmt, *ast.GoStmt:
			return nil
		}
	}
	// assignments to X: none before the site - except, for the insert idiom, the single append
	var assignPos []token.Pos
	var appendStmt *ast.AssignStmt
	ast.Inspect(c.decl.Body, func(m ast.Node) bool {
		switch st := m.(type) {
		case *ast.AssignStmt:
			for _, l := range st.Lhs {
				if id := c.lenRoot(l); id != nil && c.obj(id) == root {
					if c.info.Defs[id] != nil && st.Tok == token.DEFINE {
						continue // the definition of X itself
					}
					assignPos = append(assignPos, st.Pos())
					appendStmt = st
				}
			}
		case *ast.UnaryExpr:
			if st.Op == token.AND {
				if id := c.lenRoot(st.X); id != nil && c.obj(id) == root {
					assignPos = append(assignPos, st.Pos())
				}
			}
		case *ast.IncDecStmt:
			if id := c.lenRoot(st.X); id != nil && c.obj(id) == root {
				assignPos = append(assignPos, st.Pos())
			}
		}
		return true
	})
	before := 0
	for _, p := range assignPos {
		if p < site.Pos() {
			before++
		}
	}
	pkg, name := fn.Pkg().Path(), fn.Name()
	switch {
	case pkg == "strings" && (name == "Index" || name == "LastIndex" || name == "IndexByte" || name == "IndexRune"):
		if before != 0 {
			return nil
		}
		sepLen := uint64(1)
		if name == "Index" || name == "LastIndex" {
			tv, ok := c.info.Types[call.Args[1]]
			if !ok || tv.Value == nil || tv.Value.Kind() != constant.String {
				return nil
			}
			sepLen = uint64(len(constant.StringVal(tv.Value)))
		}
		if name == "IndexRune" {
			sepLen = 1
		}
		if plus > sepLen || (isIndex && (sepLen == 0 || plus >= sepLen)) {
			return nil
		}
		if !c.dominatedNonNeg(site, path, iobj) {
			return nil
		}
		return &autoInfo{need: 0}
	case pkg == "sort" && (name == "SearchStrings" || name == "SearchInts" || name == "SearchFloat64s"):
		if before == 0 {
			if !isIndex && plus == 0 {
				return &autoInfo{need: 0} // X[:i], X[i:] with 0 <= i <= len(X)
			}
			if isIndex && plus == 0 && c.dominatedBelowLen(site, path, iobj, root, pth) {
				return &autoInfo{need: 0}
			}
			return nil
		}
		// insert idiom: exactly one assignment X = append(X, e) before the site, at the top level of the function body,
		// and the site is in one of the next two statements: copy(X[i+1:], X[i:]) ; X[i] = v
		if before != 1 || appendStmt == nil || len(assignPos) != 1 {
			return nil
		}
		if len(appendStmt.Lhs) != 1 || len(appendStmt.Rhs) != 1 || appendStmt.Tok != token.ASSIGN {
			return nil
		}
		ap, ok := unparen(appendStmt.Rhs[0]).(*ast.CallExpr)
		if !ok || len(ap.Args) != 2 || ap.Ellipsis.IsValid() {
			return nil
		}
		if id, ok := ap.Fun.(*ast.Ident); !ok || id.Name != "append" {
			return nil
		} else if _, isB := c.info.Uses[id].(*types.Builtin); !isB {
			return nil
		}
		if r1, p1, ok := c.lenPath(ap.Args[0]); !ok || r1 != root || p1 != pth {
			return nil
		}
		if lid, ok := appendStmt.Lhs[0].(*ast.Ident); !ok || c.obj(lid) != root {
			return nil
		}
		// the append statement and the site's statement are in the same block, the append first, nothing in between
		// but (at most) the copy statement
		for _, p := range path {
			blk, ok := p.(*ast.BlockStmt)
			if !ok {
				continue
			}
			for k, st := range blk.List {
				if st != ast.Stmt(appendStmt) {
					continue
				}
				for j := k + 1; j < len(blk.List) && j <= k+2; j++ {
					if blk.List[j].Pos() <= site.Pos() && site.End() <= blk.List[j].End() {
						// after the append len(X) = old+1 and i <= old: X[i+1:], X[i:], X[i] are in bounds
						if plus <= 1 && !(isIndex && plus != 0) {
							return &autoInfo{need: 0}
						}
					}
				}
			}
		}
	}
	return nil
}

// dominatedNonNeg: a dominating condition establishes i >= 0 (i is never assigned after its definition)
func (c *fnCtx) dominatedNonNeg(site ast.Node, path []ast.Node, iobj types.Object) bool {
	return c.dominated(site, path, func(cond ast.Expr, positive bool) bool { return c.nonNeg(cond, positive, iobj) })
}

// dominatedBelowLen: a dominating condition establishes i < len(X)
func (c *fnCtx) dominatedBelowLen(site ast.Node, path []ast.Node, iobj, root types.Object, pth string) bool {
	return c.dominated(site, path, func(cond ast.Expr, positive bool) bool {
		var f func(e ast.Expr, pos bool) bool
		f = func(e ast.Expr, pos bool) bool {
			switch x := unparen(e).(type) {
			case *ast.UnaryExpr:
				if x.Op == token.NOT {
					return f(x.X, !pos)
				}
			case *ast.BinaryExpr:
				switch x.Op {
				case token.LAND:
					return pos && (f(x.X, true) || f(x.Y, true))
				case token.LOR:
					return !pos && (f(x.X, false) || f(x.Y, false))
				case token.LSS: // i < len(X)
					if id, ok := unparen(x.X).(*ast.Ident); ok && c.obj(id) == iobj && c.isLenOf(x.Y, root, pth) {
						return pos
					}
				case token.GEQ: // !(i >= len(X))
					if id, ok := unparen(x.X).(*ast.Ident); ok && c.obj(id) == iobj && c.isLenOf(x.Y, root, pth) {
						return !pos
					}
				}
			}
			return false
		}
		return f(cond, positive)
	})
}

func (c *fnCtx) nonNeg(cond ast.Expr, positive bool, iobj types.Object) bool {
	switch x := unparen(cond).(type) {
	case *ast.UnaryExpr:
		if x.Op == token.NOT {
			return c.nonNeg(x.X, !positive, iobj)
		}
	case *ast.BinaryExpr:
		switch x.Op {
		case token.LAND:
			return positive && (c.nonNeg(x.X, true, iobj) || c.nonNeg(x.Y, true, iobj))
		case token.LOR:
			return !positive && (c.nonNeg(x.X, false, iobj) || c.nonNeg(x.Y, false, iobj))
		}
		id, ok := unparen(x.X).(*ast.Ident)
		if !ok || c.obj(id) != iobj {
			return false
		}
		tv, ok := c.info.Types[x.Y]
		if !ok || tv.Value == nil || tv.Value.Kind() != constant.Int {
			return false
		}
		k, exact := constant.Int64Val(tv.Value)
		if !exact {
			return false
		}
		switch x.Op {
		case token.LSS: // !(i < k), k <= 0  =>  i >= k ... only k == 0 gives i >= 0
			return !positive && k == 0
		case token.GEQ:
			return positive && k >= 0
		case token.GTR:
			return positive && k >= -1
		case token.LEQ:
			return !positive && k >= -1
		case token.NEQ: // i != -1 for an index function result
			return positive && k == -1
		case token.EQL:
			return !positive && k == -1
		}
	}
	return false
}

// dominated: some condition on the way to the site establishes the fact: an enclosing if / else, the negated
// condition of a preceding `if C { ...leave }` in an enclosing block, an earlier operand of && / || the site sits
// in.  (The variables the callers ask about are never assigned after their definition, so nothing invalidates.)
func (c *fnCtx) dominated(site ast.Node, path []ast.Node, holds func(cond ast.Expr, positive bool) bool) bool {
	for i, p := range path {
		var child ast.Node = site
		if i+1 < len(path) {
			child = path[i+1]
		}
		switch s := p.(type) {
		case *ast.BlockStmt:
			for _, st := range s.List {
				if ast.Node(st) == child {
					break
				}
				if ifs, ok := st.(*ast.IfStmt); ok && ifs.Else == nil && terminates(ifs.Body) && holds(ifs.Cond, false) {
					return true
				}
				// if C { return } else { return }: nothing continues; if C {...leave} with a nested leave in all branches
				if ifs, ok := st.(*ast.IfStmt); ok && ifs.Else == nil && allLeave(ifs.Body) && holds(ifs.Cond, false) {
					return true
				}
			}
		case *ast.IfStmt:
			if child == ast.Node(s.Body) && holds(s.Cond, true) {
				return true
			}
			if s.Else != nil && child == ast.Node(s.Else) && holds(s.Cond, false) {
				return true
			}
		case *ast.BinaryExpr:
			if child == ast.Node(s.Y) {
				if s.Op == token.LAND && holds(s.X, true) {
					return true
				}
				if s.Op == token.LOR && holds(s.X, false) {
					return true
				}
			}
		}
	}
	return false
}

// allLeave: every path through the block ends in return / panic / branch (an if whose both branches leave, ...)
func allLeave(b *ast.BlockStmt) bool {
	if b == nil || len(b.List) == 0 {
		return false
	}
	if terminates(b) {
		return true
	}
	if ifs, ok := b.List[len(b.List)-1].(*ast.IfStmt); ok && ifs.Else != nil {
		if eb, isBlk := ifs.Else.(*ast.BlockStmt); isBlk {
			return allLeave(ifs.Body) && allLeave(eb)
		}
	}
	return false
}
