// panicsites: inventory of the potential panic sites in the code of /repo that runs OUTSIDE per-transaction
// panic recovery (property C15).  Output: Gen/PanicSitesGen.v
//
// Roots: rvesting's BeginBlocker, the xibc client and aggregate governance proposal handlers, InitGenesis of
// xibc / aggregate / rvesting, and the stateless validation they rely on (ValidateBasic of the twelve
// proposals, the three genesis validations, the parameter validators).  From the roots the static call
// graph inside the tree is followed (go/types: static calls exactly; calls through an interface go to every
// method of that name whose receiver type has all the interface's method names; function values count as
// calls) and in every reachable function these constructs are reported:
//
//	panic      panic(...)
//	must       call of a function / method whose name starts with Must
//	div        x / y, x % y (and /=, %=) on integers with a non-constant divisor
//	index      a[i] on a slice / array / string / pointer to array (not a map), a[i:j] with at least one bound
//	assert     x.(T) without the comma-ok form (type switches excluded)
//	lib        call of a library function known to panic on some arguments (fixed list below); KV-store Get / Has /
//	           Delete / Set with a non-empty constant key (and a []byte(string) value) are not sites
//	nilrecv    method call whose receiver is the result of a Get*/Unpack* call that returns an interface or pointer
//
// Every site is identified by (file, function, kind, go/printer text of the expression, occurrences).
// The table Proofs/HaltSites.v must map every site to the lemma that guards it or to a justification;
// an unmapped site is an open proof obligation of C15.
package main

import (
	"bytes"
	"crypto/sha256"
	"encoding/hex"
	"encoding/json"
	"flag"
	"fmt"
	"go/ast"
	"go/build"
	"go/constant"
	"go/importer"
	"go/parser"
	"go/printer"
	"go/token"
	"go/types"
	"io"
	"os"
	"os/exec"
	"path/filepath"
	"regexp"
	"sort"
	"strings"
)

const version = "panicsites-v10"

// packages (directories) whose functions take part in the call graph
var scopeDirs = []string{
	"types",
	"x/rvesting/module", "x/rvesting/keeper", "x/rvesting/types",
	"x/xibc", "x/xibc/types", "x/xibc/exported", "x/xibc/module", "x/aggregate/module",
	"x/xibc/core/client", "x/xibc/core/client/keeper", "x/xibc/core/client/types",
	"x/xibc/core/host", "x/xibc/core/commitment/types",
	"x/xibc/core/packet", "x/xibc/core/packet/keeper", "x/xibc/core/packet/types",
	"x/xibc/clients/light-clients/tendermint/types", "x/xibc/clients/light-clients/bsc/types",
	"x/xibc/clients/light-clients/eth/types", "x/xibc/clients/tss-client/types",
	"x/aggregate", "x/aggregate/keeper", "x/aggregate/types",
	"syscontracts", "syscontracts/erc20", "syscontracts/xibc_endpoint",
}

// roots: directory, receiver type ("" for functions), name
var roots = [][3]string{
	{"x/rvesting/module", "", "BeginBlocker"},
	// the ABCI hooks of the three modules of the tree that have any (today all but rvesting's BeginBlock are empty:
	// code added to one of them is new code outside recovery and shows up in the inventory)
	{"x/rvesting/module", "AppModule", "BeginBlock"}, {"x/rvesting/module", "AppModule", "EndBlock"},
	{"x/xibc/module", "AppModule", "BeginBlock"}, {"x/xibc/module", "AppModule", "EndBlock"},
	{"x/aggregate/module", "AppModule", "BeginBlock"}, {"x/aggregate/module", "AppModule", "EndBlock"},
	{"x/xibc/core/client", "", "NewClientProposalHandler"},
	{"x/aggregate", "", "NewAggregateProposalHandler"},
	{"x/xibc", "", "InitGenesis"},
	{"x/aggregate", "", "InitGenesis"},
	{"x/rvesting/keeper", "Keeper", "InitGenesis"},
	// stateless validation
	{"x/xibc/core/client/types", "CreateClientProposal", "ValidateBasic"},
	{"x/xibc/core/client/types", "UpgradeClientProposal", "ValidateBasic"},
	{"x/xibc/core/client/types", "ToggleClientProposal", "ValidateBasic"},
	{"x/xibc/core/client/types", "RegisterRelayerProposal", "ValidateBasic"},
	{"x/aggregate/types", "RegisterCoinProposal", "ValidateBasic"},
	{"x/aggregate/types", "AddCoinProposal", "ValidateBasic"},
	{"x/aggregate/types", "RegisterERC20Proposal", "ValidateBasic"},
	{"x/aggregate/types", "ToggleTokenRelayProposal", "ValidateBasic"},
	{"x/aggregate/types", "UpdateTokenPairERC20Proposal", "ValidateBasic"},
	{"x/aggregate/types", "RegisterERC20TraceProposal", "ValidateBasic"},
	{"x/aggregate/types", "EnableTimeBasedSupplyLimitProposal", "ValidateBasic"},
	{"x/aggregate/types", "DisableTimeBasedSupplyLimitProposal", "ValidateBasic"},
	{"x/xibc/types", "GenesisState", "Validate"},
	{"x/aggregate/types", "GenesisState", "Validate"},
	{"x/rvesting/types", "", "ValidateGenesis"},
	{"x/rvesting/types", "Params", "ParamSetPairs"},
	{"x/aggregate/types", "Params", "ParamSetPairs"},
}

// library functions / methods that panic on some arguments: package path suffix, receiver type ("" = function,
// "*" = any receiver), name
var panicking = [][3]string{
	{"cosmos-sdk/types", "", "NewCoin"}, {"cosmos-sdk/types", "", "NewCoins"}, {"cosmos-sdk/types", "", "NewInt64Coin"},
	{"cosmos-sdk/types", "", "NewDecCoin"}, {"cosmos-sdk/types", "", "NewIntFromBigInt"}, {"cosmos-sdk/types", "", "NewIntWithDecimal"},
	{"cosmos-sdk/types", "", "BigEndianToUint64"},
	{"cosmos-sdk/types", "Coins", "Add"}, {"cosmos-sdk/types", "Coins", "Sub"}, {"cosmos-sdk/types", "Coin", "Add"}, {"cosmos-sdk/types", "Coin", "Sub"},
	{"cosmos-sdk/types", "Int", "Quo"}, {"cosmos-sdk/types", "Int", "QuoRaw"}, {"cosmos-sdk/types", "Int", "Mod"}, {"cosmos-sdk/types", "Int", "ModRaw"},
	{"cosmos-sdk/types", "Int", "Add"}, {"cosmos-sdk/types", "Int", "Sub"}, {"cosmos-sdk/types", "Int", "Mul"},
	{"cosmos-sdk/types", "Int", "LT"}, {"cosmos-sdk/types", "Int", "GT"}, {"cosmos-sdk/types", "Coin", "IsNegative"},
	{"cosmos-sdk/types", "Dec", "Quo"},
	{"cosmos-sdk/codec/types", "Any", "GetCachedValue"},
	{"cosmos-sdk/store/types", "*", "Set"}, {"cosmos-sdk/store/prefix", "*", "Set"}, {"cosmos-sdk/types", "KVStore", "Set"},
	{"cosmos-sdk/store/types", "*", "Get"}, {"cosmos-sdk/store/prefix", "*", "Get"},
	{"cosmos-sdk/store/types", "*", "Delete"}, {"cosmos-sdk/store/prefix", "*", "Delete"},
	{"cosmos-sdk/store/types", "*", "Has"}, {"cosmos-sdk/store/prefix", "*", "Has"},
	{"cosmos-sdk/x/params/types", "Subspace", "SetParamSet"}, {"cosmos-sdk/x/params/types", "Subspace", "GetParamSet"},
	{"cosmos-sdk/x/params/types", "Subspace", "Set"}, {"cosmos-sdk/x/params/types", "Subspace", "Get"},
	{"go-ethereum/core/types", "", "BytesToBloom"}, {"go-ethereum/core/types", "Bloom", "SetBytes"},
	{"math/big", "Int", "Quo"}, {"math/big", "Int", "Div"}, {"math/big", "Int", "Mod"}, {"math/big", "Int", "Rem"},
	{"math/big", "Int", "DivMod"}, {"math/big", "Int", "QuoRem"}, {"math/big", "Int", "Exp"}, {"math/big", "Int", "ModInverse"},
	{"encoding/binary", "*", "Uint64"}, {"encoding/binary", "*", "Uint32"}, {"encoding/binary", "*", "Uint16"},
	{"encoding/binary", "*", "PutUint64"}, {"encoding/binary", "*", "PutUint32"},
	{"strings", "", "Repeat"}, {"bytes", "", "Repeat"},
	{"go-ethereum/rlp", "", "Encode"},                                                                       // errors (negative big.Int) are turned into panics by callers
	{"go-ethereum/accounts/abi", "ABI", "Pack"}, {"go-ethereum/accounts/abi", "ABI", "UnpackIntoInterface"}, // nil *big.Int arguments are dereferenced
	// keepers reached through expected-keeper interfaces of the tree (declared in the tree: matched by name below)
}

// methods of interfaces DECLARED IN THE TREE (expected keepers) whose implementations panic on some arguments
var panickingIface = []string{
	"GetBalance", "SendCoinsFromModuleToModule", "SendCoinsFromAccountToModule", "SendCoinsFromModuleToAccount", "MintCoins", "BurnCoins",
	"GetModuleAccount", "GetModuleAddress", "SetDenomMetaData", "ApplyMessage", "GetSequence", "GetParams", "SetAccount",
}

type site struct {
	File, Func, Kind, Text string
	Count                  int
}

func die(f string, a ...interface{}) {
	fmt.Fprintf(os.Stderr, "panicsites: "+f+"\n", a...)
	os.Exit(1)
}

type listPkg struct {
	ImportPath string
	Dir        string
	Export     string
	GoFiles    []string
	CgoFiles   []string
	Standard   bool
	Error      *struct{ Err string }
}

type fn struct {
	key   string // dir \x00 recv \x00 name
	dir   string
	recv  string
	name  string
	file  string
	decl  *ast.FuncDecl
	info  *types.Info
	calls map[string]bool
}

func skipFile(name string) bool {
	return !strings.HasSuffix(name, ".go") || strings.HasSuffix(name, "_test.go") || strings.HasSuffix(name, ".pb.go") ||
		strings.HasSuffix(name, ".pb.gw.go")
}

func main() {
	repo := flag.String("repo", "/repo", "source tree")
	out := flag.String("out", "", "output directory (coq/theories/Gen)")
	force := flag.Bool("force", false, "ignore the input hash")
	baseline := flag.String("baseline", "", "also write the baseline file (Proofs/HaltSitesBaseline.v) - only when the site table is re-blessed")
	flag.Parse()
	if *out == "" {
		die("missing -out")
	}
	repoAbs, err := filepath.Abs(*repo)
	if err != nil {
		die("%v", err)
	}
	gomod, err := os.ReadFile(filepath.Join(repoAbs, "go.mod"))
	if err != nil {
		die("%v", err)
	}
	modPath := modulePath(gomod)
	ctx := build.Default
	ctx.CgoEnabled = true

	// ---- input hash ------------------------------------------------------------------------------
	h := sha256.New()
	io.WriteString(h, version+"\n")
	h.Write(gomod)
	var dirList []string
	for _, d := range scopeDirs {
		if fi, err := os.Stat(filepath.Join(repoAbs, d)); err != nil || !fi.IsDir() {
			die("scope directory %s is missing (the tree was restructured: update the translator)", d)
		}
		dirList = append(dirList, d)
	}
	sort.Strings(dirList)
	for _, d := range dirList {
		ents, _ := os.ReadDir(filepath.Join(repoAbs, d))
		for _, e := range ents {
			if e.IsDir() || !strings.HasSuffix(e.Name(), ".go") || strings.HasSuffix(e.Name(), "_test.go") {
				continue
			}
			b, err := os.ReadFile(filepath.Join(repoAbs, d, e.Name()))
			if err != nil {
				die("%v", err)
			}
			fmt.Fprintf(h, "%s/%s %d\n", d, e.Name(), len(b))
			h.Write(b)
		}
	}
	inputHash := hex.EncodeToString(h.Sum(nil))
	outFile := filepath.Join(*out, "PanicSitesGen.v")
	if old, err := os.ReadFile(outFile); err == nil && !*force {
		if bytes.Contains(old, []byte("(* input-hash: "+inputHash+" *)")) {
			return
		}
	}

	// ---- type-check the scope packages from source -------------------------------------------------
	pkgs := goList(repoAbs, modPath, gomod, dirList)
	exports := map[string]string{}
	byPath := map[string]*listPkg{}
	for _, p := range pkgs {
		if p.Export != "" {
			exports[p.ImportPath] = p.Export
		}
		byPath[p.ImportPath] = p
	}
	fset := token.NewFileSet()
	imp := importer.ForCompiler(fset, "gc", func(path string) (io.ReadCloser, error) {
		e, ok := exports[path]
		if !ok {
			return nil, fmt.Errorf("no export data for %s", path)
		}
		return os.Open(e)
	})
	funcs := map[string]*fn{}
	methodsByName := map[string][]*fn{} // name -> methods
	typeMethods := map[string]map[string]bool{}
	typeErrs := 0
	var firstErrs []string
	dirOf := func(pkgPath string) (string, bool) {
		if !strings.HasPrefix(pkgPath, modPath+"/") {
			return "", false
		}
		return strings.TrimPrefix(pkgPath, modPath+"/"), true
	}
	inScopeDir := map[string]bool{}
	for _, d := range dirList {
		inScopeDir[d] = true
	}
	for _, d := range dirList {
		ip := modPath + "/" + filepath.ToSlash(d)
		lp := byPath[ip]
		if lp == nil {
			die("go list did not return package %s", ip)
		}
		if lp.Error != nil {
			die("package %s: %s", ip, lp.Error.Err)
		}
		var asts []*ast.File
		names := append(append([]string{}, lp.GoFiles...), lp.CgoFiles...)
		sort.Strings(names)
		rel := map[*ast.File]string{}
		for _, n := range names {
			f, err := parser.ParseFile(fset, filepath.Join(repoAbs, d, n), nil, parser.SkipObjectResolution)
			if err != nil {
				die("parse %s/%s: %v", d, n, err)
			}
			asts = append(asts, f)
			rel[f] = filepath.ToSlash(filepath.Join(d, n))
		}
		info := &types.Info{Types: map[ast.Expr]types.TypeAndValue{}, Uses: map[*ast.Ident]types.Object{},
			Defs: map[*ast.Ident]types.Object{}, Selections: map[*ast.SelectorExpr]*types.Selection{}}
		conf := types.Config{Importer: imp, FakeImportC: true, Error: func(err error) {
			typeErrs++
			if len(firstErrs) < 5 {
				firstErrs = append(firstErrs, err.Error())
			}
		}}
		conf.Check(ip, fset, asts, info)
		for _, f := range asts {
			for _, dcl := range f.Decls {
				fd, ok := dcl.(*ast.FuncDecl)
				if !ok || fd.Body == nil {
					continue
				}
				recv := ""
				if fd.Recv != nil && len(fd.Recv.List) > 0 {
					recv = recvName(fd.Recv.List[0].Type)
				}
				x := &fn{key: d + "\x00" + recv + "\x00" + fd.Name.Name, dir: d, recv: recv, name: fd.Name.Name, file: rel[f], decl: fd, info: info, calls: map[string]bool{}}
				funcs[x.key] = x
				if recv != "" {
					methodsByName[fd.Name.Name] = append(methodsByName[fd.Name.Name], x)
					tk := d + "\x00" + recv
					if typeMethods[tk] == nil {
						typeMethods[tk] = map[string]bool{}
					}
					typeMethods[tk][fd.Name.Name] = true
				}
			}
		}
	}
	if typeErrs != 0 {
		die("%d type errors, e.g. %v (classification would be unreliable)", typeErrs, firstErrs)
	}

	// ---- call graph ------------------------------------------------------------------------------
	keyOf := func(f *types.Func) (string, bool) {
		if f == nil || f.Pkg() == nil {
			return "", false
		}
		d, ok := dirOf(f.Pkg().Path())
		if !ok || !inScopeDir[d] {
			return "", false
		}
		recv := ""
		if sig, ok := f.Type().(*types.Signature); ok && sig.Recv() != nil {
			recv = typeName(sig.Recv().Type())
		}
		return d + "\x00" + recv + "\x00" + f.Name(), true
	}
	for _, x := range funcs {
		x := x
		ast.Inspect(x.decl.Body, func(n ast.Node) bool {
			switch e := n.(type) {
			case *ast.Ident:
				if f, ok := x.info.Uses[e].(*types.Func); ok {
					if k, ok := keyOf(f); ok {
						if _, exists := funcs[k]; exists {
							x.calls[k] = true
						}
					}
				}
			case *ast.SelectorExpr:
				sel := x.info.Selections[e]
				if sel == nil {
					return true
				}
				f, ok := sel.Obj().(*types.Func)
				if !ok {
					return true
				}
				if iface, ok := sel.Recv().Underlying().(*types.Interface); ok {
					// interface call: every method of that name whose receiver type has all the interface's method names
					for _, m := range methodsByName[f.Name()] {
						have := typeMethods[m.dir+"\x00"+m.recv]
						all := true
						for i := 0; i < iface.NumMethods(); i++ {
							if !have[iface.Method(i).Name()] {
								all = false
								break
							}
						}
						if all {
							x.calls[m.key] = true
						}
					}
					return true
				}
				if k, ok := keyOf(f); ok {
					if _, exists := funcs[k]; exists {
						x.calls[k] = true
					}
				}
			}
			return true
		})
	}
	reach := map[string]bool{}
	var todo []string
	for _, r := range roots {
		k := r[0] + "\x00" + r[1] + "\x00" + r[2]
		if funcs[k] == nil {
			die("root %s (%s).%s not found (renamed? update the translator)", r[0], r[1], r[2])
		}
		todo = append(todo, k)
	}
	for len(todo) > 0 {
		k := todo[len(todo)-1]
		todo = todo[:len(todo)-1]
		if reach[k] {
			continue
		}
		reach[k] = true
		for c := range funcs[k].calls {
			todo = append(todo, c)
		}
	}

	// ---- sites -----------------------------------------------------------------------------------
	agg := map[[4]string]int{}
	normOf := map[[4]string]string{}
	autoOf := map[[4]string][]*autoInfo{} // one entry per occurrence; nil = no need could be computed
	pkgOf := map[string]string{}          // file -> package directory
	var reachList []string
	for k := range reach {
		reachList = append(reachList, k)
	}
	sort.Strings(reachList)
	for _, k := range reachList {
		x := funcs[k]
		w := &walker{fset: fset, info: x.info, modPath: modPath}
		w.walk(x.decl.Body)
		fc := newFnCtx(x.info, x.decl)
		pkgOf[x.file] = x.dir
		name := x.name
		if x.recv != "" {
			name = x.recv + "." + x.name
		}
		for i, s := range w.sites {
			k := [4]string{x.file, name, s[0], s[1]}
			agg[k]++
			if _, seen := normOf[k]; !seen {
				normOf[k] = fc.normSite(w, s[0], w.nodes[i])
			}
			if s[0] == "index" || s[0] == "lib" {
				if a := fc.auto(w.nodes[i], w.paths[i]); a != nil || s[0] == "index" {
					autoOf[k] = append(autoOf[k], a)
				}
			}
		}
	}
	var sites []site
	for k, c := range agg {
		sites = append(sites, site{k[0], k[1], k[2], k[3], c})
	}
	sort.Slice(sites, func(i, j int) bool {
		a, b := sites[i], sites[j]
		return a.File+"\x00"+a.Func+"\x00"+a.Kind+"\x00"+a.Text < b.File+"\x00"+b.Func+"\x00"+b.Kind+"\x00"+b.Text
	})

	// ---- emit ------------------------------------------------------------------------------------
	var b bytes.Buffer
	fmt.Fprintf(&b, "(* GENERATED by tools/gotocoq/panicsites from the Go source tree - do not edit. *)\n")
	fmt.Fprintf(&b, "(* input-hash: %s *)\n", inputHash)
	fmt.Fprintf(&b, "From Coq Require Import String List NArith.\nImport ListNotations.\nLocal Open Scope string_scope.\n\n")
	fmt.Fprintf(&b, "Definition panicsites_functions_in_scope : N := %d%%N.\nDefinition panicsites_functions_reachable : N := %d%%N.\n\n", len(funcs), len(reach))
	fmt.Fprintf(&b, "(* functions reachable from the roots: (file, function) *)\nDefinition reachable_functions : list (string * string) := [\n")
	for i, k := range reachList {
		x := funcs[k]
		name := x.name
		if x.recv != "" {
			name = x.recv + "." + x.name
		}
		sep := ";"
		if i == len(reachList)-1 {
			sep = ""
		}
		fmt.Fprintf(&b, "  (%s, %s)%s\n", q(x.file), q(name), sep)
	}
	fmt.Fprintf(&b, "].\n\n(* potential panic sites: (file, function, kind, expression, occurrences) *)\n")
	fmt.Fprintf(&b, "Definition panic_sites : list (string * string * string * string * N) := [\n")
	for i, s := range sites {
		sep := ";"
		if i == len(sites)-1 {
			sep = ""
		}
		fmt.Fprintf(&b, "  (%s, %s, %s, %s, %d%%N)%s\n", q(s.File), q(s.Func), q(s.Kind), q(s.Text), s.Count, sep)
	}
	fmt.Fprintf(&b, "].\n")
	fname := func(k string) (string, string) {
		x := funcs[k]
		name := x.name
		if x.recv != "" {
			name = x.recv + "." + x.name
		}
		return x.file, name
	}
	// normalised expressions
	fmt.Fprintf(&b, "\n(* site (file, function, kind, expression) -> (package directory, NORMALISED expression: receiver = $r, single-definition pure locals substituted) *)\n")
	fmt.Fprintf(&b, "Definition site_norm : list (string * string * string * string * (string * string)) := [\n")
	for i, st := range sites {
		sep := ";"
		if i == len(sites)-1 {
			sep = ""
		}
		k := [4]string{st.File, st.Func, st.Kind, st.Text}
		fmt.Fprintf(&b, "  (%s, %s, %s, %s, (%s, %s))%s\n", q(st.File), q(st.Func), q(st.Kind), q(st.Text), q(pkgOf[st.File]), q(normOf[k]), sep)
	}
	fmt.Fprintf(&b, "].\n")
	// auto-discharge information of index / slice sites
	fmt.Fprintf(&b, "\n(* index / slice sites over a local slice or string: per occurrence for which it could be computed, the lower bound on\n   len(X) the expression needs and the facts the enclosing control flow establishes: (0, k) = len(X) >= k, (1, c) = len(X) mod c = 0 *)\n")
	fmt.Fprintf(&b, "Definition site_auto : list (string * string * string * string * list (N * list (N * N))) := [")
	first := true
	for _, st := range sites {
		k := [4]string{st.File, st.Func, st.Kind, st.Text}
		var ents []string
		for _, a := range autoOf[k] {
			if a == nil {
				continue
			}
			var fs []string
			for _, f := range a.facts {
				fs = append(fs, fmt.Sprintf("(%d%%N, %d%%N)", f[0], f[1]))
			}
			ents = append(ents, fmt.Sprintf("(%d%%N, [%s])", a.need, strings.Join(fs, "; ")))
		}
		if len(ents) == 0 {
			continue
		}
		if !first {
			b.WriteString(";")
		}
		first = false
		fmt.Fprintf(&b, "\n  (%s, %s, %s, %s, [%s])", q(st.File), q(st.Func), q(st.Kind), q(st.Text), strings.Join(ents, "; "))
	}
	fmt.Fprintf(&b, "\n].\n")
	// direct callers among the reachable functions
	callers := map[string][]string{}
	for _, k := range reachList {
		for c := range funcs[k].calls {
			if reach[c] {
				callers[c] = append(callers[c], k)
			}
		}
	}
	fmt.Fprintf(&b, "\n(* reachable function -> its direct callers among the reachable functions *)\n")
	fmt.Fprintf(&b, "Definition function_callers : list (string * string * list (string * string)) := [\n")
	for i, k := range reachList {
		cs := callers[k]
		sort.Strings(cs)
		var l []string
		for _, c := range cs {
			f, n := fname(c)
			l = append(l, fmt.Sprintf("(%s, %s)", q(f), q(n)))
		}
		sep := ";"
		if i == len(reachList)-1 {
			sep = ""
		}
		f, n := fname(k)
		fmt.Fprintf(&b, "  (%s, %s, [%s])%s\n", q(f), q(n), strings.Join(l, "; "), sep)
	}
	fmt.Fprintf(&b, "].\n")
	if *baseline != "" {
		var bb bytes.Buffer
		fmt.Fprintf(&bb, "(** BASELINE of the panic-site inventory: the reachable functions and the sites (with their normalised expressions)\n    of the tree the rows of Proofs/HaltSites.v were written against.  Written by\n      go run ./panicsites -repo /repo -out <Gen> -force -baseline <this file>\n    when the table is re-blessed; NOT regenerated by the check. *)\n")
		fmt.Fprintf(&bb, "From Coq Require Import String List NArith.\nImport ListNotations.\nLocal Open Scope string_scope.\n\n")
		fmt.Fprintf(&bb, "Definition baseline_functions : list (string * string) := [\n")
		for i, k := range reachList {
			f, n := fname(k)
			sep := ";"
			if i == len(reachList)-1 {
				sep = ""
			}
			fmt.Fprintf(&bb, "  (%s, %s)%s\n", q(f), q(n), sep)
		}
		fmt.Fprintf(&bb, "].\n\nDefinition baseline_sites : list (string * string * string * string * (string * string)) := [\n")
		for i, st := range sites {
			sep := ";"
			if i == len(sites)-1 {
				sep = ""
			}
			k := [4]string{st.File, st.Func, st.Kind, st.Text}
			fmt.Fprintf(&bb, "  (%s, %s, %s, %s, (%s, %s))%s\n", q(st.File), q(st.Func), q(st.Kind), q(st.Text), q(pkgOf[st.File]), q(normOf[k]), sep)
		}
		fmt.Fprintf(&bb, "].\n\n(* baseline function -> its direct callers among the baseline functions *)\nDefinition baseline_callers : list (string * string * list (string * string)) := [\n")
		for i, k := range reachList {
			cs := callers[k]
			var l []string
			for _, c := range cs {
				f, n := fname(c)
				l = append(l, fmt.Sprintf("(%s, %s)", q(f), q(n)))
			}
			sep := ";"
			if i == len(reachList)-1 {
				sep = ""
			}
			f, n := fname(k)
			fmt.Fprintf(&bb, "  (%s, %s, [%s])%s\n", q(f), q(n), strings.Join(l, "; "), sep)
		}
		fmt.Fprintf(&bb, "].\n")
		if err := os.WriteFile(*baseline, bb.Bytes(), 0o644); err != nil {
			die("%v", err)
		}
	}
	if err := os.MkdirAll(*out, 0o755); err != nil {
		die("%v", err)
	}
	if old, err := os.ReadFile(outFile); err == nil && bytes.Equal(old, b.Bytes()) {
		return
	}
	tmp := outFile + ".tmp"
	if err := os.WriteFile(tmp, b.Bytes(), 0o644); err != nil {
		die("%v", err)
	}
	if err := os.Rename(tmp, outFile); err != nil {
		die("%v", err)
	}
}

func recvName(e ast.Expr) string {
	switch t := e.(type) {
	case *ast.StarExpr:
		return recvName(t.X)
	case *ast.Ident:
		return t.Name
	case *ast.IndexExpr:
		return recvName(t.X)
	}
	return "?"
}

func typeName(t types.Type) string {
	if p, ok := t.(*types.Pointer); ok {
		t = p.Elem()
	}
	if n, ok := t.(*types.Named); ok {
		return n.Obj().Name()
	}
	return "?"
}

// ---------------------------------------------------------------------------------------------------

type walker struct {
	fset     *token.FileSet
	info     *types.Info
	modPath  string
	sites    [][2]string
	nodes    []ast.Node   // the node of every site
	paths    [][]ast.Node // its ancestors inside the function body (outermost first)
	stack    []ast.Node
	okAssert map[*ast.TypeAssertExpr]bool
}

var ws = regexp.MustCompile(`\s+`)

func (w *walker) text(n ast.Node) string {
	var b bytes.Buffer
	printer.Fprint(&b, w.fset, n)
	s := ws.ReplaceAllString(b.String(), " ")
	if len(s) > 160 {
		s = s[:160] + "..."
	}
	return s
}

func (w *walker) add(kind string, n ast.Node) {
	w.sites = append(w.sites, [2]string{kind, w.text(n)})
	w.nodes = append(w.nodes, n)
	anc := append([]ast.Node{}, w.stack...)
	if len(anc) > 0 && anc[len(anc)-1] == n {
		anc = anc[:len(anc)-1]
	}
	w.paths = append(w.paths, anc)
}

func isInteger(t types.Type) bool {
	if t == nil {
		return true // unknown: conservative
	}
	b, ok := t.Underlying().(*types.Basic)
	return ok && b.Info()&types.IsInteger != 0
}

func (w *walker) constant(e ast.Expr) bool {
	tv, ok := w.info.Types[e]
	return ok && tv.Value != nil
}

func matchLib(f *types.Func) bool {
	if f == nil || f.Pkg() == nil {
		return false
	}
	path := f.Pkg().Path()
	recv := ""
	if sig, ok := f.Type().(*types.Signature); ok && sig.Recv() != nil {
		recv = typeName(sig.Recv().Type())
		if _, isIface := sig.Recv().Type().Underlying().(*types.Interface); isIface && recv == "?" {
			recv = "*"
		}
	}
	for _, p := range panicking {
		if !strings.HasSuffix(path, p[0]) || p[2] != f.Name() {
			continue
		}
		if p[1] == recv || (p[1] == "*" && recv != "") {
			return true
		}
	}
	return false
}

func (w *walker) walk(body ast.Node) {
	w.okAssert = map[*ast.TypeAssertExpr]bool{}
	// comma-ok assertions and type switches are not panic sites
	ast.Inspect(body, func(n ast.Node) bool {
		switch s := n.(type) {
		case *ast.AssignStmt:
			if len(s.Lhs) == 2 && len(s.Rhs) == 1 {
				if ta, ok := s.Rhs[0].(*ast.TypeAssertExpr); ok {
					w.okAssert[ta] = true
				}
			}
		case *ast.ValueSpec:
			if len(s.Names) == 2 && len(s.Values) == 1 {
				if ta, ok := s.Values[0].(*ast.TypeAssertExpr); ok {
					w.okAssert[ta] = true
				}
			}
		case *ast.TypeSwitchStmt:
			ast.Inspect(s.Assign, func(m ast.Node) bool {
				if ta, ok := m.(*ast.TypeAssertExpr); ok {
					w.okAssert[ta] = true
				}
				return true
			})
		}
		return true
	})
	ast.Inspect(body, func(n ast.Node) bool {
		if n == nil {
			w.stack = w.stack[:len(w.stack)-1]
			return true
		}
		w.stack = append(w.stack, n)
		switch e := n.(type) {
		case *ast.CallExpr:
			w.call(e)
		case *ast.BinaryExpr:
			if (e.Op == token.QUO || e.Op == token.REM) && !w.constant(e.Y) && isInteger(w.info.Types[e.X].Type) {
				w.add("div", e)
			}
		case *ast.AssignStmt:
			if (e.Tok == token.QUO_ASSIGN || e.Tok == token.REM_ASSIGN) && len(e.Rhs) == 1 && !w.constant(e.Rhs[0]) && isInteger(w.info.Types[e.Lhs[0]].Type) {
				w.add("div", e)
			}
		case *ast.IndexExpr:
			t := w.info.Types[e.X].Type
			if t == nil {
				w.add("index", e)
				return true
			}
			switch u := t.Underlying().(type) {
			case *types.Map, *types.Signature:
			case *types.Array:
				if !w.constant(e.Index) {
					w.add("index", e)
				}
				_ = u
			default:
				if _, isTypeParam := w.info.Types[e.X].Type.(*types.TypeParam); !isTypeParam && !w.info.Types[e.X].IsType() {
					w.add("index", e)
				}
			}
		case *ast.SliceExpr:
			if e.Low != nil || e.High != nil || e.Max != nil {
				w.add("index", e)
			}
		case *ast.TypeAssertExpr:
			if e.Type != nil && !w.okAssert[e] {
				w.add("assert", e)
			}
		}
		return true
	})
}

func (w *walker) call(c *ast.CallExpr) {
	var callee *types.Func
	name := ""
	var recvExpr ast.Expr
	switch f := c.Fun.(type) {
	case *ast.Ident:
		name = f.Name
		if b, ok := w.info.Uses[f].(*types.Builtin); ok && b.Name() == "panic" {
			w.add("panic", c)
			return
		}
		callee, _ = w.info.Uses[f].(*types.Func)
	case *ast.SelectorExpr:
		name = f.Sel.Name
		if sel := w.info.Selections[f]; sel != nil {
			callee, _ = sel.Obj().(*types.Func)
			recvExpr = f.X
		} else {
			callee, _ = w.info.Uses[f.Sel].(*types.Func)
		}
	default:
		return
	}
	if strings.HasPrefix(name, "Must") {
		w.add("must", c)
		return
	}
	if callee != nil {
		if matchLib(callee) {
			if w.constKeyStoreOp(c, name) {
				// Get / Has / Delete of a KV store panic only on a nil or empty key, Set also on a nil value: with a
				// non-empty CONSTANT key (and a []byte(..) conversion as value, which is never nil) the call cannot
				// panic - not a site (a getter such as Keeper.GetChainName adds nothing to the inventory)
				return
			}
			w.add("lib", c)
			return
		}
		// expected-keeper interfaces declared in the tree
		if sig, ok := callee.Type().(*types.Signature); ok && sig.Recv() != nil {
			if _, isIface := sig.Recv().Type().Underlying().(*types.Interface); isIface && callee.Pkg() != nil && strings.HasPrefix(callee.Pkg().Path(), w.modPath) {
				for _, m := range panickingIface {
					if m == name {
						w.add("lib", c)
						return
					}
				}
			}
		}
	}
	// method call on the result of a Get*/Unpack* call that returns an interface or a pointer
	if recvExpr != nil {
		if inner, ok := recvExpr.(*ast.CallExpr); ok {
			iname := ""
			switch g := inner.Fun.(type) {
			case *ast.Ident:
				iname = g.Name
			case *ast.SelectorExpr:
				iname = g.Sel.Name
			}
			if strings.HasPrefix(iname, "Get") || strings.HasPrefix(iname, "Unpack") {
				if t := w.info.Types[inner].Type; t != nil {
					switch t.Underlying().(type) {
					case *types.Interface, *types.Pointer:
						w.add("nilrecv", c)
					}
				}
			}
		}
	}
}

// isByteSliceConv: e is a conversion []byte(x); returns x
func (w *walker) isByteSliceConv(e ast.Expr) (ast.Expr, bool) {
	c, ok := e.(*ast.CallExpr)
	if !ok || len(c.Args) != 1 {
		return nil, false
	}
	tv, ok := w.info.Types[c.Fun]
	if !ok || !tv.IsType() {
		return nil, false
	}
	sl, ok := tv.Type.Underlying().(*types.Slice)
	if !ok {
		return nil, false
	}
	b, ok := sl.Elem().Underlying().(*types.Basic)
	if !ok || b.Kind() != types.Uint8 {
		return nil, false
	}
	return c.Args[0], true
}

func (w *walker) constKeyStoreOp(c *ast.CallExpr, name string) bool {
	if name != "Get" && name != "Has" && name != "Delete" && name != "Set" {
		return false
	}
	if len(c.Args) == 0 {
		return false
	}
	x, ok := w.isByteSliceConv(c.Args[0])
	if !ok {
		return false
	}
	tv, ok := w.info.Types[x]
	if !ok || tv.Value == nil || tv.Value.Kind() != constant.String || constant.StringVal(tv.Value) == "" {
		return false
	}
	if name == "Set" {
		if len(c.Args) != 2 {
			return false
		}
		v, ok := w.isByteSliceConv(c.Args[1])
		if !ok {
			return false
		}
		if b, isB := w.info.Types[v].Type.Underlying().(*types.Basic); !isB || b.Info()&types.IsString == 0 {
			return false // []byte(nilSlice) would be nil
		}
	}
	return true
}

func q(s string) string {
	var b strings.Builder
	b.WriteByte('"')
	for i := 0; i < len(s); i++ {
		c := s[i]
		switch {
		case c == '"':
			b.WriteString(`""`)
		case c < 32 || c > 126:
			fmt.Fprintf(&b, "\\x%02x", c)
		default:
			b.WriteByte(c)
		}
	}
	b.WriteByte('"')
	return b.String()
}

func modulePath(gomod []byte) string {
	m := regexp.MustCompile(`(?m)^module\s+(\S+)`).FindSubmatch(gomod)
	if m == nil {
		die("no module line in go.mod")
	}
	return string(m[1])
}

// goList runs `go list -export -deps -json` from a scratch module that requires the tree through a replace
// directive (the same construction as the harness module), so nothing is ever written into the tree itself.
func goList(repo, modPath string, gomod []byte, dirs []string) []*listPkg {
	tmp, err := os.MkdirTemp("", "panicsites-mod-")
	if err != nil {
		die("%v", err)
	}
	defer os.RemoveAll(tmp)
	body := string(gomod)
	if i := strings.Index(body, "\n"); i >= 0 {
		body = body[i+1:]
	}
	body = regexp.MustCompile(`(?m)^module .*$`).ReplaceAllString(body, "")
	mod := "module panicsitesscan\n" + body + "\nrequire " + modPath + " v0.0.0\nreplace " + modPath + " => " + repo + "\n"
	if err := os.WriteFile(filepath.Join(tmp, "go.mod"), []byte(mod), 0o644); err != nil {
		die("%v", err)
	}
	if sum, err := os.ReadFile(filepath.Join(repo, "go.sum")); err == nil {
		os.WriteFile(filepath.Join(tmp, "go.sum"), sum, 0o644)
	}
	args := []string{"list", "-export", "-deps", "-json=ImportPath,Dir,Export,GoFiles,CgoFiles,Standard,Error"}
	for _, d := range dirs {
		args = append(args, modPath+"/"+filepath.ToSlash(d))
	}
	cmd := exec.Command("go", args...)
	cmd.Dir = tmp
	cmd.Env = append(os.Environ(), "GOFLAGS=-mod=mod", "GOPROXY=off", "GOSUMDB=off", "GOTOOLCHAIN=local", "GOWORK=off")
	var stderr bytes.Buffer
	cmd.Stderr = &stderr
	outb, err := cmd.Output()
	if err != nil {
		s := stderr.String()
		if len(s) > 3000 {
			s = s[len(s)-3000:]
		}
		die("go list failed: %v\n%s", err, s)
	}
	var res []*listPkg
	dec := json.NewDecoder(bytes.NewReader(outb))
	for {
		p := &listPkg{}
		if err := dec.Decode(p); err == io.EOF {
			break
		} else if err != nil {
			die("go list output: %v", err)
		}
		res = append(res, p)
	}
	return res
}
