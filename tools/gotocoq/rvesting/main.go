// rvesting: regenerates the mechanical parts of x/rvesting and its wiring in app/app.go (property C20)
// -> Gen/RvestingGen.v
//
// Sources (relative to -repo):
//
//	x/rvesting/types/keys.go            ModuleName
//	x/rvesting/types/param.go           parameter keys, ParamSetPairs (key, field, type, validator), the rejecting
//	                                    guards of validatePerBlockReward in source order, the shape of Params.validate,
//	                                    DefaultParams (evaluated: sdk.NewCoins / NewCoin / NewInt / NewIntWithDecimal,
//	                                    types.NewTeleCoin resolved through types/coin.go)
//	x/rvesting/types/genesis.pb.go      field types of Params
//	x/rvesting/types/genesis.go         steps of ValidateGenesis, NewGenesisState / DefaultGenesisState (From, InitReward)
//	x/rvesting/types/expected_keeper.go method names of the BankKeeper interface the module is given
//	x/rvesting/keeper/genesis.go        statements of InitGenesis in source order, shape of ExportGenesis
//	x/rvesting/keeper/keeper.go         sender / recipient of SendVestedCoins, account read by GetRemainingCoin,
//	                                    which NewKeeper parameter becomes feeCollectorName
//	app/app.go                          maccPerms, allowedReceivingModAcc, SetOrderBeginBlockers, SetOrderInitGenesis,
//	                                    the fee-collector argument of rvestingkeeper.NewKeeper and distrkeeper.NewKeeper
//
// A statement the translator does not know becomes an explicit `…Unknown "<source>"` constructor: the obligations of
// Props/C20.v that read the term then fail for C20 only (other properties' builds are not affected).  Only a Go file
// that does not parse, or a missing source file, is exit 1.
package main

import (
	"bytes"
	"crypto/sha256"
	"flag"
	"fmt"
	"go/ast"
	"go/parser"
	"go/printer"
	"go/token"
	"math/big"
	"os"
	"path/filepath"
	"strconv"
	"strings"
)

func die(f string, a ...interface{}) {
	fmt.Fprintf(os.Stderr, "rvesting: "+f+"\n", a...)
	os.Exit(1)
}

var fset = token.NewFileSet()

func src(n ast.Node) string {
	if n == nil {
		return ""
	}
	var b bytes.Buffer
	printer.Fprint(&b, fset, n)
	return strings.Join(strings.Fields(b.String()), " ")
}

func parse(repo, rel string) *ast.File {
	p := filepath.Join(repo, rel)
	f, err := parser.ParseFile(fset, p, nil, parser.ParseComments)
	if err != nil {
		die("cannot parse %s: %v", rel, err)
	}
	return f
}

// ---------------------------------------------------------------- Coq literals

func coqBytes(s string) string {
	parts := make([]string, 0, len(s))
	for i := 0; i < len(s); i++ {
		parts = append(parts, fmt.Sprintf("x%02x", s[i]))
	}
	return "[" + strings.Join(parts, ";") + "]"
}

// bytes literal followed by the text as a comment (comment-safe)
func coqStr(s string) string {
	c := strings.NewReplacer("(*", "( *", "*)", "* )", "\"", "'").Replace(s)
	return coqBytes(s) + " (* " + c + " *)"
}

func coqList(items []string) string {
	if len(items) == 0 {
		return "[]"
	}
	return "[\n   " + strings.Join(items, ";\n   ") + "\n]"
}

// ---------------------------------------------------------------- lookup helpers

func funcDecl(f *ast.File, recv, name string) *ast.FuncDecl {
	for _, d := range f.Decls {
		fd, ok := d.(*ast.FuncDecl)
		if !ok || fd.Name.Name != name {
			continue
		}
		if recv == "" {
			if fd.Recv == nil {
				return fd
			}
			continue
		}
		if fd.Recv == nil || len(fd.Recv.List) != 1 {
			continue
		}
		t := fd.Recv.List[0].Type
		if s, ok := t.(*ast.StarExpr); ok {
			t = s.X
		}
		if id, ok := t.(*ast.Ident); ok && id.Name == recv {
			return fd
		}
	}
	return nil
}

func stringConsts(f *ast.File) map[string]string {
	m := map[string]string{}
	for pass := 0; pass < 3; pass++ {
		for _, d := range f.Decls {
			gd, ok := d.(*ast.GenDecl)
			if !ok || (gd.Tok != token.CONST && gd.Tok != token.VAR) {
				continue
			}
			for _, sp := range gd.Specs {
				vs := sp.(*ast.ValueSpec)
				for i, n := range vs.Names {
					if i >= len(vs.Values) {
						continue
					}
					switch v := vs.Values[i].(type) {
					case *ast.BasicLit:
						if v.Kind == token.STRING {
							if s, err := strconv.Unquote(v.Value); err == nil {
								m[n.Name] = s
							}
						}
					case *ast.Ident:
						if s, ok := m[v.Name]; ok {
							m[n.Name] = s
						}
					case *ast.CallExpr: // []byte("literal")
						if at, ok := v.Fun.(*ast.ArrayType); ok && at.Len == nil && src(at.Elt) == "byte" && len(v.Args) == 1 {
							if bl, ok := v.Args[0].(*ast.BasicLit); ok && bl.Kind == token.STRING {
								if s, err := strconv.Unquote(bl.Value); err == nil {
									m[n.Name] = s
								}
							}
						}
					}
				}
			}
		}
	}
	return m
}

func isNilReturn(s ast.Stmt) bool {
	r, ok := s.(*ast.ReturnStmt)
	return ok && len(r.Results) == 1 && src(r.Results[0]) == "nil"
}

// block consists of a single return of a non-nil value (a rejection)
func rejects(b *ast.BlockStmt) bool {
	if b == nil || len(b.List) != 1 {
		return false
	}
	r, ok := b.List[0].(*ast.ReturnStmt)
	return ok && len(r.Results) == 1 && src(r.Results[0]) != "nil"
}

func panics(b *ast.BlockStmt) bool {
	if b == nil || len(b.List) != 1 {
		return false
	}
	e, ok := b.List[0].(*ast.ExprStmt)
	if !ok {
		return false
	}
	c, ok := e.X.(*ast.CallExpr)
	return ok && src(c.Fun) == "panic"
}

// ---------------------------------------------------------------- validatePerBlockReward

func rewardGuards(f *ast.File) (lg []string, cg []string) {
	fd := funcDecl(f, "", "validatePerBlockReward")
	if fd == nil || fd.Body == nil || fd.Type.Params == nil || len(fd.Type.Params.List) != 1 || len(fd.Type.Params.List[0].Names) != 1 {
		return []string{"LUnknown " + coqStr("validatePerBlockReward not found")}, nil
	}
	param := fd.Type.Params.List[0].Names[0].Name
	listVar, okVar := "", ""
	seenVars := map[string]bool{}
	sawLoop := false
	for i, st := range fd.Body.List {
		last := i == len(fd.Body.List)-1
		switch s := st.(type) {
		case *ast.AssignStmt:
			// reward, ok := r.(sdk.Coins)
			if len(s.Lhs) == 2 && len(s.Rhs) == 1 {
				if ta, ok := s.Rhs[0].(*ast.TypeAssertExpr); ok && src(ta.X) == param && src(ta.Type) == "sdk.Coins" {
					listVar, okVar = src(s.Lhs[0]), src(s.Lhs[1])
					continue
				}
			}
			// seen := make(map[string]...)
			if len(s.Lhs) == 1 && len(s.Rhs) == 1 {
				if c, ok := s.Rhs[0].(*ast.CallExpr); ok && src(c.Fun) == "make" && len(c.Args) >= 1 {
					if _, ok := c.Args[0].(*ast.MapType); ok {
						seenVars[src(s.Lhs[0])] = true
						continue
					}
				}
				if cl, ok := s.Rhs[0].(*ast.CompositeLit); ok {
					if _, ok := cl.Type.(*ast.MapType); ok && len(cl.Elts) == 0 {
						seenVars[src(s.Lhs[0])] = true
						continue
					}
				}
			}
			lg = append(lg, "LUnknown "+coqStr(src(s)))
		case *ast.IfStmt:
			c := src(s.Cond)
			switch {
			case s.Init == nil && s.Else == nil && okVar != "" && c == "!"+okVar && rejects(s.Body):
				lg = append(lg, "LTypeCoins")
			case s.Init == nil && s.Else == nil && listVar != "" && (c == "len("+listVar+") == 0" || c == "len("+listVar+") < 1" || c == listVar+".Empty()") && rejects(s.Body):
				lg = append(lg, "LEmpty")
			default:
				lg = append(lg, "LUnknown "+coqStr(src(s)))
			}
		case *ast.RangeStmt:
			if sawLoop || listVar == "" || src(s.X) != listVar || s.Value == nil {
				lg = append(lg, "LUnknown "+coqStr("loop: "+src(s.X)))
				continue
			}
			sawLoop = true
			cg = coinGuards(s.Body, src(s.Value), seenVars)
		case *ast.ReturnStmt:
			if !(last && isNilReturn(s)) {
				lg = append(lg, "LUnknown "+coqStr(src(s)))
			}
		default:
			lg = append(lg, "LUnknown "+coqStr(src(st)))
		}
	}
	if listVar == "" {
		lg = append(lg, "LUnknown "+coqStr("no sdk.Coins type assertion"))
	}
	return
}

func coinGuards(body *ast.BlockStmt, rr string, seenVars map[string]bool) (cg []string) {
	pendingDup := "" // map variable tested by a duplicate guard whose insertion has not been seen yet
	for _, st := range body.List {
		switch s := st.(type) {
		case *ast.IfStmt:
			if s.Else != nil || !rejects(s.Body) {
				cg = append(cg, "GUnknown "+coqStr(src(s)))
				continue
			}
			c := src(s.Cond)
			init := src(s.Init)
			switch {
			case s.Init == nil && (c == "len("+rr+".Denom) == 0" || c == rr+".Denom == \"\""):
				cg = append(cg, "GEmptyDenom")
			case c == "err != nil" && init == "err := sdk.ValidateDenom("+rr+".Denom)":
				cg = append(cg, "GValidDenom")
			case s.Init == nil && c == "sdk.ValidateDenom("+rr+".Denom) != nil":
				cg = append(cg, "GValidDenom")
			case s.Init == nil && c == rr+".Amount.IsNil()":
				cg = append(cg, "GNilAmount")
			case s.Init == nil && (c == rr+".IsNegative()" || c == rr+".Amount.IsNegative()"):
				cg = append(cg, "GNegative")
			default:
				// if _, dup := seen[rr.Denom]; dup { return … }   |   if seen[rr.Denom] { return … }
				matched := false
				for v := range seenVars {
					if (strings.HasSuffix(init, ":= "+v+"["+rr+".Denom]") && strings.HasPrefix(init, "_, "+c+" ")) ||
						(s.Init == nil && c == v+"["+rr+".Denom]") {
						pendingDup = v
						matched = true
					}
				}
				if !matched {
					cg = append(cg, "GUnknown "+coqStr(src(s)))
				}
			}
		case *ast.AssignStmt:
			// seen[rr.Denom] = struct{}{} | true
			if pendingDup != "" && len(s.Lhs) == 1 && src(s.Lhs[0]) == pendingDup+"["+rr+".Denom]" {
				cg = append(cg, "GDuplicate")
				pendingDup = ""
				continue
			}
			cg = append(cg, "GUnknown "+coqStr(src(s)))
		default:
			cg = append(cg, "GUnknown "+coqStr(src(st)))
		}
	}
	if pendingDup != "" { // tested but never inserted: the guard never fires
		cg = append(cg, "GUnknown "+coqStr("duplicate test without insertion into "+pendingDup))
	}
	return
}

// ---------------------------------------------------------------- ParamSetPairs, Params.validate, DefaultParams

func fieldTypes(repo string) map[string]string {
	f := parse(repo, "x/rvesting/types/genesis.pb.go")
	m := map[string]string{}
	for _, d := range f.Decls {
		gd, ok := d.(*ast.GenDecl)
		if !ok || gd.Tok != token.TYPE {
			continue
		}
		for _, sp := range gd.Specs {
			ts := sp.(*ast.TypeSpec)
			st, ok := ts.Type.(*ast.StructType)
			if !ok || ts.Name.Name != "Params" {
				continue
			}
			for _, fl := range st.Fields.List {
				for _, n := range fl.Names {
					m[n.Name] = src(fl.Type)
				}
			}
		}
	}
	return m
}

func coqType(goType string) string {
	switch goType {
	case "bool":
		return "TBool"
	case "github_com_cosmos_cosmos_sdk_types.Coins", "sdk.Coins", "types.Coins":
		return "TCoins"
	}
	return "TOtherType " + coqStr(goType)
}

func paramPairs(f *ast.File, consts map[string]string, ftypes map[string]string) []string {
	fd := funcDecl(f, "Params", "ParamSetPairs")
	var out []string
	if fd == nil || fd.Body == nil {
		return []string{fmt.Sprintf("{| pp_key := %s; pp_field := []; pp_type := TOtherType []; pp_validator := VOther [] |}", coqStr("ParamSetPairs not found"))}
	}
	recv := ""
	if len(fd.Recv.List[0].Names) == 1 {
		recv = fd.Recv.List[0].Names[0].Name
	}
	ast.Inspect(fd.Body, func(n ast.Node) bool {
		c, ok := n.(*ast.CallExpr)
		if !ok || !strings.HasSuffix(src(c.Fun), "NewParamSetPair") || len(c.Args) != 3 {
			return true
		}
		key := src(c.Args[0])
		if v, ok := consts[key]; ok {
			key = v
		} else {
			key = "?" + key
		}
		field := strings.TrimPrefix(src(c.Args[1]), "&"+recv+".")
		val := ""
		switch v := c.Args[2].(type) {
		case *ast.Ident:
			if v.Name == "validatePerBlockReward" {
				val = "VRewards"
			} else {
				val = "VOther " + coqStr(v.Name)
			}
		case *ast.FuncLit:
			if len(v.Body.List) == 1 && isNilReturn(v.Body.List[0]) {
				val = "VAcceptAll"
			} else {
				val = "VOther " + coqStr(src(v.Body))
			}
		default:
			val = "VOther " + coqStr(src(v))
		}
		out = append(out, fmt.Sprintf("{| pp_key := %s;\n      pp_field := %s;\n      pp_type := %s; pp_validator := %s |}",
			coqStr(key), coqStr(field), coqType(ftypes[field]), val))
		return false
	})
	return out
}

func validateShape(f *ast.File) string {
	fd := funcDecl(f, "Params", "validate")
	if fd == nil || fd.Body == nil || len(fd.Recv.List[0].Names) != 1 {
		return "PVUnknown"
	}
	m := fd.Recv.List[0].Names[0].Name
	call := "validatePerBlockReward(" + m + ".PerBlockReward)"
	l := fd.Body.List
	if len(l) == 1 {
		if r, ok := l[0].(*ast.ReturnStmt); ok && len(r.Results) == 1 && src(r.Results[0]) == call {
			return "PVAlways"
		}
	}
	if len(l) == 2 && isNilReturn(l[1]) {
		if s, ok := l[0].(*ast.IfStmt); ok && s.Init == nil && s.Else == nil && src(s.Cond) == m+".EnableVesting" && len(s.Body.List) == 1 {
			if r, ok := s.Body.List[0].(*ast.ReturnStmt); ok && len(r.Results) == 1 && src(r.Results[0]) == call {
				return "PVIfEnabled"
			}
		}
		// if err := validatePerBlockReward(..); err != nil { return err }; return nil
		if s, ok := l[0].(*ast.IfStmt); ok && s.Else == nil && src(s.Init) == "err := "+call && src(s.Cond) == "err != nil" && rejects(s.Body) {
			return "PVAlways"
		}
	}
	return "PVUnknown"
}

type evalCtx struct {
	repoTypes map[string]string // string constants of /repo/types
	teleFns   map[string]*ast.FuncDecl
}

// evaluates an sdk.Int expression
func (e *evalCtx) evalInt(x ast.Expr) (*big.Int, bool) {
	switch v := x.(type) {
	case *ast.BasicLit:
		if v.Kind == token.INT {
			n, ok := new(big.Int).SetString(v.Value, 0)
			return n, ok
		}
	case *ast.CallExpr:
		fn := src(v.Fun)
		switch fn {
		case "sdk.NewInt", "sdk.NewIntFromUint64", "int64", "uint64":
			if len(v.Args) == 1 {
				return e.evalInt(v.Args[0])
			}
		case "sdk.NewIntWithDecimal":
			if len(v.Args) == 2 {
				a, ok1 := e.evalInt(v.Args[0])
				b, ok2 := e.evalInt(v.Args[1])
				if ok1 && ok2 && b.IsInt64() && b.Int64() >= 0 && b.Int64() < 200 {
					return new(big.Int).Mul(a, new(big.Int).Exp(big.NewInt(10), b, nil)), true
				}
			}
		case "sdk.ZeroInt":
			return big.NewInt(0), true
		case "sdk.OneInt":
			return big.NewInt(1), true
		}
	}
	return nil, false
}

type coin struct {
	denom string
	amt   *big.Int
}

func (e *evalCtx) evalDenom(x ast.Expr, local map[string]string) (string, bool) {
	switch v := x.(type) {
	case *ast.BasicLit:
		if v.Kind == token.STRING {
			s, err := strconv.Unquote(v.Value)
			return s, err == nil
		}
	case *ast.Ident:
		if s, ok := local[v.Name]; ok {
			return s, true
		}
	case *ast.SelectorExpr:
		if src(v.X) == "types" {
			s, ok := e.repoTypes[v.Sel.Name]
			return s, ok
		}
	}
	return "", false
}

func (e *evalCtx) evalCoin(x ast.Expr) (coin, bool) {
	c, ok := x.(*ast.CallExpr)
	if !ok {
		return coin{}, false
	}
	fn := src(c.Fun)
	switch {
	case (fn == "sdk.NewCoin" || fn == "sdk.NewInt64Coin") && len(c.Args) == 2:
		d, ok1 := e.evalDenom(c.Args[0], nil)
		a, ok2 := e.evalInt(c.Args[1])
		return coin{d, a}, ok1 && ok2
	case strings.HasPrefix(fn, "types.") && len(c.Args) == 1:
		// helper of /repo/types: func F(amount T) sdk.Coin { return sdk.NewCoin(<Denom>, amount) }
		fd := e.teleFns[strings.TrimPrefix(fn, "types.")]
		if fd == nil || fd.Body == nil || len(fd.Body.List) != 1 || len(fd.Type.Params.List) != 1 || len(fd.Type.Params.List[0].Names) != 1 {
			return coin{}, false
		}
		p := fd.Type.Params.List[0].Names[0].Name
		r, ok := fd.Body.List[0].(*ast.ReturnStmt)
		if !ok || len(r.Results) != 1 {
			return coin{}, false
		}
		rc, ok := r.Results[0].(*ast.CallExpr)
		if !ok || len(rc.Args) != 2 || src(rc.Args[1]) != p || (src(rc.Fun) != "sdk.NewCoin" && src(rc.Fun) != "sdk.NewInt64Coin") {
			return coin{}, false
		}
		d, ok1 := e.evalDenom(rc.Args[0], e.repoTypes)
		a, ok2 := e.evalInt(c.Args[0])
		return coin{d, a}, ok1 && ok2
	}
	return coin{}, false
}

// evaluates an sdk.Coins expression: sdk.NewCoins(c...) | sdk.Coins{c...}; ok=false when not understood
func (e *evalCtx) evalCoins(x ast.Expr) ([]coin, bool) {
	var args []ast.Expr
	switch v := x.(type) {
	case *ast.CallExpr:
		if src(v.Fun) != "sdk.NewCoins" {
			return nil, false
		}
		args = v.Args
	case *ast.CompositeLit:
		if src(v.Type) != "sdk.Coins" {
			return nil, false
		}
		args = v.Elts
	default:
		return nil, false
	}
	var out []coin
	for _, a := range args {
		c, ok := e.evalCoin(a)
		if !ok {
			return nil, false
		}
		out = append(out, c)
	}
	return out, true
}

func coqCoins(cs []coin) string {
	var items []string
	for _, c := range cs {
		items = append(items, fmt.Sprintf("(%s, %s%%Z)", coqStr(c.denom), c.amt.String()))
	}
	if len(items) == 0 {
		return "[]"
	}
	return "[" + strings.Join(items, "; ") + "]"
}

// fields of the composite literal a function returns: name -> expression
func returnedLiteral(fd *ast.FuncDecl, typ string) map[string]ast.Expr {
	if fd == nil || fd.Body == nil || len(fd.Body.List) != 1 {
		return nil
	}
	r, ok := fd.Body.List[0].(*ast.ReturnStmt)
	if !ok || len(r.Results) != 1 {
		return nil
	}
	x := r.Results[0]
	if u, ok := x.(*ast.UnaryExpr); ok && u.Op == token.AND {
		x = u.X
	}
	cl, ok := x.(*ast.CompositeLit)
	if !ok || src(cl.Type) != typ {
		return nil
	}
	m := map[string]ast.Expr{}
	for _, el := range cl.Elts {
		kv, ok := el.(*ast.KeyValueExpr)
		if !ok {
			return nil
		}
		m[src(kv.Key)] = kv.Value
	}
	return m
}

// ---------------------------------------------------------------- genesis

func validateGenesisSteps(f *ast.File) []string {
	fd := funcDecl(f, "", "ValidateGenesis")
	if fd == nil || fd.Body == nil || len(fd.Type.Params.List) != 1 || len(fd.Type.Params.List[0].Names) != 1 {
		return []string{"(false, GVUnknown " + coqStr("ValidateGenesis not found") + ")"}
	}
	d := fd.Type.Params.List[0].Names[0].Name
	var out []string
	var walk func(l []ast.Stmt, underFrom bool, top bool)
	walk = func(l []ast.Stmt, underFrom bool, top bool) {
		for i, st := range l {
			last := i == len(l)-1
			tag := "false"
			if underFrom {
				tag = "true"
			}
			switch s := st.(type) {
			case *ast.IfStmt:
				init, c := src(s.Init), src(s.Cond)
				switch {
				case s.Else == nil && init == "err := "+d+".Params.validate()" && c == "err != nil" && rejects(s.Body):
					out = append(out, "("+tag+", GVParams)")
				case s.Else == nil && init == "_, err := sdk.AccAddressFromBech32("+d+".From)" && c == "err != nil" && rejects(s.Body):
					out = append(out, "("+tag+", GVBech32)")
				case s.Else == nil && init == "err := "+d+".InitReward.Validate()" && c == "err != nil" && rejects(s.Body):
					out = append(out, "("+tag+", GVInitCoins)")
				case s.Else == nil && s.Init == nil && !underFrom && (c == "len("+d+".From) != 0" || c == "len("+d+".From) > 0" || c == d+".From != \"\""):
					walk(s.Body.List, true, false)
				default:
					out = append(out, "("+tag+", GVUnknown "+coqStr(src(s))+")")
				}
			case *ast.ReturnStmt:
				if len(s.Results) == 1 {
					r := src(s.Results[0])
					switch {
					case r == "nil" && last:
					case r == d+".InitReward.Validate()" && last:
						out = append(out, "("+tag+", GVInitCoins)")
					case r == d+".Params.validate()" && last:
						out = append(out, "("+tag+", GVParams)")
					default:
						out = append(out, "("+tag+", GVUnknown "+coqStr(src(s))+")")
					}
				} else {
					out = append(out, "("+tag+", GVUnknown "+coqStr(src(s))+")")
				}
			default:
				out = append(out, "("+tag+", GVUnknown "+coqStr(src(st))+")")
			}
		}
	}
	walk(fd.Body.List, false, true)
	return out
}

func initGenesisSteps(f *ast.File, moduleName string) []string {
	fd := funcDecl(f, "Keeper", "InitGenesis")
	if fd == nil || fd.Body == nil || len(fd.Type.Params.List) != 2 || len(fd.Type.Params.List[1].Names) != 1 {
		return []string{"IUnknown " + coqStr("InitGenesis not found")}
	}
	g := fd.Type.Params.List[1].Names[0].Name
	k := fd.Recv.List[0].Names[0].Name
	fromVar := ""
	var out []string
	for _, st := range fd.Body.List {
		switch s := st.(type) {
		case *ast.ExprStmt:
			x := src(s.X)
			if x == k+".SetParams(ctx, "+g+".GetParams())" || x == k+".SetParams(ctx, "+g+".Params)" {
				out = append(out, "ISetParams")
				continue
			}
			out = append(out, "IUnknown "+coqStr(x))
		case *ast.AssignStmt:
			if len(s.Lhs) == 2 && len(s.Rhs) == 1 && src(s.Rhs[0]) == "sdk.AccAddressFromBech32("+g+".From)" {
				fromVar = src(s.Lhs[0])
				continue // the panic on its error is the following if statement
			}
			out = append(out, "IUnknown "+coqStr(src(s)))
		case *ast.IfStmt:
			init, c := src(s.Init), src(s.Cond)
			switch {
			case s.Init == nil && s.Else == nil && (c == "len("+g+".From) == 0" || c == g+".From == \"\"") && len(s.Body.List) == 1 && src(s.Body.List[0]) == "return":
				out = append(out, "IStopIfNoFrom")
			case s.Init == nil && s.Else == nil && c == "err != nil" && fromVar != "" && panics(s.Body):
				out = append(out, "IParseFrom")
			case s.Else == nil && c == "err != nil" && panics(s.Body) && fromVar != "" &&
				(strings.HasSuffix(init, "= "+k+".bankKeeper.SendCoinsFromAccountToModule(ctx, "+fromVar+", types.ModuleName, "+g+".InitReward)")):
				out = append(out, "ISendToModule "+coqStr(moduleName))
			default:
				out = append(out, "IUnknown "+coqStr(src(s)))
			}
		default:
			out = append(out, "IUnknown "+coqStr(src(st)))
		}
	}
	return out
}

func exportShape(kf, tf *ast.File) string {
	fd := funcDecl(kf, "Keeper", "ExportGenesis")
	if fd == nil || fd.Body == nil {
		return "EUnknown"
	}
	k := fd.Recv.List[0].Names[0].Name
	ok := false
	switch len(fd.Body.List) {
	case 1:
		ok = src(fd.Body.List[0]) == "return types.NewGenesisState("+k+".GetParams(ctx))"
	case 2:
		if a, isA := fd.Body.List[0].(*ast.AssignStmt); isA && len(a.Lhs) == 1 && len(a.Rhs) == 1 && src(a.Rhs[0]) == k+".GetParams(ctx)" {
			ok = src(fd.Body.List[1]) == "return types.NewGenesisState("+src(a.Lhs[0])+")"
		}
	}
	if !ok {
		return "EUnknown"
	}
	// NewGenesisState(params) must return {Params: params, From: "", InitReward: <empty>}
	ng := funcDecl(tf, "", "NewGenesisState")
	if ng == nil || len(ng.Type.Params.List) != 1 || len(ng.Type.Params.List[0].Names) != 1 {
		return "EUnknown"
	}
	p := ng.Type.Params.List[0].Names[0].Name
	lit := returnedLiteral(ng, "GenesisState")
	if lit == nil || src(lit["Params"]) != p {
		return "EUnknown"
	}
	if fr, has := lit["From"]; has && src(fr) != `""` {
		return "EUnknown"
	}
	if ir, has := lit["InitReward"]; has {
		e := &evalCtx{}
		cs, ok := e.evalCoins(ir)
		if !(ok && len(cs) == 0) && src(ir) != "nil" {
			return "EUnknown"
		}
	}
	return "EParamsOnly"
}

// ---------------------------------------------------------------- keeper.go

func keeperWiring(f *ast.File, moduleName string) (sender, recipField, remaining string, feeParamIdx int) {
	sender, recipField, remaining, feeParamIdx = "?", "?", "?", -1
	if fd := funcDecl(f, "Keeper", "SendVestedCoins"); fd != nil && fd.Body != nil && len(fd.Body.List) == 1 {
		if r, ok := fd.Body.List[0].(*ast.ReturnStmt); ok && len(r.Results) == 1 {
			if c, ok := r.Results[0].(*ast.CallExpr); ok && strings.HasSuffix(src(c.Fun), ".bankKeeper.SendCoinsFromModuleToModule") && len(c.Args) == 4 &&
				len(fd.Type.Params.List) == 2 && src(c.Args[3]) == fd.Type.Params.List[1].Names[0].Name {
				if src(c.Args[1]) == "types.ModuleName" {
					sender = moduleName
				} else {
					sender = "?" + src(c.Args[1])
				}
				k := fd.Recv.List[0].Names[0].Name
				recipField = strings.TrimPrefix(src(c.Args[2]), k+".")
			}
		}
	}
	if fd := funcDecl(f, "Keeper", "GetRemainingCoin"); fd != nil && fd.Body != nil && len(fd.Body.List) == 2 && len(fd.Type.Params.List) == 2 {
		k := fd.Recv.List[0].Names[0].Name
		denom := fd.Type.Params.List[1].Names[0].Name
		if a, ok := fd.Body.List[0].(*ast.AssignStmt); ok && len(a.Lhs) == 1 && len(a.Rhs) == 1 {
			addr := src(a.Lhs[0])
			if src(a.Rhs[0]) == k+".accountKeeper.GetModuleAddress(types.ModuleName)" &&
				src(fd.Body.List[1]) == "return "+k+".bankKeeper.GetBalance(ctx, "+addr+", "+denom+")" {
				remaining = moduleName
			}
		}
	}
	if fd := funcDecl(f, "", "NewKeeper"); fd != nil && fd.Body != nil {
		var names []string
		for _, fl := range fd.Type.Params.List {
			for _, n := range fl.Names {
				names = append(names, n.Name)
			}
		}
		ast.Inspect(fd.Body, func(n ast.Node) bool {
			kv, ok := n.(*ast.KeyValueExpr)
			if ok && src(kv.Key) == recipField {
				for i, nm := range names {
					if nm == src(kv.Value) {
						feeParamIdx = i
					}
				}
			}
			return true
		})
	}
	return
}

func interfaceMethods(f *ast.File, name string) []string {
	var out []string
	for _, d := range f.Decls {
		gd, ok := d.(*ast.GenDecl)
		if !ok || gd.Tok != token.TYPE {
			continue
		}
		for _, sp := range gd.Specs {
			ts := sp.(*ast.TypeSpec)
			it, ok := ts.Type.(*ast.InterfaceType)
			if !ok || ts.Name.Name != name {
				continue
			}
			for _, m := range it.Methods.List {
				if len(m.Names) == 0 { // embedded interface
					out = append(out, "embedded:"+src(m.Type))
				}
				for _, n := range m.Names {
					out = append(out, n.Name)
				}
			}
		}
	}
	return out
}

// ---------------------------------------------------------------- app.go

type appInfo struct {
	macc          [][2]interface{} // name, perms
	allowed       []string
	beginOrder    []string
	initOrder     []string
	rvFeeArg      string
	distrFeeArg   string
	rvKeeperFound bool
}

func mapLiteral(f *ast.File, name string) *ast.CompositeLit {
	var found *ast.CompositeLit
	ast.Inspect(f, func(n ast.Node) bool {
		vs, ok := n.(*ast.ValueSpec)
		if !ok {
			return true
		}
		for i, nm := range vs.Names {
			if nm.Name == name && i < len(vs.Values) {
				if cl, ok := vs.Values[i].(*ast.CompositeLit); ok {
					found = cl
				}
			}
		}
		return true
	})
	return found
}

func callArgs(f *ast.File, suffix string) [][]ast.Expr {
	var out [][]ast.Expr
	ast.Inspect(f, func(n ast.Node) bool {
		c, ok := n.(*ast.CallExpr)
		if ok && strings.HasSuffix(src(c.Fun), suffix) {
			out = append(out, c.Args)
		}
		return true
	})
	return out
}

func main() {
	repo := flag.String("repo", "/repo", "source tree")
	out := flag.String("out", "", "output directory (coq/theories/Gen)")
	flag.Parse()
	if *out == "" {
		die("-out required")
	}

	keysF := parse(*repo, "x/rvesting/types/keys.go")
	paramF := parse(*repo, "x/rvesting/types/param.go")
	genF := parse(*repo, "x/rvesting/types/genesis.go")
	expF := parse(*repo, "x/rvesting/types/expected_keeper.go")
	kgenF := parse(*repo, "x/rvesting/keeper/genesis.go")
	keeperF := parse(*repo, "x/rvesting/keeper/keeper.go")
	appF := parse(*repo, "app/app.go")
	coinF := parse(*repo, "types/coin.go")

	moduleName, ok := stringConsts(keysF)["ModuleName"]
	if !ok {
		moduleName = "?ModuleName"
	}
	pconsts := stringConsts(paramF)
	ftypes := fieldTypes(*repo)

	lg, cg := rewardGuards(paramF)
	pairs := paramPairs(paramF, pconsts, ftypes)
	shape := validateShape(paramF)

	ectx := &evalCtx{repoTypes: stringConsts(coinF), teleFns: map[string]*ast.FuncDecl{}}
	for _, d := range coinF.Decls {
		if fd, ok := d.(*ast.FuncDecl); ok && fd.Recv == nil {
			ectx.teleFns[fd.Name.Name] = fd
		}
	}
	defEnable, defRewards, defKnown := "false", "[]", "false"
	if lit := returnedLiteral(funcDecl(paramF, "", "DefaultParams"), "Params"); lit != nil {
		en := src(lit["EnableVesting"])
		cs, ok := ectx.evalCoins(lit["PerBlockReward"])
		if (en == "true" || en == "false" || en == "") && ok {
			if en == "" {
				en = "false"
			}
			defEnable, defRewards, defKnown = en, coqCoins(cs), "true"
		}
	}
	// DefaultGenesisState: {Params: DefaultParams(), From: "", InitReward: empty}
	defGenesisPlain := "false"
	if lit := returnedLiteral(funcDecl(genF, "", "DefaultGenesisState"), "GenesisState"); lit != nil {
		okp := src(lit["Params"]) == "DefaultParams()"
		okf := lit["From"] == nil || src(lit["From"]) == `""`
		oki := lit["InitReward"] == nil || src(lit["InitReward"]) == "nil"
		if !oki {
			cs, ok := ectx.evalCoins(lit["InitReward"])
			oki = ok && len(cs) == 0
		}
		if okp && okf && oki {
			defGenesisPlain = "true"
		}
	}

	gv := validateGenesisSteps(genF)
	is := initGenesisSteps(kgenF, moduleName)
	es := exportShape(kgenF, genF)
	sender, recipField, remaining, feeIdx := keeperWiring(keeperF, moduleName)
	bankMethods := interfaceMethods(expF, "BankKeeper")

	// app.go
	var maccRows []string
	if cl := mapLiteral(appF, "maccPerms"); cl != nil {
		for _, el := range cl.Elts {
			kv, ok := el.(*ast.KeyValueExpr)
			if !ok {
				continue
			}
			var perms []string
			if pl, ok := kv.Value.(*ast.CompositeLit); ok {
				for _, p := range pl.Elts {
					perms = append(perms, coqStr(src(p)))
				}
			} else if src(kv.Value) != "nil" {
				perms = append(perms, coqStr("?"+src(kv.Value)))
			}
			ps := "[]"
			if len(perms) > 0 {
				ps = "[" + strings.Join(perms, "; ") + "]"
			}
			maccRows = append(maccRows, fmt.Sprintf("{| ma_name := %s;\n      ma_perms := %s |}", coqStr(src(kv.Key)), ps))
		}
	}
	var allowed []string
	if cl := mapLiteral(appF, "allowedReceivingModAcc"); cl != nil {
		for _, el := range cl.Elts {
			if kv, ok := el.(*ast.KeyValueExpr); ok && src(kv.Value) == "true" {
				allowed = append(allowed, coqStr(src(kv.Key)))
			}
		}
	}
	order := func(suffix string) []string {
		var o []string
		calls := callArgs(appF, suffix)
		if len(calls) != 1 {
			return []string{coqStr(fmt.Sprintf("?%d calls of %s", len(calls), suffix))}
		}
		for _, a := range calls[0] {
			o = append(o, coqStr(src(a)))
		}
		return o
	}
	beginOrder := order(".SetOrderBeginBlockers")
	initOrder := order(".SetOrderInitGenesis")
	rvFee, distrFee := "?", "?"
	if c := callArgs(appF, "rvestingkeeper.NewKeeper"); len(c) == 1 && feeIdx >= 0 && feeIdx < len(c[0]) {
		rvFee = src(c[0][feeIdx])
	}
	// cosmos-sdk v0.45 distrkeeper.NewKeeper(cdc, key, paramSpace, ak, bk, sk, feeCollectorName, blockedAddrs)
	if c := callArgs(appF, "distrkeeper.NewKeeper"); len(c) == 1 && len(c[0]) == 8 {
		distrFee = src(c[0][6])
	}

	var b strings.Builder
	w := func(f string, a ...interface{}) { fmt.Fprintf(&b, f, a...) }
	w("From Coq Require Import List ZArith.\nImport ListNotations.\nFrom Teleport Require Import Base.Bytes Model.RvestingIR.\n\n")
	w("(* x/rvesting/types/keys.go: ModuleName *)\nDefinition module_name : bytes := %s.\n\n", coqStr(moduleName))
	w("(* x/rvesting/types/param.go: KeyEnableVesting, KeyPerBlockReward *)\n")
	w("Definition key_enable_vesting : bytes := %s.\n", coqStr(pconsts["KeyEnableVesting"]))
	w("Definition key_per_block_reward : bytes := %s.\n\n", coqStr(pconsts["KeyPerBlockReward"]))
	w("(* x/rvesting/types/param.go: Params.ParamSetPairs, field types from genesis.pb.go *)\nDefinition param_pairs : list ppair := %s.\n\n", coqList(pairs))
	w("(* x/rvesting/types/param.go: validatePerBlockReward, rejecting statements outside / inside the loop, source order *)\n")
	w("Definition reward_list_guards : list lguard := %s.\n", coqList(lg))
	w("Definition reward_coin_guards : list cguard := %s.\n\n", coqList(cg))
	w("(* x/rvesting/types/param.go: Params.validate *)\nDefinition params_validate_shape : pvshape := %s.\n\n", shape)
	w("(* x/rvesting/types/param.go: DefaultParams (evaluated; types.NewTeleCoin resolved through types/coin.go) *)\n")
	w("Definition default_params_known : bool := %s.\nDefinition default_enable : bool := %s.\nDefinition default_rewards : list (bytes * Z) := %s.\n\n", defKnown, defEnable, defRewards)
	w("(* x/rvesting/types/genesis.go: DefaultGenesisState = {DefaultParams(), From empty, no InitReward} *)\nDefinition default_genesis_plain : bool := %s.\n\n", defGenesisPlain)
	w("(* x/rvesting/types/genesis.go: ValidateGenesis; true = under `if len(data.From) != 0` *)\nDefinition validate_genesis_steps : list (bool * gvstep) := %s.\n\n", coqList(gv))
	w("(* x/rvesting/keeper/genesis.go: (Keeper).InitGenesis *)\nDefinition init_genesis_steps : list istep := %s.\n\n", coqList(is))
	w("(* x/rvesting/keeper/genesis.go: (Keeper).ExportGenesis + types.NewGenesisState *)\nDefinition export_genesis_shape : eshape := %s.\n\n", es)
	w("(* x/rvesting/keeper/keeper.go: SendVestedCoins = bank.SendCoinsFromModuleToModule(sender, k.<field>, coins) *)\n")
	w("Definition vest_sender : bytes := %s.\nDefinition vest_recipient_field : bytes := %s.\n", coqStr(sender), coqStr(recipField))
	w("(* x/rvesting/keeper/keeper.go: GetRemainingCoin reads the balance of this module account *)\nDefinition remaining_account : bytes := %s.\n\n", coqStr(remaining))
	var bm []string
	for _, m := range bankMethods {
		bm = append(bm, coqStr(m))
	}
	w("(* x/rvesting/types/expected_keeper.go: methods of the BankKeeper interface handed to the module *)\nDefinition bank_keeper_methods : list bytes := %s.\n\n", coqList(bm))
	w("(* app/app.go: maccPerms *)\nDefinition macc_perms : list macc := %s.\n\n", coqList(maccRows))
	w("(* app/app.go: allowedReceivingModAcc (entries set to true) *)\nDefinition allowed_receiving : list bytes := %s.\n\n", coqList(allowed))
	w("(* app/app.go: app.mm.SetOrderBeginBlockers *)\nDefinition begin_blockers : list bytes := %s.\n\n", coqList(beginOrder))
	w("(* app/app.go: app.mm.SetOrderInitGenesis *)\nDefinition init_genesis_order : list bytes := %s.\n\n", coqList(initOrder))
	w("(* app/app.go: the argument of rvestingkeeper.NewKeeper that becomes Keeper.%s, and the feeCollectorName argument of distrkeeper.NewKeeper *)\n", recipField)
	w("Definition rv_fee_collector_arg : bytes := %s.\nDefinition distr_fee_collector_arg : bytes := %s.\n", coqStr(rvFee), coqStr(distrFee))

	body := b.String()
	sum := sha256.Sum256([]byte(body))
	text := "(* GENERATED by tools/gotocoq/rvesting from x/rvesting/{types,keeper} and app/app.go - do not edit. *)\n" +
		fmt.Sprintf("(* content-hash: %x *)\n", sum) + body
	path := filepath.Join(*out, "RvestingGen.v")
	if old, err := os.ReadFile(path); err == nil && string(old) == text {
		return
	}
	if err := os.WriteFile(path, []byte(text), 0o644); err != nil {
		die("%v", err)
	}
}
