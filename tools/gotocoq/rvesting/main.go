// rvesting: regenerates the mechanical parts of x/rvesting and its wiring in app/app.go (property C20)
// -> Gen/RvestingGen.v
//
// Sources (relative to -repo):
//
//	x/rvesting/types/keys.go            ModuleName
//	x/rvesting/types/param.go           parameter keys, ParamSetPairs (key, field, type, validator), the rejecting
//	                                    guards of validatePerBlockReward in evaluation order, the shape of Params.validate,
//	                                    DefaultParams (evaluated: sdk.NewCoins / NewCoin / NewInt / NewIntWithDecimal,
//	                                    types.NewTeleCoin resolved through types/coin.go)
//	x/rvesting/types/genesis.pb.go      field types of Params
//	x/rvesting/types/genesis.go         steps of ValidateGenesis, NewGenesisState / DefaultGenesisState (From, InitReward)
//	x/rvesting/types/expected_keeper.go method names of the BankKeeper interface the module is given
//	x/rvesting/keeper/*.go              statements of InitGenesis in evaluation order, shape of ExportGenesis, which
//	                                    NewKeeper parameter becomes feeCollectorName
//	x/rvesting/module/abci.go + keeper  every bank call reachable from BeginBlocker: sender / recipient of the module-to-
//	                                    module send, the account whose balance is read
//	app/app.go                          maccPerms, allowedReceivingModAcc, SetOrderBeginBlockers, SetOrderInitGenesis,
//	                                    the fee-collector argument of rvestingkeeper.NewKeeper and distrkeeper.NewKeeper
//
// The three functions whose STATEMENTS are regenerated (validatePerBlockReward, ValidateGenesis, InitGenesis) are read by a
// small symbolic walker, not by statement shape: expressions are put in a canonical form in which locals are replaced by
// their definitions, the parameters by fixed names ($L reward list, $C current coin, $I its index, $G genesis state, $K keeper,
// $ctx), getters by fields; calls of unexported helpers, keeper methods and local closures are INLINED with parameter
// substitution (also in tail position and under `if err := f(..); err != nil { return err }`); `if c { return }` followed by S
// and `if !c { S }` give the same guarded steps; a type switch and a comma-ok assertion, `len(x) == 0` / `x.Empty()` / `x == ""`,
// `||` chains, tagless switches, a seen-map and a scan of the earlier entries (reward[:i]) are the same guards.  What the walker
// does not understand becomes an explicit `…Unknown "<source>"` constructor: the obligations of Props/C20.v that read the term
// then fail for C20 only.  The translator never exits non-zero because of the Go source (a file that is missing or does not
// parse yields Unknown terms); only a missing -out is an error.
package main

import (
	"bytes"
	"crypto/sha256"
	"flag"
	"fmt"
	"go/ast"
	"go/parser"
	"go/printer"
	"go/token"
	"math/big"
	"os"
	"path/filepath"
	"sort"
	"strconv"
	"strings"
)

var fset = token.NewFileSet()

func src(n ast.Node) string {
	if n == nil {
		return ""
	}
	var b bytes.Buffer
	printer.Fprint(&b, fset, n)
	return strings.Join(strings.Fields(b.String()), " ")
}

// parse returns nil when the file is missing or does not parse (every term read from it degrades to Unknown)
func parse(repo, rel string) *ast.File {
	f, err := parser.ParseFile(fset, filepath.Join(repo, rel), nil, parser.ParseComments)
	if err != nil {
		fmt.Fprintf(os.Stderr, "rvesting: cannot read %s: %v (terms degrade to Unknown)\n", rel, err)
		return nil
	}
	return f
}

func parseDir(repo, rel string) []*ast.File {
	var out []*ast.File
	ents, err := os.ReadDir(filepath.Join(repo, rel))
	if err != nil {
		return nil
	}
	var names []string
	for _, e := range ents {
		n := e.Name()
		if strings.HasSuffix(n, ".go") && !strings.HasSuffix(n, "_test.go") && !strings.HasSuffix(n, ".pb.go") && !strings.HasSuffix(n, ".pb.gw.go") {
			names = append(names, n)
		}
	}
	sort.Strings(names)
	for _, n := range names {
		if f := parse(repo, filepath.Join(rel, n)); f != nil {
			out = append(out, f)
		}
	}
	return out
}

// ---------------------------------------------------------------- Coq literals

func coqBytes(s string) string {
	parts := make([]string, 0, len(s))
	for i := 0; i < len(s); i++ {
		parts = append(parts, fmt.Sprintf("x%02x", s[i]))
	}
	return "[" + strings.Join(parts, ";") + "]"
}

func coqStr(s string) string {
	c := strings.NewReplacer("(*", "( *", "*)", "* )", "\"", "'").Replace(s)
	return coqBytes(s) + " (* " + c + " *)"
}

func coqList(items []string) string {
	if len(items) == 0 {
		return "[]"
	}
	return "[\n   " + strings.Join(items, ";\n   ") + "\n]"
}

// ---------------------------------------------------------------- function tables

type fn struct {
	recv    string // receiver variable name ("" for plain functions and closures)
	params  []string
	ptypes  []string
	body    *ast.BlockStmt
	closure bool // a func literal: sees the variables of the enclosing body
}

func paramsOf(ft *ast.FuncType) (names, types []string) {
	if ft.Params == nil {
		return
	}
	for _, fl := range ft.Params.List {
		if len(fl.Names) == 0 {
			names = append(names, "_")
			types = append(types, src(fl.Type))
		}
		for _, n := range fl.Names {
			names = append(names, n.Name)
			types = append(types, src(fl.Type))
		}
	}
	return
}

// funcs: plain functions by name; methods: by "Recv.name"
func tables(files []*ast.File) (funcs map[string]*fn, methods map[string]*fn) {
	funcs, methods = map[string]*fn{}, map[string]*fn{}
	for _, f := range files {
		if f == nil {
			continue
		}
		for _, d := range f.Decls {
			fd, ok := d.(*ast.FuncDecl)
			if !ok || fd.Body == nil {
				continue
			}
			ns, ts := paramsOf(fd.Type)
			x := &fn{params: ns, ptypes: ts, body: fd.Body}
			if fd.Recv == nil {
				funcs[fd.Name.Name] = x
				continue
			}
			if len(fd.Recv.List) != 1 {
				continue
			}
			t := fd.Recv.List[0].Type
			if s, ok := t.(*ast.StarExpr); ok {
				t = s.X
			}
			id, ok := t.(*ast.Ident)
			if !ok {
				continue
			}
			if len(fd.Recv.List[0].Names) == 1 {
				x.recv = fd.Recv.List[0].Names[0].Name
			}
			methods[id.Name+"."+fd.Name.Name] = x
		}
	}
	return
}

func stringConsts(f *ast.File) map[string]string {
	m := map[string]string{}
	if f == nil {
		return m
	}
	for pass := 0; pass < 3; pass++ {
		for _, d := range f.Decls {
			gd, ok := d.(*ast.GenDecl)
			if !ok || (gd.Tok != token.CONST && gd.Tok != token.VAR) {
				continue
			}
			for _, sp := range gd.Specs {
				vs := sp.(*ast.ValueSpec)
				for i, n := range vs.Names {
					if i >= len(vs.Values) {
						continue
					}
					switch v := vs.Values[i].(type) {
					case *ast.BasicLit:
						if v.Kind == token.STRING {
							if s, err := strconv.Unquote(v.Value); err == nil {
								m[n.Name] = s
							}
						}
					case *ast.Ident:
						if s, ok := m[v.Name]; ok {
							m[n.Name] = s
						}
					case *ast.CallExpr: // []byte("literal")
						if at, ok := v.Fun.(*ast.ArrayType); ok && at.Len == nil && src(at.Elt) == "byte" && len(v.Args) == 1 {
							if bl, ok := v.Args[0].(*ast.BasicLit); ok && bl.Kind == token.STRING {
								if s, err := strconv.Unquote(bl.Value); err == nil {
									m[n.Name] = s
								}
							}
						}
					}
				}
			}
		}
	}
	return m
}

// ---------------------------------------------------------------- canonical expressions

type pcall struct {
	e *env
	c *ast.CallExpr
}

type env struct {
	vars    map[string]string // identifier -> canonical expression
	clos    map[string]*fn    // local closures
	calls   map[string]*pcall // canonical string of a call bound to a variable -> the call (shared)
	methods map[string]*fn    // methods (of the keeper) reachable through $K
	funcs   map[string]*fn    // functions of the package the current body lives in
	kfuncs  map[string]*fn    // functions of the keeper package (bodies of $K methods live there)
	recvT   string            // receiver type name for $K method lookup
	depth   int
}

func newEnv(funcs, kfuncs, methods map[string]*fn, recvT string) *env {
	return &env{vars: map[string]string{}, clos: map[string]*fn{}, calls: map[string]*pcall{}, methods: methods, funcs: funcs, kfuncs: kfuncs, recvT: recvT}
}

func (e *env) fork() *env {
	c := &env{vars: map[string]string{}, clos: map[string]*fn{}, calls: e.calls, methods: e.methods, funcs: e.funcs, kfuncs: e.kfuncs, recvT: e.recvT, depth: e.depth}
	for k, v := range e.vars {
		c.vars[k] = v
	}
	for k, v := range e.clos {
		c.clos[k] = v
	}
	return c
}

// singleReturn: the expression of a body that is exactly `return <expr>`
func singleReturn(b *ast.BlockStmt) ast.Expr {
	if b == nil || len(b.List) != 1 {
		return nil
	}
	r, ok := b.List[0].(*ast.ReturnStmt)
	if !ok || len(r.Results) != 1 {
		return nil
	}
	return r.Results[0]
}

// identifiers that are re-assigned (`=`, op=, ++/--) somewhere in the body: never substituted by their first value
func mutated(b ast.Node) map[string]bool {
	m := map[string]bool{}
	if b == nil {
		return m
	}
	ast.Inspect(b, func(n ast.Node) bool {
		switch s := n.(type) {
		case *ast.AssignStmt:
			if s.Tok != token.DEFINE {
				for _, l := range s.Lhs {
					if id, ok := l.(*ast.Ident); ok && id.Name != "err" && id.Name != "_" {
						m[id.Name] = true
					}
				}
			}
		case *ast.IncDecStmt:
			if id, ok := s.X.(*ast.Ident); ok {
				m[id.Name] = true
			}
		}
		return true
	})
	return m
}

// environment for the body of f called with the given canonical receiver / arguments
func (e *env) bind(f *fn, recvCanon string, args []string) *env {
	c := &env{vars: map[string]string{}, clos: map[string]*fn{}, calls: e.calls, methods: e.methods, funcs: e.funcs, kfuncs: e.kfuncs, recvT: e.recvT, depth: e.depth + 1}
	if f.closure {
		for k, v := range e.vars {
			c.vars[k] = v
		}
		for k, v := range e.clos {
			c.clos[k] = v
		}
	}
	if f.recv != "" {
		c.vars[f.recv] = recvCanon
		if recvCanon == "$K" && e.kfuncs != nil {
			c.funcs = e.kfuncs
		}
	}
	for i, p := range f.params {
		if i < len(args) {
			c.vars[p] = args[i]
		}
		if i < len(f.ptypes) && f.ptypes[i] == "sdk.Context" {
			c.vars[p] = "$ctx"
		}
	}
	for n := range mutated(f.body) {
		if _, isParam := c.vars[n]; !isParam {
			c.vars[n] = "mut:" + n
		}
	}
	return c
}

// callee resolves a call to a function of the package / a method on $K / a closure; nil if it is none of them
func (e *env) callee(c *ast.CallExpr) (*fn, string) {
	switch f := c.Fun.(type) {
	case *ast.Ident:
		if x, ok := e.clos[f.Name]; ok {
			return x, ""
		}
		if _, shadow := e.vars[f.Name]; shadow {
			return nil, ""
		}
		if x, ok := e.funcs[f.Name]; ok {
			return x, ""
		}
	case *ast.SelectorExpr:
		r := e.canon(f.X)
		if r == "$K" && e.recvT != "" {
			if x, ok := e.methods[e.recvT+"."+f.Sel.Name]; ok {
				return x, r
			}
		}
	}
	return nil, ""
}

func (e *env) canonArgs(args []ast.Expr) []string {
	out := make([]string, len(args))
	for i, a := range args {
		out[i] = e.canon(a)
	}
	return out
}

func (e *env) canon(x ast.Expr) string {
	if x == nil {
		return ""
	}
	switch v := x.(type) {
	case *ast.Ident:
		if s, ok := e.vars[v.Name]; ok {
			return s
		}
		return v.Name
	case *ast.ParenExpr:
		return e.canon(v.X)
	case *ast.BasicLit:
		return v.Value
	case *ast.SelectorExpr:
		return e.canon(v.X) + "." + v.Sel.Name
	case *ast.StarExpr:
		return e.canon(v.X)
	case *ast.UnaryExpr:
		if v.Op == token.AND {
			return e.canon(v.X)
		}
		return v.Op.String() + e.canon(v.X)
	case *ast.BinaryExpr:
		return "(" + e.canon(v.X) + " " + v.Op.String() + " " + e.canon(v.Y) + ")"
	case *ast.IndexExpr:
		s := e.canon(v.X) + "[" + e.canon(v.Index) + "]"
		if s == "$L[$I]" {
			return "$C"
		}
		return s
	case *ast.SliceExpr:
		return e.canon(v.X) + "[" + e.canon(v.Low) + ":" + e.canon(v.High) + "]"
	case *ast.TypeAssertExpr:
		return e.canon(v.X) + ".(" + src(v.Type) + ")"
	case *ast.CallExpr:
		// getters of the generated protobuf structs: X.GetF() = X.F
		if sel, ok := v.Fun.(*ast.SelectorExpr); ok && len(v.Args) == 0 && strings.HasPrefix(sel.Sel.Name, "Get") && len(sel.Sel.Name) > 3 {
			r := e.canon(sel.X)
			if strings.HasPrefix(r, "$G") || strings.HasPrefix(r, "$C") || strings.HasPrefix(r, "$P") || strings.HasPrefix(r, "$E") {
				return r + "." + sel.Sel.Name[3:]
			}
		}
		// single-expression helpers are inlined in expressions
		if e.depth < 8 {
			if f, recv := e.callee(v); f != nil {
				if r := singleReturn(f.body); r != nil {
					return e.bind(f, recv, e.canonArgs(v.Args)).canon(r)
				}
			}
		}
		return e.canon(v.Fun) + "(" + strings.Join(e.canonArgs(v.Args), ", ") + ")"
	case *ast.FuncLit:
		return "func" + src(v.Body)
	}
	return src(x)
}

// bindVar records `name := rhs`; a call that can be inlined is remembered so that a later `if name != nil` inlines it
func (e *env) bindVar(name string, rhs ast.Expr) {
	if fl, ok := rhs.(*ast.FuncLit); ok {
		ns, ts := paramsOf(fl.Type)
		e.clos[name] = &fn{params: ns, ptypes: ts, body: fl.Body, closure: true}
		return
	}
	if strings.HasPrefix(e.vars[name], "mut:") && name != "err" {
		return
	}
	s := e.canon(rhs)
	e.vars[name] = s
	if c, ok := rhs.(*ast.CallExpr); ok {
		e.calls[s] = &pcall{e.fork(), c}
	}
}

func unq(s string) string {
	if strings.HasPrefix(s, "(") && strings.HasSuffix(s, ")") {
		depth := 0
		for i, ch := range s {
			if ch == '(' {
				depth++
			} else if ch == ')' {
				depth--
				if depth == 0 && i != len(s)-1 {
					return s
				}
			}
		}
		return s[1 : len(s)-1]
	}
	return s
}

// ---------------------------------------------------------------- walker

type exit int

const (
	fallsThrough exit = iota // reached the end of the list
	returnsOK                // ends with `return nil` / `return` (or a tail call that was inlined)
	unknownFlow
)

// A walker turns a function body into a flat list of items:
//
//	kind "reward":    "L:<lguard>" (outside the loop) and "C:<cguard>" (inside), in evaluation order
//	kind "gvalidate": "(<under From != ''>, <gvstep>)"
//	kind "ginit":     "(<under From != ''>, <istep>)"
type walker struct {
	kind    string
	items   []string
	module  string
	seen    map[string]bool // canonical names of seen-maps (reward)
	pending string          // seen-map tested by a duplicate guard, insertion not yet seen
	inLoop  bool
	guard   bool // the statements being walked run only when From != ""
	loops   int
}

func (w *walker) tag() string {
	if w.guard {
		return "(true, "
	}
	return "(false, "
}

func (w *walker) unknown(s string) {
	switch w.kind {
	case "reward":
		if w.inLoop {
			w.items = append(w.items, "C:GUnknown "+coqStr(s))
		} else {
			w.items = append(w.items, "L:LUnknown "+coqStr(s))
		}
	case "gvalidate":
		w.items = append(w.items, w.tag()+"GVUnknown "+coqStr(s)+")")
	case "ginit":
		w.items = append(w.items, w.tag()+"IUnknown "+coqStr(s)+")")
	}
}

func (w *walker) emit(s string) {
	if w.kind == "reward" {
		if strings.HasPrefix(s, "L") {
			w.items = append(w.items, "L:"+s)
		} else {
			w.items = append(w.items, "C:"+s)
		}
		return
	}
	w.items = append(w.items, w.tag()+s+")")
}

func isNilExpr(e *env, x ast.Expr) bool { return e.canon(x) == "nil" }

// the block rejects: a single `return <non-nil>` (validation functions) or a single panic(..) (InitGenesis)
func (w *walker) rejects(e *env, b *ast.BlockStmt) bool {
	if b == nil || len(b.List) != 1 {
		return false
	}
	if w.kind == "ginit" {
		es, ok := b.List[0].(*ast.ExprStmt)
		if !ok {
			return false
		}
		c, ok := es.X.(*ast.CallExpr)
		return ok && src(c.Fun) == "panic"
	}
	r, ok := b.List[0].(*ast.ReturnStmt)
	return ok && len(r.Results) == 1 && !isNilExpr(e, r.Results[0])
}

func isReturnOK(e *env, st ast.Stmt) bool {
	r, ok := st.(*ast.ReturnStmt)
	if !ok {
		return false
	}
	return len(r.Results) == 0 || (len(r.Results) == 1 && isNilExpr(e, r.Results[0]))
}

func fromCond(c string) (isEmpty, nonEmpty bool) {
	switch unq(c) {
	case "len($G.From) == 0", "$G.From == \"\"", "len($G.From) < 1", "\"\" == $G.From":
		return true, false
	case "len($G.From) != 0", "$G.From != \"\"", "len($G.From) > 0", "len($G.From) >= 1", "\"\" != $G.From":
		return false, true
	}
	return false, false
}

// the error value of this canonical call is tested: emit the step it stands for (or inline the helper)
func (w *walker) failing(e *env, v string) bool {
	switch w.kind {
	case "reward":
		if w.inLoop && v == "sdk.ValidateDenom($C.Denom)" {
			w.emit("GValidDenom")
			return true
		}
	case "gvalidate":
		switch v {
		case "$G.Params.validate()":
			w.emit("GVParams")
			return true
		case "$G.InitReward.Validate()":
			w.emit("GVInitCoins")
			return true
		case "sdk.AccAddressFromBech32($G.From)":
			w.emit("GVBech32")
			return true
		}
	case "ginit":
		if v == "sdk.AccAddressFromBech32($G.From)" {
			w.emit("IParseFrom")
			return true
		}
		const pre = "$K.bankKeeper.SendCoinsFromAccountToModule($ctx, $FROM, "
		if strings.HasPrefix(v, pre) && strings.HasSuffix(v, ", $G.InitReward)") {
			m := strings.TrimSuffix(strings.TrimPrefix(v, pre), ", $G.InitReward)")
			if m == "types.ModuleName" {
				w.emit("ISendToModule " + coqStr(w.module))
			} else {
				w.emit("ISendToModule " + coqStr("?"+m))
			}
			return true
		}
	}
	if pc := e.calls[v]; pc != nil {
		return w.inline(pc.e, pc.c)
	}
	return false
}

// inline walks the body of a helper / keeper method / closure called here
func (w *walker) inline(e *env, c *ast.CallExpr) bool {
	if e.depth >= 8 {
		return false
	}
	f, recv := e.callee(c)
	if f == nil {
		return false
	}
	if ex := w.stmts(e.bind(f, recv, e.canonArgs(c.Args)), f.body.List); ex == unknownFlow {
		w.unknown("control flow of " + src(c.Fun))
	}
	return true
}

// condition of a rejecting `if` / switch case
func (w *walker) cond(e *env, c ast.Expr) {
	switch b := c.(type) {
	case *ast.ParenExpr:
		w.cond(e, b.X)
		return
	case *ast.BinaryExpr:
		if b.Op == token.LOR {
			w.cond(e, b.X)
			w.cond(e, b.Y)
			return
		}
		if b.Op == token.NEQ && src(b.Y) == "nil" {
			if w.failing(e, e.canon(b.X)) {
				return
			}
		}
	}
	if w.kind == "reward" && w.inLoop && w.dupIdiom(e, c) {
		return
	}
	s := unq(e.canon(c))
	if w.kind == "reward" {
		if w.inLoop {
			switch s {
			case "len($C.Denom) == 0", "$C.Denom == \"\"", "\"\" == $C.Denom", "len($C.Denom) < 1":
				w.emit("GEmptyDenom")
				return
			case "$C.Amount.IsNil()":
				w.emit("GNilAmount")
				return
			case "$C.IsNegative()", "$C.Amount.IsNegative()", "$C.Amount.LT(sdk.ZeroInt())", "$C.Amount.Sign() < 0", "$C.Amount.Sign() == -1":
				w.emit("GNegative")
				return
			}
			for m := range w.seen {
				if s == m+"[$C.Denom]" {
					w.pending = m
					return
				}
			}
		} else {
			switch s {
			case "len($L) == 0", "$L.Empty()", "len($L) < 1":
				w.emit("LEmpty")
				return
			case "!$OK":
				w.emit("LTypeCoins")
				return
			}
		}
	}
	if w.kind == "gvalidate" && s == "!$G.InitReward.IsValid()" {
		w.emit("GVInitCoins")
		return
	}
	w.unknown("if " + s)
}

// binds the variables of `if <init>; cond`
func ifInit(e *env, s *ast.IfStmt) (*env, bool) {
	if s.Init == nil {
		return e, true
	}
	as, ok := s.Init.(*ast.AssignStmt)
	if !ok || len(as.Rhs) != 1 {
		return e, false
	}
	e2 := e.fork()
	switch len(as.Lhs) {
	case 1:
		e2.bindVar(src(as.Lhs[0]), as.Rhs[0])
	case 2:
		rhs := e.canon(as.Rhs[0])
		if _, isIdx := as.Rhs[0].(*ast.IndexExpr); isIdx { // _, dup := seen[k]: the presence bit
			e2.vars[src(as.Lhs[0])] = rhs
			e2.vars[src(as.Lhs[1])] = rhs
		} else { // _, err := f(x)
			e2.vars[src(as.Lhs[0])] = rhs + "#0"
			e2.bindVar(src(as.Lhs[1]), as.Rhs[0])
		}
	default:
		return e, false
	}
	return e2, true
}

func (w *walker) stmts(e *env, list []ast.Stmt) exit {
	saved := w.guard
	defer func() { w.guard = saved }()
	for i, st := range list {
		last := i == len(list)-1
		switch s := st.(type) {
		case *ast.EmptyStmt:
		case *ast.DeferStmt:
			if !isLogCall(e.canon(s.Call)) {
				w.unknown(src(s))
			}
		case *ast.DeclStmt:
			gd, ok := s.Decl.(*ast.GenDecl)
			if !ok || gd.Tok != token.VAR {
				w.unknown(src(s))
				continue
			}
			for _, sp := range gd.Specs {
				vs := sp.(*ast.ValueSpec)
				for j, n := range vs.Names {
					if j < len(vs.Values) {
						w.define(e, n.Name, vs.Values[j])
					} else if _, isMap := vs.Type.(*ast.MapType); isMap {
						w.seen["$SEEN_"+n.Name] = true
						e.vars[n.Name] = "$SEEN_" + n.Name
					} else if vs.Type != nil && w.emptySetOf(e, n.Name, vs.Type) {
					} else if !strings.HasPrefix(e.vars[n.Name], "mut:") {
						e.vars[n.Name] = "zero:" + src(vs.Type)
					}
				}
			}
		case *ast.AssignStmt:
			w.assignStmt(e, s)
		case *ast.ExprStmt:
			c, ok := s.X.(*ast.CallExpr)
			if !ok {
				w.unknown(src(s))
				continue
			}
			cs := e.canon(c)
			switch {
			case w.kind == "ginit" && (cs == "$K.SetParams($ctx, $G.Params)" || cs == "$K.paramSubspace.SetParamSet($ctx, $G.Params)"):
				w.emit("ISetParams")
			case isLogCall(cs):
			case w.inline(e, c):
			default:
				w.unknown(cs)
			}
		case *ast.IfStmt:
			if stop := w.ifStmt(e, s, list[i+1:]); stop != fallsThrough {
				return stop
			}
		case *ast.SwitchStmt:
			w.switchStmt(e, s)
		case *ast.TypeSwitchStmt:
			if ex := w.typeSwitch(e, s, last); ex != fallsThrough {
				return ex
			}
		case *ast.RangeStmt:
			w.rangeStmt(e, s)
		case *ast.ForStmt:
			w.forStmt(e, s)
		case *ast.ReturnStmt:
			if !last {
				w.unknown(src(s))
				return unknownFlow
			}
			if isReturnOK(e, s) {
				return returnsOK
			}
			if len(s.Results) == 1 {
				// `return f(x)`: the error of a validating call / a helper in tail position
				if c, ok := s.Results[0].(*ast.CallExpr); ok && w.kind != "ginit" {
					v := e.canon(c)
					e.calls[v] = &pcall{e.fork(), c}
					if w.failing(e, v) {
						return returnsOK
					}
				}
			}
			w.unknown(src(s))
			return unknownFlow
		case *ast.BlockStmt:
			if ex := w.stmts(e, s.List); ex != fallsThrough {
				if !last {
					w.unknown("return inside a block")
					return unknownFlow
				}
				return ex
			}
		default:
			w.unknown(src(st))
		}
	}
	return fallsThrough
}

func isLogCall(cs string) bool {
	return strings.HasPrefix(cs, "$ctx.Logger().") || strings.HasPrefix(cs, "$K.Logger($ctx).") || strings.HasPrefix(cs, "telemetry.")
}

// an empty collection of a named type of the package (a "set" the validator fills while it loops)
func (w *walker) emptySetOf(e *env, name string, typ ast.Expr) bool {
	id, ok := typ.(*ast.Ident)
	if !ok {
		return false
	}
	has := false
	for k := range e.methods {
		if strings.HasPrefix(k, id.Name+".") {
			has = true
		}
	}
	if !has || strings.HasPrefix(e.vars[name], "mut:") {
		return false
	}
	e.vars[name] = "$SET:" + id.Name + ":" + name
	return true
}

func (w *walker) define(e *env, name string, rhs ast.Expr) {
	switch r := rhs.(type) {
	case *ast.CallExpr:
		if src(r.Fun) == "make" && len(r.Args) >= 1 {
			if _, ok := r.Args[0].(*ast.MapType); ok {
				w.seen["$SEEN_"+name] = true
				e.vars[name] = "$SEEN_" + name
				return
			}
			if (len(r.Args) == 1 || src(r.Args[1]) == "0") && w.emptySetOf(e, name, r.Args[0]) {
				return
			}
		}
	case *ast.CompositeLit:
		if _, ok := r.Type.(*ast.MapType); ok && len(r.Elts) == 0 {
			w.seen["$SEEN_"+name] = true
			e.vars[name] = "$SEEN_" + name
			return
		}
		if len(r.Elts) == 0 && r.Type != nil && w.emptySetOf(e, name, r.Type) {
			return
		}
	}
	e.bindVar(name, rhs)
}

// f(entries, d) bool  that answers "does one of entries have denomination d":
//
//	for j := range entries { if entries[j].Denom == d { return true } }; return false      (or `for _, x := range entries`)
//
// returns the positions of the slice and of the denomination parameter
func membershipScan(f *fn) (int, int, bool) {
	if f == nil || len(f.params) != 2 || f.body == nil || len(f.body.List) != 2 {
		return 0, 0, false
	}
	r, ok := f.body.List[1].(*ast.ReturnStmt)
	if !ok || len(r.Results) != 1 || src(r.Results[0]) != "false" {
		return 0, 0, false
	}
	for si := 0; si < 2; si++ {
		di := 1 - si
		sl, d := f.params[si], f.params[di]
		e := newEnv(nil, nil, nil, "")
		e.vars[sl], e.vars[d] = "$S", "$D"
		var body []ast.Stmt
		switch l := f.body.List[0].(type) {
		case *ast.RangeStmt:
			if e.canon(l.X) != "$S" {
				continue
			}
			if l.Key != nil && src(l.Key) != "_" {
				e.vars[src(l.Key)] = "$J"
			}
			if l.Value != nil && src(l.Value) != "_" {
				e.vars[src(l.Value)] = "$P"
			}
			body = l.Body.List
		case *ast.ForStmt:
			init, ok1 := l.Init.(*ast.AssignStmt)
			post, ok2 := l.Post.(*ast.IncDecStmt)
			if !ok1 || !ok2 || len(init.Lhs) != 1 || len(init.Rhs) != 1 || src(init.Rhs[0]) != "0" || post.Tok != token.INC || l.Cond == nil {
				continue
			}
			iv := src(init.Lhs[0])
			if unq(e.canon(l.Cond)) != iv+" < len($S)" || src(post.X) != iv {
				continue
			}
			e.vars[iv] = "$J"
			body = l.Body.List
		default:
			continue
		}
		if len(body) != 1 {
			continue
		}
		is, ok := body[0].(*ast.IfStmt)
		if !ok || is.Init != nil || is.Else != nil || len(is.Body.List) != 1 {
			continue
		}
		rt, ok := is.Body.List[0].(*ast.ReturnStmt)
		if !ok || len(rt.Results) != 1 || src(rt.Results[0]) != "true" {
			continue
		}
		c := strings.ReplaceAll(unq(e.canon(is.Cond)), "$S[$J]", "$P")
		if c == "$P.Denom == $D" || c == "$D == $P.Denom" {
			return si, di, true
		}
	}
	return 0, 0, false
}

// a method `insert(d) bool` of a set type that adds d unless it is already a member and reports whether it was added:
// last statement `return true`, exactly one other return, `return false`, under a test that compares with d; d is stored
func insertIfAbsent(f *fn) bool {
	if f == nil || len(f.params) != 1 || f.body == nil || len(f.body.List) < 2 {
		return false
	}
	d := f.params[0]
	last, ok := f.body.List[len(f.body.List)-1].(*ast.ReturnStmt)
	if !ok || len(last.Results) != 1 || src(last.Results[0]) != "true" {
		return false
	}
	returns, falseUnderEq, stored := 0, false, false
	var visit func(n ast.Node, underEq bool)
	visit = func(n ast.Node, underEq bool) {
		ast.Inspect(n, func(m ast.Node) bool {
			switch x := m.(type) {
			case *ast.FuncLit:
				return false
			case *ast.IfStmt:
				eq := underEq
				ast.Inspect(x.Cond, func(c ast.Node) bool {
					if b, ok := c.(*ast.BinaryExpr); ok && b.Op == token.EQL && (src(b.X) == d || src(b.Y) == d) {
						eq = true
					}
					return true
				})
				if x.Init != nil {
					visit(x.Init, underEq)
				}
				visit(x.Body, eq)
				if x.Else != nil {
					visit(x.Else, underEq)
				}
				return false
			case *ast.ReturnStmt:
				returns++
				if len(x.Results) == 1 && src(x.Results[0]) == "false" && underEq {
					falseUnderEq = true
				}
			case *ast.AssignStmt:
				for _, r := range x.Rhs {
					if src(r) == d {
						stored = true
					}
				}
			case *ast.CallExpr:
				if src(x.Fun) == "append" {
					for _, a := range x.Args[1:] {
						if src(a) == d {
							stored = true
						}
					}
				}
			}
			return true
		})
	}
	visit(f.body, false)
	return returns == 2 && falseUnderEq && stored
}

// "was this denomination seen among the earlier entries", spelled through a helper:
//
//	hasDenom($L[:$I], $C.Denom)           a membership scan of the prefix
//	!set.insert($C.Denom)                 a set filled while looping (insert-if-absent reporting whether it inserted)
func (w *walker) dupIdiom(e *env, c ast.Expr) bool {
	neg := false
	for {
		if p, ok := c.(*ast.ParenExpr); ok {
			c = p.X
			continue
		}
		if u, ok := c.(*ast.UnaryExpr); ok && u.Op == token.NOT {
			neg = !neg
			c = u.X
			continue
		}
		break
	}
	if id, ok := c.(*ast.Ident); ok { // a variable holding the result of the call
		if pc := e.calls[e.vars[id.Name]]; pc != nil {
			e, c = pc.e, pc.c
		}
	}
	call, ok := c.(*ast.CallExpr)
	if !ok {
		return false
	}
	if !neg {
		if f, _ := e.callee(call); f != nil && len(call.Args) == 2 {
			if si, di, ok := membershipScan(f); ok {
				sl, d := e.canon(call.Args[si]), e.canon(call.Args[di])
				if (sl == "$L[:$I]" || sl == "$L[0:$I]") && d == "$C.Denom" {
					w.emit("GDuplicate")
					return true
				}
			}
		}
		return false
	}
	if sel, ok := call.Fun.(*ast.SelectorExpr); ok && len(call.Args) == 1 && e.canon(call.Args[0]) == "$C.Denom" {
		r := e.canon(sel.X)
		if strings.HasPrefix(r, "$SET:") {
			typ := strings.SplitN(r, ":", 3)[1]
			if insertIfAbsent(e.methods[typ+"."+sel.Sel.Name]) {
				w.emit("GDuplicate")
				return true
			}
		}
	}
	return false
}

func (w *walker) assignStmt(e *env, s *ast.AssignStmt) {
	if len(s.Rhs) == len(s.Lhs) && len(s.Rhs) > 1 && s.Tok == token.DEFINE {
		// a, b := x, y  (all right-hand sides are evaluated in the environment before the statement)
		vals := make([]ast.Expr, len(s.Rhs))
		copy(vals, s.Rhs)
		e0 := e.fork()
		for i, l := range s.Lhs {
			id, ok := l.(*ast.Ident)
			if !ok {
				w.unknown(src(s))
				return
			}
			if id.Name == "_" {
				continue
			}
			if strings.HasPrefix(e.vars[id.Name], "mut:") {
				continue
			}
			e.vars[id.Name] = e0.canon(vals[i])
			if c, ok := vals[i].(*ast.CallExpr); ok {
				e.calls[e.vars[id.Name]] = &pcall{e0, c}
			}
		}
		return
	}
	if len(s.Rhs) != 1 {
		w.unknown(src(s))
		return
	}
	// seen[$C.Denom] = ...   (the insertion that completes a duplicate guard)
	if len(s.Lhs) == 1 && s.Tok == token.ASSIGN {
		if ix, ok := s.Lhs[0].(*ast.IndexExpr); ok {
			if w.pending != "" && e.canon(ix) == w.pending+"[$C.Denom]" {
				w.emit("GDuplicate")
				w.pending = ""
				return
			}
			w.unknown(src(s))
			return
		}
	}
	switch len(s.Lhs) {
	case 1:
		id, ok := s.Lhs[0].(*ast.Ident)
		if !ok || (s.Tok != token.DEFINE && s.Tok != token.ASSIGN) {
			w.unknown(src(s))
			return
		}
		if s.Tok == token.ASSIGN && id.Name != "err" && id.Name != "_" {
			// a local that is re-assigned is never substituted (bind marks it mut:); its assignment is opaque
			w.unknown(src(s))
			return
		}
		w.define(e, id.Name, s.Rhs[0])
	case 2:
		a, b := src(s.Lhs[0]), src(s.Lhs[1])
		rhs := e.canon(s.Rhs[0])
		if ta, ok := s.Rhs[0].(*ast.TypeAssertExpr); ok && w.kind == "reward" && src(ta.Type) == "sdk.Coins" && e.canon(ta.X) == "$R" {
			e.vars[a], e.vars[b] = "$L", "$OK"
			return
		}
		if w.kind == "ginit" && (rhs == "sdk.AccAddressFromBech32($G.From)") {
			e.vars[a] = "$FROM"
			e.bindVar(b, s.Rhs[0])
			return
		}
		e.vars[a] = rhs + "#0"
		e.bindVar(b, s.Rhs[0])
	default:
		w.unknown(src(s))
	}
}

// ifStmt returns != fallsThrough when the rest of the list has been consumed
func (w *walker) ifStmt(e *env, s *ast.IfStmt, rest []ast.Stmt) exit {
	e2, ok := ifInit(e, s)
	if !ok {
		w.unknown(src(s))
		return fallsThrough
	}
	if w.kind == "gvalidate" || w.kind == "ginit" {
		isEmpty, nonEmpty := fromCond(e2.canon(s.Cond))
		if nonEmpty && s.Else == nil && !w.guard {
			w.guard = true
			ex := w.stmts(e2.fork(), s.Body.List)
			w.guard = false
			switch {
			case ex == unknownFlow:
				w.unknown("control flow under From != ''")
			case ex == returnsOK:
				// what follows runs only when From is empty: it must be nothing but `return nil`
				for _, r := range rest {
					if !isReturnOK(e, r) {
						w.unknown("statement after a returning From-guarded block: " + src(r))
					}
				}
				return returnsOK
			}
			return fallsThrough
		}
		if isEmpty && s.Else == nil && len(s.Body.List) == 1 && isReturnOK(e2, s.Body.List[0]) && !w.guard {
			// early return: the rest of this body runs only when From is not empty
			w.guard = true
			ex := w.stmts(e, rest)
			w.guard = false
			if ex == unknownFlow {
				return unknownFlow
			}
			return returnsOK
		}
	}
	if !w.rejects(e2, s.Body) {
		w.unknown(src(s))
		return fallsThrough
	}
	w.cond(e2, s.Cond)
	switch el := s.Else.(type) {
	case nil:
	case *ast.IfStmt: // if c { reject } else if d { reject }
		return w.ifStmt(e2, el, rest)
	case *ast.BlockStmt:
		if ex := w.stmts(e2, el.List); ex != fallsThrough {
			if len(rest) != 0 {
				w.unknown("return in an else branch")
				return unknownFlow
			}
			return ex
		}
	}
	return fallsThrough
}

func (w *walker) switchStmt(e *env, s *ast.SwitchStmt) {
	if s.Tag != nil || s.Init != nil {
		w.unknown(src(s))
		return
	}
	for _, cc := range s.Body.List {
		c := cc.(*ast.CaseClause)
		if c.List == nil { // default
			if len(c.Body) != 0 {
				w.unknown("switch default: " + src(c))
			}
			continue
		}
		if !w.rejects(e, &ast.BlockStmt{List: c.Body}) {
			w.unknown("switch case: " + src(c))
			continue
		}
		for _, x := range c.List {
			w.cond(e, x)
		}
	}
}

// switch v := r.(type) { case sdk.Coins: ...; default: reject }
func (w *walker) typeSwitch(e *env, s *ast.TypeSwitchStmt, last bool) exit {
	if w.kind != "reward" || w.inLoop {
		w.unknown(src(s))
		return fallsThrough
	}
	bind := ""
	var subj ast.Expr
	switch a := s.Assign.(type) {
	case *ast.AssignStmt:
		if len(a.Lhs) == 1 && len(a.Rhs) == 1 {
			bind = src(a.Lhs[0])
			if ta, ok := a.Rhs[0].(*ast.TypeAssertExpr); ok {
				subj = ta.X
			}
		}
	case *ast.ExprStmt:
		if ta, ok := a.X.(*ast.TypeAssertExpr); ok {
			subj = ta.X
		}
	}
	if subj == nil || e.canon(subj) != "$R" {
		w.unknown(src(s))
		return fallsThrough
	}
	var coins *ast.CaseClause
	ok := true
	hasDefault := false
	for _, cc := range s.Body.List {
		c := cc.(*ast.CaseClause)
		if len(c.List) == 1 && src(c.List[0]) == "sdk.Coins" {
			coins = c
			continue
		}
		if c.List == nil {
			hasDefault = true
		}
		if !w.rejects(e, &ast.BlockStmt{List: c.Body}) {
			ok = false
		}
	}
	if coins == nil || !ok || !hasDefault {
		w.unknown(src(s))
		return fallsThrough
	}
	w.emit("LTypeCoins")
	e2 := e.fork()
	if bind != "" {
		e2.vars[bind] = "$L"
	}
	ex := w.stmts(e2, coins.Body)
	if ex == fallsThrough && !last {
		// the statements after the switch do not know the typed list: only a bound variable carries it
		w.unknown("statements after the type switch")
	}
	return ex
}

func (w *walker) coinLoop(e *env, body []ast.Stmt) {
	if w.loops > 0 {
		w.unknown("second loop over the reward list")
		return
	}
	w.loops++
	w.inLoop = true
	if ex := w.stmts(e, body); ex != fallsThrough {
		w.unknown("return inside the loop")
	}
	if w.pending != "" {
		w.unknown("duplicate test without insertion into " + w.pending)
		w.pending = ""
	}
	w.inLoop = false
}

func (w *walker) rangeStmt(e *env, s *ast.RangeStmt) {
	x := e.canon(s.X)
	if w.kind == "reward" && !w.inLoop && x == "$L" {
		e2 := e.fork()
		if s.Key != nil && src(s.Key) != "_" {
			e2.vars[src(s.Key)] = "$I"
		}
		if s.Value != nil && src(s.Value) != "_" {
			e2.vars[src(s.Value)] = "$C"
		}
		w.coinLoop(e2, s.Body.List)
		return
	}
	// scan of the earlier entries: for _, p := range $L[:$I] { if p.Denom == $C.Denom { reject } }
	if w.kind == "reward" && w.inLoop && (x == "$L[:$I]" || x == "$L[0:$I]") && len(s.Body.List) == 1 {
		val, key := "", ""
		if s.Value != nil {
			val = src(s.Value)
		}
		if s.Key != nil && src(s.Key) != "_" {
			key = src(s.Key)
		}
		if w.prefixScan(e, s.Body.List[0], val, key) {
			return
		}
	}
	w.unknown("loop over " + x)
}

func (w *walker) prefixScan(e *env, st ast.Stmt, valueVar, indexVar string) bool {
	is, ok := st.(*ast.IfStmt)
	if !ok || is.Init != nil || is.Else != nil || !w.rejects(e, is.Body) {
		return false
	}
	e2 := e.fork()
	if valueVar != "" && valueVar != "_" {
		e2.vars[valueVar] = "$P"
	}
	if indexVar != "" {
		e2.vars[indexVar] = "$J"
	}
	c := strings.ReplaceAll(unq(e2.canon(is.Cond)), "$L[$J]", "$P")
	if c == "$P.Denom == $C.Denom" || c == "$C.Denom == $P.Denom" {
		w.emit("GDuplicate")
		return true
	}
	return false
}

func (w *walker) forStmt(e *env, s *ast.ForStmt) {
	init, okI := s.Init.(*ast.AssignStmt)
	post, okP := s.Post.(*ast.IncDecStmt)
	if w.kind != "reward" || !okI || !okP || len(init.Lhs) != 1 || len(init.Rhs) != 1 || src(init.Rhs[0]) != "0" ||
		post.Tok != token.INC || src(post.X) != src(init.Lhs[0]) || s.Cond == nil {
		w.unknown("for loop")
		return
	}
	iv := src(init.Lhs[0])
	e2 := e.fork()
	delete(e2.vars, iv)
	cond := unq(e2.canon(s.Cond))
	switch {
	case !w.inLoop && cond == iv+" < len($L)":
		e2.vars[iv] = "$I"
		w.coinLoop(e2, s.Body.List)
	case w.inLoop && cond == iv+" < $I" && len(s.Body.List) == 1 && w.prefixScan(e2, s.Body.List[0], "", iv):
	default:
		w.unknown("for loop " + cond)
	}
}

// ---------------------------------------------------------------- entry points of the walker

func topEnv(f *fn, funcs, kfuncs, methods map[string]*fn, recvT string, recvCanon string, bind map[int]string) *env {
	e := newEnv(funcs, kfuncs, methods, recvT)
	args := make([]string, len(f.params))
	for i := range args {
		args[i] = f.params[i]
		if s, ok := bind[i]; ok {
			args[i] = s
		}
	}
	c := e.bind(f, recvCanon, args)
	c.depth = 0
	return c
}

func rewardGuards(typesFiles []*ast.File, validator string) (lg, cg []string) {
	funcs, methods := tables(typesFiles)
	f := funcs[validator]
	if f == nil || len(f.params) != 1 {
		return []string{"LUnknown " + coqStr(validator+" not found")}, nil
	}
	w := &walker{kind: "reward", seen: map[string]bool{}}
	e := topEnv(f, funcs, nil, methods, "", "", map[int]string{0: "$R"})
	if ex := w.stmts(e, f.body.List); ex == unknownFlow {
		w.unknown("control flow of " + validator)
	}
	if w.loops == 0 {
		w.unknown("no loop over the reward list")
	}
	for _, it := range w.items {
		if strings.HasPrefix(it, "L:") {
			lg = append(lg, it[2:])
		} else {
			cg = append(cg, it[2:])
		}
	}
	return
}

func validateGenesisSteps(typesFiles []*ast.File) []string {
	funcs, methods := tables(typesFiles)
	f := funcs["ValidateGenesis"]
	if f == nil || len(f.params) != 1 {
		return []string{"(false, GVUnknown " + coqStr("ValidateGenesis not found") + ")"}
	}
	w := &walker{kind: "gvalidate", seen: map[string]bool{}}
	e := topEnv(f, funcs, nil, methods, "", "", map[int]string{0: "$G"})
	if ex := w.stmts(e, f.body.List); ex == unknownFlow {
		w.unknown("control flow of ValidateGenesis")
	}
	return w.items
}

func initGenesisSteps(keeperFiles []*ast.File, module string) []string {
	funcs, methods := tables(keeperFiles)
	f := methods["Keeper.InitGenesis"]
	if f == nil || len(f.params) != 2 {
		return []string{"(false, IUnknown " + coqStr("InitGenesis not found") + ")"}
	}
	w := &walker{kind: "ginit", seen: map[string]bool{}, module: module}
	e := topEnv(f, funcs, funcs, methods, "Keeper", "$K", map[int]string{0: "$ctx", 1: "$G"})
	if ex := w.stmts(e, f.body.List); ex == unknownFlow {
		w.unknown("control flow of InitGenesis")
	}
	return w.items
}

// ExportGenesis: locals substituted, the returned expression must be types.NewGenesisState($K.GetParams($ctx)) and
// NewGenesisState(p) must be {Params: p, From: "", InitReward: empty}
func exportShape(keeperFiles, typesFiles []*ast.File) string {
	funcs, methods := tables(keeperFiles)
	f := methods["Keeper.ExportGenesis"]
	if f == nil || len(f.params) != 1 {
		return "EUnknown"
	}
	e := topEnv(f, funcs, funcs, methods, "Keeper", "$K", map[int]string{0: "$ctx"})
	ret := ""
	for i, st := range f.body.List {
		switch s := st.(type) {
		case *ast.AssignStmt:
			if len(s.Lhs) != 1 || len(s.Rhs) != 1 || s.Tok != token.DEFINE {
				return "EUnknown"
			}
			e.bindVar(src(s.Lhs[0]), s.Rhs[0])
		case *ast.DeclStmt:
			return "EUnknown"
		case *ast.ReturnStmt:
			if i != len(f.body.List)-1 || len(s.Results) != 1 {
				return "EUnknown"
			}
			ret = e.canon(s.Results[0])
		default:
			return "EUnknown"
		}
	}
	if ret != "types.NewGenesisState($K.GetParams($ctx))" {
		return "EUnknown"
	}
	tfuncs, _ := tables(typesFiles)
	ng := tfuncs["NewGenesisState"]
	if ng == nil || len(ng.params) != 1 {
		return "EUnknown"
	}
	lit := returnedLiteral(ng.body, "GenesisState")
	if lit == nil || src(lit["Params"]) != ng.params[0] {
		return "EUnknown"
	}
	if fr, has := lit["From"]; has && src(fr) != `""` {
		return "EUnknown"
	}
	if ir, has := lit["InitReward"]; has && src(ir) != "nil" {
		ec := &evalCtx{}
		if cs, ok := ec.evalCoins(ir); !(ok && len(cs) == 0) {
			return "EUnknown"
		}
	}
	return "EParamsOnly"
}

// ---------------------------------------------------------------- bank calls reachable from BeginBlocker

type collector struct {
	calls []string // canonical bank calls, in traversal order
	depth int
}

func (c *collector) exprs(e *env, xs ...ast.Expr) {
	for _, x := range xs {
		if x == nil {
			continue
		}
		ast.Inspect(x, func(n ast.Node) bool {
			if _, isLit := n.(*ast.FuncLit); isLit {
				return false
			}
			call, ok := n.(*ast.CallExpr)
			if !ok {
				return true
			}
			if f, recv := e.callee(call); f != nil && e.depth < 8 {
				for _, a := range call.Args {
					c.exprs(e, a)
				}
				c.stmts(e.bind(f, recv, e.canonArgs(call.Args)), f.body.List)
				return false
			}
			cs := e.canon(call)
			if strings.HasPrefix(cs, "$K.bankKeeper.") {
				c.calls = append(c.calls, cs)
			}
			return true
		})
	}
}

func (c *collector) stmts(e *env, list []ast.Stmt) {
	for _, st := range list {
		switch s := st.(type) {
		case *ast.AssignStmt:
			c.exprs(e, s.Rhs...)
			if len(s.Rhs) == 1 {
				for i, l := range s.Lhs {
					if id, ok := l.(*ast.Ident); ok && (s.Tok == token.DEFINE || id.Name == "err") {
						if i == 0 && len(s.Lhs) == 1 {
							e.bindVar(id.Name, s.Rhs[0])
						} else if !strings.HasPrefix(e.vars[id.Name], "mut:") {
							e.vars[id.Name] = e.canon(s.Rhs[0]) + "#" + strconv.Itoa(i)
						}
					}
				}
			}
		case *ast.DeclStmt:
			if gd, ok := s.Decl.(*ast.GenDecl); ok {
				for _, sp := range gd.Specs {
					if vs, ok := sp.(*ast.ValueSpec); ok {
						c.exprs(e, vs.Values...)
						for j, n := range vs.Names {
							if j < len(vs.Values) {
								e.bindVar(n.Name, vs.Values[j])
							}
						}
					}
				}
			}
		case *ast.ExprStmt:
			c.exprs(e, s.X)
		case *ast.ReturnStmt:
			c.exprs(e, s.Results...)
		case *ast.DeferStmt:
			c.exprs(e, s.Call)
		case *ast.GoStmt:
			c.exprs(e, s.Call)
		case *ast.IfStmt:
			e2 := e.fork()
			if s.Init != nil {
				c.stmts(e2, []ast.Stmt{s.Init})
			}
			c.exprs(e2, s.Cond)
			c.stmts(e2.fork(), s.Body.List)
			if s.Else != nil {
				c.stmts(e2.fork(), []ast.Stmt{s.Else})
			}
		case *ast.BlockStmt:
			c.stmts(e.fork(), s.List)
		case *ast.ForStmt:
			e2 := e.fork()
			if s.Init != nil {
				c.stmts(e2, []ast.Stmt{s.Init})
			}
			c.exprs(e2, s.Cond)
			c.stmts(e2, s.Body.List)
		case *ast.RangeStmt:
			e2 := e.fork()
			c.exprs(e2, s.X)
			if s.Value != nil && src(s.Value) != "_" {
				e2.vars[src(s.Value)] = "$E"
			}
			if s.Key != nil && src(s.Key) != "_" {
				e2.vars[src(s.Key)] = "$EI"
			}
			c.stmts(e2, s.Body.List)
		case *ast.SwitchStmt:
			e2 := e.fork()
			if s.Init != nil {
				c.stmts(e2, []ast.Stmt{s.Init})
			}
			c.exprs(e2, s.Tag)
			for _, cc := range s.Body.List {
				cl := cc.(*ast.CaseClause)
				c.exprs(e2, cl.List...)
				c.stmts(e2.fork(), cl.Body)
			}
		case *ast.TypeSwitchStmt:
			for _, cc := range s.Body.List {
				c.stmts(e.fork(), cc.(*ast.CaseClause).Body)
			}
		}
	}
}

// splits "f(a, b(c, d), e)" arguments at top level
func splitArgs(call string) (fun string, args []string) {
	i := strings.Index(call, "(")
	if i < 0 || !strings.HasSuffix(call, ")") {
		return call, nil
	}
	fun = call[:i]
	body := call[i+1 : len(call)-1]
	depth, start := 0, 0
	for j, ch := range body {
		switch ch {
		case '(', '[', '{':
			depth++
		case ')', ']', '}':
			depth--
		case ',':
			if depth == 0 {
				args = append(args, strings.TrimSpace(body[start:j]))
				start = j + 1
			}
		}
	}
	if strings.TrimSpace(body[start:]) != "" {
		args = append(args, strings.TrimSpace(body[start:]))
	}
	return
}

type wiring struct {
	sender, recipField, remaining string
	bankMethods                   []string
	feeParamIdx                   int
}

func beginBlockWiring(moduleFiles, keeperFiles []*ast.File, moduleName string) wiring {
	w := wiring{sender: "?", recipField: "?", remaining: "?", feeParamIdx: -1}
	mfuncs, _ := tables(moduleFiles)
	kfuncs, kmethods := tables(keeperFiles)
	bb := mfuncs["BeginBlocker"]
	if bb == nil {
		return w
	}
	bind := map[int]string{}
	for i, t := range bb.ptypes {
		if t == "keeper.Keeper" || t == "*keeper.Keeper" {
			bind[i] = "$K"
		}
	}
	e := topEnv(bb, mfuncs, kfuncs, kmethods, "Keeper", "", bind)
	col := &collector{}
	col.stmts(e, bb.body.List)
	seenM := map[string]bool{}
	senders, recips, reads := map[string]bool{}, map[string]bool{}, map[string]bool{}
	for _, cs := range col.calls {
		fun, args := splitArgs(cs)
		m := strings.TrimPrefix(fun, "$K.bankKeeper.")
		if !seenM[m] {
			seenM[m] = true
			w.bankMethods = append(w.bankMethods, m)
		}
		switch {
		case m == "SendCoinsFromModuleToModule" && len(args) == 4:
			senders[args[1]] = true
			recips[args[2]] = true
		case m == "GetBalance" && len(args) == 3, m == "GetAllBalances" && len(args) == 2, m == "SpendableCoins" && len(args) == 2:
			reads[args[1]] = true
		case strings.HasPrefix(m, "Get") || strings.HasPrefix(m, "Has") || strings.HasPrefix(m, "Iterate"):
		default: // any other way of moving coins
			senders["?"+m] = true
			recips["?"+m] = true
		}
	}
	one := func(m map[string]bool) string {
		if len(m) != 1 {
			var ks []string
			for k := range m {
				ks = append(ks, k)
			}
			sort.Strings(ks)
			return "?" + strings.Join(ks, "|")
		}
		for k := range m {
			return k
		}
		return "?"
	}
	if s := one(senders); s == "types.ModuleName" {
		w.sender = moduleName
	} else {
		w.sender = "?" + strings.TrimPrefix(s, "?")
	}
	if r := one(recips); strings.HasPrefix(r, "$K.") && !strings.Contains(r[3:], ".") && !strings.Contains(r, "(") {
		w.recipField = r[3:]
	} else {
		w.recipField = "?" + strings.TrimPrefix(r, "?")
	}
	if r := one(reads); r == "$K.accountKeeper.GetModuleAddress(types.ModuleName)" {
		w.remaining = moduleName
	} else {
		w.remaining = "?" + strings.TrimPrefix(r, "?")
	}
	// which NewKeeper parameter becomes the recipient field
	if nk := kfuncs["NewKeeper"]; nk != nil {
		ast.Inspect(nk.body, func(n ast.Node) bool {
			var val ast.Expr
			switch x := n.(type) {
			case *ast.KeyValueExpr:
				if src(x.Key) == w.recipField {
					val = x.Value
				}
			case *ast.AssignStmt:
				if len(x.Lhs) == 1 && len(x.Rhs) == 1 && strings.HasSuffix(src(x.Lhs[0]), "."+w.recipField) {
					val = x.Rhs[0]
				}
			}
			if val != nil {
				for i, p := range nk.params {
					if p == src(val) {
						w.feeParamIdx = i
					}
				}
			}
			return true
		})
	}
	return w
}

// ---------------------------------------------------------------- reused helpers

func funcDecl(f *ast.File, recv, name string) *ast.FuncDecl {
	for _, d := range f.Decls {
		fd, ok := d.(*ast.FuncDecl)
		if !ok || fd.Name.Name != name {
			continue
		}
		if recv == "" {
			if fd.Recv == nil {
				return fd
			}
			continue
		}
		if fd.Recv == nil || len(fd.Recv.List) != 1 {
			continue
		}
		t := fd.Recv.List[0].Type
		if s, ok := t.(*ast.StarExpr); ok {
			t = s.X
		}
		if id, ok := t.(*ast.Ident); ok && id.Name == recv {
			return fd
		}
	}
	return nil
}

func isNilReturn(s ast.Stmt) bool {
	r, ok := s.(*ast.ReturnStmt)
	return ok && len(r.Results) == 1 && src(r.Results[0]) == "nil"
}

// block consists of a single return of a non-nil value (a rejection)
func rejects(b *ast.BlockStmt) bool {
	if b == nil || len(b.List) != 1 {
		return false
	}
	r, ok := b.List[0].(*ast.ReturnStmt)
	return ok && len(r.Results) == 1 && src(r.Results[0]) != "nil"
}

// ---------------------------------------------------------------- ParamSetPairs, Params.validate, DefaultParams

func fieldTypes(repo string) map[string]string {
	f := parse(repo, "x/rvesting/types/genesis.pb.go")
	m := map[string]string{}
	if f == nil {
		return m
	}
	for _, d := range f.Decls {
		gd, ok := d.(*ast.GenDecl)
		if !ok || gd.Tok != token.TYPE {
			continue
		}
		for _, sp := range gd.Specs {
			ts := sp.(*ast.TypeSpec)
			st, ok := ts.Type.(*ast.StructType)
			if !ok || ts.Name.Name != "Params" {
				continue
			}
			for _, fl := range st.Fields.List {
				for _, n := range fl.Names {
					m[n.Name] = src(fl.Type)
				}
			}
		}
	}
	return m
}

func coqType(goType string) string {
	switch goType {
	case "bool":
		return "TBool"
	case "github_com_cosmos_cosmos_sdk_types.Coins", "sdk.Coins", "types.Coins":
		return "TCoins"
	}
	return "TOtherType " + coqStr(goType)
}

var rewardValidator = "validatePerBlockReward"

func paramPairs(f *ast.File, consts map[string]string, ftypes map[string]string) []string {
	if f == nil {
		return nil
	}
	fd := funcDecl(f, "Params", "ParamSetPairs")
	var out []string
	if fd == nil || fd.Body == nil {
		return []string{fmt.Sprintf("{| pp_key := %s; pp_field := []; pp_type := TOtherType []; pp_validator := VOther [] |}", coqStr("ParamSetPairs not found"))}
	}
	recv := ""
	if len(fd.Recv.List[0].Names) == 1 {
		recv = fd.Recv.List[0].Names[0].Name
	}
	ast.Inspect(fd.Body, func(n ast.Node) bool {
		c, ok := n.(*ast.CallExpr)
		if !ok || !strings.HasSuffix(src(c.Fun), "NewParamSetPair") || len(c.Args) != 3 {
			return true
		}
		key := src(c.Args[0])
		if v, ok := consts[key]; ok {
			key = v
		} else {
			key = "?" + key
		}
		field := strings.TrimPrefix(src(c.Args[1]), "&"+recv+".")
		val := ""
		switch v := c.Args[2].(type) {
		case *ast.Ident:
			if coqType(ftypes[field]) == "TCoins" {
				val = "VRewards"
				rewardValidator = v.Name
			} else if fd := funcDecl(f, "", v.Name); fd != nil && fd.Body != nil && len(fd.Body.List) == 1 && isNilReturn(fd.Body.List[0]) {
				val = "VAcceptAll"
			} else {
				val = "VOther " + coqStr(v.Name)
			}
		case *ast.FuncLit:
			if len(v.Body.List) == 1 && isNilReturn(v.Body.List[0]) {
				val = "VAcceptAll"
			} else {
				val = "VOther " + coqStr(src(v.Body))
			}
		default:
			val = "VOther " + coqStr(src(v))
		}
		out = append(out, fmt.Sprintf("{| pp_key := %s;\n      pp_field := %s;\n      pp_type := %s; pp_validator := %s |}",
			coqStr(key), coqStr(field), coqType(ftypes[field]), val))
		return false
	})
	return out
}

func validateShape(f *ast.File) string {
	if f == nil {
		return "PVUnknown"
	}
	fd := funcDecl(f, "Params", "validate")
	if fd == nil || fd.Body == nil || len(fd.Recv.List[0].Names) != 1 {
		return "PVUnknown"
	}
	m := fd.Recv.List[0].Names[0].Name
	call := rewardValidator + "(" + m + ".PerBlockReward)"
	isCall := func(s ast.Stmt) bool { // return v(m.PerBlockReward)
		r, ok := s.(*ast.ReturnStmt)
		return ok && len(r.Results) == 1 && src(r.Results[0]) == call
	}
	errIf := func(s ast.Stmt) bool { // if err := v(..); err != nil { return err }
		is, ok := s.(*ast.IfStmt)
		return ok && is.Else == nil && src(is.Init) == "err := "+call && src(is.Cond) == "err != nil" && len(is.Body.List) == 1 && !isNilReturn(is.Body.List[0])
	}
	l := fd.Body.List
	switch {
	case len(l) == 1 && isCall(l[0]):
		return "PVAlways"
	case len(l) == 2 && errIf(l[0]) && isNilReturn(l[1]):
		return "PVAlways"
	case len(l) == 2 && isNilReturn(l[1]):
		if s, ok := l[0].(*ast.IfStmt); ok && s.Init == nil && s.Else == nil && src(s.Cond) == m+".EnableVesting" && len(s.Body.List) == 1 && isCall(s.Body.List[0]) {
			return "PVIfEnabled"
		}
	case len(l) == 2 && isCall(l[1]):
		if s, ok := l[0].(*ast.IfStmt); ok && s.Init == nil && s.Else == nil && src(s.Cond) == "!"+m+".EnableVesting" && len(s.Body.List) == 1 && isNilReturn(s.Body.List[0]) {
			return "PVIfEnabled"
		}
	}
	return "PVUnknown"
}

type evalCtx struct {
	repoTypes map[string]string // string constants of /repo/types
	teleFns   map[string]*ast.FuncDecl
}

// evaluates an sdk.Int expression
func (e *evalCtx) evalInt(x ast.Expr) (*big.Int, bool) {
	switch v := x.(type) {
	case *ast.BasicLit:
		if v.Kind == token.INT {
			n, ok := new(big.Int).SetString(v.Value, 0)
			return n, ok
		}
	case *ast.CallExpr:
		fn := src(v.Fun)
		switch fn {
		case "sdk.NewInt", "sdk.NewIntFromUint64", "int64", "uint64":
			if len(v.Args) == 1 {
				return e.evalInt(v.Args[0])
			}
		case "sdk.NewIntWithDecimal":
			if len(v.Args) == 2 {
				a, ok1 := e.evalInt(v.Args[0])
				b, ok2 := e.evalInt(v.Args[1])
				if ok1 && ok2 && b.IsInt64() && b.Int64() >= 0 && b.Int64() < 200 {
					return new(big.Int).Mul(a, new(big.Int).Exp(big.NewInt(10), b, nil)), true
				}
			}
		case "sdk.ZeroInt":
			return big.NewInt(0), true
		case "sdk.OneInt":
			return big.NewInt(1), true
		}
	}
	return nil, false
}

type coin struct {
	denom string
	amt   *big.Int
}

func (e *evalCtx) evalDenom(x ast.Expr, local map[string]string) (string, bool) {
	switch v := x.(type) {
	case *ast.BasicLit:
		if v.Kind == token.STRING {
			s, err := strconv.Unquote(v.Value)
			return s, err == nil
		}
	case *ast.Ident:
		if s, ok := local[v.Name]; ok {
			return s, true
		}
	case *ast.SelectorExpr:
		if src(v.X) == "types" {
			s, ok := e.repoTypes[v.Sel.Name]
			return s, ok
		}
	}
	return "", false
}

func (e *evalCtx) evalCoin(x ast.Expr) (coin, bool) {
	c, ok := x.(*ast.CallExpr)
	if !ok {
		return coin{}, false
	}
	fn := src(c.Fun)
	switch {
	case (fn == "sdk.NewCoin" || fn == "sdk.NewInt64Coin") && len(c.Args) == 2:
		d, ok1 := e.evalDenom(c.Args[0], nil)
		a, ok2 := e.evalInt(c.Args[1])
		return coin{d, a}, ok1 && ok2
	case strings.HasPrefix(fn, "types.") && len(c.Args) == 1:
		// helper of /repo/types: func F(amount T) sdk.Coin { return sdk.NewCoin(<Denom>, amount) }
		fd := e.teleFns[strings.TrimPrefix(fn, "types.")]
		if fd == nil || fd.Body == nil || len(fd.Body.List) != 1 || len(fd.Type.Params.List) != 1 || len(fd.Type.Params.List[0].Names) != 1 {
			return coin{}, false
		}
		p := fd.Type.Params.List[0].Names[0].Name
		r, ok := fd.Body.List[0].(*ast.ReturnStmt)
		if !ok || len(r.Results) != 1 {
			return coin{}, false
		}
		rc, ok := r.Results[0].(*ast.CallExpr)
		if !ok || len(rc.Args) != 2 || src(rc.Args[1]) != p || (src(rc.Fun) != "sdk.NewCoin" && src(rc.Fun) != "sdk.NewInt64Coin") {
			return coin{}, false
		}
		d, ok1 := e.evalDenom(rc.Args[0], e.repoTypes)
		a, ok2 := e.evalInt(c.Args[0])
		return coin{d, a}, ok1 && ok2
	}
	return coin{}, false
}

// evaluates an sdk.Coins expression: sdk.NewCoins(c...) | sdk.Coins{c...}; ok=false when not understood
func (e *evalCtx) evalCoins(x ast.Expr) ([]coin, bool) {
	var args []ast.Expr
	switch v := x.(type) {
	case *ast.CallExpr:
		if src(v.Fun) != "sdk.NewCoins" {
			return nil, false
		}
		args = v.Args
	case *ast.CompositeLit:
		if src(v.Type) != "sdk.Coins" {
			return nil, false
		}
		args = v.Elts
	default:
		return nil, false
	}
	var out []coin
	for _, a := range args {
		c, ok := e.evalCoin(a)
		if !ok {
			return nil, false
		}
		out = append(out, c)
	}
	return out, true
}

func coqCoins(cs []coin) string {
	var items []string
	for _, c := range cs {
		items = append(items, fmt.Sprintf("(%s, %s%%Z)", coqStr(c.denom), c.amt.String()))
	}
	if len(items) == 0 {
		return "[]"
	}
	return "[" + strings.Join(items, "; ") + "]"
}

// fields of the composite literal a body returns: name -> expression
func returnedLiteral(body *ast.BlockStmt, typ string) map[string]ast.Expr {
	if body == nil || len(body.List) != 1 {
		return nil
	}
	r, ok := body.List[0].(*ast.ReturnStmt)
	if !ok || len(r.Results) != 1 {
		return nil
	}
	x := r.Results[0]
	if u, ok := x.(*ast.UnaryExpr); ok && u.Op == token.AND {
		x = u.X
	}
	cl, ok := x.(*ast.CompositeLit)
	if !ok || src(cl.Type) != typ {
		return nil
	}
	m := map[string]ast.Expr{}
	for _, el := range cl.Elts {
		kv, ok := el.(*ast.KeyValueExpr)
		if !ok {
			return nil
		}
		m[src(kv.Key)] = kv.Value
	}
	return m
}

func interfaceMethods(f *ast.File, name string) []string {
	var out []string
	if f == nil {
		return []string{"?missing file"}
	}
	for _, d := range f.Decls {
		gd, ok := d.(*ast.GenDecl)
		if !ok || gd.Tok != token.TYPE {
			continue
		}
		for _, sp := range gd.Specs {
			ts := sp.(*ast.TypeSpec)
			it, ok := ts.Type.(*ast.InterfaceType)
			if !ok || ts.Name.Name != name {
				continue
			}
			for _, m := range it.Methods.List {
				if len(m.Names) == 0 { // embedded interface
					out = append(out, "embedded:"+src(m.Type))
				}
				for _, n := range m.Names {
					out = append(out, n.Name)
				}
			}
		}
	}
	return out
}

func mapLiteral(f *ast.File, name string) *ast.CompositeLit {
	var found *ast.CompositeLit
	if f == nil {
		return nil
	}
	ast.Inspect(f, func(n ast.Node) bool {
		vs, ok := n.(*ast.ValueSpec)
		if !ok {
			return true
		}
		for i, nm := range vs.Names {
			if nm.Name == name && i < len(vs.Values) {
				if cl, ok := vs.Values[i].(*ast.CompositeLit); ok {
					found = cl
				}
			}
		}
		return true
	})
	return found
}

func callArgs(f *ast.File, suffix string) [][]ast.Expr {
	var out [][]ast.Expr
	if f == nil {
		return nil
	}
	ast.Inspect(f, func(n ast.Node) bool {
		c, ok := n.(*ast.CallExpr)
		if ok && strings.HasSuffix(src(c.Fun), suffix) {
			out = append(out, c.Args)
		}
		return true
	})
	return out
}

// ---------------------------------------------------------------- main

func bodyOf(f *ast.File, name string) *ast.BlockStmt {
	if f == nil {
		return nil
	}
	if fd := funcDecl(f, "", name); fd != nil {
		return fd.Body
	}
	return nil
}

func main() {
	repo := flag.String("repo", "/repo", "source tree")
	out := flag.String("out", "", "output directory (coq/theories/Gen)")
	flag.Parse()
	if *out == "" {
		fmt.Fprintln(os.Stderr, "rvesting: -out required")
		os.Exit(1)
	}
	defer func() {
		// never fail because of the source: whatever went wrong, the previous Gen file (if any) stays and the
		// obligations of C20 decide
		if r := recover(); r != nil {
			fmt.Fprintf(os.Stderr, "rvesting: internal error %v (Gen file left as it was)\n", r)
		}
	}()

	keysF := parse(*repo, "x/rvesting/types/keys.go")
	paramF := parse(*repo, "x/rvesting/types/param.go")
	genF := parse(*repo, "x/rvesting/types/genesis.go")
	expF := parse(*repo, "x/rvesting/types/expected_keeper.go")
	appF := parse(*repo, "app/app.go")
	coinF := parse(*repo, "types/coin.go")
	typesFiles := parseDir(*repo, "x/rvesting/types")
	keeperFiles := parseDir(*repo, "x/rvesting/keeper")
	moduleFiles := parseDir(*repo, "x/rvesting/module")

	moduleName, ok := stringConsts(keysF)["ModuleName"]
	if !ok {
		for _, f := range typesFiles {
			if s, ok2 := stringConsts(f)["ModuleName"]; ok2 {
				moduleName, ok = s, true
			}
		}
	}
	if !ok {
		moduleName = "?ModuleName"
	}
	pconsts := map[string]string{}
	for _, f := range typesFiles {
		for k, v := range stringConsts(f) {
			pconsts[k] = v
		}
	}
	ftypes := fieldTypes(*repo)

	pairs := paramPairs(paramF, pconsts, ftypes) // also finds the reward validator's name
	lg, cg := rewardGuards(typesFiles, rewardValidator)
	shape := validateShape(paramF)

	ectx := &evalCtx{repoTypes: stringConsts(coinF), teleFns: map[string]*ast.FuncDecl{}}
	if coinF != nil {
		for _, d := range coinF.Decls {
			if fd, ok := d.(*ast.FuncDecl); ok && fd.Recv == nil {
				ectx.teleFns[fd.Name.Name] = fd
			}
		}
	}
	defEnable, defRewards, defKnown := "false", "[]", "false"
	if lit := returnedLiteral(bodyOf(paramF, "DefaultParams"), "Params"); lit != nil {
		en := src(lit["EnableVesting"])
		cs, ok := ectx.evalCoins(lit["PerBlockReward"])
		if (en == "true" || en == "false" || en == "") && ok {
			if en == "" {
				en = "false"
			}
			defEnable, defRewards, defKnown = en, coqCoins(cs), "true"
		}
	}
	defGenesisPlain := "false"
	if lit := returnedLiteral(bodyOf(genF, "DefaultGenesisState"), "GenesisState"); lit != nil {
		okp := src(lit["Params"]) == "DefaultParams()"
		okf := lit["From"] == nil || src(lit["From"]) == `""`
		oki := lit["InitReward"] == nil || src(lit["InitReward"]) == "nil"
		if !oki {
			cs, ok := ectx.evalCoins(lit["InitReward"])
			oki = ok && len(cs) == 0
		}
		if okp && okf && oki {
			defGenesisPlain = "true"
		}
	}

	gv := validateGenesisSteps(typesFiles)
	is := initGenesisSteps(keeperFiles, moduleName)
	es := exportShape(keeperFiles, typesFiles)
	wr := beginBlockWiring(moduleFiles, keeperFiles, moduleName)
	bankMethods := interfaceMethods(expF, "BankKeeper")

	var maccRows []string
	if cl := mapLiteral(appF, "maccPerms"); cl != nil {
		for _, el := range cl.Elts {
			kv, ok := el.(*ast.KeyValueExpr)
			if !ok {
				continue
			}
			var perms []string
			if pl, ok := kv.Value.(*ast.CompositeLit); ok {
				for _, p := range pl.Elts {
					perms = append(perms, coqStr(src(p)))
				}
			} else if src(kv.Value) != "nil" {
				perms = append(perms, coqStr("?"+src(kv.Value)))
			}
			ps := "[]"
			if len(perms) > 0 {
				ps = "[" + strings.Join(perms, "; ") + "]"
			}
			maccRows = append(maccRows, fmt.Sprintf("{| ma_name := %s;\n      ma_perms := %s |}", coqStr(src(kv.Key)), ps))
		}
	}
	var allowed []string
	if cl := mapLiteral(appF, "allowedReceivingModAcc"); cl != nil {
		for _, el := range cl.Elts {
			if kv, ok := el.(*ast.KeyValueExpr); ok && src(kv.Value) == "true" {
				allowed = append(allowed, coqStr(src(kv.Key)))
			}
		}
	}
	order := func(suffix string) []string {
		var o []string
		calls := callArgs(appF, suffix)
		if len(calls) != 1 {
			return []string{coqStr(fmt.Sprintf("?%d calls of %s", len(calls), suffix))}
		}
		for _, a := range calls[0] {
			o = append(o, coqStr(src(a)))
		}
		return o
	}
	beginOrder := order(".SetOrderBeginBlockers")
	initOrder := order(".SetOrderInitGenesis")
	rvFee, distrFee := "?", "?"
	if c := callArgs(appF, "rvestingkeeper.NewKeeper"); len(c) == 1 && wr.feeParamIdx >= 0 && wr.feeParamIdx < len(c[0]) {
		rvFee = src(c[0][wr.feeParamIdx])
	}
	// cosmos-sdk v0.45 distrkeeper.NewKeeper(cdc, key, paramSpace, ak, bk, sk, feeCollectorName, blockedAddrs)
	if c := callArgs(appF, "distrkeeper.NewKeeper"); len(c) == 1 && len(c[0]) == 8 {
		distrFee = src(c[0][6])
	}

	var b strings.Builder
	w := func(f string, a ...interface{}) { fmt.Fprintf(&b, f, a...) }
	w("From Coq Require Import List ZArith.\nImport ListNotations.\nFrom Teleport Require Import Base.Bytes Model.RvestingIR.\n\n")
	w("(* x/rvesting/types/keys.go: ModuleName *)\nDefinition module_name : bytes := %s.\n\n", coqStr(moduleName))
	w("(* x/rvesting/types/param.go: KeyEnableVesting, KeyPerBlockReward *)\n")
	w("Definition key_enable_vesting : bytes := %s.\n", coqStr(pconsts["KeyEnableVesting"]))
	w("Definition key_per_block_reward : bytes := %s.\n\n", coqStr(pconsts["KeyPerBlockReward"]))
	w("(* x/rvesting/types/param.go: Params.ParamSetPairs, field types from genesis.pb.go *)\nDefinition param_pairs : list ppair := %s.\n\n", coqList(pairs))
	w("(* x/rvesting/types: %s with its helpers inlined; rejecting tests outside / inside the loop over the list, evaluation order *)\n", rewardValidator)
	w("Definition reward_list_guards : list lguard := %s.\n", coqList(lg))
	w("Definition reward_coin_guards : list cguard := %s.\n\n", coqList(cg))
	w("(* x/rvesting/types/param.go: Params.validate *)\nDefinition params_validate_shape : pvshape := %s.\n\n", shape)
	w("(* x/rvesting/types/param.go: DefaultParams (evaluated; types.NewTeleCoin resolved through types/coin.go) *)\n")
	w("Definition default_params_known : bool := %s.\nDefinition default_enable : bool := %s.\nDefinition default_rewards : list (bytes * Z) := %s.\n\n", defKnown, defEnable, defRewards)
	w("(* x/rvesting/types/genesis.go: DefaultGenesisState = {DefaultParams(), From empty, no InitReward} *)\nDefinition default_genesis_plain : bool := %s.\n\n", defGenesisPlain)
	w("(* x/rvesting/types: ValidateGenesis with helpers inlined; true = evaluated only when From is not empty *)\nDefinition validate_genesis_steps : list (bool * gvstep) := %s.\n\n", coqList(gv))
	w("(* x/rvesting/keeper: Keeper.InitGenesis with helpers inlined; true = executed only when From is not empty *)\nDefinition init_genesis_steps : list (bool * istep) := %s.\n\n", coqList(is))
	w("(* x/rvesting/keeper: Keeper.ExportGenesis + types.NewGenesisState *)\nDefinition export_genesis_shape : eshape := %s.\n\n", es)
	w("(* bank calls reachable from BeginBlocker (x/rvesting/module + keeper, helpers inlined): the only coin movement is\n   bank.SendCoinsFromModuleToModule(sender, k.<field>, coins); balances are read from one account *)\n")
	w("Definition vest_sender : bytes := %s.\nDefinition vest_recipient_field : bytes := %s.\n", coqStr(wr.sender), coqStr(wr.recipField))
	w("Definition remaining_account : bytes := %s.\n", coqStr(wr.remaining))
	var bc []string
	for _, m := range wr.bankMethods {
		bc = append(bc, coqStr(m))
	}
	w("Definition begin_block_bank_calls : list bytes := %s.\n\n", coqList(bc))
	var bm []string
	for _, m := range bankMethods {
		bm = append(bm, coqStr(m))
	}
	w("(* x/rvesting/types/expected_keeper.go: methods of the BankKeeper interface handed to the module *)\nDefinition bank_keeper_methods : list bytes := %s.\n\n", coqList(bm))
	w("(* app/app.go: maccPerms *)\nDefinition macc_perms : list macc := %s.\n\n", coqList(maccRows))
	w("(* app/app.go: allowedReceivingModAcc (entries set to true) *)\nDefinition allowed_receiving : list bytes := %s.\n\n", coqList(allowed))
	w("(* app/app.go: app.mm.SetOrderBeginBlockers *)\nDefinition begin_blockers : list bytes := %s.\n\n", coqList(beginOrder))
	w("(* app/app.go: app.mm.SetOrderInitGenesis *)\nDefinition init_genesis_order : list bytes := %s.\n\n", coqList(initOrder))
	w("(* app/app.go: the argument of rvestingkeeper.NewKeeper that becomes Keeper.%s, and the feeCollectorName argument of distrkeeper.NewKeeper *)\n", wr.recipField)
	w("Definition rv_fee_collector_arg : bytes := %s.\nDefinition distr_fee_collector_arg : bytes := %s.\n", coqStr(rvFee), coqStr(distrFee))

	body := b.String()
	sum := sha256.Sum256([]byte(body))
	text := "(* GENERATED by tools/gotocoq/rvesting from x/rvesting/{types,keeper,module} and app/app.go - do not edit. *)\n" +
		fmt.Sprintf("(* content-hash: %x *)\n", sum) + body
	path := filepath.Join(*out, "RvestingGen.v")
	if old, err := os.ReadFile(path); err == nil && string(old) == text {
		return
	}
	if err := os.WriteFile(path, []byte(text), 0o644); err != nil {
		fmt.Fprintf(os.Stderr, "rvesting: %v\n", err)
		os.Exit(1)
	}
}
