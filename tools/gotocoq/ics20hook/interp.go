// Symbolic execution of the (small) Go functions of the ICS-20 receive path: see the header of main.go.
package main

import (
	"fmt"
	"go/ast"
	"go/parser"
	"go/token"
	"os"
	"path/filepath"
	"strings"
)

// ------------------------------------------------------------------------------------------------ packages

type pkg struct {
	files   []*ast.File
	funcs   map[string]*ast.FuncDecl // package-level functions
	methods map[string]*ast.FuncDecl // "Type.Name"
}

func recvTypeName(fd *ast.FuncDecl) string {
	if fd.Recv == nil || len(fd.Recv.List) != 1 {
		return ""
	}
	t := fd.Recv.List[0].Type
	if s, ok := t.(*ast.StarExpr); ok {
		t = s.X
	}
	if id, ok := t.(*ast.Ident); ok {
		return id.Name
	}
	return ""
}

func loadPkg(dir string) *pkg {
	ents, err := os.ReadDir(dir)
	if err != nil {
		die("%v", err)
	}
	p := &pkg{funcs: map[string]*ast.FuncDecl{}, methods: map[string]*ast.FuncDecl{}}
	fset := token.NewFileSet()
	for _, e := range ents {
		n := e.Name()
		if e.IsDir() || !strings.HasSuffix(n, ".go") || strings.HasSuffix(n, "_test.go") {
			continue
		}
		f, err := parser.ParseFile(fset, filepath.Join(dir, n), nil, 0)
		if err != nil {
			die("%v", err)
		}
		p.files = append(p.files, f)
		for _, d := range f.Decls {
			if fd, ok := d.(*ast.FuncDecl); ok {
				if fd.Recv == nil {
					p.funcs[fd.Name.Name] = fd
				} else if t := recvTypeName(fd); t != "" {
					p.methods[t+"."+fd.Name.Name] = fd
				}
			}
		}
	}
	return p
}

func paramNames(fd *ast.FuncDecl) []string {
	var ps []string
	for _, p := range fd.Type.Params.List {
		if len(p.Names) == 0 {
			ps = append(ps, "_")
		}
		for _, n := range p.Names {
			ps = append(ps, n.Name)
		}
	}
	return ps
}

// ------------------------------------------------------------------------------------------------ trees

type tree struct {
	kind   string // ret | guard | convert | write | other
	s      string // return kind / guard kind
	a, b   bool
	t1, t2 *tree
}

func (t *tree) String() string {
	switch t.kind {
	case "ret":
		return "TRet " + t.s
	case "guard":
		return fmt.Sprintf("TGuard %s (%s) (%s)", t.s, t.t1, t.t2)
	case "convert":
		return fmt.Sprintf("TConvert %s %s (%s)", coqBool(t.a), coqBool(t.b), t.t1)
	case "write":
		return fmt.Sprintf("TWrite (%s)", t.t1)
	}
	return "TOther"
}

var other = &tree{kind: "other"}

// ------------------------------------------------------------------------------------------------ values

type val struct {
	k    string // see eval
	n    int
	s    string // field name / source of an error
	flag bool
	neg  bool // bool symbols: negated
	key  string
	g    string // guard kind of a symbol
	fail bool   // truth value of the symbol that means "the test failed" (errors: true = non-nil)
	lit  *ast.FuncLit
	env  *Env
	fn   *ast.FuncDecl
	cell int
}

var opaque = val{k: "opaque"}

type Env struct {
	name string
	cell int
	next *Env
}

func (e *Env) lookup(name string) (int, bool) {
	for ; e != nil; e = e.next {
		if e.name == name {
			return e.cell, true
		}
	}
	return 0, false
}

type Store struct {
	cells map[int]val
	facts map[string]bool
	bad   bool
}

func (s *Store) clone() *Store {
	c := &Store{cells: make(map[int]val, len(s.cells)), facts: make(map[string]bool, len(s.facts)), bad: s.bad}
	for k, v := range s.cells {
		c.cells[k] = v
	}
	for k, v := range s.facts {
		c.facts[k] = v
	}
	return c
}

const (
	modeHook = iota // (Keeper).OnRecvPacket: parameters ctx, packet, ack
	modeWrap        // a callback of a wrapper around an IBC module: parameters ctx, packet, ...
)

type interp struct {
	p            *pkg
	mode         int
	wrapped      string // modeWrap: field of the receiver that holds the wrapped module
	keeperField  string // modeWrap: field of the receiver that holds the aggregate keeper ("" = none)
	selfType     string
	nparams      int
	counter      int
	depth        int
	nodes        int
	denomCalls   int
	denomAllDest bool
}

type kont func(env *Env, st *Store) *tree
type rkont func(st *Store, vals []val) *tree

func (in *interp) fresh() int { in.counter++; return in.counter }

func (in *interp) define(env *Env, st *Store, name string, v val) *Env {
	if name == "_" || name == "" {
		return env
	}
	c := in.fresh()
	st.cells[c] = v
	return &Env{name: name, cell: c, next: env}
}

func (in *interp) run(fd *ast.FuncDecl) *tree {
	in.selfType = recvTypeName(fd)
	in.denomAllDest = true
	st := &Store{cells: map[int]val{}, facts: map[string]bool{}}
	var env *Env
	if fd.Recv != nil && len(fd.Recv.List[0].Names) == 1 {
		env = in.define(env, st, fd.Recv.List[0].Names[0].Name, val{k: "self"})
	}
	ps := paramNames(fd)
	in.nparams = len(ps)
	for i, n := range ps {
		env = in.define(env, st, n, val{k: "param", n: i})
	}
	return in.stmts(fd.Body.List, env, st, func(_ *Env, st *Store) *tree { return in.leaf(st, nil) }, in.leaf)
}

func isCtx(v val) bool { return v.k == "param" && v.n == 0 }
func isPkt(v val) bool { return v.k == "param" && v.n == 1 }

func errRet(src string) string {
	switch src {
	case "App":
		return "SrcAppErr"
	case "Keeper":
		return "SrcKeeperErr"
	}
	return "SrcOther"
}

func errGuard(src string) string {
	switch src {
	case "UnmarshalJSON":
		return "GDecode"
	case "IBCDenom":
		return "GDenomErr"
	case "ConvertCoin":
		return "GConvertErr"
	case "App":
		return "GAppErr"
	case "Keeper":
		return "GKeeperErr"
	}
	return "GOther"
}

// what the analysed function returns
func (in *interp) leaf(st *Store, vals []val) *tree {
	if st.bad || len(vals) != 1 {
		return other
	}
	v := vals[0]
	r := "SrcOther"
	switch v.k {
	case "param":
		if in.mode == modeHook && v.n == 2 {
			r = "SrcAck"
		}
	case "tack":
		if v.flag {
			r = "SrcAck"
		}
	case "nil":
		r = "SrcNil"
	case "hookCall":
		if v.flag {
			r = "SrcHook"
		}
	case "err":
		if nn, known := st.facts[v.key]; known {
			if nn {
				r = errRet(v.s)
			} else {
				r = "SrcNil"
			}
		} else if errRet(v.s) != "SrcOther" {
			// returning an error value of unknown nil-ness = returning it when it is non-nil and nil otherwise
			return &tree{kind: "guard", s: errGuard(v.s), t1: &tree{kind: "ret", s: errRet(v.s)}, t2: &tree{kind: "ret", s: "SrcNil"}}
		}
	}
	return &tree{kind: "ret", s: r}
}

// ------------------------------------------------------------------------------------------------ statements

func (in *interp) stmts(list []ast.Stmt, env *Env, st *Store, k kont, ret rkont) *tree {
	if len(list) == 0 {
		return k(env, st)
	}
	return in.stmt(list[0], env, st, func(env2 *Env, st2 *Store) *tree { return in.stmts(list[1:], env2, st2, k, ret) }, ret)
}

func (in *interp) stmt(s ast.Stmt, env *Env, st *Store, k kont, ret rkont) *tree {
	in.nodes++
	if in.nodes > 50000 || st.bad {
		return other
	}
	switch s := s.(type) {
	case *ast.EmptyStmt:
		return k(env, st)
	case *ast.BlockStmt:
		return in.stmts(s.List, env, st, func(_ *Env, st2 *Store) *tree { return k(env, st2) }, ret)
	case *ast.ExprStmt:
		return in.evalK(s.X, env, st, func(st2 *Store, _ []val) *tree { return k(env, st2) })
	case *ast.DeclStmt:
		g, ok := s.Decl.(*ast.GenDecl)
		if !ok || g.Tok != token.VAR {
			return k(env, st) // const / type declarations
		}
		e := env
		for _, sp := range g.Specs {
			vs := sp.(*ast.ValueSpec)
			for i, n := range vs.Names {
				v := opaque
				if i < len(vs.Values) {
					v = in.eval(vs.Values[i], env, st)
				} else if sel, ok := vs.Type.(*ast.SelectorExpr); ok && sel.Sel.Name == "Address" {
					v = val{k: "evmaddr"} // var a common.Address: the zero address (not the receiver's)
				}
				e = in.define(e, st, n.Name, v)
			}
		}
		return k(e, st)
	case *ast.AssignStmt:
		return in.assign(s, env, st, k)
	case *ast.ReturnStmt:
		if len(s.Results) == 0 {
			return ret(st, nil)
		}
		return in.evalList(s.Results, env, st, ret)
	case *ast.IfStmt:
		body := func(env2 *Env, st2 *Store) *tree {
			after := func(_ *Env, st3 *Store) *tree { return k(env, st3) }
			return in.branch(s.Cond, env2, st2,
				func(st3 *Store) *tree { return in.stmts(s.Body.List, env2, st3, after, ret) },
				func(st3 *Store) *tree {
					if s.Else == nil {
						return after(nil, st3)
					}
					return in.stmt(s.Else, env2, st3, after, ret)
				})
		}
		if s.Init != nil {
			return in.stmt(s.Init, env, st, body, ret)
		}
		return body(env, st)
	case *ast.SwitchStmt:
		if s.Tag != nil {
			return other
		}
		var cases, deflt []*ast.CaseClause
		for _, c := range s.Body.List {
			cc := c.(*ast.CaseClause)
			for _, b := range cc.Body {
				if br, ok := b.(*ast.BranchStmt); ok && br.Tok == token.FALLTHROUGH {
					return other
				}
			}
			if cc.List == nil {
				deflt = append(deflt, cc)
			} else {
				cases = append(cases, cc)
			}
		}
		body := func(env2 *Env, st2 *Store) *tree {
			after := func(_ *Env, st3 *Store) *tree { return k(env, st3) }
			var chain func(i int, st3 *Store) *tree
			chain = func(i int, st3 *Store) *tree {
				if i == len(cases) {
					if len(deflt) == 1 {
						return in.stmts(stripBreak(deflt[0].Body), env2, st3, after, ret)
					}
					return after(nil, st3)
				}
				cc := cases[i]
				var cond ast.Expr = cc.List[0]
				for _, e := range cc.List[1:] {
					cond = &ast.BinaryExpr{X: cond, Op: token.LOR, Y: e}
				}
				return in.branch(cond, env2, st3,
					func(st4 *Store) *tree { return in.stmts(stripBreak(cc.Body), env2, st4, after, ret) },
					func(st4 *Store) *tree { return chain(i+1, st4) })
			}
			return chain(0, st2)
		}
		if s.Init != nil {
			return in.stmt(s.Init, env, st, body, ret)
		}
		return body(env, st)
	}
	return other // loops, defer, go, select, labels, ...
}

// a trailing `break` of a case clause is a no-op
func stripBreak(l []ast.Stmt) []ast.Stmt {
	if n := len(l); n > 0 {
		if b, ok := l[n-1].(*ast.BranchStmt); ok && b.Tok == token.BREAK && b.Label == nil {
			return l[:n-1]
		}
	}
	return l
}

func (in *interp) assign(s *ast.AssignStmt, env *Env, st *Store, k kont) *tree {
	if s.Tok != token.ASSIGN && s.Tok != token.DEFINE {
		// x += ... : the target becomes opaque
		if id, ok := s.Lhs[0].(*ast.Ident); ok {
			if c, found := env.lookup(id.Name); found {
				st.cells[c] = opaque
			}
		}
		return k(env, st)
	}
	return in.evalList(s.Rhs, env, st, func(st2 *Store, vals []val) *tree {
		for len(vals) < len(s.Lhs) {
			vals = append(vals, opaque)
		}
		e := env
		for i, l := range s.Lhs {
			switch l := l.(type) {
			case *ast.Ident:
				if l.Name == "_" {
					continue
				}
				if s.Tok == token.DEFINE {
					e = in.define(e, st2, l.Name, vals[i])
				} else if c, found := env.lookup(l.Name); found {
					st2.cells[c] = vals[i]
				} else {
					st2.bad = true // assignment to a package-level variable
				}
			default:
				// a field / element of a local value (event bookkeeping); not of anything the analysis tracks
				root := l
				for {
					switch x := root.(type) {
					case *ast.SelectorExpr:
						root = x.X
						continue
					case *ast.IndexExpr:
						root = x.X
						continue
					case *ast.StarExpr:
						root = x.X
						continue
					case *ast.ParenExpr:
						root = x.X
						continue
					}
					break
				}
				if id, ok := root.(*ast.Ident); ok {
					if c, found := env.lookup(id.Name); found && st2.cells[c].k == "opaque" {
						continue
					}
				}
				st2.bad = true
			}
		}
		return k(e, st2)
	})
}

// ------------------------------------------------------------------------------------------------ conditions

func (in *interp) branch(cond ast.Expr, env *Env, st *Store, kT, kF func(*Store) *tree) *tree {
	switch c := cond.(type) {
	case *ast.ParenExpr:
		return in.branch(c.X, env, st, kT, kF)
	case *ast.UnaryExpr:
		if c.Op == token.NOT {
			return in.branch(c.X, env, st, kF, kT)
		}
	case *ast.BinaryExpr:
		if c.Op == token.LAND {
			return in.branch(c.X, env, st, func(s2 *Store) *tree { return in.branch(c.Y, env, s2, kT, kF) }, kF)
		}
		if c.Op == token.LOR {
			return in.branch(c.X, env, st, kT, func(s2 *Store) *tree { return in.branch(c.Y, env, s2, kT, kF) })
		}
	}
	v := in.condVal(cond, env, st)
	if st.bad {
		return other
	}
	if v.k == "const" {
		if v.flag {
			return kT(st)
		}
		return kF(st)
	}
	// v is a symbol: the condition holds iff the symbol's value is !v.neg
	if sv, known := st.facts[v.key]; known {
		if sv != v.neg {
			return kT(st)
		}
		return kF(st)
	}
	sT, sF := st.clone(), st.clone()
	sT.facts[v.key], sF.facts[v.key] = true, false
	var tSymTrue, tSymFalse *tree
	if v.neg {
		tSymTrue, tSymFalse = kF(sT), kT(sF)
	} else {
		tSymTrue, tSymFalse = kT(sT), kF(sF)
	}
	if v.fail {
		return &tree{kind: "guard", s: v.g, t1: tSymTrue, t2: tSymFalse}
	}
	return &tree{kind: "guard", s: v.g, t1: tSymFalse, t2: tSymTrue}
}

// the value of an atomic condition: val{k:"const"} or a symbol {key, g, fail, neg}
func (in *interp) condVal(e ast.Expr, env *Env, st *Store) val {
	unknown := func() val { return val{k: "sym", key: fmt.Sprintf("unk#%d", in.fresh()), g: "GOther", fail: true} }
	if b, ok := e.(*ast.BinaryExpr); ok && (b.Op == token.EQL || b.Op == token.NEQ) {
		l, r := in.eval(b.X, env, st), in.eval(b.Y, env, st)
		eq := b.Op == token.EQL
		if r.k != "nil" && l.k == "nil" {
			l, r = r, l
		}
		if r.k == "nil" {
			switch l.k {
			case "nil":
				return val{k: "const", flag: eq}
			case "err":
				return val{k: "sym", key: l.key, g: errGuard(l.s), fail: true, neg: eq} // symbol true = non-nil
			case "msg", "closure", "func", "addr":
				return val{k: "const", flag: !eq} // NewMsgConvertCoin returns the address of a fresh message: never nil
			}
			return unknown()
		}
		if r.k == "len" {
			l, r = r, l
		}
		if l.k == "len" && r.k == "int" {
			g := "GOther"
			if l.flag && r.n == 20 {
				g = "GRecvLen"
			}
			return val{k: "sym", key: fmt.Sprintf("len#%d#%d", l.n, r.n), g: g, fail: true, neg: eq} // symbol true = differs
		}
		return unknown()
	}
	v := in.eval(e, env, st)
	switch v.k {
	case "const", "sym":
		return v
	}
	return unknown()
}

// ------------------------------------------------------------------------------------------------ expressions (pure)

var pktFields = map[string]string{
	"DestinationPort": "DestPort", "GetDestPort": "DestPort", "DestinationChannel": "DestChannel", "GetDestChannel": "DestChannel",
	"SourcePort": "SrcPort", "GetSourcePort": "SrcPort", "SourceChannel": "SrcChannel", "GetSourceChannel": "SrcChannel",
	"Data": "Data", "GetData": "Data", "Sequence": "Sequence", "GetSequence": "Sequence",
}

func (in *interp) eval(e ast.Expr, env *Env, st *Store) val {
	switch e := e.(type) {
	case *ast.ParenExpr:
		return in.eval(e.X, env, st)
	case *ast.Ident:
		switch e.Name {
		case "nil":
			return val{k: "nil"}
		case "true":
			return val{k: "const", flag: true}
		case "false":
			return val{k: "const", flag: false}
		}
		if c, ok := env.lookup(e.Name); ok {
			return st.cells[c]
		}
		if fd := in.p.funcs[e.Name]; fd != nil {
			return val{k: "func", fn: fd}
		}
		return opaque
	case *ast.BasicLit:
		if e.Kind == token.INT {
			n := 0
			fmt.Sscan(e.Value, &n)
			return val{k: "int", n: n}
		}
		return opaque
	case *ast.FuncLit:
		return val{k: "closure", lit: e, env: env}
	case *ast.SelectorExpr:
		if id, ok := e.X.(*ast.Ident); ok {
			if _, local := env.lookup(id.Name); !local {
				// package-qualified identifier
				if e.Sel.Name == "AddressLength" {
					return val{k: "int", n: 20}
				}
				return opaque
			}
		}
		x := in.eval(e.X, env, st)
		switch {
		case x.k == "data":
			return val{k: "dataField", s: e.Sel.Name}
		case isPkt(x):
			if f, ok := pktFields[e.Sel.Name]; ok {
				return val{k: "pktField", s: f}
			}
		case x.k == "self":
			return val{k: "selfField", s: e.Sel.Name}
		}
		return opaque
	case *ast.UnaryExpr:
		switch e.Op {
		case token.AND:
			if id, ok := e.X.(*ast.Ident); ok {
				if c, found := env.lookup(id.Name); found {
					if in.mode == modeHook && st.cells[c].k == "param" && st.cells[c].n == 2 {
						st.bad = true
					}
					return val{k: "addr", cell: c}
				}
			}
			in.eval(e.X, env, st)
			return opaque
		case token.NOT:
			v := in.condVal(e.X, env, st)
			if v.k == "const" {
				v.flag = !v.flag
			} else {
				v.neg = !v.neg
			}
			return v
		}
		return opaque
	case *ast.StarExpr:
		return in.eval(e.X, env, st)
	case *ast.CallExpr:
		vs := in.pureCall(e, env, st)
		if len(vs) == 1 {
			return vs[0]
		}
		return opaque
	case *ast.BinaryExpr:
		if e.Op == token.EQL || e.Op == token.NEQ {
			return in.condVal(e, env, st)
		}
		in.eval(e.X, env, st)
		in.eval(e.Y, env, st)
		return opaque
	case *ast.CompositeLit:
		for _, el := range e.Elts {
			if kv, ok := el.(*ast.KeyValueExpr); ok {
				in.eval(kv.Value, env, st)
			} else {
				in.eval(el, env, st)
			}
		}
		return opaque
	case *ast.IndexExpr:
		in.eval(e.X, env, st)
		return opaque
	case *ast.SliceExpr:
		in.eval(e.X, env, st)
		return opaque
	case *ast.TypeAssertExpr:
		in.eval(e.X, env, st)
		return opaque
	}
	return opaque
}

func calleeName(c *ast.CallExpr) (string, ast.Expr) {
	switch f := c.Fun.(type) {
	case *ast.Ident:
		return f.Name, nil
	case *ast.SelectorExpr:
		return f.Sel.Name, f.X
	case *ast.ParenExpr:
		return calleeName(&ast.CallExpr{Fun: f.X, Args: c.Args})
	}
	return "", nil
}

func stateful(v val) bool {
	switch v.k {
	case "self", "selfField", "cache", "wrapCache", "wrapParent", "write":
		return true
	}
	return isCtx(v)
}

func (in *interp) newErr(st *Store, src string, nonNil bool) val {
	v := val{k: "err", key: fmt.Sprintf("err#%d", in.fresh()), s: src}
	if nonNil {
		st.facts[v.key] = true
	}
	return v
}

func (in *interp) isParams(args []val, n int) bool {
	if len(args) != n {
		return false
	}
	for i, a := range args {
		if a.k != "param" || a.n != i {
			return false
		}
	}
	return true
}

// a call without effect on the tree; an inlinable or effectful call in such a position is outside the subset
func (in *interp) pureCall(c *ast.CallExpr, env *Env, st *Store) []val {
	name, recvE := calleeName(c)
	var rv val
	hasRecv := false
	if recvE != nil {
		if id, ok := recvE.(*ast.Ident); ok {
			if _, local := env.lookup(id.Name); local {
				rv, hasRecv = in.eval(recvE, env, st), true
			}
		} else {
			rv, hasRecv = in.eval(recvE, env, st), true
		}
	}
	args := make([]val, len(c.Args))
	for i, a := range c.Args {
		args[i] = in.eval(a, env, st)
	}
	if in.inlinable(c, env, st) != nil || name == "ConvertCoin" {
		st.bad = true
		return []val{opaque}
	}
	if f, ok := c.Fun.(*ast.Ident); ok {
		if cl, found := env.lookup(f.Name); found && st.cells[cl].k == "write" {
			st.bad = true
			return nil
		}
	}
	arg := func(i int) val {
		if i < len(args) {
			return args[i]
		}
		return opaque
	}
	sym := func(prefix, g string, fail bool) val {
		return val{k: "sym", key: fmt.Sprintf("%s#%d", prefix, in.fresh()), g: g, fail: fail}
	}
	switch name {
	case "CacheContext":
		if hasRecv && isCtx(rv) && len(args) == 0 {
			return []val{{k: "cache"}, {k: "write"}}
		}
	case "WrapSDKContext":
		switch {
		case arg(0).k == "cache":
			return []val{{k: "wrapCache"}}
		case isCtx(arg(0)):
			return []val{{k: "wrapParent"}}
		}
		return []val{opaque}
	case "GetData", "GetDestPort", "GetDestChannel", "GetSourcePort", "GetSourceChannel", "GetSequence":
		if hasRecv && isPkt(rv) {
			return []val{{k: "pktField", s: pktFields[name]}}
		}
		return []val{opaque}
	case "UnmarshalJSON":
		if arg(0).k == "pktField" && arg(0).s == "Data" && arg(1).k == "addr" {
			st.cells[arg(1).cell] = val{k: "data"}
			return []val{in.newErr(st, "UnmarshalJSON", false)}
		}
		return []val{in.newErr(st, "other", false)}
	case "NewIntFromString":
		if arg(0).k == "dataField" && arg(0).s == "Amount" {
			return []val{{k: "amount"}, sym("ok", "GAmount", false)}
		}
		return []val{opaque, sym("ok", "GOther", false)}
	case "AccAddressFromBech32":
		if arg(0).k == "dataField" && arg(0).s == "Receiver" {
			return []val{{k: "recv"}, in.newErr(st, "Bech32", false)}
		}
		return []val{opaque, in.newErr(st, "other", false)}
	case "Bytes":
		if hasRecv && rv.k == "recv" {
			return []val{rv}
		}
		return []val{opaque}
	case "len":
		if arg(0).k == "evmaddr" {
			return []val{{k: "int", n: 20}} // len of a [20]byte
		}
		return []val{{k: "len", flag: arg(0).k == "recv", n: 0}}
	case "copy":
		// copy(addr[:], receiver) on a path on which len(receiver) == 20 was established = common.BytesToAddress(receiver)
		if len(c.Args) == 2 {
			if sl, ok := c.Args[0].(*ast.SliceExpr); ok && sl.Low == nil && sl.High == nil {
				if id, ok := sl.X.(*ast.Ident); ok {
					if cl, found := env.lookup(id.Name); found && st.cells[cl].k == "evmaddr" {
						differs, known := st.facts["len#0#20"]
						st.cells[cl] = val{k: "evmaddr", flag: arg(1).k == "recv" && known && !differs}
						return []val{opaque}
					}
				}
			}
		}
	case "IBCDenom":
		if len(args) == 3 {
			in.denomCalls++
			dest := arg(0).k == "pktField" && arg(0).s == "DestPort" && arg(1).k == "pktField" && arg(1).s == "DestChannel" &&
				arg(2).k == "dataField" && arg(2).s == "Denom"
			if !dest {
				in.denomAllDest = false
			}
			return []val{{k: "denom", flag: dest}, in.newErr(st, "IBCDenom", false)}
		}
	case "IsDenomRegistered":
		if hasRecv && rv.k == "self" && len(args) == 2 && (isCtx(arg(0)) || arg(0).k == "cache") {
			if arg(1).k == "denom" {
				return []val{sym("reg", "GNotRegistered", false)}
			}
			return []val{sym("reg", "GOther", false)}
		}
	case "NewCoin":
		return []val{{k: "coin", flag: arg(0).k == "denom" && arg(1).k == "amount"}}
	case "BytesToAddress":
		return []val{{k: "evmaddr", flag: arg(0).k == "recv"}}
	case "NewMsgConvertCoin":
		return []val{{k: "msg", flag: len(args) == 3 && arg(0).k == "coin" && arg(0).flag && arg(1).k == "evmaddr" && arg(1).flag && arg(2).k == "recv"}}
	case "Success":
		if hasRecv && rv.k == "tack" && rv.flag {
			return []val{{k: "sym", key: "success", g: "GAckNotSuccess", fail: false}}
		}
		return []val{sym("succ", "GOther", false)}
	case "OnRecvPacket":
		if in.mode == modeWrap && hasRecv && rv.k == "selfField" {
			if rv.s == in.wrapped {
				return []val{{k: "tack", flag: in.isParams(args, in.nparams)}}
			}
			if rv.s == in.keeperField && in.keeperField != "" {
				return []val{{k: "hookCall", flag: len(args) == 3 && isCtx(arg(0)) && isPkt(arg(1)) && arg(2).k == "tack" && arg(2).flag}}
			}
		}
	case "OnAcknowledgementPacket", "OnTimeoutPacket":
		if in.mode == modeWrap && hasRecv && rv.k == "selfField" {
			if rv.s == in.wrapped && in.isParams(args, in.nparams) {
				return []val{in.newErr(st, "App", false)}
			}
			if rv.s == in.keeperField && in.keeperField != "" && in.isParams(args, 3) {
				return []val{in.newErr(st, "Keeper", false)}
			}
		}
	case "New", "Errorf":
		// errors.New / fmt.Errorf: never nil
		if !hasRecv {
			return []val{in.newErr(st, "new", true)}
		}
	case "Wrap", "Wrapf":
		// sdkerrors.Wrap(err, ...) is nil exactly when err is
		if !hasRecv && arg(0).k == "err" {
			return []val{arg(0)}
		}
		if !hasRecv {
			return []val{in.newErr(st, "new", true)}
		}
	case "EmitTypedEvent", "EmitEvents", "EmitEvent", "EventManager", "Events", "Logger", "Debug", "Info", "Error", "String",
		"Sprintf", "Sprint", "Sprintln", "NewEvent", "NewAttribute", "Hex":
		return []val{opaque}
	}
	// unknown call: harmless unless it is handed the context / the keeper
	if hasRecv && stateful(rv) {
		st.bad = true
	}
	for _, a := range args {
		if stateful(a) {
			st.bad = true
		}
	}
	return []val{opaque}
}

// ------------------------------------------------------------------------------------------------ calls with effects / inlining

type callee struct {
	body   *ast.BlockStmt
	typ    *ast.FuncType
	env    *Env   // closure: defining environment
	recvN  string // method: receiver name
	recvV  val
	method bool
}

// is the call one of a local closure, a package-level function or a method of the analysed receiver (not a primitive)?
func (in *interp) inlinable(c *ast.CallExpr, env *Env, st *Store) *callee {
	switch f := c.Fun.(type) {
	case *ast.Ident:
		if cl, found := env.lookup(f.Name); found {
			if v := st.cells[cl]; v.k == "closure" {
				return &callee{body: v.lit.Body, typ: v.lit.Type, env: v.env}
			}
			return nil
		}
		if fd := in.p.funcs[f.Name]; fd != nil && fd.Body != nil {
			return &callee{body: fd.Body, typ: fd.Type}
		}
	case *ast.SelectorExpr:
		id, ok := f.X.(*ast.Ident)
		if !ok {
			return nil
		}
		cl, found := env.lookup(id.Name)
		if !found || st.cells[cl].k != "self" {
			return nil
		}
		switch f.Sel.Name {
		case "ConvertCoin", "IsDenomRegistered", "Logger":
			return nil // primitives of the keeper
		}
		if fd := in.p.methods[in.selfType+"."+f.Sel.Name]; fd != nil && fd.Body != nil {
			ce := &callee{body: fd.Body, typ: fd.Type, method: true, recvV: st.cells[cl]}
			if len(fd.Recv.List[0].Names) == 1 {
				ce.recvN = fd.Recv.List[0].Names[0].Name
			}
			return ce
		}
	case *ast.FuncLit:
		return &callee{body: f.Body, typ: f.Type, env: env}
	}
	return nil
}

// evaluate a list of expressions left to right; a single multi-valued call yields all its values
func (in *interp) evalList(es []ast.Expr, env *Env, st *Store, k rkont) *tree {
	if len(es) == 1 {
		return in.evalK(es[0], env, st, k)
	}
	var step func(i int, st *Store, acc []val) *tree
	step = func(i int, st *Store, acc []val) *tree {
		if i == len(es) {
			return k(st, acc)
		}
		return in.evalK(es[i], env, st, func(st2 *Store, vs []val) *tree {
			v := opaque
			if len(vs) >= 1 {
				v = vs[0]
			}
			return step(i+1, st2, append(append([]val{}, acc...), v))
		})
	}
	return step(0, st, nil)
}

// evaluate an expression that may be an effectful / inlinable call at top level
func (in *interp) evalK(e ast.Expr, env *Env, st *Store, k rkont) *tree {
	if p, ok := e.(*ast.ParenExpr); ok {
		return in.evalK(p.X, env, st, k)
	}
	c, ok := e.(*ast.CallExpr)
	if !ok {
		return k(st, []val{in.eval(e, env, st)})
	}
	name, _ := calleeName(c)
	// write()
	if f, isID := c.Fun.(*ast.Ident); isID {
		if cl, found := env.lookup(f.Name); found && st.cells[cl].k == "write" && len(c.Args) == 0 {
			return &tree{kind: "write", t1: k(st, nil)}
		}
	}
	ce := in.inlinable(c, env, st)
	if ce == nil && name != "ConvertCoin" {
		return k(st, in.pureCall(c, env, st))
	}
	// arguments first (they may themselves be inlinable calls)
	return in.evalList1(c.Args, env, st, func(st2 *Store, args []val) *tree {
		if ce == nil { // k.ConvertCoin(context, msg)
			onCache := len(args) == 2 && args[0].k == "wrapCache"
			msgOK := len(args) == 2 && args[1].k == "msg" && args[1].flag
			return &tree{kind: "convert", a: onCache, b: msgOK, t1: k(st2, []val{opaque, in.newErr(st2, "ConvertCoin", false)})}
		}
		if in.depth > 12 {
			return other
		}
		in.depth++
		defer func() { in.depth-- }()
		e2 := ce.env
		if ce.method && ce.recvN != "" {
			e2 = in.define(e2, st2, ce.recvN, ce.recvV)
		}
		i := 0
		for _, p := range ce.typ.Params.List {
			if _, variadic := p.Type.(*ast.Ellipsis); variadic {
				for _, n := range p.Names {
					e2 = in.define(e2, st2, n.Name, opaque)
				}
				i = len(args)
				continue
			}
			names := p.Names
			if len(names) == 0 {
				i++
				continue
			}
			for _, n := range names {
				v := opaque
				if i < len(args) {
					v = args[i]
				}
				e2 = in.define(e2, st2, n.Name, v)
				i++
			}
		}
		var named []string
		if ce.typ.Results != nil {
			for _, r := range ce.typ.Results.List {
				for _, n := range r.Names {
					e2 = in.define(e2, st2, n.Name, opaque)
					named = append(named, n.Name)
				}
			}
		}
		envBody := e2
		back := func(st3 *Store, vals []val) *tree {
			if vals == nil && len(named) > 0 { // bare return: the named results
				for _, n := range named {
					c, _ := envBody.lookup(n)
					vals = append(vals, st3.cells[c])
				}
			}
			d := in.depth
			in.depth = d - 1
			t := k(st3, vals)
			in.depth = d
			return t
		}
		return in.stmts(ce.body.List, envBody, st2, func(_ *Env, st3 *Store) *tree { return back(st3, nil) }, back)
	})
}

// like evalList but never spreads a multi-valued call (arguments)
func (in *interp) evalList1(es []ast.Expr, env *Env, st *Store, k rkont) *tree {
	if len(es) == 1 {
		if c, ok := es[0].(*ast.CallExpr); ok && in.inlinable(c, env, st) != nil {
			return in.evalK(es[0], env, st, k) // f(g()) with a multi-valued g
		}
		return in.evalK(es[0], env, st, func(st2 *Store, vs []val) *tree {
			v := opaque
			if len(vs) >= 1 {
				v = vs[0]
			}
			return k(st2, []val{v})
		})
	}
	return in.evalList(es, env, st, k)
}
