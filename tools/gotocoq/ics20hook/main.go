// ics20hook: regenerates the SHAPE of the aggregate ICS-20 receive path from the Go source (property C16)
// -> Gen/Ics20HookGen.v
//
// Sources (relative to -repo):
//
//	x/aggregate/keeper/ibc_hook.go : method (Keeper).OnRecvPacket(ctx, packet, ack)  ->  src_hook : list src_stmt
//	    one entry per top-level statement that matters, in source order:
//	      SGuard g r   `if <cond> { <event statements>; return <r> }` (no else); the guard kind g is found by DATA FLOW,
//	                   not by text: GDecode (error of ...UnmarshalJSON), GAmount (the ok of sdk.NewIntFromString),
//	                   GRecvLen (len of the AccAddressFromBech32 result compared != with common.AddressLength / 20),
//	                   GDenomErr (error of types.IBCDenom), GNotRegistered (!k.IsDenomRegistered(ctx, <denom>)),
//	                   GConvertErr (error of k.ConvertCoin), GOther (anything else)
//	      SConvert c m  the call of k.ConvertCoin: c = its context is sdk.WrapSDKContext(<first result of the
//	                   parameter ctx's CacheContext()>), m = its message is NewMsgConvertCoin(NewCoin(<IBCDenom result>,
//	                   <NewIntFromString result>), BytesToAddress(<receiver>[.Bytes()]), <receiver>)
//	      SWrite       a call of the second result of CacheContext()
//	      SReturn r    the final return
//	      SOther       any other statement that is not event bookkeeping (outside the subset: the obligation fails)
//	    r = SrcAck (the 3rd parameter), SrcNil, SrcOther.  Local variable and parameter NAMES do not matter.
//	    src_hook_ack_reassigned: the acknowledgement parameter is assigned to / its address is taken somewhere;
//	    src_hook_denom_from_dest: IBCDenom is called with the packet's DESTINATION port and channel and data.Denom;
//	    src_hook_write_calls: number of calls of the write function anywhere in the body.
//	x/aggregate/ibc_middleware.go : (IBCMiddleware).OnRecvPacket is "v := <embedded module>.OnRecvPacket(params);
//	    error acknowledgement -> return v; otherwise return <keeper>.OnRecvPacket(ctx, packet, v)" in either of the two
//	    equivalent statement orders; OnTimeoutPacket is NOT declared (inherited from *ibc.Module);
//	    OnAcknowledgementPacket calls the embedded module first and returns its error, then the keeper's;
//	    the keeper's OnAcknowledgementPacket is `return nil`.
//
// Proofs/Ics20Source.v normalises src_hook ([shape_of]) to the two parameters of the hook model and Props/C16.v proves
// that the regenerated shape is the model's.  A missing function / unparsable file is a failed tie (exit 1).
package main

import (
	"bytes"
	"flag"
	"fmt"
	"go/ast"
	"go/parser"
	"go/printer"
	"go/token"
	"os"
	"path/filepath"
	"strings"
)

func die(f string, a ...interface{}) {
	fmt.Fprintf(os.Stderr, "ics20hook: "+f+"\n", a...)
	os.Exit(1)
}

var fset = token.NewFileSet()

func src(n ast.Node) string {
	var b bytes.Buffer
	printer.Fprint(&b, fset, n)
	return strings.Join(strings.Fields(b.String()), " ")
}

func recvTypeName(fd *ast.FuncDecl) string {
	if fd.Recv == nil || len(fd.Recv.List) != 1 {
		return ""
	}
	t := fd.Recv.List[0].Type
	if s, ok := t.(*ast.StarExpr); ok {
		t = s.X
	}
	if id, ok := t.(*ast.Ident); ok {
		return id.Name
	}
	return ""
}

func method(f *ast.File, recv, name string) *ast.FuncDecl {
	for _, d := range f.Decls {
		if fd, ok := d.(*ast.FuncDecl); ok && fd.Name.Name == name && recvTypeName(fd) == recv {
			return fd
		}
	}
	return nil
}

func parse(path string) *ast.File {
	f, err := parser.ParseFile(fset, path, nil, 0)
	if err != nil {
		die("%v", err)
	}
	return f
}

func coqBool(b bool) string {
	if b {
		return "true"
	}
	return "false"
}

func isIdent(e ast.Expr, name string) bool {
	id, ok := e.(*ast.Ident)
	return ok && name != "" && id.Name == name
}

func unparen(e ast.Expr) ast.Expr {
	for {
		p, ok := e.(*ast.ParenExpr)
		if !ok {
			return e
		}
		e = p.X
	}
}

// selector name of a call: f(...) -> "f", a.b.c(...) -> "c"
func callName(e ast.Expr) (string, *ast.CallExpr) {
	c, ok := unparen(e).(*ast.CallExpr)
	if !ok {
		return "", nil
	}
	switch f := c.Fun.(type) {
	case *ast.Ident:
		return f.Name, c
	case *ast.SelectorExpr:
		return f.Sel.Name, c
	}
	return "", c
}

func paramNames(fd *ast.FuncDecl) []string {
	var ps []string
	for _, p := range fd.Type.Params.List {
		for _, n := range p.Names {
			ps = append(ps, n.Name)
		}
	}
	return ps
}

func recvName(fd *ast.FuncDecl) string {
	if fd.Recv != nil && len(fd.Recv.List) == 1 && len(fd.Recv.List[0].Names) == 1 {
		return fd.Recv.List[0].Names[0].Name
	}
	return ""
}

// ------------------------------------------------------------------------------------------------ keeper hook

type hookWalk struct {
	ctx, pkt, ack string // parameter names
	cacheCtx      string // first result of ctx.CacheContext()
	writeFn       string // second result
	wrappedCache  string // variable assigned sdk.WrapSDKContext(cacheCtx)
	data          string // the variable UnmarshalJSON decodes into
	amount, okVar string // results of NewIntFromString
	recv          string // first result of AccAddressFromBech32
	denom         string // first result of IBCDenom
	msg           string // result of NewMsgConvertCoin
	msgOK         bool
	denomFromDest bool
	errSrc        map[string]string // error variable -> name of the call that assigned it last
	out           []string
}

func (w *hookWalk) retKind(r *ast.ReturnStmt) string {
	if len(r.Results) == 1 {
		if isIdent(r.Results[0], w.ack) {
			return "SrcAck"
		}
		if isIdent(r.Results[0], "nil") {
			return "SrcNil"
		}
	}
	return "SrcOther"
}

// packet.GetDestPort() / packet.DestinationPort
func (w *hookWalk) isPacketField(e ast.Expr, getter, field string) bool {
	e = unparen(e)
	if c, ok := e.(*ast.CallExpr); ok && len(c.Args) == 0 {
		if s, ok := c.Fun.(*ast.SelectorExpr); ok && isIdent(s.X, w.pkt) && s.Sel.Name == getter {
			return true
		}
	}
	if s, ok := e.(*ast.SelectorExpr); ok && isIdent(s.X, w.pkt) && s.Sel.Name == field {
		return true
	}
	return false
}

func (w *hookWalk) isDataField(e ast.Expr, field string) bool {
	s, ok := unparen(e).(*ast.SelectorExpr)
	return ok && isIdent(s.X, w.data) && s.Sel.Name == field
}

// <recv> or <recv>.Bytes()
func (w *hookWalk) isRecv(e ast.Expr) bool {
	e = unparen(e)
	if isIdent(e, w.recv) {
		return true
	}
	if c, ok := e.(*ast.CallExpr); ok && len(c.Args) == 0 {
		if s, ok := c.Fun.(*ast.SelectorExpr); ok && isIdent(s.X, w.recv) && s.Sel.Name == "Bytes" {
			return true
		}
	}
	return false
}

func (w *hookWalk) isWrapOf(e ast.Expr, inner string) bool {
	n, c := callName(e)
	return n == "WrapSDKContext" && c != nil && len(c.Args) == 1 && isIdent(c.Args[0], inner)
}

// an assignment / definition: learn what the left-hand variables hold
func (w *hookWalk) learn(lhs []ast.Expr, rhs ast.Expr) {
	name, call := callName(rhs)
	id := func(i int) string {
		if i < len(lhs) {
			if x, ok := lhs[i].(*ast.Ident); ok && x.Name != "_" {
				return x.Name
			}
		}
		return ""
	}
	if call == nil {
		return
	}
	switch name {
	case "CacheContext":
		if s, ok := call.Fun.(*ast.SelectorExpr); ok && isIdent(s.X, w.ctx) && len(lhs) == 2 {
			w.cacheCtx, w.writeFn = id(0), id(1)
		}
	case "WrapSDKContext":
		if len(lhs) == 1 && w.isWrapOf(rhs, w.cacheCtx) {
			w.wrappedCache = id(0)
		}
	case "UnmarshalJSON":
		if len(call.Args) == 2 {
			if u, ok := call.Args[1].(*ast.UnaryExpr); ok && u.Op == token.AND {
				if x, ok := u.X.(*ast.Ident); ok {
					w.data = x.Name
				}
			}
		}
		if len(lhs) == 1 && id(0) != "" {
			w.errSrc[id(0)] = name
		}
	case "NewIntFromString":
		if len(lhs) == 2 && len(call.Args) == 1 && w.isDataField(call.Args[0], "Amount") {
			w.amount, w.okVar = id(0), id(1)
		}
	case "AccAddressFromBech32":
		if len(lhs) == 2 && len(call.Args) == 1 && w.isDataField(call.Args[0], "Receiver") {
			w.recv = id(0)
			if id(1) != "" {
				w.errSrc[id(1)] = name
			}
		}
	case "IBCDenom":
		if len(lhs) == 2 && len(call.Args) == 3 {
			w.denom = id(0)
			if id(1) != "" {
				w.errSrc[id(1)] = name
			}
			w.denomFromDest = w.isPacketField(call.Args[0], "GetDestPort", "DestinationPort") &&
				w.isPacketField(call.Args[1], "GetDestChannel", "DestinationChannel") && w.isDataField(call.Args[2], "Denom")
		}
	case "NewMsgConvertCoin":
		if len(lhs) == 1 {
			w.msg = id(0)
			w.msgOK = w.msgArgsOK(call)
		}
	default:
		// any other call assigning a variable we track as an error: remember its source
		for i := range lhs {
			if n := id(i); n != "" {
				if _, tracked := w.errSrc[n]; tracked {
					w.errSrc[n] = name
				}
			}
		}
	}
}

func (w *hookWalk) msgArgsOK(c *ast.CallExpr) bool {
	if len(c.Args) != 3 {
		return false
	}
	n0, coin := callName(c.Args[0])
	if n0 != "NewCoin" || coin == nil || len(coin.Args) != 2 || !isIdent(coin.Args[0], w.denom) || !isIdent(coin.Args[1], w.amount) {
		return false
	}
	n1, b2a := callName(c.Args[1])
	if n1 != "BytesToAddress" || b2a == nil || len(b2a.Args) != 1 || !w.isRecv(b2a.Args[0]) {
		return false
	}
	return isIdent(unparen(c.Args[2]), w.recv)
}

// statements that only do event bookkeeping (no control flow, no state access through the keeper)
func (w *hookWalk) bookkeeping(st ast.Stmt) bool {
	hasBad := false
	ast.Inspect(st, func(n ast.Node) bool {
		switch x := n.(type) {
		case *ast.ReturnStmt, *ast.BranchStmt, *ast.GoStmt, *ast.DeferStmt, *ast.FuncLit:
			hasBad = true
		case *ast.CallExpr:
			name, _ := callName(x)
			switch name {
			case "ConvertCoin", "CacheContext":
				hasBad = true
			}
			if isIdent(x.Fun, w.writeFn) {
				hasBad = true
			}
		}
		return !hasBad
	})
	if hasBad {
		return false
	}
	switch s := st.(type) {
	case *ast.DeclStmt:
		return true
	case *ast.AssignStmt:
		// event := &T{...} ; event.Field = ... ; _ = EmitTypedEvent(...)
		if len(s.Rhs) == 1 {
			if n, _ := callName(s.Rhs[0]); n == "EmitTypedEvent" || n == "EmitEvents" || n == "EmitEvent" {
				return true
			}
		}
		for _, l := range s.Lhs {
			root := l
			for {
				if sel, ok := root.(*ast.SelectorExpr); ok {
					root = sel.X
					continue
				}
				break
			}
			id, ok := root.(*ast.Ident)
			if !ok {
				return false
			}
			// must not overwrite a variable the walk tracks
			for _, t := range []string{w.ctx, w.pkt, w.ack, w.cacheCtx, w.writeFn, w.wrappedCache, w.data, w.amount, w.okVar, w.recv, w.denom, w.msg} {
				if t != "" && id.Name == t {
					return false
				}
			}
			if _, tracked := w.errSrc[id.Name]; tracked {
				return false
			}
		}
		// right-hand sides: literals, formatting, error strings — no keeper calls
		ok := true
		for _, r := range s.Rhs {
			ast.Inspect(r, func(n ast.Node) bool {
				if c, isCall := n.(*ast.CallExpr); isCall {
					if sel, isSel := c.Fun.(*ast.SelectorExpr); isSel {
						if x, isID := sel.X.(*ast.Ident); isID && (x.Name == "fmt" || sel.Sel.Name == "Error" || sel.Sel.Name == "String") {
							return true
						}
					}
					ok = false
				}
				return ok
			})
		}
		return ok
	case *ast.ExprStmt:
		n, _ := callName(s.X)
		return n == "EmitTypedEvent" || n == "EmitEvents" || n == "EmitEvent"
	}
	return false
}

func (w *hookWalk) guardKind(cond ast.Expr) string {
	cond = unparen(cond)
	// err != nil
	if b, ok := cond.(*ast.BinaryExpr); ok && b.Op == token.NEQ {
		x, y := unparen(b.X), unparen(b.Y)
		if isIdent(y, "nil") {
			if id, ok := x.(*ast.Ident); ok {
				switch w.errSrc[id.Name] {
				case "UnmarshalJSON":
					return "GDecode"
				case "IBCDenom":
					return "GDenomErr"
				case "ConvertCoin":
					return "GConvertErr"
				}
			}
			return "GOther"
		}
		// len(recv) != common.AddressLength | 20 (either order)
		isLen := func(e ast.Expr) bool {
			n, c := callName(e)
			return n == "len" && c != nil && len(c.Args) == 1 && w.recv != "" && w.isRecv(c.Args[0])
		}
		is20 := func(e ast.Expr) bool {
			if l, ok := e.(*ast.BasicLit); ok && l.Kind == token.INT && l.Value == "20" {
				return true
			}
			if s, ok := e.(*ast.SelectorExpr); ok && s.Sel.Name == "AddressLength" {
				return true
			}
			return false
		}
		if (isLen(x) && is20(y)) || (isLen(y) && is20(x)) {
			return "GRecvLen"
		}
		return "GOther"
	}
	if u, ok := cond.(*ast.UnaryExpr); ok && u.Op == token.NOT {
		x := unparen(u.X)
		if isIdent(x, w.okVar) {
			return "GAmount"
		}
		if n, c := callName(x); n == "IsDenomRegistered" && c != nil && len(c.Args) == 2 && isIdent(c.Args[0], w.ctx) && isIdent(c.Args[1], w.denom) {
			return "GNotRegistered"
		}
	}
	return "GOther"
}

func (w *hookWalk) stmt(st ast.Stmt) {
	switch s := st.(type) {
	case *ast.ReturnStmt:
		w.out = append(w.out, "SReturn "+w.retKind(s))
		return
	case *ast.IfStmt:
		if s.Else != nil {
			w.out = append(w.out, "SOther")
			return
		}
		if s.Init != nil {
			a, ok := s.Init.(*ast.AssignStmt)
			if !ok || len(a.Rhs) != 1 {
				w.out = append(w.out, "SOther")
				return
			}
			if n, _ := callName(a.Rhs[0]); n == "ConvertCoin" {
				w.convert(a)
			} else {
				w.learn(a.Lhs, a.Rhs[0])
			}
		}
		kind := w.guardKind(s.Cond)
		// body: bookkeeping statements, then exactly one return
		body := s.Body.List
		ret := "SrcOther"
		okBody := len(body) > 0
		for i, b := range body {
			if i == len(body)-1 {
				if r, isRet := b.(*ast.ReturnStmt); isRet {
					ret = w.retKind(r)
				} else {
					okBody = false
				}
			} else if !w.bookkeeping(b) {
				okBody = false
			}
		}
		if !okBody {
			w.out = append(w.out, "SOther")
			return
		}
		w.out = append(w.out, "SGuard "+kind+" "+ret)
		return
	case *ast.ExprStmt:
		if c, ok := s.X.(*ast.CallExpr); ok && isIdent(c.Fun, w.writeFn) && len(c.Args) == 0 {
			w.out = append(w.out, "SWrite")
			return
		}
	case *ast.AssignStmt:
		if len(s.Rhs) == 1 {
			if n, _ := callName(s.Rhs[0]); n == "ConvertCoin" {
				w.convert(s)
				return
			}
			if n, c := callName(s.Rhs[0]); c != nil {
				switch n {
				case "CacheContext", "WrapSDKContext", "UnmarshalJSON", "NewIntFromString", "AccAddressFromBech32", "IBCDenom", "NewMsgConvertCoin":
					w.learn(s.Lhs, s.Rhs[0])
					return
				}
			}
		}
	}
	if w.bookkeeping(st) {
		return
	}
	w.out = append(w.out, "SOther")
}

func (w *hookWalk) convert(a *ast.AssignStmt) {
	_, c := callName(a.Rhs[0])
	onCache, msgOK := false, false
	if c != nil && len(c.Args) == 2 {
		onCache = (w.wrappedCache != "" && isIdent(c.Args[0], w.wrappedCache)) || (w.cacheCtx != "" && w.isWrapOf(c.Args[0], w.cacheCtx))
		if isIdent(c.Args[1], w.msg) {
			msgOK = w.msgOK
		} else if n, mc := callName(c.Args[1]); n == "NewMsgConvertCoin" && mc != nil {
			msgOK = w.msgArgsOK(mc)
		}
	}
	// the error result
	if len(a.Lhs) == 2 {
		if id, ok := a.Lhs[1].(*ast.Ident); ok && id.Name != "_" {
			w.errSrc[id.Name] = "ConvertCoin"
		}
	}
	w.out = append(w.out, fmt.Sprintf("SConvert %s %s", coqBool(onCache), coqBool(msgOK)))
}

// ------------------------------------------------------------------------------------------------ middleware

// names of the embedded *ibc.Module field and of the keeper field of struct IBCMiddleware
func mwFields(f *ast.File) (embedded, keeper string) {
	for _, d := range f.Decls {
		g, ok := d.(*ast.GenDecl)
		if !ok {
			continue
		}
		for _, sp := range g.Specs {
			ts, ok := sp.(*ast.TypeSpec)
			if !ok || ts.Name.Name != "IBCMiddleware" {
				continue
			}
			st, ok := ts.Type.(*ast.StructType)
			if !ok {
				continue
			}
			for _, fl := range st.Fields.List {
				t := fl.Type
				if s, ok := t.(*ast.StarExpr); ok {
					t = s.X
				}
				sel, isSel := t.(*ast.SelectorExpr)
				if len(fl.Names) == 0 && isSel && sel.Sel.Name == "Module" {
					embedded = sel.Sel.Name
				}
				if len(fl.Names) == 1 && isSel && sel.Sel.Name == "Keeper" {
					keeper = fl.Names[0].Name
				}
			}
		}
	}
	return
}

// <im>.<field>.<meth>(args...) with args = the given identifiers, in order
func isFieldCall(e ast.Expr, im, field, meth string, args []string) bool {
	c, ok := unparen(e).(*ast.CallExpr)
	if !ok || len(c.Args) != len(args) {
		return false
	}
	s, ok := c.Fun.(*ast.SelectorExpr)
	if !ok || s.Sel.Name != meth {
		return false
	}
	f, ok := s.X.(*ast.SelectorExpr)
	if !ok || !isIdent(f.X, im) || f.Sel.Name != field {
		return false
	}
	for i, a := range args {
		if !isIdent(c.Args[i], a) {
			return false
		}
	}
	return true
}

func singleReturn(b *ast.BlockStmt) ast.Expr {
	if b != nil && len(b.List) == 1 {
		if r, ok := b.List[0].(*ast.ReturnStmt); ok && len(r.Results) == 1 {
			return r.Results[0]
		}
	}
	return nil
}

func isSuccessCall(e ast.Expr, v string) bool {
	c, ok := unparen(e).(*ast.CallExpr)
	if !ok || len(c.Args) != 0 {
		return false
	}
	s, ok := c.Fun.(*ast.SelectorExpr)
	return ok && isIdent(s.X, v) && s.Sel.Name == "Success"
}

func main() {
	repo := flag.String("repo", "/repo", "repository root")
	out := flag.String("out", "", "output directory (coq/theories/Gen)")
	flag.Parse()
	if *out == "" {
		die("-out required")
	}

	// ---------------------------------------------------------------- keeper hook
	hf := parse(filepath.Join(*repo, "x/aggregate/keeper/ibc_hook.go"))
	hk := method(hf, "Keeper", "OnRecvPacket")
	if hk == nil || hk.Body == nil {
		die("x/aggregate/keeper/ibc_hook.go: method (Keeper).OnRecvPacket not found")
	}
	params := paramNames(hk)
	if len(params) != 3 {
		die("(Keeper).OnRecvPacket: expected 3 parameters (ctx, packet, ack), found %d", len(params))
	}
	w := &hookWalk{ctx: params[0], pkt: params[1], ack: params[2], errSrc: map[string]string{}}
	for _, st := range hk.Body.List {
		w.stmt(st)
	}
	reassigned := false
	writeCalls := 0
	ast.Inspect(hk.Body, func(n ast.Node) bool {
		switch s := n.(type) {
		case *ast.AssignStmt:
			for _, l := range s.Lhs {
				if isIdent(l, w.ack) {
					reassigned = true
				}
			}
		case *ast.IncDecStmt:
			if isIdent(s.X, w.ack) {
				reassigned = true
			}
		case *ast.UnaryExpr:
			if s.Op == token.AND && isIdent(s.X, w.ack) {
				reassigned = true // address taken: may be written through the pointer
			}
		case *ast.CallExpr:
			if isIdent(s.Fun, w.writeFn) {
				writeCalls++
			}
		}
		return true
	})

	// ---------------------------------------------------------------- middleware
	mf := parse(filepath.Join(*repo, "x/aggregate/ibc_middleware.go"))
	mw := method(mf, "IBCMiddleware", "OnRecvPacket")
	if mw == nil || mw.Body == nil {
		die("x/aggregate/ibc_middleware.go: method (IBCMiddleware).OnRecvPacket not found")
	}
	embedded, keeperField := mwFields(mf)
	im := recvName(mw)
	mp := paramNames(mw)
	mwShape := false
	if l := mw.Body.List; len(l) == 3 && len(mp) == 3 && im != "" && embedded != "" && keeperField != "" {
		v := ""
		if a, ok := l[0].(*ast.AssignStmt); ok && len(a.Lhs) == 1 && len(a.Rhs) == 1 {
			if id, ok := a.Lhs[0].(*ast.Ident); ok && isFieldCall(a.Rhs[0], im, embedded, "OnRecvPacket", mp) {
				v = id.Name
			}
		}
		if s, ok := l[1].(*ast.IfStmt); ok && v != "" && s.Init == nil && s.Else == nil {
			inner := singleReturn(s.Body)
			var last ast.Expr
			if r, ok := l[2].(*ast.ReturnStmt); ok && len(r.Results) == 1 {
				last = r.Results[0]
			}
			hookArgs := []string{mp[0], mp[1], v}
			cond := unparen(s.Cond)
			if u, ok := cond.(*ast.UnaryExpr); ok && u.Op == token.NOT && isSuccessCall(u.X, v) {
				// if !v.Success() { return v }; return keeper.OnRecvPacket(ctx, packet, v)
				mwShape = inner != nil && isIdent(inner, v) && last != nil && isFieldCall(last, im, keeperField, "OnRecvPacket", hookArgs)
			} else if isSuccessCall(cond, v) {
				// if v.Success() { return keeper.OnRecvPacket(ctx, packet, v) }; return v
				mwShape = inner != nil && isFieldCall(inner, im, keeperField, "OnRecvPacket", hookArgs) && last != nil && isIdent(last, v)
			}
		}
	}
	timeoutInherited := method(mf, "IBCMiddleware", "OnTimeoutPacket") == nil
	ackShape := false
	if am := method(mf, "IBCMiddleware", "OnAcknowledgementPacket"); am != nil && am.Body != nil && embedded != "" && keeperField != "" {
		aim := recvName(am)
		ap := paramNames(am)
		l := am.Body.List
		if len(ap) == 4 && aim != "" {
			// [if err := W.OnAck(p...); err != nil { return err }]  or  [err := W.OnAck(p...); if err != nil { return err }]
			var call ast.Expr
			var ifs *ast.IfStmt
			errName := ""
			rest := l
			if len(l) >= 1 {
				if s, ok := l[0].(*ast.IfStmt); ok && s.Init != nil {
					if a, ok := s.Init.(*ast.AssignStmt); ok && len(a.Lhs) == 1 && len(a.Rhs) == 1 {
						if id, ok := a.Lhs[0].(*ast.Ident); ok {
							errName, call, ifs, rest = id.Name, a.Rhs[0], s, l[1:]
						}
					}
				} else if a, ok := l[0].(*ast.AssignStmt); ok && len(l) >= 2 && len(a.Lhs) == 1 && len(a.Rhs) == 1 {
					if id, ok := a.Lhs[0].(*ast.Ident); ok {
						if s, ok := l[1].(*ast.IfStmt); ok && s.Init == nil {
							errName, call, ifs, rest = id.Name, a.Rhs[0], s, l[2:]
						}
					}
				}
			}
			if ifs != nil && ifs.Else == nil && call != nil && isFieldCall(call, aim, embedded, "OnAcknowledgementPacket", ap) {
				condOK := false
				if b, ok := unparen(ifs.Cond).(*ast.BinaryExpr); ok && b.Op == token.NEQ && isIdent(b.X, errName) && isIdent(b.Y, "nil") {
					condOK = true
				}
				inner := singleReturn(ifs.Body)
				if condOK && inner != nil && isIdent(inner, errName) && len(rest) == 1 {
					if r, ok := rest[0].(*ast.ReturnStmt); ok && len(r.Results) == 1 {
						ackShape = isFieldCall(r.Results[0], aim, keeperField, "OnAcknowledgementPacket", ap[:3])
					}
				}
			}
		}
	}
	// the keeper's acknowledgement hook does nothing
	keeperAckNoop := false
	if ka := method(hf, "Keeper", "OnAcknowledgementPacket"); ka != nil && ka.Body != nil {
		if e := singleReturn(ka.Body); e != nil && isIdent(e, "nil") {
			keeperAckNoop = true
		}
	}

	var b strings.Builder
	b.WriteString("(** GENERATED by tools/gotocoq/ics20hook from x/aggregate/keeper/ibc_hook.go and x/aggregate/ibc_middleware.go.\n    Do not edit. *)\n")
	b.WriteString("From Coq Require Import List.\nImport ListNotations.\n\n")
	b.WriteString("Inductive src_return := SrcAck | SrcNil | SrcOther.\n")
	b.WriteString("Inductive src_guard := GDecode | GAmount | GRecvLen | GDenomErr | GNotRegistered | GConvertErr | GOther.\n")
	b.WriteString("Inductive src_stmt :=\n| SGuard (g : src_guard) (r : src_return)\n| SConvert (on_cache_ctx msg_from_packet : bool)\n| SWrite\n| SReturn (r : src_return)\n| SOther.\n\n")
	b.WriteString("(** the statements of (Keeper).OnRecvPacket that matter, in source order *)\n")
	fmt.Fprintf(&b, "Definition src_hook : list src_stmt := [%s].\n", strings.Join(w.out, "; "))
	fmt.Fprintf(&b, "Definition src_hook_ack_reassigned : bool := %s.\n", coqBool(reassigned))
	fmt.Fprintf(&b, "Definition src_hook_denom_from_dest : bool := %s.\n", coqBool(w.denomFromDest))
	fmt.Fprintf(&b, "Definition src_hook_write_calls : nat := %d.\n", writeCalls)
	fmt.Fprintf(&b, "Definition src_mw_recv_shape : bool := %s.\n", coqBool(mwShape))
	fmt.Fprintf(&b, "Definition src_mw_timeout_inherited : bool := %s.\n", coqBool(timeoutInherited))
	fmt.Fprintf(&b, "Definition src_mw_ack_shape : bool := %s.\n", coqBool(ackShape))
	fmt.Fprintf(&b, "Definition src_keeper_ack_noop : bool := %s.\n", coqBool(keeperAckNoop))

	path := filepath.Join(*out, "Ics20HookGen.v")
	if old, err := os.ReadFile(path); err == nil && string(old) == b.String() {
		return
	}
	if err := os.MkdirAll(*out, 0o755); err != nil {
		die("%v", err)
	}
	if err := os.WriteFile(path, []byte(b.String()), 0o644); err != nil {
		die("%v", err)
	}
}
