// ics20hook: regenerates the SHAPE of the aggregate ICS-20 receive path from the Go source (property C16)
// -> Gen/Ics20HookGen.v
//
// The functions are not matched against statement patterns: they are EXECUTED SYMBOLICALLY (interp.go) and what is
// emitted is the decision tree of the execution:
//
//	TGuard g fail ok   a test whose outcome is not known on this path; g is found by DATA FLOW (which call produced the
//	                   tested value): GDecode (error of ...UnmarshalJSON(packet data, &data)), GAmount (the ok of
//	                   sdk.NewIntFromString(data.Amount)), GRecvLen (len of the AccAddressFromBech32(data.Receiver) result
//	                   against common.AddressLength / 20), GDenomErr (error of types.IBCDenom), GNotRegistered
//	                   (k.IsDenomRegistered(ctx, <IBCDenom result>)), GConvertErr (error of k.ConvertCoin), GAckNotSuccess
//	                   (<wrapped module's acknowledgement>.Success()), GAppErr / GKeeperErr (error returned by the wrapped
//	                   module's / the keeper's callback), GOther; [fail] is the subtree in which the test FAILED (error
//	                   non-nil, not ok, not registered, length differs, acknowledgement not successful), [ok] the other one
//	TConvert c m t     k.ConvertCoin: c = its context is sdk.WrapSDKContext(<first result of the parameter ctx's
//	                   CacheContext()>), m = its message is NewMsgConvertCoin(NewCoin(<IBCDenom result>, <NewIntFromString
//	                   result>), BytesToAddress(<receiver>[.Bytes()]), <receiver>)
//	TWrite t           a call of the second result of that CacheContext()
//	TRet r             return: SrcAck (the acknowledgement parameter / the wrapped module's acknowledgement), SrcNil,
//	                   SrcHook (the keeper hook called with (ctx, packet, that acknowledgement)), SrcAppErr / SrcKeeperErr
//	                   (the non-nil error of the wrapped module's / keeper's callback), SrcOther
//	TOther             anything outside the subset (loops, defer, an unknown call that is handed the context or the keeper...)
//
// The interpreter follows local closures (`fail := func(reason string) ack {...}`: executed at the call sites, lexical
// scoping), unexported and exported helper functions / methods of the same package called from the function, transitively,
// with parameter substitution (a helper that returns an error which the caller turns into the failure event has the same
// tree as the inlined code, because the nil-ness of every error value is tracked per path), `switch {}` and if / else /
// if-with-init, early-return and nested forms, local aliases (`underlying := m.app`), && and ||.  Event bookkeeping
// (EmitTypedEvent, EmitEvents, assignments to fields of local values, loggers) is skipped.  Variable, parameter, function
// and receiver NAMES do not matter.
//
// Sources (relative to -repo):
//
//	x/aggregate/keeper/ibc_hook.go  (Keeper).OnRecvPacket -> src_hook;  (Keeper).OnAcknowledgementPacket is `return nil`
//	x/aggregate/ibc_middleware.go   (IBCMiddleware).OnRecvPacket -> src_mw_recv, OnAcknowledgementPacket -> src_mw_ack,
//	                                OnTimeoutPacket must NOT be declared (inherited from *ibc.Module)
//	ibc/module.go                   (Module).OnRecvPacket / OnAcknowledgementPacket / OnTimeoutPacket -> src_module_*
//
// Proofs/Ics20Source.v flattens src_hook to the guard list, normalises it ([shape_of]) to the two parameters of the hook
// model and compares the other trees with the expected ones; Props/C16.v proves that the regenerated shape is the
// model's.  A missing function / unparsable file is a failed tie (exit 1).
package main

import (
	"flag"
	"fmt"
	"go/ast"
	"go/token"
	"os"
	"path/filepath"
	"strings"
)

func die(f string, a ...interface{}) {
	fmt.Fprintf(os.Stderr, "ics20hook: "+f+"\n", a...)
	os.Exit(1)
}

func coqBool(b bool) string {
	if b {
		return "true"
	}
	return "false"
}

// names of the embedded *ibc.Module field and of the keeper field of struct IBCMiddleware
func mwFields(p *pkg) (embedded, keeper string) {
	for _, f := range p.files {
		for _, d := range f.Decls {
			g, ok := d.(*ast.GenDecl)
			if !ok {
				continue
			}
			for _, sp := range g.Specs {
				ts, ok := sp.(*ast.TypeSpec)
				if !ok || ts.Name.Name != "IBCMiddleware" {
					continue
				}
				st, ok := ts.Type.(*ast.StructType)
				if !ok {
					continue
				}
				for _, fl := range st.Fields.List {
					t := fl.Type
					if s, ok := t.(*ast.StarExpr); ok {
						t = s.X
					}
					sel, isSel := t.(*ast.SelectorExpr)
					if len(fl.Names) == 0 && isSel && sel.Sel.Name == "Module" {
						embedded = sel.Sel.Name
					}
					if len(fl.Names) == 1 && isSel && sel.Sel.Name == "Keeper" {
						keeper = fl.Names[0].Name
					}
				}
			}
		}
	}
	return
}

// the single field of struct Module whose type is an IBCModule interface
func moduleField(p *pkg) string {
	for _, f := range p.files {
		for _, d := range f.Decls {
			g, ok := d.(*ast.GenDecl)
			if !ok {
				continue
			}
			for _, sp := range g.Specs {
				ts, ok := sp.(*ast.TypeSpec)
				if !ok || ts.Name.Name != "Module" {
					continue
				}
				if st, ok := ts.Type.(*ast.StructType); ok && len(st.Fields.List) == 1 && len(st.Fields.List[0].Names) == 1 {
					if sel, ok := st.Fields.List[0].Type.(*ast.SelectorExpr); ok && sel.Sel.Name == "IBCModule" {
						return st.Fields.List[0].Names[0].Name
					}
				}
			}
		}
	}
	return ""
}

func main() {
	repo := flag.String("repo", "/repo", "repository root")
	out := flag.String("out", "", "output directory (coq/theories/Gen)")
	flag.Parse()
	if *out == "" {
		die("-out required")
	}

	// ---------------------------------------------------------------- keeper hook
	kp := loadPkg(filepath.Join(*repo, "x/aggregate/keeper"))
	hk := kp.methods["Keeper.OnRecvPacket"]
	if hk == nil || hk.Body == nil {
		die("x/aggregate/keeper: method (Keeper).OnRecvPacket not found")
	}
	if n := len(paramNames(hk)); n != 3 {
		die("(Keeper).OnRecvPacket: expected 3 parameters (ctx, packet, ack), found %d", n)
	}
	hin := &interp{p: kp, mode: modeHook}
	hookTree := hin.run(hk)
	reassigned := false
	ackName := paramNames(hk)[2]
	ast.Inspect(hk.Body, func(n ast.Node) bool {
		switch s := n.(type) {
		case *ast.AssignStmt:
			for _, l := range s.Lhs {
				if id, ok := l.(*ast.Ident); ok && id.Name == ackName && s.Tok != token.DEFINE {
					reassigned = true
				}
			}
		case *ast.UnaryExpr:
			if id, ok := s.X.(*ast.Ident); ok && s.Op == token.AND && id.Name == ackName {
				reassigned = true // address taken: may be written through the pointer
			}
		}
		return true
	})
	keeperAckNoop := false
	if ka := kp.methods["Keeper.OnAcknowledgementPacket"]; ka != nil && ka.Body != nil {
		kin := &interp{p: kp, mode: modeHook}
		keeperAckNoop = kin.run(ka).String() == "TRet SrcNil"
	}

	// ---------------------------------------------------------------- middleware
	mp := loadPkg(filepath.Join(*repo, "x/aggregate"))
	mw := mp.methods["IBCMiddleware.OnRecvPacket"]
	if mw == nil || mw.Body == nil {
		die("x/aggregate: method (IBCMiddleware).OnRecvPacket not found")
	}
	embedded, keeperField := mwFields(mp)
	mwRecv := (&interp{p: mp, mode: modeWrap, wrapped: embedded, keeperField: keeperField}).run(mw)
	mwAck := &tree{kind: "other"}
	if am := mp.methods["IBCMiddleware.OnAcknowledgementPacket"]; am != nil && am.Body != nil {
		mwAck = (&interp{p: mp, mode: modeWrap, wrapped: embedded, keeperField: keeperField}).run(am)
	}
	timeoutInherited := mp.methods["IBCMiddleware.OnTimeoutPacket"] == nil

	// ---------------------------------------------------------------- ibc.Module
	ip := loadPkg(filepath.Join(*repo, "ibc"))
	app := moduleField(ip)
	modTree := func(name string) *tree {
		fd := ip.methods["Module."+name]
		if fd == nil || fd.Body == nil || app == "" {
			return &tree{kind: "other"}
		}
		return (&interp{p: ip, mode: modeWrap, wrapped: app}).run(fd)
	}

	var b strings.Builder
	b.WriteString("(** GENERATED by tools/gotocoq/ics20hook from x/aggregate/keeper/ibc_hook.go, x/aggregate/ibc_middleware.go and\n    ibc/module.go (symbolic execution; helpers and closures inlined).  Do not edit. *)\n")
	b.WriteString("From Coq Require Import List.\nImport ListNotations.\n\n")
	b.WriteString("Inductive src_return := SrcAck | SrcNil | SrcHook | SrcAppErr | SrcKeeperErr | SrcOther.\n")
	b.WriteString("Inductive src_guard := GDecode | GAmount | GRecvLen | GDenomErr | GNotRegistered | GConvertErr | GAckNotSuccess\n  | GAppErr | GKeeperErr | GOther.\n")
	b.WriteString("Inductive src_tree :=\n| TRet (r : src_return)\n| TGuard (g : src_guard) (fail ok : src_tree)\n| TConvert (on_cache_ctx msg_from_packet : bool) (t : src_tree)\n| TWrite (t : src_tree)\n| TOther.\n\n")
	b.WriteString("(** decision tree of (Keeper).OnRecvPacket *)\n")
	fmt.Fprintf(&b, "Definition src_hook : src_tree :=\n  %s.\n", hookTree)
	fmt.Fprintf(&b, "Definition src_hook_ack_reassigned : bool := %s.\n", coqBool(reassigned))
	fmt.Fprintf(&b, "Definition src_hook_denom_from_dest : bool := %s.\n", coqBool(hin.denomCalls > 0 && hin.denomAllDest))
	fmt.Fprintf(&b, "Definition src_keeper_ack_noop : bool := %s.\n", coqBool(keeperAckNoop))
	b.WriteString("(** decision trees of (IBCMiddleware).OnRecvPacket / OnAcknowledgementPacket *)\n")
	fmt.Fprintf(&b, "Definition src_mw_recv : src_tree :=\n  %s.\n", mwRecv)
	fmt.Fprintf(&b, "Definition src_mw_ack : src_tree :=\n  %s.\n", mwAck)
	fmt.Fprintf(&b, "Definition src_mw_timeout_inherited : bool := %s.\n", coqBool(timeoutInherited))
	b.WriteString("(** decision trees of the callbacks of ibc.Module *)\n")
	fmt.Fprintf(&b, "Definition src_module_recv : src_tree :=\n  %s.\n", modTree("OnRecvPacket"))
	fmt.Fprintf(&b, "Definition src_module_ack : src_tree :=\n  %s.\n", modTree("OnAcknowledgementPacket"))
	fmt.Fprintf(&b, "Definition src_module_timeout : src_tree :=\n  %s.\n", modTree("OnTimeoutPacket"))

	path := filepath.Join(*out, "Ics20HookGen.v")
	if old, err := os.ReadFile(path); err == nil && string(old) == b.String() {
		return
	}
	if err := os.MkdirAll(*out, 0o755); err != nil {
		die("%v", err)
	}
	if err := os.WriteFile(path, []byte(b.String()), 0o644); err != nil {
		die("%v", err)
	}
}
