// ics20hook: regenerates the SHAPE of the aggregate ICS-20 receive path from the Go source (property C16)
// -> Gen/Ics20HookGen.v
//
// Sources (relative to -repo):
//
//	x/aggregate/keeper/ibc_hook.go : method (Keeper).OnRecvPacket(ctx, packet, ack)
//	    - every return statement, in source order: does it return the `ack` parameter, nil, or something else;
//	    - is the `ack` parameter ever assigned to;
//	    - is there a guard `if len(receiver) != common.AddressLength { ... return ... }` before the conversion;
//	    - is ConvertCoin called on the context wrapped from the FIRST result of ctx.CacheContext() and is the
//	      SECOND result (write) called exactly once, at top level, AFTER the statement that tests ConvertCoin's error;
//	x/aggregate/ibc_middleware.go : method (IBCMiddleware).OnRecvPacket
//	    - statement 1 assigns the wrapped module's OnRecvPacket to a variable, statement 2 is
//	      `if !<var>.Success() { return <var> }`, statement 3 returns im.keeper.OnRecvPacket(ctx, packet, <var>);
//	    - OnTimeoutPacket is NOT declared on IBCMiddleware (inherited from *ibc.Module); OnAcknowledgementPacket
//	      calls the wrapped module first and returns its error.
//
// The model (Model/Ics20.v) takes the two repair parameters of the hook ([chk20], [ret]) from this file through
// Proofs/Ics20Source.v; Props/C16.v proves that the regenerated shape is the one the theorems are about.
// Anything the translator does not recognise is reported as "other" (the obligation then fails) — a missing function
// or an unparsable file is a failed tie (exit 1).
package main

import (
	"bytes"
	"flag"
	"fmt"
	"go/ast"
	"go/parser"
	"go/printer"
	"go/token"
	"os"
	"path/filepath"
	"strings"
)

func die(f string, a ...interface{}) {
	fmt.Fprintf(os.Stderr, "ics20hook: "+f+"\n", a...)
	os.Exit(1)
}

var fset = token.NewFileSet()

func src(n ast.Node) string {
	var b bytes.Buffer
	printer.Fprint(&b, fset, n)
	return strings.Join(strings.Fields(b.String()), " ")
}

func method(f *ast.File, recv, name string) *ast.FuncDecl {
	for _, d := range f.Decls {
		fd, ok := d.(*ast.FuncDecl)
		if !ok || fd.Name.Name != name || fd.Recv == nil || len(fd.Recv.List) != 1 {
			continue
		}
		t := fd.Recv.List[0].Type
		if s, ok := t.(*ast.StarExpr); ok {
			t = s.X
		}
		if id, ok := t.(*ast.Ident); ok && id.Name == recv {
			return fd
		}
	}
	return nil
}

func parse(path string) *ast.File {
	f, err := parser.ParseFile(fset, path, nil, 0)
	if err != nil {
		die("%v", err)
	}
	return f
}

func coqBool(b bool) string {
	if b {
		return "true"
	}
	return "false"
}

func isIdent(e ast.Expr, name string) bool {
	id, ok := e.(*ast.Ident)
	return ok && id.Name == name
}

func main() {
	repo := flag.String("repo", "/repo", "repository root")
	out := flag.String("out", "", "output directory (coq/theories/Gen)")
	flag.Parse()
	if *out == "" {
		die("-out required")
	}

	// ---------------------------------------------------------------- keeper hook
	hf := parse(filepath.Join(*repo, "x/aggregate/keeper/ibc_hook.go"))
	hk := method(hf, "Keeper", "OnRecvPacket")
	if hk == nil || hk.Body == nil {
		die("x/aggregate/keeper/ibc_hook.go: method (Keeper).OnRecvPacket not found")
	}
	var params []string
	for _, p := range hk.Type.Params.List {
		for _, n := range p.Names {
			params = append(params, n.Name)
		}
	}
	if len(params) != 3 {
		die("(Keeper).OnRecvPacket: expected 3 parameters (ctx, packet, ack), found %d", len(params))
	}
	ctxName, ackName := params[0], params[2]

	var returns []string // "ack" | "nil" | "other"
	reassigned := false
	ast.Inspect(hk.Body, func(n ast.Node) bool {
		switch s := n.(type) {
		case *ast.FuncLit:
			returns = append(returns, "other") // a closure with its own returns: outside the subset
			return false
		case *ast.ReturnStmt:
			k := "other"
			if len(s.Results) == 1 {
				if isIdent(s.Results[0], ackName) {
					k = "ack"
				} else if isIdent(s.Results[0], "nil") {
					k = "nil"
				}
			}
			returns = append(returns, k)
		case *ast.AssignStmt:
			for _, l := range s.Lhs {
				if isIdent(l, ackName) {
					reassigned = true
				}
			}
		case *ast.IncDecStmt:
			if isIdent(s.X, ackName) {
				reassigned = true
			}
		case *ast.UnaryExpr:
			if s.Op == token.AND && isIdent(s.X, ackName) {
				reassigned = true // address taken: may be written through the pointer
			}
		}
		return true
	})

	// top-level statements: cache context, receiver-length guard, ConvertCoin, its error test, write()
	cacheCtx, writeFn, wrapped := "", "", ""
	lenGuard, convertOnCache := false, false
	convertIdx, errTestIdx, writeIdx, writeCalls := -1, -1, -1, 0
	for i, st := range hk.Body.List {
		switch s := st.(type) {
		case *ast.AssignStmt:
			if len(s.Lhs) == 2 && len(s.Rhs) == 1 && src(s.Rhs[0]) == ctxName+".CacheContext()" {
				if a, ok := s.Lhs[0].(*ast.Ident); ok {
					cacheCtx = a.Name
				}
				if b, ok := s.Lhs[1].(*ast.Ident); ok {
					writeFn = b.Name
				}
			}
			if len(s.Lhs) == 1 && len(s.Rhs) == 1 && cacheCtx != "" && src(s.Rhs[0]) == "sdk.WrapSDKContext("+cacheCtx+")" {
				if a, ok := s.Lhs[0].(*ast.Ident); ok {
					wrapped = a.Name
				}
			}
			if len(s.Rhs) == 1 {
				if c, ok := s.Rhs[0].(*ast.CallExpr); ok && strings.HasSuffix(src(c.Fun), ".ConvertCoin") {
					convertIdx = i
					convertOnCache = len(c.Args) == 2 && wrapped != "" && isIdent(c.Args[0], wrapped)
				}
			}
		case *ast.IfStmt:
			cond := src(s.Cond)
			hasReturn := false
			ast.Inspect(s.Body, func(n ast.Node) bool {
				if _, ok := n.(*ast.ReturnStmt); ok {
					hasReturn = true
				}
				return true
			})
			if cond == "len(receiver) != common.AddressLength" && hasReturn && convertIdx < 0 && s.Init == nil && s.Else == nil {
				lenGuard = true
			}
			if convertIdx >= 0 && errTestIdx < 0 && cond == "err != nil" && hasReturn && s.Init == nil && s.Else == nil {
				errTestIdx = i
			}
		case *ast.ExprStmt:
			if c, ok := s.X.(*ast.CallExpr); ok && writeFn != "" && isIdent(c.Fun, writeFn) && len(c.Args) == 0 {
				writeIdx = i
			}
		}
	}
	// count write() calls now that its name is known
	writeCalls = 0
	ast.Inspect(hk.Body, func(n ast.Node) bool {
		if c, ok := n.(*ast.CallExpr); ok && writeFn != "" && isIdent(c.Fun, writeFn) {
			writeCalls++
		}
		return true
	})
	writeAfter := convertIdx >= 0 && errTestIdx > convertIdx && writeIdx > errTestIdx && writeCalls == 1

	// ---------------------------------------------------------------- middleware
	mf := parse(filepath.Join(*repo, "x/aggregate/ibc_middleware.go"))
	mw := method(mf, "IBCMiddleware", "OnRecvPacket")
	if mw == nil || mw.Body == nil {
		die("x/aggregate/ibc_middleware.go: method (IBCMiddleware).OnRecvPacket not found")
	}
	mwShape := false
	if l := mw.Body.List; len(l) == 3 {
		v := ""
		if a, ok := l[0].(*ast.AssignStmt); ok && len(a.Lhs) == 1 && len(a.Rhs) == 1 && a.Tok == token.DEFINE {
			if id, ok := a.Lhs[0].(*ast.Ident); ok && src(a.Rhs[0]) == "im.Module.OnRecvPacket(ctx, packet, relayer)" {
				v = id.Name
			}
		}
		okIf := false
		if s, ok := l[1].(*ast.IfStmt); ok && v != "" && s.Init == nil && s.Else == nil && src(s.Cond) == "!"+v+".Success()" &&
			len(s.Body.List) == 1 && src(s.Body.List[0]) == "return "+v {
			okIf = true
		}
		okRet := v != "" && src(l[2]) == "return im.keeper.OnRecvPacket(ctx, packet, "+v+")"
		mwShape = v != "" && okIf && okRet
	}
	timeoutInherited := method(mf, "IBCMiddleware", "OnTimeoutPacket") == nil
	ackShape := false
	if am := method(mf, "IBCMiddleware", "OnAcknowledgementPacket"); am != nil && am.Body != nil && len(am.Body.List) == 2 {
		s0 := src(am.Body.List[0])
		s1 := src(am.Body.List[1])
		ackShape = s0 == "if err := im.Module.OnAcknowledgementPacket(ctx, packet, acknowledgement, relayer); err != nil { return err }" &&
			s1 == "return im.keeper.OnAcknowledgementPacket(ctx, packet, acknowledgement)"
	}
	// the keeper's acknowledgement hook does nothing
	keeperAckNoop := false
	if ka := method(hf, "Keeper", "OnAcknowledgementPacket"); ka != nil && ka.Body != nil && len(ka.Body.List) == 1 {
		keeperAckNoop = src(ka.Body.List[0]) == "return nil"
	}

	var b strings.Builder
	b.WriteString("(** GENERATED by tools/gotocoq/ics20hook from x/aggregate/keeper/ibc_hook.go and x/aggregate/ibc_middleware.go.\n    Do not edit. *)\n")
	b.WriteString("From Coq Require Import List.\nImport ListNotations.\n\n")
	b.WriteString("(** what each return statement of (Keeper).OnRecvPacket returns, in source order *)\n")
	b.WriteString("Inductive src_return := SrcAck | SrcNil | SrcOther.\n")
	var rs []string
	for _, r := range returns {
		rs = append(rs, map[string]string{"ack": "SrcAck", "nil": "SrcNil", "other": "SrcOther"}[r])
	}
	fmt.Fprintf(&b, "Definition src_hook_returns : list src_return := [%s].\n", strings.Join(rs, "; "))
	fmt.Fprintf(&b, "Definition src_hook_ack_reassigned : bool := %s.\n", coqBool(reassigned))
	fmt.Fprintf(&b, "Definition src_hook_len_guard : bool := %s.\n", coqBool(lenGuard))
	fmt.Fprintf(&b, "Definition src_hook_convert_on_cache_ctx : bool := %s.\n", coqBool(convertOnCache))
	fmt.Fprintf(&b, "Definition src_hook_write_once_after_error_test : bool := %s.\n", coqBool(writeAfter))
	fmt.Fprintf(&b, "Definition src_mw_recv_shape : bool := %s.\n", coqBool(mwShape))
	fmt.Fprintf(&b, "Definition src_mw_timeout_inherited : bool := %s.\n", coqBool(timeoutInherited))
	fmt.Fprintf(&b, "Definition src_mw_ack_shape : bool := %s.\n", coqBool(ackShape))
	fmt.Fprintf(&b, "Definition src_keeper_ack_noop : bool := %s.\n", coqBool(keeperAckNoop))

	path := filepath.Join(*out, "Ics20HookGen.v")
	if old, err := os.ReadFile(path); err == nil && string(old) == b.String() {
		return
	}
	if err := os.MkdirAll(*out, 0o755); err != nil {
		die("%v", err)
	}
	if err := os.WriteFile(path, []byte(b.String()), 0o644); err != nil {
		die("%v", err)
	}
}
