// erc20abi: regenerates (property C11)
//
//  1. the function inventory of the ERC-20 contract the aggregate module deploys for registered coins — name, input
//     types, output types, state-changing or not — from the compiled contract's ABI.  The JSON file is the one
//     embedded into syscontracts.ERC20MinterBurnerDecimalsJSON (the //go:embed directive in syscontracts/contracts.go
//     is read, not assumed);
//  2. the EVM calls x/aggregate/keeper/msg_server.go issues to token contracts: for every call of k.CallEVM /
//     k.CallEVMWithData the enclosing function, the contract method (a string literal; for CallEVMWithData the
//     literal of the <abi>.Pack(...) call that produced the data argument) and who the call is sent FROM
//     (0 = types.ModuleAddress, directly or through a local variable initialised with it; 1 = a parameter of the
//     enclosing function of type common.Address, i.e. the Ethereum-side party of the message; 2 = anything else).
//
// -> Gen/Erc20AbiGen.v.  Proofs/ConvertAbi.v checks (vm_compute on the regenerated terms) that every call the model
// (Model/Convert.v) lets the module or anybody else make exists in the ABI with the signature the model assumes, that
// every state-changing function of the ABI is either in the model's call alphabet or role-gated administration, and
// that the module's call sites are the model's (method, from) pairs.
//
// Exit 1 (a failed tie, never a silent skip): unreadable / unparsable sources, no embed directive, an ABI entry
// with unknown type or mutability, overloaded names, a CallEVM whose method is not a string literal, a
// CallEVMWithData whose data argument cannot be traced to a Pack("literal", ...) in the same function.
package main

import (
	"bytes"
	"encoding/json"
	"flag"
	"fmt"
	"go/ast"
	"go/parser"
	"go/token"
	"os"
	"path/filepath"
	"regexp"
	"sort"
	"strconv"
	"strings"
)

func die(f string, a ...interface{}) {
	fmt.Fprintf(os.Stderr, "erc20abi: "+f+"\n", a...)
	os.Exit(1)
}

func coqBytes(s string) string {
	if len(s) == 0 {
		return "[]"
	}
	parts := make([]string, len(s))
	for i := 0; i < len(s); i++ {
		parts[i] = fmt.Sprintf("x%02x", s[i])
	}
	return "[" + strings.Join(parts, ";") + "]"
}

func coqList(xs []string) string { return "[" + strings.Join(xs, "; ") + "]" }

var nameRe = regexp.MustCompile(`^[A-Za-z0-9_]+$`)
var typeRe = regexp.MustCompile(`^[a-z0-9\[\]]+$`)

type param struct {
	Type string `json:"type"`
}
type entry struct {
	Type            string  `json:"type"`
	Name            string  `json:"name"`
	StateMutability string  `json:"stateMutability"`
	Inputs          []param `json:"inputs"`
	Outputs         []param `json:"outputs"`
}

// embedPath finds the //go:embed path of variable `name` in syscontracts/contracts.go
func embedPath(repo, name string) string {
	fset := token.NewFileSet()
	p := filepath.Join(repo, "syscontracts", "contracts.go")
	f, err := parser.ParseFile(fset, p, nil, parser.ParseComments)
	if err != nil {
		die("%v", err)
	}
	for _, d := range f.Decls {
		gd, ok := d.(*ast.GenDecl)
		if !ok || gd.Tok != token.VAR {
			continue
		}
		for _, sp := range gd.Specs {
			vs := sp.(*ast.ValueSpec)
			for _, id := range vs.Names {
				if id.Name != name {
					continue
				}
				doc := vs.Doc
				if doc == nil {
					doc = gd.Doc
				}
				if doc != nil {
					for _, c := range doc.List {
						if strings.HasPrefix(c.Text, "//go:embed ") {
							return filepath.Join(repo, "syscontracts", strings.TrimSpace(strings.TrimPrefix(c.Text, "//go:embed ")))
						}
					}
				}
				die("%s: variable %s has no //go:embed directive", p, name)
			}
		}
	}
	die("%s: variable %s not found", p, name)
	return ""
}

func abiInventory(path string) []string {
	raw, err := os.ReadFile(path)
	if err != nil {
		die("%v", err)
	}
	var top map[string]json.RawMessage
	if err := json.Unmarshal(raw, &top); err != nil {
		die("%s: %v", path, err)
	}
	abiRaw, ok := top["abi"]
	if !ok {
		die("%s: no abi field", path)
	}
	var asString string
	if json.Unmarshal(abiRaw, &asString) == nil {
		abiRaw = json.RawMessage(asString)
	}
	var entries []entry
	if err := json.Unmarshal(abiRaw, &entries); err != nil {
		die("%s: abi: %v", path, err)
	}
	seen := map[string]bool{}
	var items []string
	for _, e := range entries {
		switch e.Type {
		case "function":
		case "event", "constructor", "error":
			continue
		case "receive", "fallback":
			die("%s: %s entry: an entry point outside the function inventory", path, e.Type)
		default:
			die("%s: unknown ABI entry type %q", path, e.Type)
		}
		if !nameRe.MatchString(e.Name) {
			die("%s: method name %q outside [A-Za-z0-9_]+", path, e.Name)
		}
		if seen[e.Name] {
			die("%s: overloaded method %q", path, e.Name)
		}
		seen[e.Name] = true
		mut := ""
		switch e.StateMutability {
		case "view", "pure":
			mut = "false"
		case "nonpayable", "payable":
			mut = "true"
		default:
			die("%s: method %s: unknown stateMutability %q", path, e.Name, e.StateMutability)
		}
		tys := func(ps []param) string {
			var xs []string
			for _, p := range ps {
				if !typeRe.MatchString(p.Type) {
					die("%s: method %s: type %q outside the elementary types", path, e.Name, p.Type)
				}
				xs = append(xs, coqBytes(p.Type))
			}
			return coqList(xs)
		}
		items = append(items, fmt.Sprintf("(%s, (%s, (%s, %s))) (* %s *)", coqBytes(e.Name), tys(e.Inputs), tys(e.Outputs), mut, e.Name))
	}
	sort.Slice(items, func(i, j int) bool {
		return items[i][strings.LastIndex(items[i], "(*"):] < items[j][strings.LastIndex(items[j], "(*"):]
	})
	return items
}

func strLit(e ast.Expr) (string, bool) {
	bl, ok := e.(*ast.BasicLit)
	if !ok || bl.Kind != token.STRING {
		return "", false
	}
	s, err := strconv.Unquote(bl.Value)
	return s, err == nil
}

func isModuleAddress(e ast.Expr) bool {
	x, ok := e.(*ast.SelectorExpr)
	if !ok {
		return false
	}
	id, ok := x.X.(*ast.Ident)
	return ok && id.Name == "types" && x.Sel.Name == "ModuleAddress"
}

// fromKind classifies the `from` argument of an EVM call inside fd
func fromKind(fd *ast.FuncDecl, e ast.Expr) int {
	if isModuleAddress(e) {
		return 0
	}
	id, ok := e.(*ast.Ident)
	if !ok {
		return 2
	}
	// a parameter of type common.Address
	for _, f := range fd.Type.Params.List {
		se, ok := f.Type.(*ast.SelectorExpr)
		if !ok {
			continue
		}
		pk, ok := se.X.(*ast.Ident)
		if !ok || pk.Name != "common" || se.Sel.Name != "Address" {
			continue
		}
		for _, n := range f.Names {
			if n.Name == id.Name {
				return 1
			}
		}
	}
	// a local variable whose every assignment is types.ModuleAddress
	kind := 2
	ast.Inspect(fd.Body, func(n ast.Node) bool {
		as, ok := n.(*ast.AssignStmt)
		if !ok || len(as.Lhs) != len(as.Rhs) {
			return true
		}
		for i, l := range as.Lhs {
			if li, ok := l.(*ast.Ident); ok && li.Name == id.Name {
				if isModuleAddress(as.Rhs[i]) && kind != 3 {
					kind = 0
				} else {
					kind = 3
				}
			}
		}
		return true
	})
	if kind == 0 {
		return 0
	}
	return 2
}

func callSites(path string) []string {
	fset := token.NewFileSet()
	f, err := parser.ParseFile(fset, path, nil, 0)
	if err != nil {
		die("%v", err)
	}
	var items []string
	for _, d := range f.Decls {
		fd, ok := d.(*ast.FuncDecl)
		if !ok || fd.Body == nil {
			continue
		}
		// data variables produced by <x>.Pack("method", ...)
		packed := map[string]string{}
		ast.Inspect(fd.Body, func(n ast.Node) bool {
			as, ok := n.(*ast.AssignStmt)
			if !ok || len(as.Rhs) != 1 || len(as.Lhs) == 0 {
				return true
			}
			ce, ok := as.Rhs[0].(*ast.CallExpr)
			if !ok {
				return true
			}
			se, ok := ce.Fun.(*ast.SelectorExpr)
			if !ok || se.Sel.Name != "Pack" || len(ce.Args) == 0 {
				return true
			}
			if id, ok := as.Lhs[0].(*ast.Ident); ok {
				if m, ok := strLit(ce.Args[0]); ok {
					packed[id.Name] = m
				} else {
					packed[id.Name] = ""
				}
			}
			return true
		})
		ast.Inspect(fd.Body, func(n ast.Node) bool {
			ce, ok := n.(*ast.CallExpr)
			if !ok {
				return true
			}
			se, ok := ce.Fun.(*ast.SelectorExpr)
			if !ok {
				return true
			}
			pos := fset.Position(ce.Pos())
			switch se.Sel.Name {
			case "CallEVM":
				if len(ce.Args) < 5 {
					die("%s: CallEVM with %d arguments", pos, len(ce.Args))
				}
				m, ok := strLit(ce.Args[4])
				if !ok {
					die("%s: CallEVM whose method is not a string literal", pos)
				}
				items = append(items, fmt.Sprintf("(%s, (%s, %d%%nat)) (* %s: %s *)", coqBytes(fd.Name.Name), coqBytes(m), fromKind(fd, ce.Args[2]), fd.Name.Name, m))
			case "CallEVMWithData":
				if len(ce.Args) != 4 {
					die("%s: CallEVMWithData with %d arguments", pos, len(ce.Args))
				}
				id, ok := ce.Args[3].(*ast.Ident)
				if !ok || packed[id.Name] == "" {
					die("%s: CallEVMWithData whose data is not the result of a Pack(\"literal\", ...) in the same function", pos)
				}
				items = append(items, fmt.Sprintf("(%s, (%s, %d%%nat)) (* %s: %s *)", coqBytes(fd.Name.Name), coqBytes(packed[id.Name]), fromKind(fd, ce.Args[1]), fd.Name.Name, packed[id.Name]))
			}
			return true
		})
	}
	return items
}

func main() {
	repo := flag.String("repo", "/repo", "repository root")
	out := flag.String("out", "", "output directory (coq/theories/Gen)")
	flag.Parse()
	if *out == "" {
		die("-out required")
	}
	abi := abiInventory(embedPath(*repo, "ERC20MinterBurnerDecimalsJSON"))
	sites := callSites(filepath.Join(*repo, "x", "aggregate", "keeper", "msg_server.go"))
	var b bytes.Buffer
	b.WriteString("(* GENERATED by tools/gotocoq/erc20abi from the ABI embedded into syscontracts.ERC20MinterBurnerDecimalsJSON and from\n   x/aggregate/keeper/msg_server.go -- do not edit. *)\nFrom Teleport Require Import Base.Bytes.\n\n")
	b.WriteString("(* (name, (input types, (output types, state-changing))) *)\n")
	b.WriteString("Definition erc20_abi : list (bytes * (list bytes * (list bytes * bool))) :=\n  [" + strings.Join(abi, ";\n   ") + "].\n\n")
	b.WriteString("(* (enclosing function, (contract method, from)); from: 0 types.ModuleAddress, 1 a common.Address parameter of the function, 2 other *)\n")
	b.WriteString("Definition erc20_call_sites : list (bytes * (bytes * nat)) :=\n  [" + strings.Join(sites, ";\n   ") + "].\n")
	path := filepath.Join(*out, "Erc20AbiGen.v")
	if old, err := os.ReadFile(path); err == nil && bytes.Equal(old, b.Bytes()) {
		return
	}
	if err := os.WriteFile(path, b.Bytes(), 0o644); err != nil {
		die("%v", err)
	}
}
