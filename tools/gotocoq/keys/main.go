// keys: translates the store-key builders of /repo into Coq format terms (Base/Fmt.v) -> Gen/KeysGen.v
//
// Sources (relative to -repo):
//
//	x/xibc/core/host/keys.go, x/xibc/core/host/validate.go, x/xibc/core/client/types/keys.go,
//	x/xibc/core/client/types/height.go (Height.String), x/xibc/core/client/keeper/keeper.go (ClientStore,
//	RelayerStore prefixes), x/xibc/clients/light-clients/{tendermint,bsc,eth}/types/{store.go,keys.go},
//	x/aggregate/types/keys.go
//
// Subset of Go handled (anything else => exit 1, a failed tie):
//
//	string / []byte constants and package variables ([]byte("x"), []byte{c}, iota blocks), string "+",
//	fmt.Sprintf with %s %d and literal text, calls to other key builders (inlined), append of byte slices,
//	[]byte(s) / string(b) conversions, sdk.Uint64ToBigEndian(u), make([]byte,n) + binary.BigEndian.PutUint64,
//	common.LeftPadBytes(big.NewInt(c).Bytes(), n), crypto.Keccak256Hash(a, b) (emitted as the format of the
//	PRE-IMAGE, name suffixed _preimage), Height values (.GetRevisionNumber(), .GetRevisionHeight(),
//	.RevisionNumber, .RevisionHeight, %s = the String method, inlined), common.Hash under %s, struct
//	receivers / parameters whose fields are of the above types.
//
// Arguments of a format are the flattened parameters of the Go function in declaration order:
// string -> 1 (Str), []byte -> 1 (Raw), uint64 -> 1 (Dec / BE64), common.Hash -> 1 (Hex32),
// Height -> 2 (revision number, revision height), struct -> its fields flattened.
package main

import (
	"bytes"
	"flag"
	"fmt"
	"go/ast"
	"go/parser"
	"go/token"
	"os"
	"path/filepath"
	"sort"
	"strconv"
	"strings"
)

func die(f string, a ...interface{}) {
	fmt.Fprintf(os.Stderr, "keys: "+f+"\n", a...)
	os.Exit(1)
}

// ---------------------------------------------------------------------------------------------
// format items

type item struct {
	kind string // Lit Sep Str Dec BE64 Hex32 Raw
	lit  []byte
	arg  int
}

func litItems(b []byte) []item {
	// split literal text at the separator so that segments are explicit
	var out []item
	cur := []byte{}
	for _, c := range b {
		if c == '/' {
			if len(cur) > 0 {
				out = append(out, item{kind: "Lit", lit: cur})
				cur = []byte{}
			}
			out = append(out, item{kind: "Sep"})
		} else {
			cur = append(cur, c)
		}
	}
	if len(cur) > 0 {
		out = append(out, item{kind: "Lit", lit: cur})
	}
	return out
}

func normalize(its []item) []item {
	// merge adjacent literals
	var out []item
	for _, it := range its {
		if it.kind == "Lit" && len(out) > 0 && out[len(out)-1].kind == "Lit" {
			prev := out[len(out)-1]
			out[len(out)-1] = item{kind: "Lit", lit: append(append([]byte{}, prev.lit...), it.lit...)}
			continue
		}
		if it.kind == "Lit" && len(it.lit) == 0 {
			continue
		}
		out = append(out, it)
	}
	return out
}

func coqBytes(b []byte) string {
	if len(b) == 0 {
		return "[]"
	}
	parts := make([]string, len(b))
	for i, c := range b {
		parts[i] = fmt.Sprintf("x%02x", c)
	}
	return "[" + strings.Join(parts, ";") + "]"
}

func printable(b []byte) string {
	var sb strings.Builder
	for _, c := range b {
		if c >= 0x20 && c < 0x7f && c != '*' && c != '(' && c != ')' && c != '"' {
			sb.WriteByte(c)
		} else {
			sb.WriteString(fmt.Sprintf("\\x%02x", c))
		}
	}
	return sb.String()
}

func coqItems(its []item) string {
	parts := []string{}
	for _, it := range its {
		switch it.kind {
		case "Lit":
			parts = append(parts, "Lit "+coqBytes(it.lit))
		case "Sep":
			parts = append(parts, "Sep")
		case "DecSigned", "Unknown":
			// no such item in Base/Fmt.v: the SIGNED decimal of a uint64 (strconv.Itoa(int(x)), FormatInt(int64(x)), %d of
			// int(x)) is not the decimal of the uint64, and an untranslatable function has no term at all
			parts = append(parts, fmt.Sprintf("Raw %d", poisonArg))
		default:
			parts = append(parts, fmt.Sprintf("%s %d", it.kind, it.arg))
		}
	}
	return "[" + strings.Join(parts, "; ") + "]"
}

func humanItems(its []item) string {
	var sb strings.Builder
	for _, it := range its {
		switch it.kind {
		case "Lit":
			sb.WriteString(printable(it.lit))
		case "Sep":
			sb.WriteString("/")
		default:
			sb.WriteString(fmt.Sprintf("<%s %d>", it.kind, it.arg))
		}
	}
	return sb.String()
}

// ---------------------------------------------------------------------------------------------
// values of the little evaluator

type value struct {
	kind    string // frag u64 i64 (signed reinterpretation of a uint64 argument) height hash struct buf const
	items   []item
	arg     int              // u64 / hash: argument index
	arg2    int              // height: revision height index (arg = revision number index)
	fields  map[string]value // struct
	slots   []item           // buf: one entry per byte; kind "" = unset; BE64 occupies 8 consecutive slots (first holds it)
	n       int64            // const integer
	hashed  bool             // frag is a keccak pre-image
	tname   string           // struct: its type name (for method calls)
	builder bool             // frag held in a strings.Builder / bytes.Buffer variable
}

type pkg struct {
	tag    string // output prefix
	dir    string
	files  []*ast.File
	consts map[string]value         // package-level constants / variables
	funcs  map[string]*ast.FuncDecl // "Name" or "Recv.Name"
	types  map[string]*ast.StructType
}

var fset = token.NewFileSet()
var pkgs = map[string]*pkg{} // by directory (relative to repo)

// import path suffix -> package dir
var importDirs = map[string]string{
	"x/xibc/core/host":                              "x/xibc/core/host",
	"x/xibc/core/client/types":                      "x/xibc/core/client/types",
	"x/xibc/core/client/keeper":                     "x/xibc/core/client/keeper",
	"x/xibc/clients/light-clients/tendermint/types": "x/xibc/clients/light-clients/tendermint/types",
	"x/xibc/clients/light-clients/bsc/types":        "x/xibc/clients/light-clients/bsc/types",
	"x/xibc/clients/light-clients/eth/types":        "x/xibc/clients/light-clients/eth/types",
	"x/aggregate/types":                             "x/aggregate/types",
}

var tags = map[string]string{
	"x/xibc/core/host":                              "host",
	"x/xibc/core/client/types":                      "clienttypes",
	"x/xibc/core/client/keeper":                     "clientkeeper",
	"x/xibc/clients/light-clients/tendermint/types": "tm",
	"x/xibc/clients/light-clients/bsc/types":        "bsc",
	"x/xibc/clients/light-clients/eth/types":        "eth",
	"x/aggregate/types":                             "aggregate",
}

const modulePath = "github.com/teleport-network/teleport/"

func loadPkg(repo, dir string) *pkg {
	if p, ok := pkgs[dir]; ok {
		return p
	}
	p := &pkg{tag: tags[dir], dir: dir, consts: map[string]value{}, funcs: map[string]*ast.FuncDecl{}, types: map[string]*ast.StructType{}}
	pkgs[dir] = p
	ents, err := os.ReadDir(filepath.Join(repo, dir))
	if err != nil {
		die("cannot read %s: %v", dir, err)
	}
	for _, e := range ents {
		n := e.Name()
		if e.IsDir() || !strings.HasSuffix(n, ".go") || strings.HasSuffix(n, "_test.go") || strings.HasSuffix(n, "_verif.go") ||
			strings.HasSuffix(n, ".pb.gw.go") {
			continue
		}
		f, err := parser.ParseFile(fset, filepath.Join(repo, dir, n), nil, 0)
		if err != nil {
			die("parse %s/%s: %v", dir, n, err)
		}
		p.files = append(p.files, f)
	}
	for _, f := range p.files {
		for _, d := range f.Decls {
			switch d := d.(type) {
			case *ast.FuncDecl:
				name := d.Name.Name
				if d.Recv != nil && len(d.Recv.List) == 1 {
					name = recvName(d.Recv.List[0].Type) + "." + name
				}
				p.funcs[name] = d
			case *ast.GenDecl:
				if d.Tok == token.TYPE {
					for _, s := range d.Specs {
						ts := s.(*ast.TypeSpec)
						if st, ok := ts.Type.(*ast.StructType); ok {
							p.types[ts.Name.Name] = st
						}
					}
				}
			}
		}
	}
	return p
}

func recvName(e ast.Expr) string {
	switch e := e.(type) {
	case *ast.StarExpr:
		return recvName(e.X)
	case *ast.Ident:
		return e.Name
	}
	return "?"
}

func fileOf(p *pkg, pos token.Pos) *ast.File {
	for _, f := range p.files {
		if f.Pos() <= pos && pos <= f.End() {
			return f
		}
	}
	return nil
}

// resolve an import alias used in file f to a package dir ("" when external)
func importDir(f *ast.File, alias string) (string, string) {
	for _, im := range f.Imports {
		path, _ := strconv.Unquote(im.Path.Value)
		name := ""
		if im.Name != nil {
			name = im.Name.Name
		} else {
			name = path[strings.LastIndex(path, "/")+1:]
		}
		if name == alias {
			if strings.HasPrefix(path, modulePath) {
				if d, ok := importDirs[strings.TrimPrefix(path, modulePath)]; ok {
					return d, path
				}
			}
			return "", path
		}
	}
	return "", ""
}

// ---------------------------------------------------------------------------------------------
// package-level constants and variables (evaluated lazily on demand)

type ctx struct {
	repo  string
	p     *pkg
	file  *ast.File
	env   map[string]value
	where string
}

// unsupported: a construct outside the subset.  It aborts the translation of ONE function / constant (recovered by the
// caller, which emits a poisoned term for that key family only), never the whole translator.
type unsupported struct{ msg string }

func (c *ctx) fail(n ast.Node, f string, a ...interface{}) {
	pos := fset.Position(n.Pos())
	var buf bytes.Buffer
	fmt.Fprintf(&buf, f, a...)
	panic(unsupported{fmt.Sprintf("%s:%d: in %s: unsupported construct: %s", pos.Filename, pos.Line, c.where, buf.String())})
}

// poisonArg: an argument index no signature has.  A format containing [Raw poisonArg] fails every decidable side
// condition (typed / covers / key_ok), every shape lemma and the comparison with the real builder.
const poisonArg = 4095

// try runs f; an unsupported construct is returned as its message
func try(f func()) (msg string) {
	defer func() {
		if r := recover(); r != nil {
			if u, ok := r.(unsupported); ok {
				msg = u.msg
				return
			}
			panic(r)
		}
	}()
	f()
	return ""
}

func lookupConst(repo string, p *pkg, name string) (value, bool) {
	if v, ok := p.consts[name]; ok {
		return v, true
	}
	for _, f := range p.files {
		for _, d := range f.Decls {
			gd, ok := d.(*ast.GenDecl)
			if !ok || (gd.Tok != token.CONST && gd.Tok != token.VAR) {
				continue
			}
			var lastExpr ast.Expr
			for iota_, s := range gd.Specs {
				vs := s.(*ast.ValueSpec)
				for i, id := range vs.Names {
					var e ast.Expr
					if i < len(vs.Values) {
						e = vs.Values[i]
						lastExpr = e
					} else if gd.Tok == token.CONST && len(vs.Values) == 0 {
						e = lastExpr // implicit repetition inside a const block
					}
					if id.Name != name {
						continue
					}
					if e == nil {
						return value{}, false
					}
					c := &ctx{repo: repo, p: p, file: f, env: map[string]value{"iota": {kind: "const", n: int64(iota_)}}, where: "package-level " + name}
					v := c.eval(e)
					p.consts[name] = v
					return v, true
				}
			}
		}
	}
	return value{}, false
}

// ---------------------------------------------------------------------------------------------
// types of parameters

func typeString(e ast.Expr) string {
	switch e := e.(type) {
	case *ast.Ident:
		return e.Name
	case *ast.SelectorExpr:
		return typeString(e.X) + "." + e.Sel.Name
	case *ast.ArrayType:
		if e.Len == nil {
			return "[]" + typeString(e.Elt)
		}
		return "[n]" + typeString(e.Elt)
	case *ast.StarExpr:
		return "*" + typeString(e.X)
	case *ast.FuncType:
		return "func"
	case *ast.InterfaceType:
		return "interface"
	}
	return "?"
}

var skipParamTypes = map[string]bool{"sdk.KVStore": true, "sdk.Context": true, "codec.BinaryCodec": true, "func": true,
	"types.Iterator": true, "Header": true, "*Header": true, "db.Iterator": true}

// makes the value of a parameter of type t, allocating argument indices; ok=false when the type is not a key type
func (c *ctx) paramValue(t ast.Expr, next *int, desc *[]string, name string) (value, bool) {
	ts := typeString(t)
	switch ts {
	case "string":
		v := value{kind: "frag", items: []item{{kind: "Str", arg: *next}}}
		*desc = append(*desc, name+":string")
		*next++
		return v, true
	case "[]byte":
		v := value{kind: "frag", items: []item{{kind: "Raw", arg: *next}}}
		*desc = append(*desc, name+":bytes")
		*next++
		return v, true
	case "uint64":
		v := value{kind: "u64", arg: *next}
		*desc = append(*desc, name+":uint64")
		*next++
		return v, true
	case "common.Hash":
		v := value{kind: "hash", arg: *next}
		*desc = append(*desc, name+":hash32")
		*next++
		return v, true
	case "exported.Height", "clienttypes.Height", "types.Height", "Height":
		if ts == "types.Height" || ts == "Height" {
			// only the client types package's Height
			if ts == "types.Height" {
				if d, _ := importDir(c.file, "types"); d != "x/xibc/core/client/types" {
					return value{}, false
				}
			} else if c.p.dir != "x/xibc/core/client/types" {
				return value{}, false
			}
		}
		v := value{kind: "height", arg: *next, arg2: *next + 1}
		*desc = append(*desc, name+".RevisionNumber:uint64", name+".RevisionHeight:uint64")
		*next += 2
		return v, true
	}
	// struct of the same package
	if id, ok := t.(*ast.Ident); ok {
		if st, ok := c.p.types[id.Name]; ok {
			v := value{kind: "struct", fields: map[string]value{}, tname: id.Name}
			for _, f := range st.Fields.List {
				for _, fn := range f.Names {
					// the struct's file resolves the field's type
					sub := &ctx{repo: c.repo, p: c.p, file: fileOf(c.p, st.Pos()), env: c.env, where: c.where}
					fv, ok := sub.paramValue(f.Type, next, desc, name+"."+fn.Name)
					if !ok {
						return value{}, false
					}
					v.fields[fn.Name] = fv
				}
			}
			return v, true
		}
	}
	return value{}, false
}

// ---------------------------------------------------------------------------------------------
// expression evaluation

func (c *ctx) asFrag(n ast.Node, v value) []item {
	switch v.kind {
	case "frag":
		return v.items
	case "buf":
		var out []item
		for i := 0; i < len(v.slots); {
			s := v.slots[i]
			switch s.kind {
			case "BE64":
				out = append(out, s)
				i += 8
			case "Lit", "Sep":
				out = append(out, s)
				i++
			case "":
				out = append(out, item{kind: "Lit", lit: []byte{0}}) // make / var zero-initialise
				i++
			default:
				c.fail(n, "byte %d of a buffer holds the middle of a number", i)
			}
		}
		return out
	}
	c.fail(n, "a %s value used as bytes", v.kind)
	return nil
}

func (c *ctx) evalInt(e ast.Expr) int64 {
	v := c.eval(e)
	if v.kind != "const" {
		c.fail(e, "integer constant expected")
	}
	return v.n
}

func (c *ctx) eval(e ast.Expr) value {
	switch e := e.(type) {
	case *ast.ParenExpr:
		return c.eval(e.X)
	case *ast.BasicLit:
		switch e.Kind {
		case token.STRING:
			s, err := strconv.Unquote(e.Value)
			if err != nil {
				c.fail(e, "string literal %s", e.Value)
			}
			return value{kind: "frag", items: litItems([]byte(s))}
		case token.INT:
			n, err := strconv.ParseInt(e.Value, 0, 64)
			if err != nil {
				c.fail(e, "integer literal %s", e.Value)
			}
			return value{kind: "const", n: n}
		case token.CHAR:
			s, err := strconv.Unquote(e.Value)
			if err != nil || len(s) != 1 {
				c.fail(e, "char literal %s", e.Value)
			}
			return value{kind: "const", n: int64(s[0])}
		}
		c.fail(e, "literal %s", e.Value)
	case *ast.Ident:
		if v, ok := c.env[e.Name]; ok {
			return v
		}
		if v, ok := lookupConst(c.repo, c.p, e.Name); ok {
			return v
		}
		c.fail(e, "identifier %s", e.Name)
	case *ast.SelectorExpr:
		// pkg.Const ?
		if id, ok := e.X.(*ast.Ident); ok {
			if _, isLocal := c.env[id.Name]; !isLocal {
				if dir, path := importDir(c.file, id.Name); path != "" {
					if dir == "" {
						c.fail(e, "reference into external package %s", path)
					}
					q := loadPkg(c.repo, dir)
					if v, ok := lookupConst(c.repo, q, e.Sel.Name); ok {
						return v
					}
					c.fail(e, "%s.%s is not a constant", id.Name, e.Sel.Name)
				}
			}
		}
		x := c.eval(e.X)
		switch x.kind {
		case "struct":
			if f, ok := x.fields[e.Sel.Name]; ok {
				return f
			}
			c.fail(e, "field %s", e.Sel.Name)
		case "height":
			switch e.Sel.Name {
			case "RevisionNumber":
				return value{kind: "u64", arg: x.arg}
			case "RevisionHeight":
				return value{kind: "u64", arg: x.arg2}
			}
		}
		c.fail(e, "selector .%s on a %s value", e.Sel.Name, x.kind)
	case *ast.BinaryExpr:
		l, r := c.eval(e.X), c.eval(e.Y)
		if l.kind == "const" && r.kind == "const" {
			switch e.Op {
			case token.ADD:
				return value{kind: "const", n: l.n + r.n}
			case token.SUB:
				return value{kind: "const", n: l.n - r.n}
			case token.MUL:
				return value{kind: "const", n: l.n * r.n}
			}
		}
		if e.Op == token.ADD && l.kind == "frag" && r.kind == "frag" {
			return value{kind: "frag", items: append(append([]item{}, l.items...), r.items...)}
		}
		c.fail(e, "binary operator %s", e.Op)
	case *ast.CompositeLit:
		// []byte{c1, c2}
		if typeString(e.Type) == "[]byte" {
			var b []byte
			for _, el := range e.Elts {
				b = append(b, byte(c.evalInt(el)))
			}
			return value{kind: "frag", items: []item{{kind: "Lit", lit: b}}} // raw bytes: not split at '/'
		}
		c.fail(e, "composite literal of type %s", typeString(e.Type))
	case *ast.SliceExpr:
		// x[:] / x[0:] / x[:len(x)] of a buffer or byte string is the value itself; any other slice is only meaningful as
		// the destination of PutUint64 / copy (handled there)
		x := c.eval(e.X)
		lo, hi := int64(0), int64(-1)
		if e.Low != nil {
			lo = c.evalInt(e.Low)
		}
		if e.High != nil {
			hi = c.evalInt(e.High)
		}
		if x.kind == "buf" && lo == 0 && (hi < 0 || hi == int64(len(x.slots))) && e.Max == nil {
			return x
		}
		c.fail(e, "slice expression")
	case *ast.CallExpr:
		return c.call(e)
	}
	c.fail(e, "expression of type %T", e)
	return value{}
}

func (c *ctx) call(e *ast.CallExpr) value {
	// conversions []byte(x), string(x), byte(x)
	if at, ok := e.Fun.(*ast.ArrayType); ok && typeString(at) == "[]byte" && len(e.Args) == 1 {
		v := c.eval(e.Args[0])
		return value{kind: "frag", items: c.asFrag(e, v), hashed: v.hashed}
	}
	if id, ok := e.Fun.(*ast.Ident); ok {
		switch id.Name {
		case "string":
			if len(e.Args) == 1 {
				v := c.eval(e.Args[0])
				return value{kind: "frag", items: c.asFrag(e, v), hashed: v.hashed}
			}
		case "byte":
			if len(e.Args) == 1 {
				return c.eval(e.Args[0])
			}
		case "uint64":
			if len(e.Args) == 1 {
				v := c.eval(e.Args[0])
				if v.kind == "u64" || v.kind == "const" {
					return v
				}
				c.fail(e, "uint64(...) of a %s value", v.kind)
			}
		case "int", "int64":
			// the SIGNED reinterpretation of a uint64 argument: its decimal is not the decimal of the uint64
			if len(e.Args) == 1 {
				v := c.eval(e.Args[0])
				switch v.kind {
				case "u64":
					return value{kind: "i64", arg: v.arg}
				case "const":
					return v
				}
				c.fail(e, "%s(...) of a %s value", id.Name, v.kind)
			}
		case "append":
			if len(e.Args) == 2 && e.Ellipsis != token.NoPos {
				a, b := c.eval(e.Args[0]), c.eval(e.Args[1])
				return value{kind: "frag", items: append(append([]item{}, c.asFrag(e, a)...), c.asFrag(e, b)...), hashed: a.hashed}
			}
			if len(e.Args) >= 2 && e.Ellipsis == token.NoPos {
				// append(b, c1, c2, ...) with constant bytes
				a := c.eval(e.Args[0])
				var bs []byte
				for _, x := range e.Args[1:] {
					bs = append(bs, byte(c.evalInt(x)))
				}
				return value{kind: "frag", items: append(append([]item{}, c.asFrag(e, a)...), litItems(bs)...)}
			}
			c.fail(e, "append of a non-constant element")
		case "make":
			if (len(e.Args) == 2 || len(e.Args) == 3) && typeString(e.Args[0]) == "[]byte" {
				n := c.evalInt(e.Args[1]) // (the capacity, if any, does not matter)
				if n < 0 || n > 1<<16 {
					c.fail(e, "make with length %d", n)
				}
				if n == 0 {
					return value{kind: "frag"}
				}
				return value{kind: "buf", slots: make([]item, n)}
			}
			c.fail(e, "make of something other than []byte with a constant length")
		case "len":
			if len(e.Args) == 1 {
				v := c.eval(e.Args[0])
				if v.kind == "buf" {
					return value{kind: "const", n: int64(len(v.slots))}
				}
				if v.kind == "frag" {
					n := 0
					for _, it := range v.items {
						switch it.kind {
						case "Lit":
							n += len(it.lit)
						case "Sep":
							n++
						default:
							c.fail(e, "len of a non-constant value")
						}
					}
					return value{kind: "const", n: int64(n)}
				}
			}
			c.fail(e, "len")
		default:
			// same-package function
			if fd, ok := c.p.funcs[id.Name]; ok {
				return c.inline(e, c.p, fd, nil, e.Args)
			}
		}
		c.fail(e, "call of %s", id.Name)
	}
	if se, ok := e.Fun.(*ast.SelectorExpr); ok {
		// package-qualified?
		if id, ok := se.X.(*ast.Ident); ok {
			if _, isLocal := c.env[id.Name]; !isLocal {
				dir, path := importDir(c.file, id.Name)
				if path != "" {
					return c.pkgCall(e, dir, path, se.Sel.Name)
				}
			}
		}
		// binary.BigEndian.PutUint64 is a statement (see exec)
		// method call on a value
		x := c.eval(se.X)
		switch x.kind {
		case "height":
			switch se.Sel.Name {
			case "GetRevisionNumber":
				return value{kind: "u64", arg: x.arg}
			case "GetRevisionHeight":
				return value{kind: "u64", arg: x.arg2}
			case "String":
				return c.heightString(e, x)
			}
		case "frag":
			if (se.Sel.Name == "Bytes" || se.Sel.Name == "String") && len(e.Args) == 0 { // hash.Bytes(), builder.String()
				return value{kind: "frag", items: x.items, hashed: x.hashed}
			}
		case "struct":
			// a method of a struct of this package, inlined with the receiver
			if x.tname != "" {
				if fd, ok := c.p.funcs[x.tname+"."+se.Sel.Name]; ok {
					return c.inline(e, c.p, fd, &x, e.Args)
				}
			}
		}
		c.fail(e, "method %s on a %s value", se.Sel.Name, x.kind)
	}
	c.fail(e, "call expression")
	return value{}
}

// copy(dst, constant text) into a buffer of constant length; returns the number of bytes copied
func (c *ctx) doCopy(st ast.Node, call *ast.CallExpr, dest func(ast.Expr) (*ast.Ident, int64, int64)) int64 {
	target, off, hi := dest(call.Args[0])
	buf := c.env[target.Name]
	src := c.eval(call.Args[1])
	var bs []byte
	for _, it := range c.asFrag(st, src) {
		switch it.kind {
		case "Lit":
			bs = append(bs, it.lit...)
		case "Sep":
			bs = append(bs, '/')
		default:
			c.fail(st, "copy of a non-constant value into a buffer")
		}
	}
	n := int64(0)
	for k := 0; k < len(bs) && off+int64(k) < hi; k++ {
		sl := buf.slots[int(off)+k]
		if sl.kind == "used" || sl.kind == "BE64" {
			c.fail(st, "copy over a number")
		}
		if bs[k] == '/' {
			buf.slots[int(off)+k] = item{kind: "Sep"}
		} else {
			buf.slots[int(off)+k] = item{kind: "Lit", lit: []byte{bs[k]}}
		}
		n++
	}
	c.env[target.Name] = buf
	return n
}

// destination of a write: buf, buf[lo:], buf[lo:hi], buf[:hi]
func (c *ctx) dest(st ast.Node, d ast.Expr) (*ast.Ident, int64, int64) {
	switch d := d.(type) {
	case *ast.Ident:
		if b, ok := c.env[d.Name]; ok && b.kind == "buf" {
			return d, 0, int64(len(b.slots))
		}
	case *ast.SliceExpr:
		if id, ok := d.X.(*ast.Ident); ok && d.Max == nil {
			if b, ok := c.env[id.Name]; ok && b.kind == "buf" {
				lo, hi := int64(0), int64(len(b.slots))
				if d.Low != nil {
					lo = c.evalInt(d.Low)
				}
				if d.High != nil {
					hi = c.evalInt(d.High)
				}
				if lo < 0 || hi > int64(len(b.slots)) || lo > hi {
					c.fail(st, "slice bounds out of range (run-time panic)")
				}
				return id, lo, hi
			}
		}
	}
	c.fail(st, "destination is not a byte buffer of constant length")
	return nil, 0, 0
}

func (c *ctx) heightString(n ast.Node, h value) value {
	q := loadPkg(c.repo, "x/xibc/core/client/types")
	fd, ok := q.funcs["Height.String"]
	if !ok {
		c.fail(n, "Height.String not found")
	}
	return c.inlineWith(n, q, fd, &h, nil)
}

func (c *ctx) pkgCall(e *ast.CallExpr, dir, path, fn string) value {
	switch path + "." + fn {
	case "fmt.Sprintf":
		return c.sprintf(e)
	case "github.com/cosmos/cosmos-sdk/types.Uint64ToBigEndian":
		if len(e.Args) == 1 {
			v := c.eval(e.Args[0])
			if v.kind == "u64" {
				return value{kind: "frag", items: []item{{kind: "BE64", arg: v.arg}}}
			}
		}
		c.fail(e, "Uint64ToBigEndian of a non-parameter")
	case "github.com/ethereum/go-ethereum/common.LeftPadBytes":
		// LeftPadBytes(big.NewInt(c).Bytes(), n)
		if len(e.Args) == 2 {
			n := c.evalInt(e.Args[1])
			if call, ok := e.Args[0].(*ast.CallExpr); ok {
				if se, ok := call.Fun.(*ast.SelectorExpr); ok && se.Sel.Name == "Bytes" {
					if inner, ok := se.X.(*ast.CallExpr); ok {
						if ise, ok := inner.Fun.(*ast.SelectorExpr); ok && ise.Sel.Name == "NewInt" && len(inner.Args) == 1 {
							k := c.evalInt(inner.Args[0])
							if k < 0 {
								c.fail(e, "negative big.NewInt")
							}
							var raw []byte // big.Int.Bytes(): minimal big-endian, empty for 0
							for x := uint64(k); x > 0; x >>= 8 {
								raw = append([]byte{byte(x)}, raw...)
							}
							if int64(len(raw)) > n {
								return value{kind: "frag", items: []item{{kind: "Lit", lit: raw}}}
							}
							out := make([]byte, n)
							copy(out[int(n)-len(raw):], raw)
							return value{kind: "frag", items: []item{{kind: "Lit", lit: out}}}
						}
					}
				}
			}
		}
		c.fail(e, "LeftPadBytes of something other than big.NewInt(const).Bytes()")
	case "bytes.Join", "strings.Join":
		if len(e.Args) == 2 {
			if cl, ok := e.Args[0].(*ast.CompositeLit); ok {
				sep := c.asFrag(e, c.eval(e.Args[1]))
				var its []item
				for i, el := range cl.Elts {
					v := c.eval(el)
					if v.hashed {
						c.fail(e, "Join of a hash value")
					}
					if i > 0 {
						its = append(its, sep...)
					}
					its = append(its, c.asFrag(e, v)...)
				}
				return value{kind: "frag", items: its}
			}
		}
		c.fail(e, "Join of something other than a slice literal")
	case "strconv.FormatUint":
		// FormatUint(x, 10) = the %d of a uint64
		if len(e.Args) == 2 && c.evalInt(e.Args[1]) == 10 {
			v := c.eval(e.Args[0])
			switch v.kind {
			case "u64":
				return value{kind: "frag", items: []item{{kind: "Dec", arg: v.arg}}}
			case "const":
				if v.n >= 0 {
					return value{kind: "frag", items: litItems([]byte(strconv.FormatInt(v.n, 10)))}
				}
			}
			c.fail(e, "FormatUint of a %s value", v.kind)
		}
		c.fail(e, "FormatUint with a base other than 10")
	case "strconv.Itoa", "strconv.FormatInt":
		if fn == "FormatInt" && !(len(e.Args) == 2 && c.evalInt(e.Args[1]) == 10) {
			c.fail(e, "FormatInt with a base other than 10")
		}
		if len(e.Args) >= 1 {
			v := c.eval(e.Args[0])
			switch v.kind {
			case "i64":
				return value{kind: "frag", items: []item{{kind: "DecSigned", arg: v.arg}}}
			case "const":
				return value{kind: "frag", items: litItems([]byte(strconv.FormatInt(v.n, 10)))}
			}
			c.fail(e, "%s of a %s value", fn, v.kind)
		}
	case "fmt.Sprint":
		// Sprint of string operands is their concatenation (spaces are added only between non-string operands)
		var its []item
		for _, a := range e.Args {
			v := c.eval(a)
			if v.kind != "frag" || v.hashed {
				c.fail(e, "Sprint of a %s value", v.kind)
			}
			its = append(its, v.items...)
		}
		return value{kind: "frag", items: its}
	case "github.com/ethereum/go-ethereum/crypto.Keccak256Hash", "github.com/ethereum/go-ethereum/crypto.Keccak256":
		var its []item
		for _, a := range e.Args {
			its = append(its, c.asFrag(e, c.eval(a))...)
		}
		return value{kind: "frag", items: its, hashed: true}
	}
	if dir != "" {
		q := loadPkg(c.repo, dir)
		if fd, ok := q.funcs[fn]; ok {
			return c.inline(e, q, fd, nil, e.Args)
		}
	}
	c.fail(e, "call of %s.%s", path, fn)
	return value{}
}

func (c *ctx) sprintf(e *ast.CallExpr) value {
	if len(e.Args) == 0 {
		c.fail(e, "Sprintf without format")
	}
	lit, ok := e.Args[0].(*ast.BasicLit)
	if !ok || lit.Kind != token.STRING {
		c.fail(e, "Sprintf with a non-literal format")
	}
	f, _ := strconv.Unquote(lit.Value)
	args := e.Args[1:]
	var out []item
	ai := 0
	for i := 0; i < len(f); i++ {
		if f[i] != '%' {
			j := i
			for j < len(f) && f[j] != '%' {
				j++
			}
			out = append(out, litItems([]byte(f[i:j]))...)
			i = j - 1
			continue
		}
		if i+1 >= len(f) {
			c.fail(e, "dangling %% in format")
		}
		verb := f[i+1]
		i++
		if verb == '%' {
			out = append(out, item{kind: "Lit", lit: []byte("%")})
			continue
		}
		if ai >= len(args) {
			c.fail(e, "format %q has more verbs than arguments", f)
		}
		v := c.eval(args[ai])
		ai++
		if verb == 'v' {
			switch v.kind {
			case "u64", "i64", "const":
				verb = 'd'
			default:
				verb = 's'
			}
		}
		switch verb {
		case 's':
			switch v.kind {
			case "frag":
				if v.hashed {
					c.fail(e, "%%s of a hash value")
				}
				out = append(out, v.items...)
			case "height":
				out = append(out, c.heightString(e, v).items...)
			case "hash":
				out = append(out, item{kind: "Hex32", arg: v.arg})
			default:
				c.fail(e, "%%s of a %s value", v.kind)
			}
		case 'd':
			switch v.kind {
			case "u64":
				out = append(out, item{kind: "Dec", arg: v.arg})
			case "i64":
				out = append(out, item{kind: "DecSigned", arg: v.arg})
			case "const":
				out = append(out, litItems([]byte(strconv.FormatInt(v.n, 10)))...)
			default:
				c.fail(e, "%%d of a %s value", v.kind)
			}
		default:
			c.fail(e, "format verb %%%c", verb)
		}
	}
	if ai != len(args) {
		c.fail(e, "format %q has fewer verbs than arguments", f)
	}
	return value{kind: "frag", items: out}
}

func (c *ctx) inline(n ast.Node, q *pkg, fd *ast.FuncDecl, recv *value, args []ast.Expr) value {
	vals := make([]value, len(args))
	for i, a := range args {
		vals[i] = c.eval(a)
	}
	return c.inlineWith(n, q, fd, recv, vals)
}

// evaluates the body of fd with the given receiver / argument values
func (c *ctx) inlineWith(n ast.Node, q *pkg, fd *ast.FuncDecl, recv *value, vals []value) value {
	sub := &ctx{repo: c.repo, p: q, file: fileOf(q, fd.Pos()), env: map[string]value{}, where: c.where + " -> " + fd.Name.Name}
	if fd.Recv != nil && len(fd.Recv.List) == 1 && len(fd.Recv.List[0].Names) == 1 {
		if recv == nil {
			c.fail(n, "method %s called without receiver", fd.Name.Name)
		}
		sub.env[fd.Recv.List[0].Names[0].Name] = *recv
	}
	i := 0
	for _, f := range fd.Type.Params.List {
		for _, nm := range f.Names {
			if i >= len(vals) {
				c.fail(n, "too few arguments for %s", fd.Name.Name)
			}
			sub.env[nm.Name] = vals[i]
			i++
		}
	}
	if i != len(vals) {
		c.fail(n, "argument count for %s", fd.Name.Name)
	}
	return sub.body(fd)
}

// executes the statement list of a key builder
func (c *ctx) body(fd *ast.FuncDecl) value {
	if fd.Type.Results != nil {
		for _, r := range fd.Type.Results.List {
			for _, nm := range r.Names {
				c.env[nm.Name] = value{kind: "frag"} // named result, zero value
			}
		}
	}
	for _, st := range fd.Body.List {
		if v, done := c.exec(fd, st); done {
			return v
		}
	}
	c.fail(fd, "function %s has no return", fd.Name.Name)
	return value{}
}

func (c *ctx) exec(fd *ast.FuncDecl, st ast.Stmt) (value, bool) {
	switch st := st.(type) {
	case *ast.ReturnStmt:
		if len(st.Results) == 0 {
			// naked return of the named result
			if fd.Type.Results != nil && len(fd.Type.Results.List) == 1 && len(fd.Type.Results.List[0].Names) == 1 {
				return c.env[fd.Type.Results.List[0].Names[0].Name], true
			}
			c.fail(st, "naked return")
		}
		if len(st.Results) != 1 {
			c.fail(st, "multiple results")
		}
		return c.eval(st.Results[0]), true
	case *ast.AssignStmt:
		if len(st.Lhs) != 1 || len(st.Rhs) != 1 {
			c.fail(st, "multi-assignment")
		}
		id, ok := st.Lhs[0].(*ast.Ident)
		if !ok {
			c.fail(st, "assignment to a non-identifier")
		}
		if call, ok := st.Rhs[0].(*ast.CallExpr); ok {
			if f, ok := call.Fun.(*ast.Ident); ok && f.Name == "copy" && len(call.Args) == 2 {
				n := c.doCopy(st, call, func(d ast.Expr) (*ast.Ident, int64, int64) { return c.dest(st, d) })
				c.env[id.Name] = value{kind: "const", n: n}
				return value{}, false
			}
		}
		c.env[id.Name] = c.eval(st.Rhs[0])
		return value{}, false
	case *ast.DeclStmt:
		gd, ok := st.Decl.(*ast.GenDecl)
		if !ok || (gd.Tok != token.VAR && gd.Tok != token.CONST) {
			c.fail(st, "declaration")
		}
		for _, sp := range gd.Specs {
			vs := sp.(*ast.ValueSpec)
			for i, nm := range vs.Names {
				switch {
				case i < len(vs.Values):
					c.env[nm.Name] = c.eval(vs.Values[i])
				case gd.Tok == token.CONST:
					c.fail(st, "constant without a value (iota / implicit repetition in a local block)")
				case vs.Type != nil && (typeString(vs.Type) == "strings.Builder" || typeString(vs.Type) == "bytes.Buffer"):
					c.env[nm.Name] = value{kind: "frag", builder: true}
				case vs.Type != nil:
					// var x [n]byte / var x []byte / var x string: the zero value
					if at, ok := vs.Type.(*ast.ArrayType); ok && typeString(at.Elt) == "byte" {
						if at.Len == nil {
							c.env[nm.Name] = value{kind: "frag"}
						} else {
							n := c.evalInt(at.Len)
							if n < 0 || n > 1<<16 {
								c.fail(st, "array of length %d", n)
							}
							c.env[nm.Name] = value{kind: "buf", slots: make([]item, n)}
						}
					} else if typeString(vs.Type) == "string" {
						c.env[nm.Name] = value{kind: "frag"}
					} else {
						c.fail(st, "declaration of a %s variable", typeString(vs.Type))
					}
				default:
					c.fail(st, "declaration without type or value")
				}
			}
		}
		return value{}, false
	case *ast.ExprStmt:
		if call, ok := st.X.(*ast.CallExpr); ok {
			// destination of a write: buf, buf[lo:], buf[lo:hi], buf[:hi]
			dest := func(d ast.Expr) (*ast.Ident, int64, int64) {
				switch d := d.(type) {
				case *ast.Ident:
					if b, ok := c.env[d.Name]; ok && b.kind == "buf" {
						return d, 0, int64(len(b.slots))
					}
				case *ast.SliceExpr:
					if id, ok := d.X.(*ast.Ident); ok && d.Max == nil {
						if b, ok := c.env[id.Name]; ok && b.kind == "buf" {
							lo, hi := int64(0), int64(len(b.slots))
							if d.Low != nil {
								lo = c.evalInt(d.Low)
							}
							if d.High != nil {
								hi = c.evalInt(d.High)
							}
							if lo < 0 || hi > int64(len(b.slots)) || lo > hi {
								c.fail(st, "slice bounds out of range (run-time panic)")
							}
							return id, lo, hi
						}
					}
				}
				c.fail(st, "destination is not a byte buffer of constant length")
				return nil, 0, 0
			}
			// binary.BigEndian.PutUint64(buf[k:], u)
			if se, ok := call.Fun.(*ast.SelectorExpr); ok && se.Sel.Name == "PutUint64" && len(call.Args) == 2 {
				if inner, ok := se.X.(*ast.SelectorExpr); ok && inner.Sel.Name == "BigEndian" {
					target, off, hi := dest(call.Args[0])
					buf := c.env[target.Name]
					u := c.eval(call.Args[1])
					if hi-off < 8 {
						c.fail(st, "PutUint64 beyond the buffer (run-time panic)")
					}
					for k := 0; k < 8; k++ {
						if buf.slots[int(off)+k].kind == "used" || buf.slots[int(off)+k].kind == "BE64" {
							c.fail(st, "overlapping PutUint64")
						}
					}
					switch u.kind {
					case "u64":
						for k := 0; k < 8; k++ {
							buf.slots[int(off)+k] = item{kind: "used"}
						}
						buf.slots[off] = item{kind: "BE64", arg: u.arg}
					case "const":
						for k := 0; k < 8; k++ {
							buf.slots[int(off)+k] = item{kind: "Lit", lit: []byte{byte(uint64(u.n) >> (8 * uint(7-k)))}}
						}
					default:
						c.fail(st, "PutUint64 of a %s value", u.kind)
					}
					c.env[target.Name] = buf
					return value{}, false
				}
			}
			// copy(buf[k:], constant text)
			if id, ok := call.Fun.(*ast.Ident); ok && id.Name == "copy" && len(call.Args) == 2 {
				c.doCopy(st, call, dest)
				return value{}, false
			}
			// writes into a strings.Builder / bytes.Buffer variable
			if se, ok := call.Fun.(*ast.SelectorExpr); ok {
				if id, ok := se.X.(*ast.Ident); ok {
					if b, ok := c.env[id.Name]; ok && b.kind == "frag" && b.builder {
						switch se.Sel.Name {
						case "Grow", "Reset":
							if se.Sel.Name == "Reset" {
								b.items = nil
							}
						case "WriteString", "Write":
							if len(call.Args) != 1 {
								c.fail(st, "builder write")
							}
							v := c.eval(call.Args[0])
							if v.hashed {
								c.fail(st, "hash written into a builder")
							}
							b.items = append(append([]item{}, b.items...), c.asFrag(st, v)...)
						case "WriteByte", "WriteRune":
							if len(call.Args) != 1 {
								c.fail(st, "builder write")
							}
							n := c.evalInt(call.Args[0])
							if n < 0 || n > 127 {
								c.fail(st, "non-ASCII byte / rune written into a builder")
							}
							b.items = append(append([]item{}, b.items...), litItems([]byte{byte(n)})...)
						default:
							c.fail(st, "builder method %s", se.Sel.Name)
						}
						c.env[id.Name] = b
						return value{}, false
					}
				}
			}
		}
		c.fail(st, "expression statement")
	}
	c.fail(st, "statement of type %T", st)
	return value{}, false
}

// ---------------------------------------------------------------------------------------------
// regular expression of host.IsValidID:  ^[class]+$

func parseClass(re string) []byte {
	if !strings.HasPrefix(re, "^[") || !strings.HasSuffix(re, "]+$") {
		die("validate.go: IsValidID is not of the form ^[class]+$ : %q", re)
	}
	body := re[2 : len(re)-3]
	set := map[byte]bool{}
	var toks []struct {
		c   byte
		esc bool
	}
	for i := 0; i < len(body); i++ {
		if body[i] == '\\' {
			if i+1 >= len(body) {
				die("validate.go: dangling backslash in character class")
			}
			ch := body[i+1]
			if (ch >= 'a' && ch <= 'z') || (ch >= 'A' && ch <= 'Z') || (ch >= '0' && ch <= '9') {
				die("validate.go: escape \\%c in character class not supported", ch)
			}
			toks = append(toks, struct {
				c   byte
				esc bool
			}{ch, true})
			i++
			continue
		}
		if body[i] == '[' || body[i] == ']' || body[i] == '^' {
			die("validate.go: unescaped %q in character class not supported", body[i])
		}
		toks = append(toks, struct {
			c   byte
			esc bool
		}{body[i], false})
	}
	for i := 0; i < len(toks); i++ {
		if i+2 < len(toks) && toks[i+1].c == '-' && !toks[i+1].esc {
			lo, hi := toks[i].c, toks[i+2].c
			if lo > hi {
				die("validate.go: bad range %c-%c", lo, hi)
			}
			for x := int(lo); x <= int(hi); x++ {
				set[byte(x)] = true
			}
			i += 2
			continue
		}
		set[toks[i].c] = true
	}
	var out []byte
	for b := range set {
		out = append(out, b)
	}
	sort.Slice(out, func(i, j int) bool { return out[i] < out[j] })
	return out
}

// ---------------------------------------------------------------------------------------------

type outFmt struct {
	name   string
	arity  int
	desc   []string
	items  []item
	hashed bool
	src    string
	note   string // why the term is poisoned (an unsupported construct, a signed decimal of a uint64)
}

// mentionsKeccak: the body of fd (or of a same-package function it calls, two levels deep) calls crypto.Keccak256*
func mentionsKeccak(p *pkg, fd *ast.FuncDecl, depth int) bool {
	found := false
	ast.Inspect(fd.Body, func(n ast.Node) bool {
		call, ok := n.(*ast.CallExpr)
		if !ok {
			return true
		}
		switch f := call.Fun.(type) {
		case *ast.SelectorExpr:
			if strings.HasPrefix(f.Sel.Name, "Keccak256") {
				found = true
			}
		case *ast.Ident:
			if g, ok := p.funcs[f.Name]; ok && depth > 0 && g != fd && mentionsKeccak(p, g, depth-1) {
				found = true
			}
		}
		return !found
	})
	return found
}

func translateFunc(repo string, p *pkg, key string, fd *ast.FuncDecl) (*outFmt, bool) {
	// result must be exactly one string / []byte
	if fd.Type.Results == nil || len(fd.Type.Results.List) != 1 || len(fd.Type.Results.List[0].Names) > 1 {
		return nil, false
	}
	rt := typeString(fd.Type.Results.List[0].Type)
	if rt != "string" && rt != "[]byte" {
		return nil, false
	}
	c := &ctx{repo: repo, p: p, file: fileOf(p, fd.Pos()), env: map[string]value{}, where: p.tag + "." + key}
	next := 0
	var desc []string
	name := p.tag + "_" + strings.ReplaceAll(key, ".", "_")
	src := fmt.Sprintf("%s: %s", p.dir, key)
	poisoned := func(why string) (*outFmt, bool) {
		fmt.Fprintf(os.Stderr, "keys: %s: emitted as a poisoned term: %s\n", name, why)
		n := name
		if mentionsKeccak(p, fd, 2) {
			n += "_preimage"
		}
		return &outFmt{name: n, arity: next, desc: desc, items: []item{{kind: "Unknown"}}, src: src, note: why}, true
	}
	if fd.Recv != nil {
		r := fd.Recv.List[0]
		if len(r.Names) != 1 {
			return nil, false
		}
		v, ok := c.paramValue(r.Type, &next, &desc, r.Names[0].Name)
		if !ok {
			return nil, false
		}
		c.env[r.Names[0].Name] = v
	}
	for _, f := range fd.Type.Params.List {
		ts := typeString(f.Type)
		if skipParamTypes[ts] {
			return nil, false
		}
		for _, nm := range f.Names {
			v, ok := c.paramValue(f.Type, &next, &desc, nm.Name)
			if !ok {
				return poisoned(fmt.Sprintf("parameter %s has type %s, which is outside the translator's subset", nm.Name, ts))
			}
			c.env[nm.Name] = v
		}
	}
	var v value
	var its []item
	if msg := try(func() { v = c.body(fd); its = normalize(c.asFrag(fd, v)) }); msg != "" {
		return poisoned(msg)
	}
	if v.hashed {
		name += "_preimage"
	}
	note := ""
	for _, it := range its {
		if it.kind == "DecSigned" {
			note = fmt.Sprintf("argument %d (a uint64) is written as a SIGNED decimal (strconv.Itoa(int(x)) / FormatInt(int64(x)) / %%d of int(x)): "+
				"values >= 2^63 come out negative; there is no such format item", it.arg)
			fmt.Fprintf(os.Stderr, "keys: %s: %s\n", name, note)
		}
	}
	return &outFmt{name: name, arity: next, desc: desc, items: its, hashed: v.hashed, src: src, note: note}, true
}

// the prefix expression handed to prefix.NewStore(..., <expr>) in function fn, evaluated in the environment built by the
// statements of fn (local variables assigned before it); parameters of key types become arguments
func translatePrefixStore(repo string, p *pkg, fn, outName, label string) *outFmt {
	return translateCallArg(repo, p, fn, "NewStore", 2, 1, outName, label)
}

// the argument number argIx of the (last) call `x.<sel>(...)` with nargs arguments in function fn
func translateCallArg(repo string, p *pkg, fn, sel string, nargs, argIx int, outName, label string) *outFmt {
	src := fmt.Sprintf("%s: %s (%s)", p.dir, fn, label)
	fd, ok := p.funcs[fn]
	if !ok {
		fmt.Fprintf(os.Stderr, "keys: %s: function %s not found: poisoned term\n", outName, fn)
		return &outFmt{name: outName, items: []item{{kind: "Unknown"}}, src: src, note: "function " + fn + " not found"}
	}
	c := &ctx{repo: repo, p: p, file: fileOf(p, fd.Pos()), env: map[string]value{}, where: p.tag + "." + fn}
	next := 0
	var desc []string
	for _, f := range fd.Type.Params.List {
		if skipParamTypes[typeString(f.Type)] {
			continue
		}
		for _, nm := range f.Names {
			if v, ok := c.paramValue(f.Type, &next, &desc, nm.Name); ok {
				c.env[nm.Name] = v
			}
		}
	}
	var found ast.Expr
	ast.Inspect(fd.Body, func(n ast.Node) bool {
		if call, ok := n.(*ast.CallExpr); ok {
			if se, ok := call.Fun.(*ast.SelectorExpr); ok && se.Sel.Name == sel && len(call.Args) == nargs {
				found = call.Args[argIx]
			}
		}
		return true
	})
	var its []item
	msg := "no ." + sel + " call"
	if found != nil {
		msg = try(func() {
			// local variables: every single-valued assignment / declaration of the body that evaluates (others are skipped)
			ast.Inspect(fd.Body, func(n ast.Node) bool {
				switch st := n.(type) {
				case *ast.AssignStmt:
					if len(st.Lhs) == 1 && len(st.Rhs) == 1 && st.Pos() < found.Pos() {
						if id, ok := st.Lhs[0].(*ast.Ident); ok {
							var v value
							if try(func() { v = c.eval(st.Rhs[0]) }) == "" {
								c.env[id.Name] = v
							}
						}
					}
				}
				return true
			})
			its = normalize(c.asFrag(found, c.eval(found)))
		})
	}
	if msg != "" {
		fmt.Fprintf(os.Stderr, "keys: %s: emitted as a poisoned term: %s\n", outName, msg)
		return &outFmt{name: outName, arity: next, desc: desc, items: []item{{kind: "Unknown"}}, src: src, note: msg}
	}
	return &outFmt{name: outName, arity: next, desc: desc, items: its, src: src}
}

func main() {
	repo := flag.String("repo", "/repo", "source tree")
	out := flag.String("out", "", "output directory (coq/theories/Gen)")
	flag.Parse()
	if *out == "" {
		die("-out required")
	}

	type src struct {
		dir   string
		files []string // only functions declared in these files are translated
	}
	srcs := []src{
		{"x/xibc/core/host", []string{"keys.go"}},
		{"x/xibc/core/client/types", []string{"keys.go"}},
		{"x/xibc/clients/light-clients/tendermint/types", []string{"store.go"}},
		{"x/xibc/clients/light-clients/bsc/types", []string{"store.go", "keys.go"}},
		{"x/xibc/clients/light-clients/eth/types", []string{"store.go", "keys.go"}},
		{"x/aggregate/types", []string{"keys.go"}},
	}
	var fmts []*outFmt
	type constOut struct {
		name string
		val  []byte
		src  string
	}
	var consts []constOut
	for _, s := range srcs {
		p := loadPkg(*repo, s.dir)
		want := map[string]bool{}
		for _, f := range s.files {
			want[f] = true
		}
		// functions, in source order
		for _, f := range p.files {
			base := filepath.Base(fset.Position(f.Pos()).Filename)
			if !want[base] {
				continue
			}
			for _, d := range f.Decls {
				switch d := d.(type) {
				case *ast.FuncDecl:
					if d.Body == nil || d.Name.Name == "init" {
						continue
					}
					key := d.Name.Name
					if d.Recv != nil {
						key = recvName(d.Recv.List[0].Type) + "." + key
					}
					if of, ok := translateFunc(*repo, p, key, d); ok {
						fmts = append(fmts, of)
					}
				case *ast.GenDecl:
					if d.Tok != token.CONST && d.Tok != token.VAR {
						continue
					}
					for _, sp := range d.Specs {
						vs := sp.(*ast.ValueSpec)
						for _, id := range vs.Names {
							if id.Name == "_" {
								continue
							}
							if vs.Type != nil {
								ts := typeString(vs.Type)
								if ts != "string" && ts != "[]byte" {
									continue
								}
							}
							// only string / []byte valued constants are exported; others are skipped when their
							// initialiser is not in the subset AND not string-like (checked by a dry run)
							v, ok := tryConst(*repo, p, id.Name)
							if !ok {
								continue
							}
							var b []byte
							for _, it := range v.items {
								switch it.kind {
								case "Lit":
									b = append(b, it.lit...)
								case "Sep":
									b = append(b, '/')
								}
							}
							consts = append(consts, constOut{p.tag + "_" + id.Name, b, s.dir + "/" + base})
						}
					}
				}
			}
		}
	}
	// store prefixes built inline in the client keeper
	ck := loadPkg(*repo, "x/xibc/core/client/keeper")
	fmts = append(fmts, translatePrefixStore(*repo, ck, "Keeper.ClientStore", "clientkeeper_ClientStore_prefix", "local clientPrefix"))
	fmts = append(fmts, translatePrefixStore(*repo, ck, "Keeper.RelayerStore", "clientkeeper_RelayerStore_prefix", "prefix.NewStore"))

	// Names the Coq side refers to that belong to UNEXPORTED helpers: when a refactoring renames / removes the helper the
	// same key is located by what it is used for.
	has := func(name string) bool {
		for _, f := range fmts {
			if f.name == name {
				return true
			}
		}
		return false
	}
	get := func(name string) *outFmt {
		for _, f := range fmts {
			if f.name == name {
				return f
			}
		}
		return nil
	}
	if !has("bsc_keyRecentSinger") {
		// the key bsc SetSigner(store, signer) writes
		bp := loadPkg(*repo, "x/xibc/clients/light-clients/bsc/types")
		fmts = append(fmts, translateCallArg(*repo, bp, "SetSigner", "Set", 2, 0, "bsc_keyRecentSinger", "the key written by store.Set"))
	}
	if !has("tm_bigEndianHeightBytes") {
		// the sixteen height bytes of a tendermint iteration key = IterationKey without its literal prefix
		if ik := get("tm_IterationKey"); ik != nil {
			its := ik.items
			for len(its) > 0 && (its[0].kind == "Lit" || its[0].kind == "Sep") {
				its = its[1:]
			}
			fmts = append(fmts, &outFmt{name: "tm_bigEndianHeightBytes", arity: ik.arity, desc: ik.desc, items: its,
				src: "x/xibc/clients/light-clients/tendermint/types: IterationKey without its literal prefix (the helper bigEndianHeightBytes is gone)", note: ik.note})
		}
	}

	// validate.go
	hp := loadPkg(*repo, "x/xibc/core/host")
	type nconst struct {
		name string
		n    int64
	}
	var nconsts []nconst
	for _, n := range []string{"DefaultMaxCharacterLength", "DefaultMinClientIDLength", "DefaultMinChainIDLength"} {
		v, ok := lookupConst(*repo, hp, n)
		if !ok || v.kind != "const" {
			die("host/validate.go: constant %s not found", n)
		}
		nconsts = append(nconsts, nconst{"host_" + n, v.n})
	}
	class := validIDClass(hp)
	// which (min, max) does each chain-name validator pass to defaultIdentifierValidator?
	type validator struct {
		name     string
		min, max int64
	}
	var validators []validator
	for _, vn := range []string{"ClientIdentifierValidator", "DstChainValidator", "SrcChainValidator"} {
		fd, ok := hp.funcs[vn]
		if !ok {
			die("host/validate.go: %s not found", vn)
		}
		okv := false
		if len(fd.Body.List) == 1 {
			if rs, ok := fd.Body.List[0].(*ast.ReturnStmt); ok && len(rs.Results) == 1 {
				if call, ok := rs.Results[0].(*ast.CallExpr); ok {
					if id, ok := call.Fun.(*ast.Ident); ok && id.Name == "defaultIdentifierValidator" && len(call.Args) == 3 {
						c := &ctx{repo: *repo, p: hp, file: fileOf(hp, fd.Pos()), env: map[string]value{}, where: "host." + vn}
						validators = append(validators, validator{"host_" + vn, c.evalInt(call.Args[1]), c.evalInt(call.Args[2])})
						okv = true
					}
				}
			}
		}
		if !okv {
			die("host/validate.go: %s is no longer `return defaultIdentifierValidator(id, min, max)`", vn)
		}
	}

	var b bytes.Buffer
	b.WriteString("(* GENERATED by tools/gotocoq/keys from the Go sources of the repository -- do not edit.\n")
	b.WriteString("   One format term (Base/Fmt.v) per key builder; arguments = flattened Go parameters. *)\n")
	b.WriteString("From Teleport Require Import Base.Bytes Base.Fmt.\n\n")
	for _, c := range consts {
		fmt.Fprintf(&b, "(* %s : %q *)\nDefinition %s : bytes := %s.\n", c.src, printable(c.val), c.name, coqBytes(c.val))
	}
	b.WriteString("\n")
	for _, f := range fmts {
		fmt.Fprintf(&b, "(* %s\n   args: %s\n   %s%s *)\n", f.src, strings.Join(f.desc, ", "), humanItems(f.items),
			map[bool]string{true: "   -- the key is keccak256 of these bytes", false: ""}[f.hashed])
		if f.note != "" {
			fmt.Fprintf(&b, "(* POISONED (Raw %d stands for what has no format item): %s *)\n", poisonArg, strings.ReplaceAll(strings.ReplaceAll(strings.ReplaceAll(f.note, "(*", "( *"), "*)", "* )"), "\"", "'"))
		}
		fmt.Fprintf(&b, "Definition %s : fmt := %s.\nDefinition %s_arity : nat := %d.\n\n", f.name, coqItems(f.items), f.name, f.arity)
	}
	b.WriteString("Definition all_formats : list (fmt * nat) :=\n  [")
	for i, f := range fmts {
		if i > 0 {
			b.WriteString(";\n   ")
		}
		fmt.Fprintf(&b, "(%s, %d%%nat)", f.name, f.arity)
	}
	b.WriteString("].\n\n")
	for _, n := range nconsts {
		fmt.Fprintf(&b, "Definition %s : N := %d%%N.\n", n.name, n.n)
	}
	for _, v := range validators {
		fmt.Fprintf(&b, "Definition %s_min : N := %d%%N.\nDefinition %s_max : N := %d%%N.\n", v.name, v.min, v.name, v.max)
	}
	fmt.Fprintf(&b, "(* host/validate.go IsValidID: %q *)\nDefinition host_IsValidID_class : bytes := %s.\n", printable(class), coqBytes(class))

	// the poisoned families, for consumers that compute expected keys from the terms (a poisoned term renders garbage)
	{
		var pb bytes.Buffer
		pb.WriteString("(* GENERATED by tools/gotocoq/keys -- do not edit.  Names of the definitions of Gen/KeysGen.v whose term is POISONED\n   (contains Raw 4095: an unsupported construct or a signed decimal of a uint64); empty when every builder translated. *)\n")
		pb.WriteString("From Teleport Require Import Base.Bytes.\n\nDefinition poisoned_formats : list bytes :=\n  [")
		first := true
		for _, f := range fmts {
			if f.note == "" {
				continue
			}
			if !first {
				pb.WriteString(";\n   ")
			}
			first = false
			fmt.Fprintf(&pb, "%s (* %s *)", coqBytes([]byte(f.name)), f.name)
		}
		pb.WriteString("].\n")
		pp := filepath.Join(*out, "KeysPoisonGen.v")
		if oldp, err := os.ReadFile(pp); err != nil || !bytes.Equal(oldp, pb.Bytes()) {
			if err := os.WriteFile(pp, pb.Bytes(), 0o644); err != nil {
				die("%v", err)
			}
		}
	}

	path := filepath.Join(*out, "KeysGen.v")
	old, err := os.ReadFile(path)
	if err == nil && bytes.Equal(old, b.Bytes()) {
		return
	}
	tmp := path + ".tmp"
	if err := os.WriteFile(tmp, b.Bytes(), 0o644); err != nil {
		die("%v", err)
	}
	if err := os.Rename(tmp, path); err != nil {
		die("%v", err)
	}
}

// constants whose initialiser is not string-like are skipped (numeric constants etc.)
func tryConst(repo string, p *pkg, name string) (value, bool) {
	var v value
	var ok bool
	if try(func() { v, ok = lookupConst(repo, p, name) }) != "" {
		return value{}, false
	}
	if !ok || v.kind != "frag" {
		return value{}, false
	}
	for _, it := range v.items {
		if it.kind != "Lit" && it.kind != "Sep" {
			return value{}, false
		}
	}
	return v, true
}

func validIDClass(hp *pkg) []byte {
	for _, f := range hp.files {
		for _, d := range f.Decls {
			gd, ok := d.(*ast.GenDecl)
			if !ok || gd.Tok != token.VAR {
				continue
			}
			for _, sp := range gd.Specs {
				vs := sp.(*ast.ValueSpec)
				for i, id := range vs.Names {
					if id.Name != "IsValidID" || i >= len(vs.Values) {
						continue
					}
					// regexp.MustCompile(`...`).MatchString
					se, ok := vs.Values[i].(*ast.SelectorExpr)
					if !ok || se.Sel.Name != "MatchString" {
						die("validate.go: IsValidID is no longer regexp.MustCompile(...).MatchString")
					}
					call, ok := se.X.(*ast.CallExpr)
					if !ok || len(call.Args) != 1 {
						die("validate.go: IsValidID is no longer regexp.MustCompile(...).MatchString")
					}
					fn, ok := call.Fun.(*ast.SelectorExpr)
					if !ok || fn.Sel.Name != "MustCompile" {
						die("validate.go: IsValidID is no longer regexp.MustCompile(...).MatchString")
					}
					lit, ok := call.Args[0].(*ast.BasicLit)
					if !ok || lit.Kind != token.STRING {
						die("validate.go: IsValidID regexp is not a literal")
					}
					re, err := strconv.Unquote(lit.Value)
					if err != nil {
						die("validate.go: %v", err)
					}
					return parseClass(re)
				}
			}
		}
	}
	die("validate.go: IsValidID not found")
	return nil
}
