// bscconsts: regenerates the mechanical parts of the BSC client model (property C09) from the Go source
// -> Gen/BscConstsGen.v
//
// Sources (relative to -repo, all under x/xibc/clients/light-clients/bsc/types unless said otherwise):
//
//	bsc.go     the integer constants of the const block (extraVanity, extraSeal, addressLength, bloomByteLength,
//	           nonceByteLength, gasLimitBoundDivisor) and `x = big.NewInt(<int>)` of the var block (diffInTurn, diffNoTurn);
//	           struct BscHeader: field names and types IN ORDER (= the RLP list hashed by Header.Hash)
//	errors.go  `Name = sdkerrors.Register(moduleName, <code>, ...)` : the registered error codes
//	header.go  ToBscHeader: for every field of the BscHeader literal the expression that fills it;
//	           encodeSigHeader: the elements of the `[]interface{}{...}` literal IN ORDER (= the RLP list the sealer
//	           signs), each with the way rlp encodes it, derived from its Go type: *big.Int parameter -> "big",
//	           []byte field (or a slice of one) -> "bytes", uint64 field -> "uint64"
//	bsc.pb.go, ../../../../core/client/types/client.pb.go  field types of Header and Height
//
// Expressions are printed with the receiver / parameters renamed to canonical names (h, header, chainId) and
// package-level integer constants replaced by their values, so that renaming a variable or writing `extraSeal`
// for `65` regenerates the same term.  Anything the translator does not recognise is emitted as an item of kind
// "other" with its source text: the tie lemmas of Proofs/BscGenTie.v then fail for C09 only (a failed tie is never
// skipped silently, and a change of the BSC client cannot break the build of the other properties).  Only a
// missing / unparsable file or a missing function is fatal (exit 1).
package main

import (
	"bytes"
	"flag"
	"fmt"
	"go/ast"
	"go/parser"
	"go/printer"
	"go/token"
	"os"
	"path/filepath"
	"strconv"
	"strings"
)

func die(f string, a ...interface{}) {
	fmt.Fprintf(os.Stderr, "bscconsts: "+f+"\n", a...)
	os.Exit(1)
}

var fset = token.NewFileSet()

func parse(path string) *ast.File {
	f, err := parser.ParseFile(fset, path, nil, 0)
	if err != nil {
		die("%v", err)
	}
	return f
}

func src(n ast.Node) string {
	var b bytes.Buffer
	printer.Fprint(&b, fset, n)
	return strings.Join(strings.Fields(b.String()), " ")
}

func intLit(e ast.Expr) (uint64, bool) {
	if p, ok := e.(*ast.ParenExpr); ok {
		return intLit(p.X)
	}
	if c, ok := e.(*ast.CallExpr); ok && len(c.Args) == 1 { // uint64(5)
		if id, ok := c.Fun.(*ast.Ident); ok && (id.Name == "uint64" || id.Name == "int" || id.Name == "int64") {
			return intLit(c.Args[0])
		}
	}
	if l, ok := e.(*ast.BasicLit); ok && l.Kind == token.INT {
		v, err := strconv.ParseUint(l.Value, 0, 64)
		return v, err == nil
	}
	return 0, false
}

type kv struct {
	k string
	v uint64
}

func coqStr(s string) string { return "\"" + strings.ReplaceAll(s, "\"", "\"\"") + "\"" }

// rename rewrites identifiers (parameters -> canonical names, integer constants -> their values) in a copy of
// the printed expression; done on the AST so that only whole identifiers are touched.
func rename(e ast.Expr, names map[string]string, consts map[string]uint64) string {
	var show func(n ast.Expr) string
	opt := func(n ast.Expr) string {
		if n == nil {
			return ""
		}
		return show(n)
	}
	show = func(n ast.Expr) string {
		switch x := n.(type) {
		case *ast.Ident:
			if nn, ok := names[x.Name]; ok {
				return nn
			}
			if v, ok := consts[x.Name]; ok {
				return strconv.FormatUint(v, 10)
			}
			return x.Name
		case *ast.BasicLit:
			if v, ok := intLit(x); ok {
				return strconv.FormatUint(v, 10)
			}
			return x.Value
		case *ast.SelectorExpr:
			return show(x.X) + "." + x.Sel.Name
		case *ast.CallExpr:
			var args []string
			for _, a := range x.Args {
				args = append(args, show(a))
			}
			return show(x.Fun) + "(" + strings.Join(args, ", ") + ")"
		case *ast.SliceExpr:
			s := show(x.X) + "[" + opt(x.Low) + ":" + opt(x.High)
			if x.Slice3 {
				s += ":" + opt(x.Max)
			}
			return s + "]"
		case *ast.BinaryExpr:
			return show(x.X) + x.Op.String() + show(x.Y)
		case *ast.ParenExpr:
			return "(" + show(x.X) + ")"
		case *ast.IndexExpr:
			return show(x.X) + "[" + show(x.Index) + "]"
		case *ast.UnaryExpr:
			return x.Op.String() + show(x.X)
		case *ast.StarExpr:
			return "*" + show(x.X)
		}
		return "other: " + src(n)
	}
	return show(e)
}

func funcDecl(f *ast.File, recv, name string) *ast.FuncDecl {
	for _, d := range f.Decls {
		fd, ok := d.(*ast.FuncDecl)
		if !ok || fd.Name.Name != name {
			continue
		}
		if recv == "" && fd.Recv == nil {
			return fd
		}
		if recv != "" && fd.Recv != nil && len(fd.Recv.List) == 1 {
			t := fd.Recv.List[0].Type
			if s, ok := t.(*ast.StarExpr); ok {
				t = s.X
			}
			if id, ok := t.(*ast.Ident); ok && id.Name == recv {
				return fd
			}
		}
	}
	return nil
}

func structFields(f *ast.File, name string) [][2]string {
	var out [][2]string
	for _, d := range f.Decls {
		gd, ok := d.(*ast.GenDecl)
		if !ok || gd.Tok != token.TYPE {
			continue
		}
		for _, s := range gd.Specs {
			ts := s.(*ast.TypeSpec)
			st, ok := ts.Type.(*ast.StructType)
			if !ok || ts.Name.Name != name {
				continue
			}
			for _, fl := range st.Fields.List {
				for _, n := range fl.Names {
					out = append(out, [2]string{n.Name, src(fl.Type)})
				}
			}
			return out
		}
	}
	return nil
}

func main() {
	repo := flag.String("repo", "/repo", "source tree")
	out := flag.String("out", "", "output directory (coq/theories/Gen)")
	flag.Parse()
	if *out == "" {
		die("-out required")
	}
	dir := filepath.Join(*repo, "x/xibc/clients/light-clients/bsc/types")
	bsc := parse(filepath.Join(dir, "bsc.go"))
	errs := parse(filepath.Join(dir, "errors.go"))
	hdr := parse(filepath.Join(dir, "header.go"))
	pb := parse(filepath.Join(dir, "bsc.pb.go"))
	cpb := parse(filepath.Join(*repo, "x/xibc/core/client/types/client.pb.go"))

	// --- integer constants and big.NewInt variables of bsc.go
	var consts []kv
	cmap := map[string]uint64{}
	for _, d := range bsc.Decls {
		gd, ok := d.(*ast.GenDecl)
		if !ok || (gd.Tok != token.CONST && gd.Tok != token.VAR) {
			continue
		}
		for _, s := range gd.Specs {
			vs := s.(*ast.ValueSpec)
			for i, n := range vs.Names {
				if i >= len(vs.Values) {
					continue
				}
				if gd.Tok == token.CONST {
					if v, ok := intLit(vs.Values[i]); ok {
						consts = append(consts, kv{n.Name, v})
						cmap[n.Name] = v
					}
					continue
				}
				// var x = big.NewInt(<int>)
				if c, ok := vs.Values[i].(*ast.CallExpr); ok && src(c.Fun) == "big.NewInt" && len(c.Args) == 1 {
					if v, ok := intLit(c.Args[0]); ok {
						consts = append(consts, kv{n.Name, v})
					}
				}
			}
		}
	}

	// --- registered error codes
	var codes []kv
	for _, d := range errs.Decls {
		gd, ok := d.(*ast.GenDecl)
		if !ok || gd.Tok != token.VAR {
			continue
		}
		for _, s := range gd.Specs {
			vs := s.(*ast.ValueSpec)
			for i, n := range vs.Names {
				if i >= len(vs.Values) {
					continue
				}
				c, ok := vs.Values[i].(*ast.CallExpr)
				if !ok || !strings.HasSuffix(src(c.Fun), ".Register") || len(c.Args) < 2 {
					continue
				}
				if v, ok := intLit(c.Args[1]); ok {
					codes = append(codes, kv{n.Name, v})
				}
			}
		}
	}

	// --- field types of the protobuf Header and of Height
	htypes := map[string]string{}
	for _, f := range structFields(pb, "Header") {
		htypes[f[0]] = f[1]
	}
	for _, f := range structFields(cpb, "Height") {
		htypes["Height."+f[0]] = f[1]
	}
	if len(htypes) < 10 {
		die("struct Header / Height not found")
	}

	// --- BscHeader: field order and types
	bh := structFields(bsc, "BscHeader")
	if bh == nil {
		die("struct BscHeader not found in bsc.go")
	}

	// --- ToBscHeader: what fills each field
	tb := funcDecl(hdr, "Header", "ToBscHeader")
	if tb == nil || tb.Recv == nil || len(tb.Recv.List[0].Names) != 1 {
		die("method Header.ToBscHeader not found")
	}
	recvName := tb.Recv.List[0].Names[0].Name
	fill := map[string]string{}
	// local variables defined once by `x := <expr>` are replaced by their definition
	tbNames := map[string]string{recvName: "h"}
	for _, st := range tb.Body.List {
		if as, ok := st.(*ast.AssignStmt); ok && as.Tok == token.DEFINE && len(as.Lhs) == 1 && len(as.Rhs) == 1 {
			if id, ok := as.Lhs[0].(*ast.Ident); ok {
				tbNames[id.Name] = rename(as.Rhs[0], tbNames, cmap)
			}
		}
	}
	ast.Inspect(tb.Body, func(n ast.Node) bool {
		cl, ok := n.(*ast.CompositeLit)
		if !ok || src(cl.Type) != "BscHeader" {
			return true
		}
		for _, el := range cl.Elts {
			if kvx, ok := el.(*ast.KeyValueExpr); ok {
				fill[src(kvx.Key)] = rename(kvx.Value, tbNames, cmap)
			} else {
				fill["?"] = "other: positional element " + src(el)
			}
		}
		return false
	})
	// a local variable used in the literal: append how it was built (`x := new(big.Int)` + `x.SetBytes(h.F)`)
	locals := map[string]string{}
	for _, st := range tb.Body.List {
		if es, ok := st.(*ast.ExprStmt); ok {
			if c, ok := es.X.(*ast.CallExpr); ok {
				if s, ok := c.Fun.(*ast.SelectorExpr); ok {
					if id, ok := s.X.(*ast.Ident); ok && len(c.Args) == 1 && tbNames[id.Name] == "new(big.Int)" {
						locals["new(big.Int)"] = s.Sel.Name + "(" + rename(c.Args[0], tbNames, cmap) + ")"
					}
				}
			}
		}
	}
	for k, v := range fill {
		if l, ok := locals[v]; ok {
			fill[k] = "big." + l
		}
	}

	// --- encodeSigHeader: the signed list
	es := funcDecl(hdr, "", "encodeSigHeader")
	if es == nil || len(es.Type.Params.List) != 3 {
		die("func encodeSigHeader(w, header, chainId) not found")
	}
	pn := func(i int) string {
		if len(es.Type.Params.List[i].Names) != 1 {
			die("encodeSigHeader: unnamed parameter")
		}
		return es.Type.Params.List[i].Names[0].Name
	}
	names := map[string]string{pn(1): "header", pn(2): "chainId"}
	chainType := src(es.Type.Params.List[2].Type)
	type item struct{ name, kind string }
	var items []item
	found := false
	ast.Inspect(es.Body, func(n ast.Node) bool {
		cl, ok := n.(*ast.CompositeLit)
		if !ok || found || src(cl.Type) != "[]interface{}" {
			return true
		}
		found = true
		for _, el := range cl.Elts {
			txt := rename(el, names, cmap)
			kind := "other"
			switch {
			case txt == "chainId" && chainType == "*big.Int":
				kind = "big"
			case strings.HasPrefix(txt, "header."):
				path := strings.TrimPrefix(txt, "header.")
				if i := strings.Index(path, "["); i >= 0 { // a slice of a field keeps the field's type
					path = path[:i]
				}
				switch htypes[path] {
				case "[]byte":
					kind = "bytes"
				case "uint64":
					kind = "uint64"
				}
			}
			items = append(items, item{strings.TrimPrefix(txt, "header."), kind})
		}
		return false
	})
	if !found {
		die("encodeSigHeader: no []interface{}{...} literal")
	}

	// --- output
	var b bytes.Buffer
	b.WriteString("(* GENERATED by tools/gotocoq/bscconsts from x/xibc/clients/light-clients/bsc/types/{bsc,errors,header}.go — do not edit *)\n")
	b.WriteString("From Teleport Require Import Base.Bytes.\nLocal Open Scope N_scope.\nLocal Open Scope string_scope.\n\n")
	wl := func(name string, l []kv) {
		fmt.Fprintf(&b, "Definition %s : list (string * N) :=\n  [", name)
		for i, e := range l {
			if i > 0 {
				b.WriteString(";\n   ")
			}
			fmt.Fprintf(&b, "(%s, %d%%N)", coqStr(e.k), e.v)
		}
		b.WriteString("].\n\n")
	}
	b.WriteString("(* bsc.go: integer constants and big.NewInt variables *)\n")
	wl("bsc_consts", consts)
	b.WriteString("(* errors.go: registered error codes *)\n")
	wl("bsc_error_codes", codes)
	b.WriteString("(* header.go encodeSigHeader: the RLP list the sealer signs — (element, how rlp encodes it) *)\n")
	b.WriteString("Definition bsc_seal_items : list (string * string) :=\n  [")
	for i, it := range items {
		if i > 0 {
			b.WriteString(";\n   ")
		}
		fmt.Fprintf(&b, "(%s, %s)", coqStr(it.name), coqStr(it.kind))
	}
	b.WriteString("].\n\n")
	b.WriteString("(* bsc.go BscHeader + header.go ToBscHeader: the RLP list hashed by Header.Hash — (field, Go type, filled with) *)\n")
	b.WriteString("Definition bsc_block_items : list (string * string * string) :=\n  [")
	for i, f := range bh {
		if i > 0 {
			b.WriteString(";\n   ")
		}
		v, ok := fill[f[0]]
		if !ok {
			v = "other: not set by ToBscHeader"
		}
		fmt.Fprintf(&b, "(%s, %s, %s)", coqStr(f[0]), coqStr(f[1]), coqStr(v))
	}
	b.WriteString("].\n")
	if v, ok := fill["?"]; ok {
		fmt.Fprintf(&b, "\nDefinition bsc_block_items_note : string := %s.\n", coqStr(v))
	}

	path := filepath.Join(*out, "BscConstsGen.v")
	old, err := os.ReadFile(path)
	if err == nil && bytes.Equal(old, b.Bytes()) {
		return
	}
	if err := os.WriteFile(path, b.Bytes(), 0o644); err != nil {
		die("%v", err)
	}
}
