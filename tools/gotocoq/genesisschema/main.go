// genesisschema: regenerates, for property C13 (genesis export / import round trip), the inventories the hand model
// Model/Genesis.v has to agree with -> Gen/GenesisSchemaGen.v
//
//  1. the fields of the five GenesisState structs (x/xibc/types, x/xibc/core/client/types, x/xibc/core/packet/types,
//     x/aggregate/types, x/rvesting/types: struct GenesisState in genesis.pb.go), and for each module
//     - the fields its ExportGenesis fills from the state (keys of the composite literal it returns, directly or
//     through a constructor of the types package; a key whose value is a literal / an argument-less call is a
//     constant, not state),
//     - the fields its InitGenesis reads (selectors <genesis parameter>.<Field> and <genesis parameter>.Get<Field>()),
//     - the fields its validation reads (method Validate on GenesisState, or func ValidateGenesis);
//  2. for each light client package (tendermint, bsc, eth): the key expressions of every Set call on a client store
//     (a parameter of type sdk.KVStore) — the key families the light client WRITES — and the iterations its
//     ClientState.ExportMetadata performs on the store — the key families it EXPORTS; tss: ExportMetadata only.
//
// Subset handled: key expressions f(...) / pkg.f(...) / []byte(CONST) / a local variable with exactly one
// assignment of such a form in the same function; ExportMetadata calls that pass the store as first argument
// with an optional constant / []byte(CONST) second argument.  Anything else => the message goes into
// [translator_errors] of the generated file (a failed tie of C13: schema_ok / lc_ok compute to false).
// go/parser + go/ast only; no type checking.
package main

import (
	"bytes"
	"flag"
	"fmt"
	"go/ast"
	"go/parser"
	"go/token"
	"os"
	"path/filepath"
	"sort"
	"strings"
)

// a construct outside the subset: the generated file then carries the message in [translator_errors], which makes the
// obligations of C13 that read the inventories ([schema_ok], [lc_ok]) compute to false — a failed tie of THIS
// property, named in its replay file, without stopping the proof stages of the other properties
type unsupported string

func die(f string, a ...interface{}) {
	panic(unsupported(fmt.Sprintf(f, a...)))
}

var fset = token.NewFileSet()

func parseFile(repo, rel string) *ast.File {
	f, err := parser.ParseFile(fset, filepath.Join(repo, rel), nil, 0)
	if err != nil {
		die("%v", err)
	}
	return f
}

func parseDir(repo, rel string) []*ast.File {
	ents, err := os.ReadDir(filepath.Join(repo, rel))
	if err != nil {
		die("%v", err)
	}
	var out []*ast.File
	for _, e := range ents {
		n := e.Name()
		if e.IsDir() || !strings.HasSuffix(n, ".go") || strings.HasSuffix(n, "_test.go") || strings.HasSuffix(n, "_verif.go") || strings.HasSuffix(n, ".pb.go") || strings.HasSuffix(n, ".pb.gw.go") {
			continue
		}
		out = append(out, parseFile(repo, filepath.Join(rel, n)))
	}
	return out
}

func funcDecl(files []*ast.File, recv, name string) *ast.FuncDecl {
	for _, f := range files {
		for _, d := range f.Decls {
			fd, ok := d.(*ast.FuncDecl)
			if !ok || fd.Name.Name != name {
				continue
			}
			if recv == "" && fd.Recv == nil {
				return fd
			}
			if recv != "" && fd.Recv != nil && len(fd.Recv.List) == 1 {
				t := fd.Recv.List[0].Type
				if s, ok := t.(*ast.StarExpr); ok {
					t = s.X
				}
				if id, ok := t.(*ast.Ident); ok && id.Name == recv {
					return fd
				}
			}
		}
	}
	return nil
}

// ---- 1. genesis structs -------------------------------------------------------------------------------------------

func structFields(f *ast.File, name string) []string {
	for _, d := range f.Decls {
		gd, ok := d.(*ast.GenDecl)
		if !ok {
			continue
		}
		for _, s := range gd.Specs {
			ts, ok := s.(*ast.TypeSpec)
			if !ok || ts.Name.Name != name {
				continue
			}
			st, ok := ts.Type.(*ast.StructType)
			if !ok {
				die("%s is not a struct", name)
			}
			var out []string
			for _, fl := range st.Fields.List {
				if len(fl.Names) == 0 {
					die("%s: embedded field", name)
				}
				for _, n := range fl.Names {
					if strings.HasPrefix(n.Name, "XXX_") {
						continue
					}
					out = append(out, n.Name)
				}
			}
			return out
		}
	}
	die("struct %s not found", name)
	return nil
}

func isConstantExpr(e ast.Expr) bool {
	switch x := e.(type) {
	case *ast.BasicLit:
		return true
	case *ast.CallExpr:
		return len(x.Args) == 0
	case *ast.CompositeLit:
		return len(x.Elts) == 0
	}
	return false
}

// the GenesisState composite literal a function returns: its state-derived keys
func literalKeys(fd *ast.FuncDecl, resolve func(call *ast.CallExpr) *ast.FuncDecl, depth int) []string {
	if fd == nil || fd.Body == nil {
		die("function without body")
	}
	var out []string
	found := false
	ast.Inspect(fd.Body, func(n ast.Node) bool {
		ret, ok := n.(*ast.ReturnStmt)
		if !ok {
			return true
		}
		if len(ret.Results) != 1 {
			die("%s: return with %d results", fd.Name.Name, len(ret.Results))
		}
		e := ret.Results[0]
		if u, ok := e.(*ast.UnaryExpr); ok && u.Op == token.AND {
			e = u.X
		}
		switch x := e.(type) {
		case *ast.CompositeLit:
			tn := ""
			switch t := x.Type.(type) {
			case *ast.Ident:
				tn = t.Name
			case *ast.SelectorExpr:
				tn = t.Sel.Name
			}
			if tn != "GenesisState" {
				die("%s: returns a literal of type %s", fd.Name.Name, tn)
			}
			for _, el := range x.Elts {
				kv, ok := el.(*ast.KeyValueExpr)
				if !ok {
					die("%s: positional composite literal", fd.Name.Name)
				}
				k, ok := kv.Key.(*ast.Ident)
				if !ok {
					die("%s: literal key is not an identifier", fd.Name.Name)
				}
				if !isConstantExpr(kv.Value) {
					out = append(out, k.Name)
				}
			}
			found = true
		case *ast.CallExpr:
			if depth > 0 {
				die("%s: nested constructor calls", fd.Name.Name)
			}
			callee := resolve(x)
			if callee == nil {
				die("%s: returns the result of a call the translator cannot resolve", fd.Name.Name)
			}
			out = append(out, literalKeys(callee, resolve, depth+1)...)
			found = true
		default:
			die("%s: unsupported return expression", fd.Name.Name)
		}
		return true
	})
	if !found {
		die("%s: no return of a GenesisState", fd.Name.Name)
	}
	return out
}

// name of the parameter whose type mentions GenesisState
func genesisParam(fd *ast.FuncDecl) string {
	check := func(fl *ast.FieldList) string {
		if fl == nil {
			return ""
		}
		for _, p := range fl.List {
			t := p.Type
			if s, ok := t.(*ast.StarExpr); ok {
				t = s.X
			}
			name := ""
			switch x := t.(type) {
			case *ast.Ident:
				name = x.Name
			case *ast.SelectorExpr:
				name = x.Sel.Name
			}
			if name == "GenesisState" && len(p.Names) == 1 {
				return p.Names[0].Name
			}
		}
		return ""
	}
	if n := check(fd.Recv); n != "" {
		return n
	}
	return check(fd.Type.Params)
}

// fields of the genesis parameter a function reads: p.Field and p.GetField()
func readFields(fd *ast.FuncDecl, fields []string) []string {
	if fd == nil || fd.Body == nil {
		die("function without body")
	}
	p := genesisParam(fd)
	if p == "" {
		die("%s: no GenesisState parameter", fd.Name.Name)
	}
	is := map[string]bool{}
	for _, f := range fields {
		is[f] = true
	}
	seen := map[string]bool{}
	ast.Inspect(fd.Body, func(n ast.Node) bool {
		se, ok := n.(*ast.SelectorExpr)
		if !ok {
			return true
		}
		id, ok := se.X.(*ast.Ident)
		if !ok || id.Name != p {
			return true
		}
		name := se.Sel.Name
		if is[name] {
			seen[name] = true
		} else if strings.HasPrefix(name, "Get") && is[name[3:]] {
			seen[name[3:]] = true
		}
		return true
	})
	var out []string
	for _, f := range fields {
		if seen[f] {
			out = append(out, f)
		}
	}
	return out
}

// ---- 2. light clients ---------------------------------------------------------------------------------------------

func typeString(e ast.Expr) string {
	switch x := e.(type) {
	case *ast.Ident:
		return x.Name
	case *ast.SelectorExpr:
		return typeString(x.X) + "." + x.Sel.Name
	case *ast.StarExpr:
		return "*" + typeString(x.X)
	}
	return "?"
}

func kvStoreParams(fd *ast.FuncDecl) map[string]bool {
	out := map[string]bool{}
	for _, p := range fd.Type.Params.List {
		if typeString(p.Type) == "sdk.KVStore" {
			for _, n := range p.Names {
				out[n.Name] = true
			}
		}
	}
	return out
}

func keyHead(e ast.Expr, fd *ast.FuncDecl, depth int) string {
	switch x := e.(type) {
	case *ast.CallExpr:
		switch f := x.Fun.(type) {
		case *ast.Ident:
			return f.Name
		case *ast.SelectorExpr:
			if id, ok := f.X.(*ast.Ident); ok {
				return id.Name + "." + f.Sel.Name
			}
		case *ast.ArrayType: // []byte(CONST)
			if len(x.Args) == 1 {
				if id, ok := x.Args[0].(*ast.Ident); ok {
					return "const:" + id.Name
				}
			}
		}
	case *ast.Ident:
		if depth > 0 {
			break
		}
		var rhs []ast.Expr
		ast.Inspect(fd.Body, func(n ast.Node) bool {
			as, ok := n.(*ast.AssignStmt)
			if !ok {
				return true
			}
			for i, l := range as.Lhs {
				if id, ok := l.(*ast.Ident); ok && id.Name == x.Name && len(as.Rhs) == len(as.Lhs) {
					rhs = append(rhs, as.Rhs[i])
				}
			}
			return true
		})
		if len(rhs) == 1 {
			return keyHead(rhs[0], fd, depth+1)
		}
	}
	die("%s: %s: key expression of a client store write outside the supported subset", fset.Position(e.Pos()), fd.Name.Name)
	return ""
}

func storeWrites(files []*ast.File) []string {
	seen := map[string]bool{}
	for _, f := range files {
		for _, d := range f.Decls {
			fd, ok := d.(*ast.FuncDecl)
			if !ok || fd.Body == nil {
				continue
			}
			stores := kvStoreParams(fd)
			ast.Inspect(fd.Body, func(n ast.Node) bool {
				call, ok := n.(*ast.CallExpr)
				if !ok {
					return true
				}
				se, ok := call.Fun.(*ast.SelectorExpr)
				if !ok || se.Sel.Name != "Set" || len(call.Args) != 2 {
					return true
				}
				id, ok := se.X.(*ast.Ident)
				if !ok {
					return true
				}
				if !stores[id.Name] {
					if strings.Contains(strings.ToLower(id.Name), "store") {
						die("%s: Set on %q, which is not a sdk.KVStore parameter of %s", fset.Position(call.Pos()), id.Name, fd.Name.Name)
					}
					return true
				}
				seen[keyHead(call.Args[0], fd, 0)] = true
				return true
			})
		}
	}
	var out []string
	for k := range seen {
		out = append(out, k)
	}
	sort.Strings(out)
	return out
}

// the iterations ExportMetadata performs on its store parameter: (callee, constant or "")
func exportIterates(files []*ast.File) [][2]string {
	fd := funcDecl(files, "ClientState", "ExportMetadata")
	if fd == nil {
		die("ClientState.ExportMetadata not found")
	}
	stores := kvStoreParams(fd)
	var out [][2]string
	ast.Inspect(fd.Body, func(n ast.Node) bool {
		call, ok := n.(*ast.CallExpr)
		if !ok || len(call.Args) == 0 {
			return true
		}
		a0, ok := call.Args[0].(*ast.Ident)
		if !ok || !stores[a0.Name] {
			return true
		}
		callee := ""
		switch f := call.Fun.(type) {
		case *ast.Ident:
			callee = f.Name
		case *ast.SelectorExpr:
			callee = f.Sel.Name
		default:
			die("%s: ExportMetadata: unsupported callee", fset.Position(call.Pos()))
		}
		arg := ""
		if len(call.Args) >= 2 {
			switch x := call.Args[1].(type) {
			case *ast.Ident:
				arg = x.Name
			case *ast.CallExpr: // []byte(CONST)
				if _, ok := x.Fun.(*ast.ArrayType); ok && len(x.Args) == 1 {
					if id, ok := x.Args[0].(*ast.Ident); ok {
						arg = id.Name
					}
				}
				if arg == "" {
					die("%s: ExportMetadata: unsupported prefix argument", fset.Position(call.Pos()))
				}
			case *ast.FuncLit:
			default:
				die("%s: ExportMetadata: unsupported second argument", fset.Position(call.Pos()))
			}
		}
		out = append(out, [2]string{callee, arg})
		return true
	})
	// any other use of the store (method calls on it) is outside the subset
	ast.Inspect(fd.Body, func(n ast.Node) bool {
		se, ok := n.(*ast.SelectorExpr)
		if !ok {
			return true
		}
		if id, ok := se.X.(*ast.Ident); ok && stores[id.Name] {
			die("%s: ExportMetadata calls a method of the store directly", fset.Position(se.Pos()))
		}
		return true
	})
	return out
}

// ---- output -------------------------------------------------------------------------------------------------------

func q(s string) string { return "\"" + s + "\"" }

func strList(l []string) string {
	parts := make([]string, len(l))
	for i, s := range l {
		parts[i] = q(s)
	}
	return "[" + strings.Join(parts, "; ") + "]"
}

const header = "(* GENERATED by tools/gotocoq/genesisschema from the genesis.pb.go / genesis.go files of x/xibc, x/aggregate, x/rvesting and\n   the tendermint / bsc / eth / tss light client packages -- do not edit. *)\nFrom Coq Require Import String List.\nImport ListNotations.\nLocal Open Scope string_scope.\n\n"

func main() {
	repo := flag.String("repo", "/repo", "repository root")
	out := flag.String("out", "", "output directory (coq/theories/Gen)")
	flag.Parse()
	if *out == "" {
		fmt.Fprintln(os.Stderr, "genesisschema: -out required")
		os.Exit(2)
	}
	content := func() (c string) {
		defer func() {
			if r := recover(); r != nil {
				msg, ok := r.(unsupported)
				if !ok {
					panic(r)
				}
				fmt.Fprintln(os.Stderr, "genesisschema: "+string(msg))
				m := strings.NewReplacer("\"", "'", "\n", " ").Replace(string(msg))
				c = header + "Definition translator_errors : list string := [" + q(m) + "].\n\n"
				for _, n := range []string{"gs_struct_fields", "gs_export_fields", "gs_init_fields", "gs_validate_fields", "lc_store_writes"} {
					c += "Definition " + n + " : list (string * list string) := [].\n"
				}
				c += "Definition lc_export_iterates : list (string * list (string * string)) := [].\n"
			}
		}()
		return generate(*repo)
	}()
	path := filepath.Join(*out, "GenesisSchemaGen.v")
	if old, err := os.ReadFile(path); err == nil && string(old) == content {
		return
	}
	if err := os.WriteFile(path, []byte(content), 0o644); err != nil {
		fmt.Fprintln(os.Stderr, "genesisschema:", err)
		os.Exit(2)
	}
}

func generate(repoDir string) string {
	repo := &repoDir
	type mod struct {
		id, pb, typesDir, genesisFile string
		exportRecv, initRecv          string
		validateFunc                  string // "" = method Validate on GenesisState
	}
	mods := []mod{
		{"xibc", "x/xibc/types/genesis.pb.go", "x/xibc/types", "x/xibc/genesis.go", "", "", ""},
		{"client", "x/xibc/core/client/types/genesis.pb.go", "x/xibc/core/client/types", "x/xibc/core/client/genesis.go", "", "", ""},
		{"packet", "x/xibc/core/packet/types/genesis.pb.go", "x/xibc/core/packet/types", "x/xibc/core/packet/genesis.go", "", "", ""},
		{"aggregate", "x/aggregate/types/genesis.pb.go", "x/aggregate/types", "x/aggregate/genesis.go", "", "", ""},
		{"rvesting", "x/rvesting/types/genesis.pb.go", "x/rvesting/types", "x/rvesting/keeper/genesis.go", "Keeper", "Keeper", "ValidateGenesis"},
	}
	var b bytes.Buffer
	b.WriteString(header)
	b.WriteString("Definition translator_errors : list string := [].\n\n")
	var structs, exports, inits, validates []string
	for _, m := range mods {
		fields := structFields(parseFile(*repo, m.pb), "GenesisState")
		types := parseDir(*repo, m.typesDir)
		gen := []*ast.File{parseFile(*repo, m.genesisFile)}
		resolve := func(call *ast.CallExpr) *ast.FuncDecl {
			name := ""
			switch f := call.Fun.(type) {
			case *ast.Ident:
				name = f.Name
			case *ast.SelectorExpr:
				name = f.Sel.Name
			}
			if name == "" {
				return nil
			}
			return funcDecl(types, "", name)
		}
		exp := funcDecl(gen, m.exportRecv, "ExportGenesis")
		ini := funcDecl(gen, m.initRecv, "InitGenesis")
		if exp == nil || ini == nil {
			die("%s: ExportGenesis / InitGenesis not found in %s", m.id, m.genesisFile)
		}
		var val *ast.FuncDecl
		if m.validateFunc == "" {
			val = funcDecl(types, "GenesisState", "Validate")
		} else {
			val = funcDecl(types, "", m.validateFunc)
		}
		if val == nil {
			die("%s: genesis validation function not found", m.id)
		}
		ek := literalKeys(exp, resolve, 0)
		for _, k := range ek {
			ok := false
			for _, f := range fields {
				ok = ok || f == k
			}
			if !ok {
				die("%s: ExportGenesis fills %s, which is not a field of GenesisState", m.id, k)
			}
		}
		structs = append(structs, fmt.Sprintf("(%s, %s)", q(m.id), strList(fields)))
		exports = append(exports, fmt.Sprintf("(%s, %s)", q(m.id), strList(ek)))
		inits = append(inits, fmt.Sprintf("(%s, %s)", q(m.id), strList(readFields(ini, fields))))
		validates = append(validates, fmt.Sprintf("(%s, %s)", q(m.id), strList(readFields(val, fields))))
	}
	emit := func(name, ty string, items []string) {
		fmt.Fprintf(&b, "Definition %s : %s :=\n  [%s].\n\n", name, ty, strings.Join(items, ";\n   "))
	}
	emit("gs_struct_fields", "list (string * list string)", structs)
	emit("gs_export_fields", "list (string * list string)", exports)
	emit("gs_init_fields", "list (string * list string)", inits)
	emit("gs_validate_fields", "list (string * list string)", validates)

	lcs := []struct{ id, dir string }{
		{"tendermint", "x/xibc/clients/light-clients/tendermint/types"},
		{"bsc", "x/xibc/clients/light-clients/bsc/types"},
		{"eth", "x/xibc/clients/light-clients/eth/types"},
		{"tss", "x/xibc/clients/tss-client/types"},
	}
	var writes, iters []string
	for _, lc := range lcs {
		files := parseDir(*repo, lc.dir)
		writes = append(writes, fmt.Sprintf("(%s, %s)", q(lc.id), strList(storeWrites(files))))
		var its []string
		for _, it := range exportIterates(files) {
			its = append(its, fmt.Sprintf("(%s, %s)", q(it[0]), q(it[1])))
		}
		iters = append(iters, fmt.Sprintf("(%s, [%s])", q(lc.id), strings.Join(its, "; ")))
	}
	emit("lc_store_writes", "list (string * list string)", writes)
	emit("lc_export_iterates", "list (string * list (string * string))", iters)

	return b.String()
}
