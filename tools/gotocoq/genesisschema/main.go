// genesisschema: regenerates, for property C13 (genesis export / import round trip), the inventories the hand model
// Model/Genesis.v has to agree with -> Gen/GenesisSchemaGen.v
//
//  1. the fields of the five GenesisState structs (x/xibc/types, x/xibc/core/client/types, x/xibc/core/packet/types,
//     x/aggregate/types, x/rvesting/types: struct GenesisState in genesis.pb.go), and for each module
//     - the fields its ExportGenesis fills from the state (keys of the composite literal it returns, directly or
//     through a constructor of the types package; a key whose value is a literal / an argument-less call is a
//     constant, not state),
//     - the fields its InitGenesis reads (selectors <genesis parameter>.<Field> and <genesis parameter>.Get<Field>()),
//     - the fields its validation reads (method Validate on GenesisState, or func ValidateGenesis);
//  2. for each light client package (tendermint, bsc, eth): the key expressions of every Set call on a client store
//     (a parameter of type sdk.KVStore) — the key families the light client WRITES — and the iterations its
//     ClientState.ExportMetadata performs on the store — the key families it EXPORTS; tss: ExportMetadata only.
//
// Name-set based and transparent to helper extraction (no type checking, go/parser + go/ast only):
//   - InitGenesis / validation: g.Field and g.GetField() count for every name g bound to the genesis state — the
//     GenesisState receiver / parameters and local aliases — in the function itself and, transitively, in every
//     function or method of the package of genesis.go or of the types package that it calls with such a name as
//     receiver or argument (receiver and parameter substitution by position); a field selected at a call site
//     (helper(g.Clients)) is a read of the caller;
//   - ExportGenesis: the returned composite literal, a returned call of a constructor of those packages (followed), a
//     returned local variable (its literal plus later v.Field = expr assignments);
//   - client store writes: the key expression f(...) / pkg.f(...) / []byte(CONST), a local variable (everything
//     assigned to it), or a PARAMETER of the enclosing function (then the corresponding argument at every call site in
//     the package, transitively: a setKV(store, key, val) helper is transparent), or a FIELD v.f of a struct type of
//     the package (then every expression stored into that field: T{f: expr}, w.f = expr; a key bundle built by a
//     constructor and used by its methods is transparent);
//   - ExportMetadata: calls that pass the store; unexported helpers of the package are followed with the store and
//     constant arguments substituted, `for _, p := range []T{A, B}` binds p to each constant; exported functions
//     and functions of other packages are leaves (callee, constant or "").
//
// Anything else => the message goes into [translator_errors] of the generated file (a failed tie of C13:
// schema_ok / lc_ok compute to false; the other properties' proof stages are not affected).
package main

import (
	"bytes"
	"flag"
	"fmt"
	"go/ast"
	"go/parser"
	"go/token"
	"os"
	"path/filepath"
	"sort"
	"strings"
)

// a construct outside the subset: the generated file then carries the message in [translator_errors], which makes the
// obligations of C13 that read the inventories ([schema_ok], [lc_ok]) compute to false — a failed tie of THIS
// property, named in its replay file, without stopping the proof stages of the other properties
type unsupported string

func die(f string, a ...interface{}) {
	panic(unsupported(fmt.Sprintf(f, a...)))
}

var fset = token.NewFileSet()

func parseFile(repo, rel string) *ast.File {
	f, err := parser.ParseFile(fset, filepath.Join(repo, rel), nil, 0)
	if err != nil {
		die("%v", err)
	}
	return f
}

func parseDir(repo, rel string) []*ast.File {
	ents, err := os.ReadDir(filepath.Join(repo, rel))
	if err != nil {
		die("%v", err)
	}
	var out []*ast.File
	for _, e := range ents {
		n := e.Name()
		if e.IsDir() || !strings.HasSuffix(n, ".go") || strings.HasSuffix(n, "_test.go") || strings.HasSuffix(n, "_verif.go") || strings.HasSuffix(n, ".pb.go") || strings.HasSuffix(n, ".pb.gw.go") {
			continue
		}
		out = append(out, parseFile(repo, filepath.Join(rel, n)))
	}
	return out
}

func funcDecl(files []*ast.File, recv, name string) *ast.FuncDecl {
	for _, f := range files {
		for _, d := range f.Decls {
			fd, ok := d.(*ast.FuncDecl)
			if !ok || fd.Name.Name != name {
				continue
			}
			if recv == "" && fd.Recv == nil {
				return fd
			}
			if recv != "" && fd.Recv != nil && len(fd.Recv.List) == 1 {
				t := fd.Recv.List[0].Type
				if s, ok := t.(*ast.StarExpr); ok {
					t = s.X
				}
				if id, ok := t.(*ast.Ident); ok && id.Name == recv {
					return fd
				}
			}
		}
	}
	return nil
}

// ---- 1. genesis structs -------------------------------------------------------------------------------------------

func structFields(f *ast.File, name string) []string {
	for _, d := range f.Decls {
		gd, ok := d.(*ast.GenDecl)
		if !ok {
			continue
		}
		for _, s := range gd.Specs {
			ts, ok := s.(*ast.TypeSpec)
			if !ok || ts.Name.Name != name {
				continue
			}
			st, ok := ts.Type.(*ast.StructType)
			if !ok {
				die("%s is not a struct", name)
			}
			var out []string
			for _, fl := range st.Fields.List {
				if len(fl.Names) == 0 {
					die("%s: embedded field", name)
				}
				for _, n := range fl.Names {
					if strings.HasPrefix(n.Name, "XXX_") {
						continue
					}
					out = append(out, n.Name)
				}
			}
			return out
		}
	}
	die("struct %s not found", name)
	return nil
}

func isConstantExpr(e ast.Expr) bool {
	switch x := e.(type) {
	case *ast.BasicLit:
		return true
	case *ast.CallExpr:
		return len(x.Args) == 0
	case *ast.CompositeLit:
		return len(x.Elts) == 0
	}
	return false
}

// every function / method of the given name declared in the files (any receiver)
func funcsNamed(files []*ast.File, name string) []*ast.FuncDecl {
	var out []*ast.FuncDecl
	for _, f := range files {
		for _, d := range f.Decls {
			if fd, ok := d.(*ast.FuncDecl); ok && fd.Name.Name == name && fd.Body != nil {
				out = append(out, fd)
			}
		}
	}
	return out
}

func calleeName(call *ast.CallExpr) (name string, recv ast.Expr) {
	switch f := call.Fun.(type) {
	case *ast.Ident:
		return f.Name, nil
	case *ast.SelectorExpr:
		return f.Sel.Name, f.X
	}
	return "", nil
}

// the flattened parameter names of a function (blank for unnamed ones)
func paramNames(fd *ast.FuncDecl) []string {
	var out []string
	for _, p := range fd.Type.Params.List {
		if len(p.Names) == 0 {
			out = append(out, "_")
		}
		for _, n := range p.Names {
			out = append(out, n.Name)
		}
	}
	return out
}

func recvName(fd *ast.FuncDecl) string {
	if fd.Recv != nil && len(fd.Recv.List) == 1 && len(fd.Recv.List[0].Names) == 1 {
		return fd.Recv.List[0].Names[0].Name
	}
	return ""
}

func typeName(t ast.Expr) string {
	if s, ok := t.(*ast.StarExpr); ok {
		t = s.X
	}
	switch x := t.(type) {
	case *ast.Ident:
		return x.Name
	case *ast.SelectorExpr:
		return x.Sel.Name
	}
	return ""
}

// strips &x, *x and parentheses
func bareIdent(e ast.Expr) string {
	for {
		switch x := e.(type) {
		case *ast.ParenExpr:
			e = x.X
		case *ast.UnaryExpr:
			if x.Op != token.AND {
				return ""
			}
			e = x.X
		case *ast.StarExpr:
			e = x.X
		case *ast.Ident:
			return x.Name
		default:
			return ""
		}
	}
}

// the composite-literal keys (state-derived ones) of the GenesisState a function returns.  Followed transitively:
// a returned call of a function of the module's packages, a returned local variable (its composite literal plus later
// `v.Field = expr` assignments)
func literalKeys(fd *ast.FuncDecl, space []*ast.File, visited map[*ast.FuncDecl]bool) []string {
	if fd == nil || fd.Body == nil {
		die("function without body")
	}
	if visited[fd] {
		return nil
	}
	visited[fd] = true
	var out []string
	found := false
	var fromExpr func(e ast.Expr, depth int)
	fromLit := func(x *ast.CompositeLit) {
		if tn := typeName(x.Type); tn != "GenesisState" {
			die("%s: returns a literal of type %s", fd.Name.Name, tn)
		}
		for _, el := range x.Elts {
			kv, ok := el.(*ast.KeyValueExpr)
			if !ok {
				die("%s: positional composite literal", fd.Name.Name)
			}
			k, ok := kv.Key.(*ast.Ident)
			if !ok {
				die("%s: literal key is not an identifier", fd.Name.Name)
			}
			if !isConstantExpr(kv.Value) {
				out = append(out, k.Name)
			}
		}
		found = true
	}
	fromExpr = func(e ast.Expr, depth int) {
		if depth > 4 {
			die("%s: return expression nested too deeply", fd.Name.Name)
		}
		switch x := e.(type) {
		case *ast.ParenExpr:
			fromExpr(x.X, depth+1)
		case *ast.UnaryExpr:
			if x.Op != token.AND {
				die("%s: unsupported return expression", fd.Name.Name)
			}
			fromExpr(x.X, depth+1)
		case *ast.StarExpr:
			fromExpr(x.X, depth+1)
		case *ast.CompositeLit:
			fromLit(x)
		case *ast.CallExpr:
			name, _ := calleeName(x)
			cands := funcsNamed(space, name)
			if len(cands) == 0 {
				die("%s: returns the result of a call (%s) the translator cannot resolve", fd.Name.Name, name)
			}
			for _, c := range cands {
				out = append(out, literalKeys(c, space, visited)...)
			}
			found = true
		case *ast.Ident:
			// a local variable: every value assigned to it, and every v.Field = expr
			ast.Inspect(fd.Body, func(n ast.Node) bool {
				switch st := n.(type) {
				case *ast.AssignStmt:
					for i, l := range st.Lhs {
						if id, ok := l.(*ast.Ident); ok && id.Name == x.Name && len(st.Rhs) == len(st.Lhs) {
							fromExpr(st.Rhs[i], depth+1)
						}
						if se, ok := l.(*ast.SelectorExpr); ok && bareIdent(se.X) == x.Name && len(st.Rhs) == len(st.Lhs) && !isConstantExpr(st.Rhs[i]) {
							out = append(out, se.Sel.Name)
						}
					}
				case *ast.ValueSpec:
					for i, id := range st.Names {
						if id.Name == x.Name && i < len(st.Values) {
							fromExpr(st.Values[i], depth+1)
						} else if id.Name == x.Name && typeName(st.Type) == "GenesisState" {
							found = true // var gs types.GenesisState, filled by field assignments
						}
					}
				}
				return true
			})
		default:
			die("%s: unsupported return expression", fd.Name.Name)
		}
	}
	ast.Inspect(fd.Body, func(n ast.Node) bool {
		if _, ok := n.(*ast.FuncLit); ok {
			return false
		}
		ret, ok := n.(*ast.ReturnStmt)
		if !ok {
			return true
		}
		if len(ret.Results) != 1 {
			die("%s: return with %d results", fd.Name.Name, len(ret.Results))
		}
		fromExpr(ret.Results[0], 0)
		return true
	})
	if !found {
		die("%s: no return of a GenesisState", fd.Name.Name)
	}
	return out
}

// names of the receiver / parameters whose type is (a pointer to) GenesisState
func genesisParams(fd *ast.FuncDecl) map[string]bool {
	out := map[string]bool{}
	check := func(fl *ast.FieldList) {
		if fl == nil {
			return
		}
		for _, p := range fl.List {
			if typeName(p.Type) == "GenesisState" {
				for _, n := range p.Names {
					out[n.Name] = true
				}
			}
		}
	}
	check(fd.Recv)
	check(fd.Type.Params)
	return out
}

// The fields of the genesis state a function reads: g.Field and g.GetField() for every name g bound to the genesis
// state — the GenesisState receiver / parameters, local aliases (h := g, h := *g, h := &g) — in the function itself
// and, transitively, in every function or method of the module's packages (space) it calls with such a name as
// receiver or argument (receiver and parameter substitution by position).  Fields selected at a call site
// (helper(g.Clients)) are reads of the caller.
func readFields(fd *ast.FuncDecl, fields []string, space []*ast.File) []string {
	if fd == nil || fd.Body == nil {
		die("function without body")
	}
	roots := genesisParams(fd)
	if len(roots) == 0 {
		die("%s: no GenesisState parameter", fd.Name.Name)
	}
	is := map[string]bool{}
	for _, f := range fields {
		is[f] = true
	}
	seen := map[string]bool{}
	visited := map[string]bool{}
	var walk func(fd *ast.FuncDecl, names map[string]bool, depth int)
	walk = func(fd *ast.FuncDecl, names map[string]bool, depth int) {
		var keys []string
		for n := range names {
			keys = append(keys, n)
		}
		sort.Strings(keys)
		key := fmt.Sprintf("%p|%s", fd, strings.Join(keys, ","))
		if visited[key] || depth > 12 {
			return
		}
		visited[key] = true
		// local aliases, to a fixpoint
		for changed := true; changed; {
			changed = false
			ast.Inspect(fd.Body, func(n ast.Node) bool {
				switch st := n.(type) {
				case *ast.AssignStmt:
					if len(st.Lhs) == len(st.Rhs) {
						for i, l := range st.Lhs {
							if id, ok := l.(*ast.Ident); ok && id.Name != "_" && !names[id.Name] && names[bareIdent(st.Rhs[i])] {
								names[id.Name] = true
								changed = true
							}
						}
					}
				case *ast.ValueSpec:
					for i, id := range st.Names {
						if i < len(st.Values) && !names[id.Name] && names[bareIdent(st.Values[i])] {
							names[id.Name] = true
							changed = true
						}
					}
				}
				return true
			})
		}
		ast.Inspect(fd.Body, func(n ast.Node) bool {
			switch x := n.(type) {
			case *ast.SelectorExpr:
				if names[bareIdent(x.X)] {
					name := x.Sel.Name
					if is[name] {
						seen[name] = true
					} else if strings.HasPrefix(name, "Get") && is[name[3:]] {
						seen[name[3:]] = true
					}
				}
			case *ast.CallExpr:
				name, recv := calleeName(x)
				if name == "" {
					return true
				}
				recvBound := recv != nil && names[bareIdent(recv)]
				var argBound []int
				for i, a := range x.Args {
					if names[bareIdent(a)] {
						argBound = append(argBound, i)
					}
				}
				if !recvBound && len(argBound) == 0 {
					return true
				}
				for _, c := range funcsNamed(space, name) {
					if recvBound && (c.Recv == nil || typeName(c.Recv.List[0].Type) != "GenesisState") {
						continue
					}
					sub := map[string]bool{}
					if recvBound {
						if r := recvName(c); r != "" {
							sub[r] = true
						}
					}
					ps := paramNames(c)
					for _, i := range argBound {
						if i < len(ps) && ps[i] != "_" {
							sub[ps[i]] = true
						}
					}
					if len(sub) > 0 {
						walk(c, sub, depth+1)
					}
				}
			}
			return true
		})
	}
	walk(fd, roots, 0)
	var out []string
	for _, f := range fields {
		if seen[f] {
			out = append(out, f)
		}
	}
	return out
}

// ---- 2. light clients ---------------------------------------------------------------------------------------------

func typeString(e ast.Expr) string {
	switch x := e.(type) {
	case *ast.Ident:
		return x.Name
	case *ast.SelectorExpr:
		return typeString(x.X) + "." + x.Sel.Name
	case *ast.StarExpr:
		return "*" + typeString(x.X)
	}
	return "?"
}

func kvStoreParams(fd *ast.FuncDecl) map[string]bool {
	out := map[string]bool{}
	for _, p := range fd.Type.Params.List {
		if typeString(p.Type) == "sdk.KVStore" {
			for _, n := range p.Names {
				out[n.Name] = true
			}
		}
	}
	return out
}

// position of a parameter name among the flattened parameters of fd (-1: not a parameter)
func paramIndex(fd *ast.FuncDecl, name string) int {
	for i, n := range paramNames(fd) {
		if n == name {
			return i
		}
	}
	return -1
}

// The heads of a key expression: f(...) -> "f", pkg.f(...) -> "pkg.f", []byte(CONST) -> "const:CONST"; a local
// variable -> the heads of everything assigned to it in the function; a PARAMETER of the function -> the heads of the
// corresponding argument at every call site of the function in the package (transitively).
func keyHeads(e ast.Expr, fd *ast.FuncDecl, files []*ast.File, depth int) []string {
	if depth > 8 {
		die("%s: %s: key expression of a client store write nested too deeply", fset.Position(e.Pos()), fd.Name.Name)
	}
	switch x := e.(type) {
	case *ast.ParenExpr:
		return keyHeads(x.X, fd, files, depth+1)
	case *ast.CallExpr:
		switch f := x.Fun.(type) {
		case *ast.Ident:
			return []string{f.Name}
		case *ast.SelectorExpr:
			if id, ok := f.X.(*ast.Ident); ok {
				return []string{id.Name + "." + f.Sel.Name}
			}
		case *ast.ArrayType: // []byte(CONST)
			if len(x.Args) == 1 {
				if id, ok := x.Args[0].(*ast.Ident); ok {
					if paramIndex(fd, id.Name) >= 0 {
						return keyHeads(id, fd, files, depth+1)
					}
					return []string{"const:" + id.Name}
				}
			}
		}
	case *ast.SelectorExpr:
		// v.f: a key held in a field of a struct value of a type declared in this package (v a receiver, parameter,
		// local variable or a constructor call): the heads of every expression stored into field f of such a struct —
		// composite literals T{f: expr} / positional, and assignments w.f = expr — each resolved in its own function
		if hs := fieldHeads(x, fd, files, depth); len(hs) > 0 {
			return hs
		}
	case *ast.Ident:
		var out []string
		if pi := paramIndex(fd, x.Name); pi >= 0 {
			for _, f := range files {
				for _, d := range f.Decls {
					caller, ok := d.(*ast.FuncDecl)
					if !ok || caller.Body == nil {
						continue
					}
					ast.Inspect(caller.Body, func(n ast.Node) bool {
						call, ok := n.(*ast.CallExpr)
						if !ok {
							return true
						}
						if name, _ := calleeName(call); name == fd.Name.Name && pi < len(call.Args) {
							arg := call.Args[pi]
							if id, ok := arg.(*ast.Ident); ok && caller == fd && id.Name == x.Name {
								return true // recursion passing the parameter through
							}
							out = append(out, keyHeads(arg, caller, files, depth+1)...)
						}
						return true
					})
				}
			}
			if len(out) == 0 { // never called inside the package: the key comes from outside, nothing to classify
				die("%s: %s: the key of a client store write is a parameter and the function has no caller in its package", fset.Position(e.Pos()), fd.Name.Name)
			}
			return out
		}
		ast.Inspect(fd.Body, func(n ast.Node) bool {
			switch st := n.(type) {
			case *ast.AssignStmt:
				for i, l := range st.Lhs {
					if id, ok := l.(*ast.Ident); ok && id.Name == x.Name && len(st.Rhs) == len(st.Lhs) {
						// key = append(key, ...) keeps the head of key
						if c, ok := st.Rhs[i].(*ast.CallExpr); ok {
							if fn, ok := c.Fun.(*ast.Ident); ok && fn.Name == "append" && len(c.Args) > 0 && bareIdent(c.Args[0]) == x.Name {
								continue
							}
						}
						out = append(out, keyHeads(st.Rhs[i], fd, files, depth+1)...)
					}
				}
			case *ast.ValueSpec:
				for i, id := range st.Names {
					if id.Name == x.Name && i < len(st.Values) {
						out = append(out, keyHeads(st.Values[i], fd, files, depth+1)...)
					}
				}
			}
			return true
		})
		if len(out) > 0 {
			return out
		}
	}
	die("%s: %s: key expression of a client store write outside the supported subset", fset.Position(e.Pos()), fd.Name.Name)
	return nil
}

// struct types declared in the package: name -> field names in order
func pkgStructs(files []*ast.File) map[string][]string {
	out := map[string][]string{}
	for _, f := range files {
		for _, d := range f.Decls {
			gd, ok := d.(*ast.GenDecl)
			if !ok || gd.Tok != token.TYPE {
				continue
			}
			for _, sp := range gd.Specs {
				ts, ok := sp.(*ast.TypeSpec)
				if !ok {
					continue
				}
				st, ok := ts.Type.(*ast.StructType)
				if !ok {
					continue
				}
				var fs []string
				for _, fl := range st.Fields.List {
					if len(fl.Names) == 0 {
						fs = append(fs, typeName(fl.Type))
					}
					for _, n := range fl.Names {
						fs = append(fs, n.Name)
					}
				}
				out[ts.Name.Name] = fs
			}
		}
	}
	return out
}

// the declared type name of an identifier that is the receiver or a parameter of fd ("" otherwise)
func declaredType(fd *ast.FuncDecl, name string) string {
	look := func(fl *ast.FieldList) string {
		if fl == nil {
			return ""
		}
		for _, p := range fl.List {
			for _, n := range p.Names {
				if n.Name == name {
					return typeName(p.Type)
				}
			}
		}
		return ""
	}
	if t := look(fd.Recv); t != "" {
		return t
	}
	return look(fd.Type.Params)
}

func fieldHeads(sel *ast.SelectorExpr, fd *ast.FuncDecl, files []*ast.File, depth int) []string {
	field := sel.Sel.Name
	structs := pkgStructs(files)
	hasField := func(t string) int {
		for i, f := range structs[t] {
			if f == field {
				return i
			}
		}
		return -1
	}
	cands := map[string]bool{}
	if id, ok := sel.X.(*ast.Ident); ok {
		if t := declaredType(fd, id.Name); t != "" && hasField(t) >= 0 {
			cands[t] = true
		}
	}
	if len(cands) == 0 { // a local variable / a constructor call: every struct type of the package with that field
		for t := range structs {
			if hasField(t) >= 0 {
				cands[t] = true
			}
		}
	}
	if len(cands) == 0 {
		return nil
	}
	var out []string
	for _, f := range files {
		for _, d := range f.Decls {
			owner, ok := d.(*ast.FuncDecl)
			if !ok || owner.Body == nil {
				continue
			}
			ast.Inspect(owner.Body, func(n ast.Node) bool {
				switch x := n.(type) {
				case *ast.CompositeLit:
					t := typeName(x.Type)
					if !cands[t] {
						return true
					}
					for i, el := range x.Elts {
						if kv, ok := el.(*ast.KeyValueExpr); ok {
							if k, ok := kv.Key.(*ast.Ident); ok && k.Name == field {
								out = append(out, keyHeads(kv.Value, owner, files, depth+1)...)
							}
						} else if i == hasField(t) {
							out = append(out, keyHeads(el, owner, files, depth+1)...)
						}
					}
				case *ast.AssignStmt:
					for i, l := range x.Lhs {
						if se, ok := l.(*ast.SelectorExpr); ok && se.Sel.Name == field && len(x.Rhs) == len(x.Lhs) {
							if id, ok := se.X.(*ast.Ident); ok {
								if t := declaredType(owner, id.Name); t != "" && !cands[t] {
									continue
								}
							}
							out = append(out, keyHeads(x.Rhs[i], owner, files, depth+1)...)
						}
					}
				}
				return true
			})
		}
	}
	return out
}

func storeWrites(files []*ast.File) []string {
	seen := map[string]bool{}
	for _, f := range files {
		for _, d := range f.Decls {
			fd, ok := d.(*ast.FuncDecl)
			if !ok || fd.Body == nil {
				continue
			}
			stores := kvStoreParams(fd)
			ast.Inspect(fd.Body, func(n ast.Node) bool {
				call, ok := n.(*ast.CallExpr)
				if !ok {
					return true
				}
				se, ok := call.Fun.(*ast.SelectorExpr)
				if !ok || se.Sel.Name != "Set" || len(call.Args) != 2 {
					return true
				}
				id, ok := se.X.(*ast.Ident)
				if !ok {
					return true
				}
				if !stores[id.Name] {
					if strings.Contains(strings.ToLower(id.Name), "store") {
						die("%s: Set on %q, which is not a sdk.KVStore parameter of %s", fset.Position(call.Pos()), id.Name, fd.Name.Name)
					}
					return true
				}
				for _, h := range keyHeads(call.Args[0], fd, files, 0) {
					seen[h] = true
				}
				return true
			})
		}
	}
	var out []string
	for k := range seen {
		out = append(out, k)
	}
	sort.Strings(out)
	return out
}

func isUnexported(name string) bool { return name != "" && name[0] >= 'a' && name[0] <= 'z' }

// The iterations ExportMetadata performs on its store parameter, in source order: (callee, constant or "").
// Calls of UNEXPORTED functions of the package that receive the store are followed (the store parameter and
// constant arguments are substituted), so a helper that wraps the iteration is transparent; exported functions
// (IterateProcessedTime, IteratorTraversal ...) and functions of other packages are leaves named by the callee.
// A `for _, p := range []T{A, B}` over constants binds p to each of them in turn.
func exportIterates(files []*ast.File) [][2]string {
	root := funcDecl(files, "ClientState", "ExportMetadata")
	if root == nil {
		die("ClientState.ExportMetadata not found")
	}
	var out [][2]string
	// package-level constants and variables: only these (and helper parameters bound to them) name a prefix
	pkgNames := map[string]bool{}
	for _, f := range files {
		for _, d := range f.Decls {
			if gd, ok := d.(*ast.GenDecl); ok && (gd.Tok == token.CONST || gd.Tok == token.VAR) {
				for _, sp := range gd.Specs {
					if vs, ok := sp.(*ast.ValueSpec); ok {
						for _, n := range vs.Names {
							pkgNames[n.Name] = true
						}
					}
				}
			}
		}
	}
	constOf := func(e ast.Expr) (string, bool) { // CONST or []byte(CONST) / string(CONST)
		switch x := e.(type) {
		case *ast.Ident:
			return x.Name, true
		case *ast.SelectorExpr: // pkg.CONST
			if id, ok := x.X.(*ast.Ident); ok && !isUnexported(x.Sel.Name) {
				return id.Name + "." + x.Sel.Name, true
			}
		case *ast.CallExpr:
			if len(x.Args) == 1 {
				switch x.Fun.(type) {
				case *ast.ArrayType, *ast.Ident:
					switch a := x.Args[0].(type) {
					case *ast.Ident:
						return a.Name, true
					case *ast.SelectorExpr:
						if id, ok := a.X.(*ast.Ident); ok && !isUnexported(a.Sel.Name) {
							return id.Name + "." + a.Sel.Name, true
						}
					}
				}
			}
		}
		return "", false
	}
	var walk func(fd *ast.FuncDecl, stores map[string]bool, env map[string][]string, depth int)
	walk = func(fd *ast.FuncDecl, stores map[string]bool, env map[string][]string, depth int) {
		if depth > 6 {
			die("%s: ExportMetadata: helpers nested too deeply", fd.Name.Name)
		}
		resolve := func(e ast.Expr) ([]string, bool) {
			c, ok := constOf(e)
			if !ok {
				return nil, false
			}
			if vs, ok := env[c]; ok {
				return vs, true
			}
			if !pkgNames[c] && !strings.Contains(c, ".") {
				return nil, false // a local variable (callback ...), not a constant
			}
			return []string{c}, true
		}
		var visit func(n ast.Node) bool
		visit = func(n ast.Node) bool {
			switch x := n.(type) {
			case *ast.RangeStmt:
				// for _, p := range []T{A, B}: bind p to the constants
				if lit, ok := x.X.(*ast.CompositeLit); ok {
					if v, ok := x.Value.(*ast.Ident); ok && v.Name != "_" {
						var cs []string
						all := true
						for _, el := range lit.Elts {
							c, ok := resolve(el)
							if !ok {
								all = false
								break
							}
							cs = append(cs, c...)
						}
						if all {
							for _, c := range cs {
								saved, had := env[v.Name]
								env[v.Name] = []string{c}
								ast.Inspect(x.Body, visit)
								if had {
									env[v.Name] = saved
								} else {
									delete(env, v.Name)
								}
							}
							return false
						}
					}
				}
			case *ast.SelectorExpr:
				if id, ok := x.X.(*ast.Ident); ok && stores[id.Name] {
					die("%s: ExportMetadata (or a helper of it) calls a method of the store directly", fset.Position(x.Pos()))
				}
			case *ast.CallExpr:
				if len(x.Args) == 0 {
					return true
				}
				storeArg := -1
				for i, a := range x.Args {
					if id, ok := a.(*ast.Ident); ok && stores[id.Name] {
						storeArg = i
						break
					}
				}
				if storeArg < 0 {
					return true
				}
				callee, recv := calleeName(x)
				if callee == "" {
					die("%s: ExportMetadata: unsupported callee", fset.Position(x.Pos()))
				}
				if recv == nil || bareIdent(recv) == recvName(fd) && recvName(fd) != "" {
					if isUnexported(callee) {
						if cands := funcsNamed(files, callee); len(cands) == 1 {
							c := cands[0]
							ps := paramNames(c)
							sub := map[string]bool{}
							subEnv := map[string][]string{}
							for i, a := range x.Args {
								if i >= len(ps) {
									break
								}
								if id, ok := a.(*ast.Ident); ok && stores[id.Name] {
									sub[ps[i]] = true
								} else if vs, ok := resolve(a); ok {
									subEnv[ps[i]] = vs
								}
							}
							walk(c, sub, subEnv, depth+1)
							return true
						}
					}
				}
				// a leaf: the first argument after the store that is a constant names the prefix
				args := []string{""}
				for i, a := range x.Args {
					if i == storeArg {
						continue
					}
					if _, isFunc := a.(*ast.FuncLit); isFunc {
						continue
					}
					if vs, ok := resolve(a); ok {
						args = vs
						break
					}
					if _, ok := a.(*ast.Ident); ok {
						continue // a local variable: the callback
					}
					die("%s: ExportMetadata: unsupported argument of %s", fset.Position(x.Pos()), callee)
				}
				for _, a := range args {
					out = append(out, [2]string{callee, a})
				}
			}
			return true
		}
		ast.Inspect(fd.Body, visit)
	}
	walk(root, kvStoreParams(root), map[string][]string{}, 0)
	return out
}

// ---- output -------------------------------------------------------------------------------------------------------

func q(s string) string { return "\"" + s + "\"" }

func strList(l []string) string {
	parts := make([]string, len(l))
	for i, s := range l {
		parts[i] = q(s)
	}
	return "[" + strings.Join(parts, "; ") + "]"
}

const header = "(* GENERATED by tools/gotocoq/genesisschema from the genesis.pb.go / genesis.go files of x/xibc, x/aggregate, x/rvesting and\n   the tendermint / bsc / eth / tss light client packages -- do not edit. *)\nFrom Coq Require Import String List.\nImport ListNotations.\nLocal Open Scope string_scope.\n\n"

func main() {
	repo := flag.String("repo", "/repo", "repository root")
	out := flag.String("out", "", "output directory (coq/theories/Gen)")
	flag.Parse()
	if *out == "" {
		fmt.Fprintln(os.Stderr, "genesisschema: -out required")
		os.Exit(2)
	}
	content := func() (c string) {
		defer func() {
			if r := recover(); r != nil {
				msg, ok := r.(unsupported)
				if !ok {
					panic(r)
				}
				fmt.Fprintln(os.Stderr, "genesisschema: "+string(msg))
				m := strings.NewReplacer("\"", "'", "\n", " ").Replace(string(msg))
				c = header + "Definition translator_errors : list string := [" + q(m) + "].\n\n"
				for _, n := range []string{"gs_struct_fields", "gs_export_fields", "gs_init_fields", "gs_validate_fields", "lc_store_writes"} {
					c += "Definition " + n + " : list (string * list string) := [].\n"
				}
				c += "Definition lc_export_iterates : list (string * list (string * string)) := [].\n"
			}
		}()
		return generate(*repo)
	}()
	path := filepath.Join(*out, "GenesisSchemaGen.v")
	if old, err := os.ReadFile(path); err == nil && string(old) == content {
		return
	}
	if err := os.WriteFile(path, []byte(content), 0o644); err != nil {
		fmt.Fprintln(os.Stderr, "genesisschema:", err)
		os.Exit(2)
	}
}

func generate(repoDir string) string {
	repo := &repoDir
	type mod struct {
		id, pb, typesDir, genesisFile string
		exportRecv, initRecv          string
		validateFunc                  string // "" = method Validate on GenesisState
	}
	mods := []mod{
		{"xibc", "x/xibc/types/genesis.pb.go", "x/xibc/types", "x/xibc/genesis.go", "", "", ""},
		{"client", "x/xibc/core/client/types/genesis.pb.go", "x/xibc/core/client/types", "x/xibc/core/client/genesis.go", "", "", ""},
		{"packet", "x/xibc/core/packet/types/genesis.pb.go", "x/xibc/core/packet/types", "x/xibc/core/packet/genesis.go", "", "", ""},
		{"aggregate", "x/aggregate/types/genesis.pb.go", "x/aggregate/types", "x/aggregate/genesis.go", "", "", ""},
		{"rvesting", "x/rvesting/types/genesis.pb.go", "x/rvesting/types", "x/rvesting/keeper/genesis.go", "Keeper", "Keeper", "ValidateGenesis"},
	}
	var b bytes.Buffer
	b.WriteString(header)
	b.WriteString("Definition translator_errors : list string := [].\n\n")
	var structs, exports, inits, validates []string
	for _, m := range mods {
		fields := structFields(parseFile(*repo, m.pb), "GenesisState")
		types := parseDir(*repo, m.typesDir)
		gen := []*ast.File{parseFile(*repo, m.genesisFile)}
		// helpers may live in any file of the package that holds genesis.go or of the types package
		space := append(append([]*ast.File{}, parseDir(*repo, filepath.Dir(m.genesisFile))...), types...)
		exp := funcDecl(gen, m.exportRecv, "ExportGenesis")
		ini := funcDecl(gen, m.initRecv, "InitGenesis")
		if exp == nil || ini == nil {
			die("%s: ExportGenesis / InitGenesis not found in %s", m.id, m.genesisFile)
		}
		var val *ast.FuncDecl
		if m.validateFunc == "" {
			val = funcDecl(types, "GenesisState", "Validate")
		} else {
			val = funcDecl(types, "", m.validateFunc)
		}
		if val == nil {
			die("%s: genesis validation function not found", m.id)
		}
		ek := literalKeys(exp, space, map[*ast.FuncDecl]bool{})
		for _, k := range ek {
			ok := false
			for _, f := range fields {
				ok = ok || f == k
			}
			if !ok {
				die("%s: ExportGenesis fills %s, which is not a field of GenesisState", m.id, k)
			}
		}
		structs = append(structs, fmt.Sprintf("(%s, %s)", q(m.id), strList(fields)))
		exports = append(exports, fmt.Sprintf("(%s, %s)", q(m.id), strList(ek)))
		inits = append(inits, fmt.Sprintf("(%s, %s)", q(m.id), strList(readFields(ini, fields, space))))
		validates = append(validates, fmt.Sprintf("(%s, %s)", q(m.id), strList(readFields(val, fields, space))))
	}
	emit := func(name, ty string, items []string) {
		fmt.Fprintf(&b, "Definition %s : %s :=\n  [%s].\n\n", name, ty, strings.Join(items, ";\n   "))
	}
	emit("gs_struct_fields", "list (string * list string)", structs)
	emit("gs_export_fields", "list (string * list string)", exports)
	emit("gs_init_fields", "list (string * list string)", inits)
	emit("gs_validate_fields", "list (string * list string)", validates)

	lcs := []struct{ id, dir string }{
		{"tendermint", "x/xibc/clients/light-clients/tendermint/types"},
		{"bsc", "x/xibc/clients/light-clients/bsc/types"},
		{"eth", "x/xibc/clients/light-clients/eth/types"},
		{"tss", "x/xibc/clients/tss-client/types"},
	}
	var writes, iters []string
	for _, lc := range lcs {
		files := parseDir(*repo, lc.dir)
		writes = append(writes, fmt.Sprintf("(%s, %s)", q(lc.id), strList(storeWrites(files))))
		var its []string
		for _, it := range exportIterates(files) {
			its = append(its, fmt.Sprintf("(%s, %s)", q(it[0]), q(it[1])))
		}
		iters = append(iters, fmt.Sprintf("(%s, [%s])", q(lc.id), strings.Join(its, "; ")))
	}
	emit("lc_store_writes", "list (string * list string)", writes)
	emit("lc_export_iterates", "list (string * list (string * string))", iters)

	return b.String()
}
