#!/bin/bash
# Runs the check(s) named in seeded/<id>/meta.json ("checks": ["C20", ...], default: "property") against a scratch
# worktree of /repo with seeded/<id>/patch.diff applied.  Prints CAUGHT / MISSED per check.  Never touches /repo's tree.
# usage: tools/seeded_run.sh <id> [quick|thorough]
set -u
cd "$(dirname "$0")/.."
ID=$1; TIER=${2:-quick}
D=seeded/$ID
[ -f $D/patch.diff ] || { echo "no $D/patch.diff"; exit 2; }
WT=/tmp/wt-seeded-$ID
git -C /repo worktree remove --force $WT >/dev/null 2>&1
git -C /repo worktree add --detach $WT HEAD >/dev/null 2>&1 || { echo "worktree failed"; exit 2; }
if ! git -C $WT apply $(pwd)/$D/patch.diff; then echo "PATCH-DOES-NOT-APPLY $ID"; git -C /repo worktree remove --force $WT; exit 3; fi
CHECKS=$(python3 -c "import json;m=json.load(open('$D/meta.json'));print(' '.join(m.get('checks') or [m['property']]))")
rc=0
for c in $CHECKS; do
  out=$(VERIF_REPO=$WT ./check $c $TIER 2>&1); code=$?
  if echo "$out" | grep -q "^VIOLATION property=$c"; then echo "CAUGHT $ID by $c ($TIER): $(echo "$out" | grep '^VIOLATION' | head -1)";
  else echo "MISSED $ID by $c ($TIER) exit=$code"; echo "$out" | tail -5; rc=1; fi
done
git -C /repo worktree remove --force $WT >/dev/null 2>&1
rm -rf /var/tmp/verif-alt-$(python3 -c "import hashlib,os;print(hashlib.sha1(os.path.realpath('$WT').encode()).hexdigest()[:10])")
exit $rc
