#!/bin/bash
# Runs the check(s) named in seeded/<id>/meta.json ("checks": ["C20", ...], default: "property") against a scratch
# worktree of /repo with seeded/<id>/patch.diff applied.  Prints CAUGHT / MISSED per check.  Never touches /repo's tree.
# usage: tools/seeded_run.sh <id> [quick|thorough]
set -u
cd "$(dirname "$0")/.."
ID=$1; TIER=${2:-quick}
D=seeded/$ID
[ -f $D/patch.diff ] || { echo "no $D/patch.diff"; exit 2; }
WT=/tmp/wt-seeded-$ID
git -C /repo worktree remove --force $WT >/dev/null 2>&1
git -C /repo worktree add --detach $WT HEAD >/dev/null 2>&1 || { echo "worktree failed"; exit 2; }
REV=$(python3 -c "import json;print(json.load(open('$D/meta.json')).get('revert_commit',''))")
if [ -n "$REV" ]; then
  # reverse of a fix commit: revert it on the current HEAD (3-way, follows later changes of the context);
  # patch.diff is the same change as a plain diff, refreshed by tools/refresh_seeded.sh
  if ! git -C $WT -c user.name=v -c user.email=v@v revert --no-commit $REV >/dev/null 2>&1; then
    git -C $WT revert --abort >/dev/null 2>&1; git -C $WT checkout -- . >/dev/null 2>&1
    if ! git -C $WT apply $(pwd)/$D/patch.diff; then echo "PATCH-DOES-NOT-APPLY $ID"; git -C /repo worktree remove --force $WT; exit 3; fi
  fi
elif ! git -C $WT apply $(pwd)/$D/patch.diff; then echo "PATCH-DOES-NOT-APPLY $ID"; git -C /repo worktree remove --force $WT; exit 3; fi
CHECKS=$(python3 -c "import json;m=json.load(open('$D/meta.json'));print(' '.join(m.get('checks') or [m['property']]))")
rc=0
for c in $CHECKS; do
  out=$(VERIF_REPO=$WT ./check $c $TIER 2>&1); code=$?
  if echo "$out" | grep -q "^VIOLATION property=$c"; then echo "CAUGHT $ID by $c ($TIER): $(echo "$out" | grep '^VIOLATION' | head -1)";
  else echo "MISSED $ID by $c ($TIER) exit=$code"; echo "$out" | tail -5; rc=1; fi
done
git -C /repo worktree remove --force $WT >/dev/null 2>&1
rm -rf /var/tmp/verif-alt-$(python3 -c "import hashlib,os;print(hashlib.sha1(os.path.realpath('$WT').encode()).hexdigest()[:10])")
exit $rc
