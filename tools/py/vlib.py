"""Common machinery of the /verif checks (python3 stdlib only).

A check = (1) regenerate Gen/*.v from /repo, (2) build the Coq development and
collect Print Assumptions for the property's theorems, (3) run the real code in
the Go harness, (4) evaluate model-vs-implementation comparison and the property
monitor inside Coq (vm_compute) on the harness output, (5) decide, (6) write
evidence/<id>.json.
"""
import fcntl
import json
import os
import re
import shutil
import subprocess
import sys
import time
from concurrent.futures import ThreadPoolExecutor

ROOT = os.path.abspath(os.path.join(os.path.dirname(__file__), '..', '..'))
REPO = os.environ.get('VERIF_REPO', '/repo')
COQ = os.path.join(ROOT, 'coq')
THEORIES = os.path.join(COQ, 'theories')
GOENV = dict(GOFLAGS='-mod=mod', GOPROXY='off', GOSUMDB='off', GOTOOLCHAIN='local')

ALLOWED_AXIOMS = set()  # none: every theorem must be "Closed under the global context"

FORBIDDEN = re.compile(
    r'\bAdmitted\b|\badmit\b|\bAxiom\b|\bAxioms\b|\bParameter\b|\bParameters\b|\bConjecture\b|Guard Checking|bypass_check|'
    r'Positivity Checking|Universe Checking|type-in-type|impredicative-set|Admit Obligations')


def log(*a):
    print(*a, flush=True)


def sh(cmd, cwd=None, timeout=3600, env=None, inp=None):
    e = dict(os.environ)
    e.update(GOENV)
    if env:
        e.update(env)
    try:
        p = subprocess.run(cmd, cwd=cwd, shell=isinstance(cmd, str), stdout=subprocess.PIPE,
                           stderr=subprocess.STDOUT, timeout=timeout, env=e, input=inp)
        return p.returncode, p.stdout.decode('utf-8', 'replace')
    except subprocess.TimeoutExpired as ex:
        out = ex.stdout.decode('utf-8', 'replace') if ex.stdout else ''
        return 124, out + '\n[timeout after %ss]' % timeout


class Lock:
    def __init__(self, name):
        os.makedirs(os.path.join(ROOT, 'work'), exist_ok=True)
        self.path = os.path.join(ROOT, 'work', '.' + name + '.lock')

    def __enter__(self):
        self.f = open(self.path, 'w')
        fcntl.flock(self.f, fcntl.LOCK_EX)
        return self

    def __exit__(self, *a):
        fcntl.flock(self.f, fcntl.LOCK_UN)
        self.f.close()


# ----------------------------------------------------------------------------
# Coq side
# ----------------------------------------------------------------------------

def coq_literal_bytes(b):
    """bytes -> Coq term of type list byte"""
    if isinstance(b, str):
        b = b.encode('utf-8')
    if len(b) == 0:
        return '[]'
    return '[' + ';'.join('x%02x' % c for c in b) + ']'


def coq_Z(n):
    n = int(n)
    return '(%d)' % n if n < 0 else '%d' % n


def coq_N(n):
    return '%d%%N' % int(n)


def coq_bool(b):
    return 'true' if b else 'false'


def coq_list(items):
    return '[' + '; '.join(items) + ']'


def coq_option(x):
    return 'None' if x is None else '(Some %s)' % x


def dep_cone(vfiles):
    """transitive closure of `From Teleport Require ... X.Y` dependencies (paths relative to THEORIES)"""
    seen, todo = set(), list(vfiles)
    while todo:
        f = todo.pop()
        if f in seen or not os.path.exists(os.path.join(THEORIES, f)):
            continue
        seen.add(f)
        txt = open(os.path.join(THEORIES, f), encoding='utf-8', errors='replace').read()
        for stmt in re.split(r'\.(?:\s+|$)', txt):
            if 'Require' not in stmt:
                continue
            for mod in re.findall(r'[A-Za-z_][A-Za-z0-9_.]*', stmt.split('Require', 1)[1]):
                if mod.startswith('Teleport.'):
                    mod = mod[len('Teleport.'):]
                cand = mod.replace('.', '/') + '.v'
                if os.path.exists(os.path.join(THEORIES, cand)):
                    todo.append(cand)
    return sorted(seen)


def forbidden_scan(vfiles=None):
    """grep the .v files (default: all; else the dependency cone of vfiles, relative to theories/) for
    constructs that weaken the kernel's guarantees"""
    bad = []
    if vfiles is None:
        paths = [os.path.join(dp, f) for dp, _, fs in os.walk(THEORIES) for f in fs if f.endswith('.v')]
    else:
        paths = [os.path.join(THEORIES, f) for f in dep_cone(vfiles)]
    for p in sorted(paths):
        txt = open(p, encoding='utf-8', errors='replace').read()
        # strip comments (nested) before scanning
        out, depth, i = [], 0, 0
        while i < len(txt):
            if txt.startswith('(*', i):
                depth += 1
                i += 2
            elif txt.startswith('*)', i) and depth > 0:
                depth -= 1
                i += 2
            else:
                if depth == 0:
                    out.append(txt[i])
                i += 1
        for ln, line in enumerate(''.join(out).split('\n')):
            if FORBIDDEN.search(line):
                bad.append('%s: %s' % (os.path.relpath(p, ROOT), line.strip()[:120]))
    return bad


TRANSLATOR_FAILURES = {}   # translator sub-directory -> list of Gen/*.v files it writes (filled by run_translators)


def _translator_outputs(sub):
    """Names of the Gen/*.v files a translator writes (read off its source: string literals ending in Gen.v)."""
    try:
        src = open(os.path.join(ROOT, 'tools', 'gotocoq', sub, 'main.go')).read()
    except OSError:
        return []
    return sorted(set(re.findall(r'"([A-Za-z0-9_]+Gen\.v)"', src)))


def run_translators():
    """Regenerate coq/theories/Gen/*.v from /repo: every sub-directory of tools/gotocoq with a main.go is a
    translator.  Returns (ok, log); the failed translators and their output files are left in TRANSLATOR_FAILURES
    (a failed translator leaves a stale or missing Gen file: only the properties whose dependency cone contains
    that file are affected, see check_props)."""
    tool = os.path.join(ROOT, 'tools', 'gotocoq')
    gen = os.path.join(THEORIES, 'Gen')
    os.makedirs(gen, exist_ok=True)
    ok, logs = True, []
    TRANSLATOR_FAILURES.clear()
    if not os.path.isdir(tool):
        return True, ''
    for sub in sorted(os.listdir(tool)):
        if not os.path.exists(os.path.join(tool, sub, 'main.go')):
            continue
        rc, out = sh('go run ./%s -repo %s -out %s' % (sub, REPO, gen), cwd=tool, timeout=900,
                     env={'GOFLAGS': '-mod=mod', 'GOWORK': 'off'})
        if rc != 0:
            ok = False
            TRANSLATOR_FAILURES[sub] = _translator_outputs(sub)
            logs.append('[translator %s failed; its output %s is stale]\n%s' % (sub, TRANSLATOR_FAILURES[sub], out[-3000:]))
    return ok, '\n'.join(logs)


def coq_build(targets=None, jobs=16, timeout=3000):
    """(Re)build .vo files (full build, no -vos). targets: list of paths relative to coq/ (e.g.
    theories/Props/C20.vo); None = all. Returns (ok, output)."""
    with Lock('coq'):
        ok0, out0 = run_translators()   # a failed translator does not stop the build of unaffected properties
        mk = os.path.join(COQ, 'Makefile')
        cp = os.path.join(COQ, '_CoqProject')
        sh([os.path.join(ROOT, 'tools', 'gen_coqproject.sh')], cwd=ROOT)
        if not os.path.exists(mk) or os.path.getmtime(mk) < os.path.getmtime(cp):
            rc, out = sh('coq_makefile -f _CoqProject -o Makefile', cwd=COQ)
            if rc != 0:
                return False, out
        t = ' '.join(targets) if targets else ''
        rc, out = sh('make -k -j%d %s' % (jobs, t), cwd=COQ, timeout=timeout)
        return rc == 0, (('translator failed:\n' + out0 + '\n') if not ok0 else '') + out


def theorem_names(vfile):
    txt = open(vfile).read()
    return re.findall(r'^\s*(?:Theorem|Example)\s+([A-Za-z0-9_\']+)', txt, flags=re.M)


def coq_run_file(workdir, name, text, timeout=1800):
    os.makedirs(workdir, exist_ok=True)
    p = os.path.join(workdir, name)
    open(p, 'w').write(text)
    rc, out = sh(['coqc', '-Q', THEORIES, 'Teleport', '-w', '-deprecated-syntactic-definition,-notation-overridden', name],
                 cwd=workdir, timeout=timeout)
    return rc, out


def check_props(prop, workdir, extra_modules=()):
    """Build Props/<prop>.vo (+ Refuted files of the property) and collect Print Assumptions per theorem.
    Returns dict(obligations, discharged, theorems=[{name, file, status, axioms}], build_ok, build_log)."""
    files = [os.path.join('theories', 'Props', prop + '.v')]
    refdir = os.path.join(THEORIES, 'Refuted')
    if os.path.isdir(refdir):
        for f in sorted(os.listdir(refdir)):
            if f.startswith(prop + '_') and f.endswith('.v'):
                files.append(os.path.join('theories', 'Refuted', f))
    for m in extra_modules:
        files.append(m)
    targets = [f[:-2] + '.vo' for f in files]
    ok, blog = coq_build(targets)
    res = dict(build_ok=ok, build_log=blog[-6000:], theorems=[], obligations=0, discharged=0)
    bad = forbidden_scan([f[len('theories/'):] for f in files])
    res['forbidden'] = bad
    res['cone'] = dep_cone([f[len('theories/'):] for f in files])
    # a failed translator breaks exactly the properties whose cone contains its (now stale) output
    stale = sorted(g for outs in TRANSLATOR_FAILURES.values() for g in outs
                   if any(c.endswith('Gen/' + g) or c.endswith(g) for c in res['cone']))
    unknown = [t for t, outs in TRANSLATOR_FAILURES.items() if not outs]
    res['stale_gen'] = stale + ['(translator %s: outputs unknown)' % t for t in unknown]
    if res['stale_gen']:
        ok = False
        res['build_ok'] = False
        res['build_log'] = ('translator failed, stale: %s\n' % res['stale_gen']) + res['build_log']
    for f in files:
        vf = os.path.join(COQ, f)
        names = theorem_names(vf)
        mod = 'Teleport.' + f[len('theories/'):-2].replace('/', '.')
        vo = vf[:-2] + '.vo'
        built = os.path.exists(vo) and os.path.getmtime(vo) >= os.path.getmtime(vf)
        if not built or not ok and not _vo_fresh(vo, vf):
            for n in names:
                res['theorems'].append(dict(name=n, file=f, status='not-built', axioms=[]))
            continue
        text = 'Require Import %s.\n' % mod
        for n in names:
            text += 'Goal True. idtac "@@BEGIN %s". Abort.\nPrint Assumptions %s.\nGoal True. idtac "@@END". Abort.\n' % (n, n)
        rc, out = coq_run_file(workdir, 'assumptions_%s.v' % f.split('/')[-1][:-2], text)
        for n in names:
            m = re.search(r'@@BEGIN %s\n(.*?)@@END' % re.escape(n), out, flags=re.S)
            if not m:
                res['theorems'].append(dict(name=n, file=f, status='no-output', axioms=[]))
                continue
            body = m.group(1).strip()
            if 'Closed under the global context' in body:
                res['theorems'].append(dict(name=n, file=f, status='closed', axioms=[]))
            else:
                ax = re.findall(r'^([A-Za-z0-9_.\']+)\s*:', body, flags=re.M)
                st = 'axioms-allowed' if ax and all(a in ALLOWED_AXIOMS for a in ax) else 'axioms'
                res['theorems'].append(dict(name=n, file=f, status=st, axioms=ax))
    res['obligations'] = len(res['theorems'])
    res['discharged'] = sum(1 for t in res['theorems'] if t['status'] in ('closed', 'axioms-allowed'))
    if bad:
        res['discharged'] = 0
    if res.get('stale_gen'):   # theorems were checked against definitions that no longer reflect the source
        for t in res['theorems']:
            if t['status'] in ('closed', 'axioms-allowed'):
                t['status'] = 'stale-translation'
        res['discharged'] = 0
    return res


def _vo_fresh(vo, vf):
    return os.path.exists(vo) and os.path.getmtime(vo) >= os.path.getmtime(vf)


def coq_eval_lists(workdir, name, header, defs, queries, timeout=1800):
    """Write a .v file with `header` (Require lines), `defs` (text) and for each (qname, term) in queries
    `Definition qname := Eval vm_compute in term. Print qname.`; returns dict qname -> raw printed text,
    plus rc/out under keys '_rc', '_out'."""
    text = header + '\n' + defs + '\n'
    for q, term in queries:
        text += 'Definition %s := Eval vm_compute in (%s).\n' % (q, term)
        text += 'Goal True. idtac "@@BEGIN %s". Abort.\nPrint %s.\nGoal True. idtac "@@END". Abort.\n' % (q, q)
    rc, out = coq_run_file(workdir, name, text, timeout=timeout)
    res = {'_rc': rc, '_out': out}
    for q, _ in queries:
        m = re.search(r'@@BEGIN %s\n(.*?)@@END' % re.escape(q), out, flags=re.S)
        if m:
            body = m.group(1)
            # "q = <value>\n     : type"
            body = re.sub(r'^\s*%s\s*=\s*' % re.escape(q), '', body.strip())
            body = re.sub(r'\n\s*:\s[^\n]*(\n\s+[^\n]*)*\s*$', '', body)
            res[q] = ' '.join(body.split())
    return res


def parse_nat_tuples(s, arity):
    """parse a printed Coq list of nested nat tuples into python tuples of ints"""
    if s is None:
        return None
    nums = re.findall(r'\d+', s)
    if len(nums) % arity != 0:
        return None
    return [tuple(int(x) for x in nums[i:i + arity]) for i in range(0, len(nums), arity)]


def parallel(fn, items, workers=8):
    with ThreadPoolExecutor(max_workers=workers) as ex:
        return list(ex.map(fn, items))


# ----------------------------------------------------------------------------
# Harness side
# ----------------------------------------------------------------------------

def build_harness(cmds):
    rc, out = sh([os.path.join(ROOT, 'tools', 'prep_harness.sh')] + list(cmds), cwd=ROOT, timeout=1800)
    return rc == 0, out


def run_harness(cmd, args, timeout=3000):
    rc, out = sh([os.path.join(ROOT, 'harness', 'bin', cmd)] + [str(a) for a in args], cwd=ROOT, timeout=timeout)
    return rc, out


def read_jsonl(path):
    out = []
    with open(path) as f:
        for line in f:
            line = line.strip()
            if line:
                out.append(json.loads(line))
    return out


def write_jsonl(path, items):
    with open(path, 'w') as f:
        for it in items:
            f.write(json.dumps(it) + '\n')


# ----------------------------------------------------------------------------
# Known findings, verdicts, evidence
# ----------------------------------------------------------------------------

def known_findings(prop):
    """entries of KNOWN_FINDINGS.txt: list of dict(kind='finding'|'fixed', property, key, text)"""
    out = []
    p = os.path.join(ROOT, 'KNOWN_FINDINGS.txt')
    if not os.path.exists(p):
        return out
    for line in open(p):
        line = line.strip()
        if not line or line.startswith('#'):
            continue
        m = re.match(r'(finding|fixed):\s+property=(\S+)\s+(?:key=(\S+)\s+)?(.*)$', line)
        if m and m.group(2) == prop:
            out.append(dict(kind=m.group(1), property=m.group(2), key=m.group(3), text=m.group(4)))
    return out


class Run:
    """One invocation of a check."""

    def __init__(self, prop, tier, seed=None):
        self.prop = prop
        self.tier = tier
        self.seed = int(seed if seed is not None else os.environ.get('VERIF_SEED', '1') or 1)
        self.t0 = time.time()
        self.work = os.path.join(ROOT, 'work', prop)
        if os.path.isdir(self.work):
            shutil.rmtree(self.work, ignore_errors=True)
        os.makedirs(self.work, exist_ok=True)
        self.violations = []   # list of (replay_path, suffix)
        self.known = []        # list of strings
        self.coverage = {}
        self.assumptions = []
        self.findings = known_findings(prop)

    def quick(self):
        return self.tier == 'quick'

    def budget(self, q, t):
        return q if self.quick() else t

    def violation(self, replay_obj, name=None, no_input=False):
        """record a violation; writes the replay file"""
        n = len(self.violations)
        path = os.path.join(self.work, name or ('replay_%d.json' % n))
        replay_obj = dict(replay_obj)
        replay_obj.setdefault('property', self.prop)
        with open(path, 'w') as f:
            json.dump(replay_obj, f, indent=1)
        self.violations.append((path, ' no-failing-input-found' if no_input else ''))
        return path

    def known_finding(self, key, what):
        """returns True (and records the KNOWN-FINDING line) if `key` is a listed, unfixed finding"""
        for f in self.findings:
            if f['kind'] == 'finding' and f['key'] == key:
                line = 'KNOWN-FINDING: property=%s %s' % (self.prop, what)
                if line not in self.known:
                    self.known.append(line)
                return True
        return False

    def finish(self, level='proof'):
        wall = time.time() - self.t0
        ev = dict(property_id=self.prop, tier=self.tier, seed=self.seed, level=level,
                  coverage=self.coverage, assumptions=self.assumptions, wall_s=round(wall, 2),
                  violations=len(self.violations))
        os.makedirs(os.path.join(ROOT, 'evidence'), exist_ok=True)
        with open(os.path.join(ROOT, 'evidence', self.prop + '.json'), 'w') as f:
            json.dump(ev, f, indent=1, sort_keys=True)
            f.write('\n')
        for k in self.known:
            log(k)
        for path, suffix in self.violations:
            log('VIOLATION property=%s replay=%s%s' % (self.prop, path, suffix))
        if self.violations:
            log('[%s %s] FAILED in %.1fs' % (self.prop, self.tier, wall))
            return 1
        log('[%s %s] ok in %.1fs (obligations %s/%s, evaluations %s)' % (
            self.prop, self.tier, wall, self.coverage.get('discharged'), self.coverage.get('obligations'),
            self.coverage.get('evaluations')))
        return 0

    # -- the proof stage shared by all properties -------------------------------------------
    def proof_stage(self, extra_modules=()):
        """builds the property's theorems; fills coverage; returns the result dict.  A broken proof is
        recorded by the caller (after its search for a failing input) through proof_violation()."""
        r = check_props(self.prop, self.work, extra_modules)
        self.proof = r
        self.coverage['obligations'] = r['obligations']
        self.coverage['discharged'] = r['discharged']
        self.coverage['checker_cmd'] = ('make -C /verif/coq theories/Props/%s.vo (coqc 8.16.1, full .vo build) + '
                                        'coqc Print Assumptions per theorem' % self.prop)
        self.coverage['theorems'] = [dict(name=t['name'], status=t['status'], axioms=t['axioms']) for t in r['theorems']]
        self.coverage['trusted_base'] = [
            'Coq 8.16.1 kernel + vm_compute (no native_compute, no extraction)',
            'axioms: none (every theorem: Closed under the global context)'
            if all(t['status'] == 'closed' for t in r['theorems']) else
            'axioms: ' + ', '.join(sorted({a for t in r['theorems'] for a in t['axioms']})),
        ]
        return r

    def coqchk_stage(self, timeout=2400):
        """thorough tier: re-check the compiled property file and everything it depends on with the independent
        checker and record the axioms it reports (coqchk -o).  A failure or a non-empty axiom list makes the proof
        stage count as broken."""
        mods = ['Teleport.Props.' + self.prop]
        refdir = os.path.join(THEORIES, 'Refuted')
        if os.path.isdir(refdir):
            for f in sorted(os.listdir(refdir)):
                if f.startswith(self.prop + '_') and f.endswith('.vo'):
                    mods.append('Teleport.Refuted.' + f[:-3])
        with Lock('coq'):
            rc, out = sh(['coqchk', '-silent', '-o', '-Q', THEORIES, 'Teleport'] + mods, cwd=COQ, timeout=timeout)
        m = re.search(r'\* Axioms:(.*?)\n\s*\n\* Constants', out, flags=re.S)
        axioms = m.group(1).strip() if m else 'unparsed'
        ok = rc == 0 and axioms == '<none>'
        self.coverage['coqchk'] = dict(cmd='coqchk -silent -o -Q theories Teleport ' + ' '.join(mods), rc=rc, axioms=axioms)
        self.coverage['trusted_base'].append('coqchk (independent checker) re-checked the .vo closure: axioms ' + axioms)
        if not ok:
            self.proof['build_ok'] = False
            self.proof['build_log'] += '\n[coqchk]\n' + out[-2000:]
        return ok

    def proof_ok(self):
        r = self.proof
        return r['build_ok'] and not r['forbidden'] and r['obligations'] > 0 and r['discharged'] == r['obligations']

    def proof_violation(self, found_input=False):
        """called when the proof stage is broken and no concrete failing input was reported yet"""
        r = self.proof
        broken = [t for t in r['theorems'] if t['status'] not in ('closed', 'axioms-allowed')]
        errs = re.findall(r'File "([^"]+)", line (\d+)[^\n]*\n(Error:[^\n]*(?:\n[^\n]+){0,6})', r['build_log'])
        self.violation(dict(kind='proof-obligation-broken',
                            broken_theorems=[t['name'] + ' (' + t['file'] + ': ' + t['status'] + ')' for t in broken],
                            forbidden_constructs=r['forbidden'],
                            coq_errors=[dict(file=e[0], line=int(e[1]), error=e[2][:600]) for e in errs][:5],
                            explanation='a proof obligation of this property no longer checks against the current '
                                        'tree; no concrete failing input was found by the search'),
                       name='replay_proof.json', no_input=not found_input)
