#!/usr/bin/env python3
"""Helper used ONCE per code change to (re)write coq/theories/Proofs/HaltSites.v from Gen/PanicSitesGen.v and the
classification rules below (first matching rule wins).  The rules are the hand-made part of the site table: every
rule names the lemma that guards the matching sites or the justification; a site that no rule matches is written
with justification `Open` and makes the obligation C15_panic_sites_covered fail.  The written table is a
static, reviewed Coq file: ./check never runs this script, it only re-checks the table against the regenerated
inventory.  usage: tools/py/c15_sitetable.py [--check]"""
import os
import re
import sys

ROOT = os.path.abspath(os.path.join(os.path.dirname(__file__), '..', '..'))
GEN = os.path.join(ROOT, 'coq', 'theories', 'Gen', 'PanicSitesGen.v')
OUT = os.path.join(ROOT, 'coq', 'theories', 'Proofs', 'HaltSites.v')

# (file regex, function regex, kind regex, expression regex, justification constructor, lemma or None, reason)
G, B, U, F = 'Guard', 'Benign', 'Unreachable', 'Finding'
RULES = [
    # ---- BSC client ----------------------------------------------------------------------------------------
    (r'bsc/types/client_state\.go', r'ClientState\.(Initialize|UpgradeState)', 'div', r'% m\.Epoch', G, '@validate_bsc_facts',
     'Validate rejects Epoch = 0 (lemma validate_bsc_facts; used by bsc_initialize_safe / bsc_upgrade_safe)'),
    (r'bsc/types/bsc\.go', r'ParseValidators', 'index', r'extra\[extraVanity', G, '@parse_validators_safe',
     'Header.ValidateBasic requires len(Extra) >= 32+65 (validate_bsc_facts), so 32 <= len-65'),
    (r'bsc/types/bsc\.go', r'ParseValidators', 'index', r'result\[i\]|validatorBytes\[', B, None,
     'i < n = len(validatorBytes)/20 and len(validatorBytes) is a multiple of 20 (checked just above)'),
    (r'bsc/types/bsc\.go', r'(Bloom|BlockNonce)\.SetBytes', 'panic|index', r'.*', G, '@validate_bsc_facts',
     'reached through ToBscHeader only; Header.ValidateBasic rejects len(Bloom) > 256 and len(Nonce) > 8 before converting '
     '(validate_bsc_facts); Initialize / UpgradeState do not convert the header'),
    (r'bsc/types/header\.go', r'ecrecover', 'index', r'header\.Extra\[len', B, None, 'guarded by the len(header.Extra) < extraSeal test two lines above'),
    (r'bsc/types/header\.go', r'ecrecover', 'index', r'pubkey\[1:\]', B, None,
     'crypto.Ecrecover returns a 65-byte public key when err == nil; Keccak256 returns 32 bytes'),
    (r'bsc/types/header\.go', r'encodeSigHeader', 'index', r'header\.Extra\[:len', G, '@bsc_recover_safe',
     'only called from ecrecover after its length test (model: bsc_recover returns Err below 65 bytes)'),
    (r'bsc/types/header\.go', r'encodeSigHeader', 'lib|panic', r'.*', G, '@bsc_recover_safe',
     'rlp.Encode fails only on a negative big.Int; the chain id is built with SetUint64 (non-negative), all other items are '
     'byte slices / uint64 (model: bsc_recover false never panics; the pinned behaviour is bsc_recover true, refuted)'),
    (r'bsc/types/header\.go', r'sealHash', 'index', r'hash\[:0\]', B, None, 'zero-length prefix of a 32-byte array'),
    (r'bsc/types/store\.go', r'parseRecentSignerKey', 'index', r'keys\[1\]', G, '@delete_all_signer_strict_no_panic',
     'guarded by the len(keys) != 2 test just above (0d61436; model delete_all_signer_strict, which never panics; the pinned parser '
     'indexed unconditionally: delete_all_signer, C15_bsc_signer_key_refuted)'),
    (r'bsc/types/store\.go', r'GetHeightFromIterationKey', 'index|lib', r'.*', B, None,
     'only called by IterateConsensusStateAscending on keys accepted by host.ParseConsensusStateKey (exact length prefix+16)'),
    (r'bsc/types/store\.go', r'SetSigner', 'lib', r'store\.Set', B, None, 'non-empty key "recentSingers/..", value = signer.Bytes() (20 bytes)'),
    (r'bsc/types/store\.go', r'SetPendingValidators', 'lib', r'store\.(Set|Delete)', B, None, 'constant non-empty key; the value is written only when non-empty'),
    (r'bsc/types/store\.go', r'SetPendingValidators', 'must', r'MustMarshal', B, None, 'marshalling a ValidatorSet of byte slices cannot fail'),
    (r'bsc/types/store\.go', r'(DeleteSigner|deleteConsensusState|GetConsensusState)', 'lib', r'.*', B, None, 'non-empty key built from a constant prefix'),
    # ---- ETH client ----------------------------------------------------------------------------------------
    (r'eth/types/header\.go', r'Header\.ToEthHeader', 'lib', r'BytesToBloom', G, '@validate_eth_facts',
     'Header.ValidateBasic rejects len(Bloom) > 256 (validate_eth_facts; eth_initialize_safe)'),
    (r'eth/types/hashing\.go', r'rlpHash', 'assert', r'hasherPool', B, None, 'the pool only ever holds values made by its New function (KeccakState)'),
    (r'eth/types/hashing\.go', r'rlpHash', 'lib', r'rlp\.Encode', B, None, 'the error is discarded, rlp.Encode does not panic on an EthHeader'),
    (r'eth/types/store\.go', r'SetEth.*', 'lib', r'clientStore\.Set', B, None, 'non-empty formatted key; value = marshalled header / formatted key (non-empty)'),
    # ---- Tendermint client ---------------------------------------------------------------------------------
    (r'tendermint/types/store\.go', r'.*', 'lib|index', r'.*', B, None, 'fixed 16-byte buffer; non-empty keys with constant prefixes, 8-byte / key values'),
    # ---- client keeper / types -----------------------------------------------------------------------------
    (r'core/client/(keeper/client|proposal_handler)\.go', r'.*', 'nilrecv', r'GetLatestHeight\(\)\.String\(\)', B, None,
     'GetLatestHeight of all four client types returns a clienttypes.Height VALUE boxed in the interface (never nil)'),
    (r'core/client/keeper/encoding\.go|core/client/types/encoding\.go', r'(Keeper\.)?MustMarshal.*', 'must|panic', r'.*', B, None,
     'the value is a decoded proto message of a registered implementation (it was unpacked from an Any of that type)'),
    (r'core/client/keeper/encoding\.go|core/client/types/encoding\.go', r'(Keeper\.)?MustUnmarshalClientState', 'must|panic', r'.*', B, None,
     'the bytes under "clientState" are only written by SetClientState (genesis metadata of a listed client is overwritten by it)'),
    (r'core/client/keeper/keeper\.go', r'Keeper\.(SetClientState|SetClientConsensusState)', 'must', r'.*', B, None, 'see MustMarshal*'),
    (r'core/client/keeper/keeper\.go', r'Keeper\.GetClientState', 'must', r'.*', B, None, 'see MustUnmarshalClientState'),
    (r'core/client/keeper/keeper\.go', r'Keeper\.SetAllClientMetadata', 'lib', r'store\.Set', G, '@gx_init_safe',
     'GenesisMetadata.Validate rejects empty keys and values (gx_validate => gx_init never reaches the panic)'),
    (r'core/client/keeper/keeper\.go', r'Keeper\.(SetChainName|SetClientState|SetClientConsensusState|GetClientState|clearClientStore)', 'lib', r'.*', B, None,
     'constant / prefixed non-empty key, non-nil value (marshalled message or []byte(string))'),
    (r'core/client/keeper/relayer\.go', r'Keeper\.RegisterRelayers', 'lib', r'store\.Set\(\[\]byte\(address\)', G, '@gx_init_safe',
     'the address is the store key: proposals (ValidateBasic) and, since d9df21a, the genesis validation (IdentifiedRelayer.Validate, '
     'model relayer_ok) require a bech32 address, which is never empty (handle_xprop_safe; gx_init_safe with relayer_check = true; '
     'the pinned behaviour is refuted in C15_xibc_genesis_relayer_refuted)'),
    (r'core/client/keeper/relayer\.go', r'Keeper\.RegisterRelayers', 'must', r'MustMarshal', B, None, 'marshalling strings cannot fail'),
    (r'core/client/genesis\.go', r'InitGenesis', 'lib|panic', r'.*', G, '@gx_init_safe',
     'GenesisState.Validate has type-asserted the cached values of every listed client / consensus state (gx_validate_clients_vals)'),
    (r'core/client/types/codec\.go', r'Unpack(Client|Consensus)State', 'lib', r'GetCachedValue', B, None, 'guarded by the any == nil test at function entry'),
    (r'core/client/types/genesis\.go', r'GenesisState\.Validate', 'lib', r'GetCachedValue', B, None,
     'a nil Any panics INSIDE the validation (modelled: gx_validate = Panic), i.e. such a genesis never counts as validated'),
    (r'core/client/types/height\.go', r'ParseChainID', 'index|panic', r'.*', B, None,
     'argument = the local chain id (ctx.ChainID()); the regexp guarantees a non-empty digit suffix; overflow of the revision '
     'number of the LOCAL chain id is a configuration assumption listed in the evidence'),
    (r'core/client/types/height\.go', r'ParseHeight', 'index', r'splitStr\[[01]\]', B, None, 'guarded by len(splitStr) != 2'),
    (r'core/host/parse\.go', r'ParseConsensusStateKey', 'index|lib', r'.*', B, None, 'guarded by len(key) == len(prefix)+16'),
    # ---- packet genesis ------------------------------------------------------------------------------------
    (r'core/packet/genesis\.go', r'InitGenesis', 'panic', r'module account', B, None, 'the module account is in the application maccPerms (GetModuleAccount creates it)'),
    (r'core/packet/keeper/keeper\.go', r'Keeper\.GetModuleAccount', 'lib', r'.*', B, None, 'xibc packet sub-module name is registered in maccPerms'),
    (r'core/packet/keeper/keeper\.go', r'Keeper\.SetPacket(Acknowledgement|Commitment)', 'lib', r'store\.Set', G, '@gx_init_safe',
     'packet GenesisState.Validate rejects empty data (gx_validate_packet)'),
    (r'core/packet/keeper/keeper\.go', r'Keeper\.(SetPacketReceipt|SetNextSequenceSend)', 'lib', r'store\.Set', B, None, 'formatted non-empty key, constant / 8-byte value'),
    # ---- rvesting ------------------------------------------------------------------------------------------
    (r'x/rvesting/module/abci\.go', r'BeginBlocker', 'lib|panic', r'.*', G, '@begin_block_validated_no_panic',
     'modelled in Model/Rvesting.v (begin_block); validated parameters never reach a panic (C20 lemmas begin_block_enabled / _disabled)'),
    (r'x/rvesting/keeper/keeper\.go', r'.*', 'lib', r'.*', G, '@begin_block_validated_no_panic',
     'GetBalance -> NewCoin panics on an invalid denomination (modelled in choose); SendCoinsFromModuleToModule returns an error; '
     'the module accounts are registered'),
    (r'x/rvesting/keeper/params\.go', r'Keeper\.(Get|Set)Params', 'lib', r'.*', G, '@gr_init_safe',
     'SetParamSet panics when a validator rejects the value: InitGenesis runs after ValidateGenesis (gr_validate); GetParamSet '
     'reads what SetParamSet / Subspace.Update stored'),
    (r'x/rvesting/keeper/genesis\.go', r'Keeper\.InitGenesis', 'lib|panic', r'.*', F, None,
     'panic(err) #1 (bech32) is excluded by ValidateGenesis (gr_init_safe); panic(err) #2 fires when `from` does not hold '
     'init_reward: finding rvesting-genesis-unfunded-from (hypothesis covers of gr_init_safe; necessity: '
     'C15_rvesting_genesis_unfunded_refuted)'),
    (r'x/rvesting/types/param\.go', r'validatePerBlockReward', 'lib', r'IsNegative', B, None, 'a nil amount is rejected by the IsNil test just above'),
    # ---- aggregate -----------------------------------------------------------------------------------------
    (r'x/aggregate/keeper/proposals\.go', r'Keeper\.DeployERC20Contract', 'index', r'DenomUnits\[0\]', G, '@metadata_ok_units',
     'Metadata.Validate requires a unit with the display denomination (metadata_ok_units; handle_aprop_safe)'),
    (r'x/aggregate/keeper/proposals\.go', r'Keeper\.DeployERC20Contract', 'index', r'data\[', B, None, 'data was made with len(Bin)+len(ctorArgs)'),
    (r'x/aggregate/keeper/proposals\.go', r'Keeper\.UpdateTokenPairERC20', 'index', r'pair\.Denoms\[0\]', G, '@handle_aprop_safe',
     'state invariant aenv_wf: every stored pair has a denomination (established by validated genesis: ga_validate_pairs_denoms, '
     'preserved by every handler: handle_aprop_safe)'),
    (r'x/aggregate/types/token_pair\.go', r'TokenPair\.GetID', 'index', r'tp\.Denoms\[0\]', G, '@handle_aprop_safe',
     'pairs built by the handlers have >= 1 denomination, stored pairs by aenv_wf, genesis pairs by ga_init_safe'),
    (r'x/aggregate/types/utils\.go', r'EqualMetadata', 'index', r'DenomUnits\[i\]', B, None, 'lengths compared equal just above'),
    (r'x/aggregate/types/proposal\.go', r'validateIBC', 'index', r'denomSplit\[0\]', B, None, 'strings.SplitN returns at least one element'),
    (r'x/aggregate/keeper/evm\.go', r'Keeper\.CallEVMWithData', 'index', r'txLogAttrs\[i\]', B, None, 'made with len(res.Logs)'),
    (r'x/aggregate/keeper/token_trace\.go', r'Keeper\.EnableTimeBasedSupplyLimitInTransferContract', 'lib', r'ABI\.Pack', G, '@limits_ok_parse',
     'abi.Pack dereferences the *big.Int arguments: ValidateBasic parsed the same four strings successfully (limits_ok_parse)'),
    (r'x/aggregate/(keeper/(evm|proposals|token_trace)\.go)', r'.*', 'lib', r'(ABI|abi)\.Pack|UnpackIntoInterface|ApplyMessage|GetSequence|GetParams|SetDenomMetaData', B, None,
     'ORACLE (trusted): go-ethereum abi.Pack on strings / addresses / uint8 and UnpackIntoInterface on contract output, ethermint ApplyMessage, account and bank keepers '
     'return a value or an error on these arguments (fields of aenv; the real ones run in the correspondence)'),
    (r'x/aggregate/keeper/params\.go', r'Keeper\.(Get|Set)Params', 'lib', r'.*', B, None,
     'both parameters are bools, validateBool accepts every bool (no parameter value can make SetParamSet panic)'),
    (r'x/aggregate/keeper/token_pairs\.go', r'.*', 'lib', r'store\.(Get|Has|Delete)', B, None, 'prefix store with a one-byte prefix: the full key is never empty'),
    (r'x/aggregate/keeper/token_pairs\.go', r'Keeper\.Set(DenomMap|ERC20Map|TokenPair)', 'lib', r'store\.Set', B, None,
     'key = validated denomination / 20-byte address / 32-byte id (non-empty); value = 32-byte id / marshalled pair (non-empty: the '
     'pair has an address and a denomination)'),
    (r'x/aggregate/keeper/token_pairs\.go', r'.*', 'must', r'.*', B, None, 'token pairs are stored by SetTokenPair only (MustMarshal of a plain message)'),
    (r'x/aggregate/genesis\.go', r'InitGenesis', 'panic', r'module account', B, None, 'the aggregate module account is in maccPerms'),
    # ---- misc ----------------------------------------------------------------------------------------------
    (r'types/events\.go', r'EmitTypedEvent', 'index', r'event\.Attributes\[[ij]\]', B, None, 'indices supplied by sort.SliceStable'),
]


def parse_sites():
    txt = open(GEN).read()
    body = txt[txt.index('Definition panic_sites'):]
    sites = []
    for l in body.split('\n'):
        m = re.match(r'\s*\("(.*?)", "(.*?)", "(.*?)", "(.*)", (\d+)%N\);?\s*$', l)
        if m:
            sites.append(tuple(x.replace('""', '"') for x in m.groups()))
    return sites


def classify(site):
    f, fn, kind, expr, _ = site
    for rf, rfn, rk, re_, j, lemma, reason in RULES:
        if re.search(rf, f) and re.fullmatch(rfn, fn) and re.fullmatch(rk, kind) and re.search(re_, expr):
            return j, lemma, reason
    return 'Open', None, 'NOT CLASSIFIED'


def q(s):
    return '"' + s.replace('"', '""') + '"'


def main():
    sites = parse_sites()
    out = []
    out.append('(** Site table of C15: every potential panic site inventoried by tools/gotocoq/panicsites\n'
               '    (Gen/PanicSitesGen.v: functions reachable from the BeginBlockers, the governance proposal handlers, the three\n'
               '    InitGenesis and the stateless validation) is mapped to the lemma that guards it ([Guard], the lemma is\n'
               '    referenced as a term, so it must exist and type-check), to a justification ([Benign]: cannot fire for a\n'
               '    local reason; [Unreachable]) or to a recorded finding ([Finding]).  [uncovered_sites] lists the inventoried\n'
               '    sites without an entry; Props/C15.v requires it to be empty, so NEW code with a potential panic site is an\n'
               '    open proof obligation.  Written with the help of tools/py/c15_sitetable.py, reviewed by hand. *)\n')
    out.append('From Coq Require Import String List NArith Bool.\nImport ListNotations.\n'
               'From Teleport Require Import Gen.PanicSitesGen.\n'
               'From Teleport Require Import Base.Bytes Base.Outcome Model.Rvesting Proofs.Rvesting Model.Halt Model.HaltAgg Proofs.Halt Proofs.HaltAgg.\n'
               'Local Open Scope string_scope.\n')
    out.append('Inductive just :=\n| Guard (P : Type) (pf : P)\n| Benign\n| Unreachable\n| Finding\n| Open.\nArguments Guard {P} pf.\n')
    out.append('Definition is_open (j : just) : bool := match j with Open => true | _ => false end.\n')
    out.append('(* (file, function, kind, expression, justification, reason) *)\n'
               'Definition site_table : list (string * string * string * string * just * string) := [')
    rows = []
    nopen = 0
    for s in sites:
        j, lemma, reason = classify(s)
        if j == 'Open':
            nopen += 1
        jt = '(Guard (%s))' % lemma if j == 'Guard' else j
        rows.append('  (%s, %s, %s, %s,\n   %s, %s)' % (q(s[0]), q(s[1]), q(s[2]), q(s[3]), jt, q(reason)))
    out.append(';\n'.join(rows))
    out.append('].\n')
    out.append('''Definition site_key_eqb (a : string * string * string * string) (b : string * string * string * string) : bool :=
  let '(a1, a2, a3, a4) := a in let '(b1, b2, b3, b4) := b in
  String.eqb a1 b1 && String.eqb a2 b2 && String.eqb a3 b3 && String.eqb a4 b4.

Definition covered (s : string * string * string * string * N) : bool :=
  let '(f, fn, k, e, _) := s in
  existsb (fun r => let '(f', fn', k', e', j, _) := r in site_key_eqb (f, fn, k, e) (f', fn', k', e') && negb (is_open j)) site_table.

(** Inventoried sites that the table does not justify. *)
Definition uncovered_sites : list (string * string * string * string * N) := filter (fun s => negb (covered s)) panic_sites.

(** Table rows whose site no longer exists in the code (informational). *)
Definition stale_rows : N :=
  N.of_nat (List.length (filter (fun r => let '(f, fn, k, e, _, _) := r in
     negb (existsb (fun s => let '(f', fn', k', e', _) := s in site_key_eqb (f, fn, k, e) (f', fn', k', e')) panic_sites)) site_table)).

Definition count_just (p : just -> bool) : N := N.of_nat (List.length (filter (fun r => let '(_, _, _, _, j, _) := r in p j) site_table)).
''')
    text = '\n'.join(out)
    if '--check' in sys.argv:
        print('%d sites, %d unclassified' % (len(sites), nopen))
        return 1 if nopen else 0
    open(OUT, 'w').write(text)
    print('wrote %s: %d sites, %d unclassified' % (OUT, len(sites), nopen))
    for s in sites:
        if classify(s)[0] == 'Open':
            print('  OPEN', s)
    return 0


if __name__ == '__main__':
    sys.exit(main())
