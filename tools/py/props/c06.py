"""C06 — who can drive the bridge. Model: coq/theories/Model/Auth.v; harness: harness/cmd/c06.

Part A (proved + correspondence): the Go authorization logic of the XIBC message server.
Part B (exhaustive test, NOT proved): msg.sender checks of the source-less system contracts."""
import json
import os
import threading
from collections import Counter

import vlib
from vlib import coq_bool, coq_list, coq_option

# byte strings are interned per Coq file (Definition bN := [...]) — keeps the generated files small
_INTERN = {}


def cb(b):
    if isinstance(b, str):
        b = b.encode('utf-8')
    if len(b) == 0:
        return '[]'
    n = _INTERN.get(b)
    if n is None:
        n = _INTERN[b] = 'b%d' % len(_INTERN)
    return n


def intern_defs(terms_fn):
    """evaluate terms_fn() with a fresh intern table; returns (definitions text, result)"""
    _INTERN.clear()
    res = terms_fn()
    defs = ''.join('Definition %s : bytes := %s.\n' % (n, vlib.coq_literal_bytes(b)) for b, n in _INTERN.items())
    return defs, res

_LOCK = threading.Lock()
HEADER = 'From Teleport Require Import Base.Bytes Base.Outcome Model.Auth Model.AuthCheck.\n'
SHARD = 8  # histories per Coq file (each has ~40 steps)

KINDS = {
    1: 'model and code disagree on the outcome class (accepted / error / panic) of a registration or message',
    2: 'model and code disagree on the relayer registry after the step',
    3: 'model and code disagree on the acknowledgement written by RecvPacket (presence, packet, code, Relayer, fee option)',
    4: 'model and code disagree on the account that received the relayer fee of an acknowledgement',
    11: 'UpdateClient / RecvPacket accepted from a signer whose current record does not list that chain',
    12: 'TSS-secured chain: update / receive / acknowledgement accepted from a signer other than the TSS account',
    13: 'a rejected message (or rejected proposal) changed state',
    14: 'Relayer of the written acknowledgement is not the address registered for the submitting signer and the source chain',
    15: 'a message changed the relayer registry',
    16: 'a registration did not result in exactly: that address -> the given lists, other records untouched',
    17: 'accepted receive for this chain wrote no acknowledgement, or an unexpected acknowledgement event',
    18: 'relayer fee of an acknowledgement paid to an account other than the first record listing (dst chain, ack.Relayer)',
    21: 'a privileged system-contract method took effect (or changed contract state) for a non-module caller',
    22: 'a non-view method of a system-contract ABI is not classified privileged/unprivileged',
}


def N(n):
    return '%d%%N' % int(n)


def ack_term(a):
    return '{| ack_code := %s; ack_result := %s; ack_message := %s; ack_relayer := %s; ack_fee := %s |}' % (
        N(a['code']), cb(bytes.fromhex(a.get('result', ''))), cb(a.get('message', '')), cb(a.get('relayer', '')), N(a['fee_opt']))


def step_term(st, o):
    k = st['k']
    chain = st.get('chain', '')
    if chain == '@self':
        chain = o['self']
    if k in ('gov', 'gen', 'raw'):
        kind = '(%s %s %s %s)' % ('KGov' if k in ('gov', 'gen') else 'KRaw', cb(st.get('addr', '')),
                                  coq_list([cb(c) for c in st.get('chains') or []]),
                                  coq_list([cb(c) for c in st.get('addrs') or []]))
    elif k == 'update':
        kind = '(KUpdate %s %s)' % (cb(chain), cb(o['signer_str']))
    elif k == 'recv':
        kind = '(KRecv %s %s %s %s %s)' % (cb(o['signer_str']), cb(o['src']), cb(o['dst']), N(o.get('seq', 0)), N(o.get('fee', 0)))
    else:
        ma = o.get('msg_ack')
        kind = '(KAck %s %s %s %s %s)' % (cb(o['signer_str']), cb(o['src']), cb(o['dst']), N(o.get('seq', 0)),
                                          coq_option(ack_term(ma) if ma else None))
    clients = coq_list(['(%s, %s)' % (cb(c['chain']), ('TSS %s' % cb(c.get('addr', ''))) if c['tss'] else 'Light')
                        for c in o['clients']])
    oa = o.get('ack')
    # the destination callback as TABULATED by the harness (its own CallPacket on a discarded branch), never the observed ack
    fc = o.get('cb')
    if not fc or fc['kind'] == 3:
        fcb = '(CfRet None)'
    elif fc['kind'] == 1:
        fcb = 'CfFailed'
    elif fc['kind'] == 2:
        fcb = '(CfRet (Some (%s, %s, %s)))' % (N(fc['code']), cb(bytes.fromhex(fc.get('result', ''))), cb(fc.get('message', '')))
    else:
        fcb = 'CfPanic'
    facts = '{| f_clients := %s; f_self := %s; f_lower := %d; f_cb := %s |}' % (clients, cb(o['self']), o['lower'], fcb)
    reg = coq_list(['(%s, (%s, %s))' % (cb(r['address']), coq_list([cb(c) for c in r['chains']]),
                                        coq_list([cb(c) for c in r['addrs']])) for r in o['reg']])
    ack = coq_option('(%s, %s, %s, %s)' % (cb(oa['src']), cb(oa['dst']), N(oa['seq']), ack_term(oa)) if oa else None)
    payee = coq_option(cb(o['payee']) if o.get('payee') else None)
    return ('{| os_kind := %s; os_facts := %s; os_class := %d; os_reg := %s; os_same := %s; os_ack := %s; '
            'os_ack_stored := %s; os_payee := %s |}') % (kind, facts, o['class'], reg, coq_bool(o['same']), ack,
                                                         coq_bool(o['ack_stored']), payee)


def hist_term(r):
    steps = [step_term(st, o) for st, o in zip(r['spec']['steps'], r['obs'])]
    canon = coq_list(['(%s, %s)' % (cb(a), cb(b)) for a, b in r.get('canon') or []])
    bech = coq_list(['(%s, %s)' % (cb(a), coq_bool(b == '1')) for a, b in r.get('bech') or []])
    return '{| h_canon := %s; h_bech := %s; h_steps := %s |}' % (canon, bech, coq_list(steps))


BRANCHES = {
    100: 'update_accepted', 101: 'update_chain_not_listed', 102: 'update_no_client', 103: 'update_tss_checkmsg_failed',
    104: 'update_lower_rejected', 105: 'update_lower_panic',
    201: 'recv_tss_signer_mismatch', 202: 'recv_lower_rejected', 203: 'recv_lower_panic', 204: 'recv_addresses_index_out_of_range',
    205: 'recv_source_not_listed', 210: 'recv_ack_callback_failed', 211: 'recv_ack_callback_code0', 212: 'recv_ack_callback_code_nonzero',
    213: 'recv_callback_result_undecodable', 214: 'recv_callback_panic', 215: 'recv_ack_dst_unknown', 216: 'recv_relayed_no_ack',
    300: 'ack_accepted_source_chain_payout', 301: 'ack_tss_signer_mismatch', 302: 'ack_lower_rejected', 303: 'ack_undecodable',
    304: 'ack_all_zero', 305: 'ack_accepted_relay_chain', 306: 'ack_reverse_lookup_out_of_range', 307: 'ack_relayer_unresolved',
    308: 'ack_payee_not_bech32',
    400: 'reg_new_record', 401: 'reg_rejected_validate_basic', 402: 'reg_empty_address_panic', 403: 'reg_record_replaced',
}
BRANCH_COUNTS = Counter()   # filled by evaluate(..., count_branches=True): the model branch of every step (Model/AuthCheck.step_branch)


def evaluate(workdir, results, tag='cases', count_branches=False):
    """returns (mismatches, monitor_failures) as lists of (hist, step, kind), or (None, log) on a Coq failure"""
    shards = [results[i:i + SHARD] for i in range(0, len(results), SHARD)]

    def one(ix):
        i, sh = ix
        with _LOCK:
            idefs, terms = intern_defs(lambda: [hist_term(r) for r in sh])
        defs = idefs + 'Definition cases : list hist := %s.\n' % coq_list(terms)
        queries = [('M', 'mismatches cases'), ('F', 'monitor_failures cases')]
        if count_branches:
            queries.append(('B', 'branches cases'))
        res = vlib.coq_eval_lists(workdir, '%s_%d.v' % (tag, i), HEADER, defs, queries)
        m = vlib.parse_nat_tuples(res.get('M'), 3)
        f = vlib.parse_nat_tuples(res.get('F'), 3)
        if res['_rc'] != 0 or m is None or f is None:
            return ('error', res['_out'][-3000:])
        if count_branches:
            b = vlib.parse_nat_tuples(res.get('B'), 1)
            if b is None:
                return ('error', res['_out'][-3000:])
            with _LOCK:
                BRANCH_COUNTS.update(x[0] for x in b)
        off = i * SHARD
        return ([(h + off, s, k) for h, s, k in m], [(h + off, s, k) for h, s, k in f])

    outs = vlib.parallel(one, list(enumerate(shards)), workers=16)
    mm, ff = [], []
    for o in outs:
        if o[0] == 'error':
            return None, o[1]
        mm += o[0]
        ff += o[1]
    return mm, ff


LAST_HARNESS_LOG = ['']   # output of the last failed harness invocation (run_specs has no other way to hand it back)


def setup_error(log):
    """(call, err) of a HARNESS-SETUP-ERROR line: a set-up call of the real code failed while the harness built its world"""
    import re
    m = re.search(r'HARNESS-SETUP-ERROR call="((?:[^"\\]|\\.)*)" err="((?:[^"\\]|\\.)*)"', log or '')
    return (m.group(1), m.group(2)) if m else None


def report_harness_failure(run, stage, log):
    se = setup_error(log)
    if se:
        run.violation(dict(kind='harness-setup-failed', stage=stage, call=se[0], error=se[1][:600],
                           explanation='a set-up call of the real code (named in `call`) failed while the harness built its world: '
                                       'either the code under test no longer supports what the harness needs to set up, or the harness '
                                       'sets up something the code refuses by design (then the harness is wrong)'),
                      no_input=True, name='replay_setup_%s.json' % stage)
    else:
        run.violation(dict(kind='harness-crashed', stage=stage, log=(log or '')[-3000:],
                           explanation='the harness crashed outside its named set-up calls'), no_input=True,
                      name='replay_crash_%s.json' % stage)


def run_specs(workdir, specs, tag):
    inp = os.path.join(workdir, tag + '_in.jsonl')
    out = os.path.join(workdir, tag + '_out.jsonl')
    vlib.write_jsonl(inp, specs)
    rc, o = vlib.run_harness('c06', ['-mode', 'auth', '-in', inp, '-out', out])
    if rc != 0:
        LAST_HARNESS_LOG[0] = o
        return None
    return vlib.read_jsonl(out)


B_CHAIN = 'teleport_9000-11'   # xibctesting.GetChainID(1): the real Tendermint counterparty
A_CHAIN = 'teleport_9000-10'   # xibctesting.GetChainID(0): the chain under test


def corpus():
    """hand-written histories that run first on every check (boundary cases of the registry semantics)"""
    g = lambda a, cs, ads: dict(k='gov', addr=a, chains=cs, addrs=ads)
    m = lambda k, signer, chain, **kw: dict(dict(k=k, signer=signer, chain=chain, flavor='valid'), **kw)
    tss = [dict(name='tss-one', acct=2)]
    return [
        # duplicates: the FIRST index wins; another chain's address is never used
        dict(id=9001, seed=11, tss=tss, steps=[g('@acct0', [B_CHAIN, 'tss-one', B_CHAIN], ['0xFIRST', '0xOTHER', '0xSECOND']),
                                               m('recv', 0, B_CHAIN), m('update', 0, B_CHAIN)]),
        # re-registration REPLACES: the old chain is revoked
        dict(id=9002, seed=12, tss=tss, steps=[g('@acct0', [B_CHAIN], ['0xA']), m('update', 0, B_CHAIN), m('recv', 0, B_CHAIN),
                                               g('@acct0', ['ghost-net'], ['0xB']), m('update', 0, B_CHAIN), m('recv', 0, B_CHAIN),
                                               m('update', 0, 'tss-one', new_tss=2), m('recv', 0, 'tss-one')]),
        # TSS: only the TSS account (which must be a relayer of that chain); rotation of the TSS address
        dict(id=9003, seed=13, tss=tss, steps=[g('@acct2', ['tss-one'], ['0xT']), g('@acct3', ['tss-one', B_CHAIN], ['0xU', '0xV']),
                                               m('recv', 2, 'tss-one'), m('recv', 3, 'tss-one'), m('recv', 3, 'tss-one', flavor='tssproof'),
                                               m('ack', 3, 'tss-one', flavor='tssproof', ack_relayer='0xT'),
                                               m('ack', 2, 'tss-one', ack_relayer='0xt'), m('update', 3, 'tss-one', new_tss=3),
                                               m('update', 2, 'tss-one', new_tss=3), m('recv', 2, 'tss-one'), m('recv', 3, 'tss-one'),
                                               m('ack', 3, 'tss-one', ack_relayer='0XU', ack_code=1)]),
        # the registry is keyed by the STRING: upper-case form of the same account is another record
        dict(id=9004, seed=14, tss=tss, steps=[g('@ACCT1', [B_CHAIN], ['0xA']), m('update', 1, B_CHAIN), m('update', 1, B_CHAIN, upper=True),
                                               m('recv', 1, B_CHAIN, upper=True), m('ack', 4, B_CHAIN, ack_relayer='0Xa'),
                                               m('ack', 4, B_CHAIN, ack_relayer='0xZ'), m('ack', 4, B_CHAIN, flavor='zero')]),
        # rejected by ValidateBasic: empty lists, mismatched lengths, bad chain id, bad address; genesis path without checks
        dict(id=9005, seed=15, tss=tss, steps=[g('@acct0', [], []), g('@acct0', [B_CHAIN, 'tss-one'], ['0xA']), g('@acct0', ['ab'], ['0xA']),
                                               g('notbech32', [B_CHAIN], ['0xA']), dict(k='raw', addr='@acct0', chains=['ghost-net', B_CHAIN], addrs=['0xA']),
                                               m('recv', 0, B_CHAIN), m('update', 0, B_CHAIN), m('ack', 1, B_CHAIN, ack_relayer='0xA'),
                                               dict(k='raw', addr='', chains=[B_CHAIN], addrs=['0xA'])]),
        # EVERY acknowledgement-writing branch of RecvPacket, with registrations whose counterparty address differs from
        # the relayer's own address (as for every real relayer), light-client source: callback reports failure by value
        # (code 2 / 3), callback fails as a whole (CallPacket error, code 1), callback succeeds (code 0)
        dict(id=9006, seed=16, tss=tss, steps=[g('@acct0', ['tss-one', B_CHAIN, B_CHAIN], ['0xREG-T', '0xREG-B', '0xREG-B2']),
                                               m('recv', 0, B_CHAIN, fee_opt=1), m('recv', 0, B_CHAIN, payload='cbfail', fee_opt=2),
                                               m('recv', 0, B_CHAIN, payload='ok'), m('recv', 0, B_CHAIN, payload='revert'),
                                               g('@acct0', [B_CHAIN], ['@acct1']), m('recv', 0, B_CHAIN, payload='cbfail'),
                                               m('recv', 1, B_CHAIN, payload='cbfail')]),
        # the same for a TSS-secured source chain
        dict(id=9007, seed=17, tss=tss, steps=[g('@acct2', [B_CHAIN, 'tss-one'], ['0xTSS-B', '0xTSS-T']),
                                               g('@acct3', ['tss-one'], ['0xOTHER']),
                                               m('recv', 2, 'tss-one', payload='cbfail', fee_opt=1), m('recv', 2, 'tss-one', payload='ok'),
                                               m('recv', 2, 'tss-one'), m('recv', 2, 'tss-one', payload='revert'),
                                               m('recv', 3, 'tss-one', payload='cbfail'), m('recv', 3, 'tss-one', flavor='tssproof', payload='cbfail')]),
        # packets that are not for this chain (source = a TSS client under the chain's own name): unknown destination =>
        # error acknowledgement "dstChain not found"; known destination => relayed onwards, no acknowledgement here.
        # Since /repo a9e74e1 the CreateClient proposal refuses a self-named client: the harness stores this one the way
        # InitGenesis does (imported genesis = the only remaining source); the generator no longer produces '@self'.
        dict(id=9008, seed=18, tss=[dict(name='tss-one', acct=2), dict(name='@self', acct=4)],
             steps=[g('@acct4', ['tss-one', A_CHAIN], ['0xSELF-T', '0xSELF-A']), m('recv', 4, '@self', dst='ghost-net', fee_opt=2),
                    m('recv', 4, '@self', dst=B_CHAIN), m('recv', 4, '@self', dst='tss-one', payload='cbfail'),
                    m('recv', 0, '@self', dst='ghost-net'), m('recv', 4, '@self', payload='cbfail')]),
        # neighbours of a chain name (other case, prefix, extension) confer nothing for the chain itself
        dict(id=9009, seed=19, tss=tss, steps=[g('@acct0', [B_CHAIN.upper(), B_CHAIN[:-1], B_CHAIN + '0', 'TSS-ONE', 'tss-on', 'tss-one0'],
                                                 ['0x1', '0x2', '0x3', '0x4', '0x5', '0x6']),
                                               m('update', 0, B_CHAIN), m('recv', 0, B_CHAIN), m('update', 0, 'tss-one', new_tss=2),
                                               g('@acct2', ['TSS-ONE', 'tss-on', 'tss-one0'], ['0x4', '0x5', '0x6']),
                                               m('update', 2, 'tss-one', new_tss=2), m('recv', 2, 'tss-one', payload='cbfail')]),
        # a record imported by an unvalidated genesis under a key that is no bech32 address: its counterparty address
        # resolves in the reverse look-up, but the payee does not parse => the acknowledgement is rejected, nothing paid;
        # a relayer of a chain that has no client cannot update it
        dict(id=9010, seed=20, tss=tss, steps=[dict(k='raw', addr='notbech32', chains=[B_CHAIN], addrs=['0xNB']),
                                               m('ack', 1, B_CHAIN, ack_relayer='0xnb'), g('@acct1', [B_CHAIN, 'ghost-net'], ['0xNB', '0xG']),
                                               m('ack', 1, B_CHAIN, ack_relayer='0xnb'), m('update', 1, 'ghost-net'),
                                               m('recv', 1, 'ghost-net')]),
        # the TSS comparison of receive / acknowledgement is on the STRING msg.Signer: the other-case form of the TSS
        # address is refused even when that string has its own relayer record (TSS address configured in lower case,
        # then in upper case)
        dict(id=9011, seed=21, tss=tss, steps=[g('@ACCT2', ['tss-one'], ['0xUP']), g('@acct2', ['tss-one'], ['0xLOW']),
                                               m('recv', 2, 'tss-one', upper=True, payload='ok'), m('ack', 2, 'tss-one', upper=True, ack_relayer='0xup'),
                                               m('update', 2, 'tss-one', upper=True, new_tss=2), m('recv', 2, 'tss-one', payload='ok'),
                                               m('ack', 2, 'tss-one', ack_relayer='0xlow')]),
        dict(id=9012, seed=22, tss=[dict(name='tss-one', acct=2, upper=True)],
             steps=[g('@ACCT2', ['tss-one'], ['0xUP']), g('@acct2', ['tss-one'], ['0xLOW']),
                    m('recv', 2, 'tss-one', payload='ok'), m('ack', 2, 'tss-one', ack_relayer='0xlow'),
                    m('recv', 2, 'tss-one', upper=True, payload='cbfail'), m('ack', 2, 'tss-one', upper=True, ack_relayer='0xUP'),
                    m('update', 2, 'tss-one', upper=True, new_tss=2, new_up=True), m('update', 2, 'tss-one', new_tss=2, new_up=True)]),
    ]


def gen_run(run, nproc, per, steps, tag='gen', seed_off=0):
    """run the generator in nproc processes (disjoint seeds derived from the run seed)"""
    def one(i):
        outp = os.path.join(run.work, '%s_%d.jsonl' % (tag, i))
        rc, o = vlib.run_harness('c06', ['-mode', 'auth', '-seed', run.seed * 1000 + seed_off + i, '-n', per, '-steps', steps,
                                         '-out', outp])
        return (rc, o, outp)
    outs = vlib.parallel(one, list(range(nproc)), workers=nproc)
    results = []
    for rc, o, outp in outs:
        if rc != 0:
            return None, o
        results += vlib.read_jsonl(outp)
    return results, ''


def shrink(workdir, spec, which):
    """delta-debug the step list of a failing history (re-running the real code each time)"""
    def fails(sp):
        rs = run_specs(workdir, [sp], 'shrink')
        if not rs:
            return False
        mm, ff = evaluate(workdir, rs, 'shrink_cases')
        if mm is None:
            return False
        return len(ff if which == 'monitor' else mm) > 0
    best = spec
    budget = 40
    # first try the failing step alone, then drop chunks, then single steps
    n = len(best['steps'])
    chunk = max(1, n // 2)
    while chunk >= 1 and budget > 0:
        i = 0
        changed = False
        while i < len(best['steps']) - 1 and budget > 0:  # never drop the last (failing) step
            cand = dict(best)
            cand['steps'] = best['steps'][:i] + best['steps'][min(i + chunk, len(best['steps']) - 1):]
            if len(cand['steps']) == len(best['steps']):
                break
            budget -= 1
            if fails(cand):
                best = cand
                changed = True
            else:
                i += chunk
        if not changed:
            chunk //= 2
    return best


def samples_of(results):
    """a few of the actual cases: a corpus history and two generated ones, each step with what was observed"""
    out = []
    picks = [r for r in results if r['spec']['id'] == 9006][:1] + [r for r in results if r['spec']['id'] < 9000][:2]
    for r in picks:
        steps = []
        for st, o in list(zip(r['spec']['steps'], r['obs']))[:10]:
            e = dict(step=st, outcome={0: 'accepted', 1: 'rejected', 2: 'panic(recovered)'}[o['class']], lower_layer=o['lower'],
                     state_unchanged=o['same'])
            if o.get('ack'):
                e['written_ack'] = dict(code=o['ack']['code'], relayer=o['ack']['relayer'], fee_opt=o['ack']['fee_opt'])
            if o.get('payee'):
                e['fee_payee'] = o['payee']
            steps.append(e)
        out.append(dict(history_id=r['spec']['id'], tss_clients=r['spec']['tss'], first_steps=steps))
    return out


def stats(results):
    dist = Counter()
    nontrivial = set()
    for r in results:
        for st, o in zip(r['spec']['steps'], r['obs']):
            k = st['k']
            cls = {0: 'accepted', 1: 'rejected', 2: 'panic'}[o['class']]
            dist['%s_%s' % (k, cls)] += 1
            if k in ('update', 'recv', 'ack'):
                ch = st.get('chain')
                cl = [c for c in o['clients'] if c['chain'] == (o['self'] if ch == '@self' else ch)]
                ckind = 'noclient' if not cl else ('tss' if cl[0]['tss'] else 'light')
                dist['%s_%s_%s' % (k, ckind, cls)] += 1
                if o['lower'] == 0 and o['class'] != 0:
                    dist['%s_rejected_for_authorization_only' % k] += 1
                if st.get('upper'):
                    dist['signer_uppercase_form'] += 1
                if o.get('ack'):
                    dist['ack_written'] += 1
                if k == 'recv' and o['class'] == 0:
                    # which branch of msg_server.RecvPacket (from the TABULATED facts, not from the ack text) and whether
                    # the registered counterparty address differs from the signer's own string
                    fc = o.get('cb')
                    if o['dst'] != o['self']:
                        br = 'relayed_no_ack' if any(c['chain'] == o['dst'] for c in o['clients']) else 'ack_dst_unknown'
                    elif fc and fc['kind'] == 1:
                        br = 'ack_callback_failed'
                    elif fc and fc['kind'] == 2:
                        br = 'ack_callback_code0' if fc['code'] == 0 else 'ack_callback_code_nonzero'
                    else:
                        br = 'other'
                    differs = bool(o.get('ack')) and o['ack']['relayer'] != o['signer_str']
                    dist['recv_branch_%s%s' % (br, '_addr_differs_from_signer' if differs else '')] += 1
                if o.get('payee'):
                    dist['fee_payee_observed'] += 1
                nontrivial.add(json.dumps([k, ckind, o['lower'], o['class'], o['signer_str'] in [x['address'] for x in o['reg']],
                                           sorted((x['address'], tuple(x['chains'])) for x in o['reg'])], sort_keys=True))
            else:
                dist['registry_size_%d' % min(len(o['reg']), 6)] += 1
                nontrivial.add(json.dumps([k, st.get('addr'), st.get('chains'), st.get('addrs')]))
    return dist, nontrivial


# ----------------------------------------------------------------------------------------------------------
# Part B: system contracts (exhaustive method x caller enumeration on the byte code)
ABI_FILES = [(0, 'syscontracts/xibc_packet/packet.json'), (1, 'syscontracts/xibc_endpoint/Endpoint.json'),
             (2, 'syscontracts/xibc_endpoint/Execute.json')]
CALLERS = {0: 'EOA', 1: 'contract(proxy)', 2: 'via-execute', 3: 'packet-calldata', 4: 'xibc-module', 5: 'aggregate-module',
           6: 'packet-contract', 7: 'endpoint-contract', 8: 'packet-contract(nested)'}
CONTRACTS = {0: 'packet', 1: 'endpoint', 2: 'execute'}


def abi_nonview():
    """independent reading of the ABIs of the tree under test: set of (contract id, method) that are not view/pure"""
    out = set()
    for cid, rel in ABI_FILES:
        j = json.load(open(os.path.join(vlib.REPO, rel)))
        abi = j['abi']
        if isinstance(abi, str):
            abi = json.loads(abi)
        for e in abi:
            if e.get('type') == 'function' and e.get('stateMutability') not in ('view', 'pure'):
                out.add((cid, e['name']))
    return out


def cobs_term(r):
    return '{| co_contract := %d; co_method := %s; co_caller := %d; co_effect := %s; co_same := %s |}' % (
        r['contract'], cb(r['method']), r['caller'], coq_bool(r['effect']), coq_bool(r['same']))


def run_contracts(run, seed, tag):
    outp = os.path.join(run.work, '%s.jsonl' % tag)
    rc, o = vlib.run_harness('c06', ['-mode', 'contracts', '-seed', seed, '-out', outp])
    if rc != 0:
        return None, o
    return vlib.read_jsonl(outp), ''


def eval_contracts(workdir, rows, tag='contracts'):
    with _LOCK:
        idefs, terms = intern_defs(lambda: [cobs_term(r) for r in rows])
    defs = idefs + 'Definition obs : list cobs := %s.\n' % coq_list(terms)
    res = vlib.coq_eval_lists(workdir, tag + '.v', HEADER, defs, [('F', 'contract_failures obs'), ('U', 'undemonstrated obs')])
    f = vlib.parse_nat_tuples(res.get('F'), 2)
    u = vlib.parse_nat_tuples(res.get('U'), 1)
    if res['_rc'] != 0 or f is None or u is None:
        return None, res['_out'][-3000:]
    return f, [x[0] for x in u]


def module_calls():
    """the regenerated, normalised inventory of EVM calls made by the keepers (Gen/ModCallsGen.v, written by
    tools/gotocoq/modcalls): list of dict(frm, target, method, sites)"""
    import re
    path = os.path.join(vlib.THEORIES, 'Gen', 'ModCallsGen.v')
    out = []
    if not os.path.exists(path):
        return out
    for m in re.finditer(r'SITE from "([^"]*)" target "([^"]*)" method "([^"]*)" in \[([^\]]*)\]', open(path).read()):
        out.append(dict(frm=m.group(1), target=m.group(2), method=m.group(3), sites=m.group(4).split()))
    return out


def module_call_pairs(calls):
    """(contract.method, caller kind name) pairs the Go modules exercise on the packet / endpoint contracts"""
    pairs = {}
    for c in calls:
        if c['target'] == 'syscontracts/xibc_packet.PacketContractAddress':
            cn = 'packet'
        elif c['target'] == 'syscontracts/xibc_endpoint.EndpointContractAddress':
            cn = 'endpoint'
        else:
            continue
        who = {'x/xibc/core/packet/types.ModuleAddress': 'xibc-module', 'x/aggregate/types.ModuleAddress': 'aggregate-module'}.get(c['frm'], c['frm'])
        pairs.setdefault((cn + '.' + c['method'], who), []).extend(c['sites'])
    return pairs


def part_b(run):
    """returns False if the stage could not run"""
    seeds = [run.seed * 100 + i for i in range(run.budget(2, 12))]
    allrows, matrix = [], {}
    for i, sd in enumerate(seeds):
        rows, log = run_contracts(run, sd, 'contracts_%d' % i)
        if rows is None:
            report_harness_failure(run, 'contracts', log)
            return False
        setup = [r for r in rows if r['contract'] < 0]
        rows = [r for r in rows if r['contract'] >= 0]
        if setup:
            run.violation(dict(kind='contract-setup-failed', notes=[r.get('note') for r in setup],
                               explanation='the module-side set-up calls (bindToken / supply limit) failed; the enumeration '
                                           'cannot demonstrate accepted module calls'), no_input=True)
            return False
        fails, undem = eval_contracts(run.work, rows, 'contracts_%d' % i)
        if fails is None:
            run.violation(dict(kind='coq-evaluation-failed', stage='contracts', log=undem), no_input=True)
            return False
        # exhaustiveness against an independent reading of the ABI files of the tree under test
        want = abi_nonview()
        got = {(r['contract'], r['method']) for r in rows if r['mut'] not in ('view', 'pure')}
        missing = sorted(want - got) + sorted(m for m in want if {r['caller'] for r in rows if (r['contract'], r['method']) == m} < set(range(8)))
        if missing:
            run.violation(dict(kind='enumeration-incomplete', missing=missing,
                               explanation='not every non-view method of the ABIs was exercised from every caller kind'), no_input=True)
        for idx, k in fails:
            r = rows[idx]
            if k == 21:
                run.violation(dict(kind='contract-access', code=k, what=KINDS[k], contract=CONTRACTS[r['contract']], method=r['sig'],
                                   caller=CALLERS[r['caller']], call_data=r['args'], effect=r['effect'], state_unchanged=r['same'],
                                   note=r.get('note'), harness_seed=sd, variant=r['variant'],
                                   replay_hint='harness/bin/c06 -mode contracts -seed %d' % sd),
                              name='replay_contract_s%d_%s_%s_%d_v%d.json' % (i, CONTRACTS[r['contract']], r['method'], r['caller'], r['variant']))
            else:
                run.violation(dict(kind='contract-enumeration', code=k, what=KINDS.get(k), contract=r['contract'], method=r['method'],
                                   caller=CALLERS[r['caller']], note=r.get('note')), no_input=True,
                              name='replay_contract_enum_s%d_%d.json' % (i, idx))
            if len(run.violations) >= 4:
                break
        if undem and i == 0:
            run.violation(dict(kind='contract-enumeration', what='privileged methods (indices into AuthCheck.classification) never '
                               'accepted from a legitimate caller or not tried from every non-module caller kind', indices=undem),
                          no_input=True, name='replay_contract_undemonstrated.json')
        allrows += rows
        for r in rows:
            key = (CONTRACTS[r['contract']] + '.' + r['method'], CALLERS[r['caller']])
            e = matrix.setdefault(key, dict(accepted=0, rejected=0, changed=0))
            e['accepted' if r['effect'] else 'rejected'] += 1
            if not r['same']:
                e['changed'] += 1
    # tie between the two halves: every non-view method the Go modules call on the packet / endpoint contract (regenerated
    # inventory) must have been ACCEPTED by the byte code from that module's address in the enumeration
    nonview = {CONTRACTS[c] + '.' + m for c, m in abi_nonview()}
    mpairs = module_call_pairs(module_calls())
    not_accepted = sorted('%s <- %s (called in %s)' % (k[0], k[1], ', '.join(sorted(set(v)))) for k, v in mpairs.items()
                          if k[0] in nonview and matrix.get(k, dict(accepted=0))['accepted'] == 0)
    if not_accepted:
        run.violation(dict(kind='module-call-not-accepted', pairs=not_accepted,
                           explanation='a keeper calls a system-contract method from a module address the byte code never accepted in '
                                       'the enumeration: either the call site uses the wrong caller or the contract no longer admits '
                                       'the module'), no_input=True, name='replay_module_calls.json')
    run.coverage['module_calls'] = dict(
        source='tools/gotocoq/modcalls -> Gen/ModCallsGen.v (obligation C06_module_calls_ok)',
        privileged_methods_exercised_by_go={'%s <- %s' % k: sorted(set(v)) for k, v in sorted(mpairs.items())},
        all_accepted_by_bytecode=not not_accepted)
    priv_rej = sorted({k[0] + ' <- ' + k[1] for k, v in matrix.items() if v['accepted'] == 0 and v['changed'] == 0})
    accepted = sorted({k[0] + ' <- ' + k[1] for k, v in matrix.items() if v['accepted'] > 0})
    run.coverage['contracts'] = dict(
        attempts=len(allrows), methods=len({(r['contract'], r['method']) for r in allrows}), caller_kinds=len(CALLERS),
        argument_variants_per_method=3 * len(seeds), harness_seeds=seeds,
        accepted_pairs=accepted, rejected_unchanged_pairs=len(priv_rej),
        note='EXHAUSTIVE over non-view methods x caller kinds, SAMPLED over arguments; validates (does not prove) the msg.sender '
             'checks of the byte code')
    return True


EXTRA_PROPS = 'theories/Props/C06_packet.v'


def coqchk_extra(run):
    """thorough tier: run.coqchk_stage() covers Props/C06 + Refuted/C06_*; the refinement file gets its own coqchk"""
    import re
    rc, out = vlib.sh(['coqchk', '-silent', '-o', '-Q', vlib.THEORIES, 'Teleport', 'Teleport.Props.C06_packet'], cwd=vlib.COQ, timeout=2400)
    m = re.search(r'\* Axioms:(.*?)\n\s*\n\* Constants', out, flags=re.S)
    axioms = m.group(1).strip() if m else 'unparsed'
    run.coverage['coqchk_C06_packet'] = dict(rc=rc, axioms=axioms)
    if rc != 0 or axioms != '<none>':
        run.proof['build_ok'] = False
        run.proof['build_log'] += '\n[coqchk C06_packet]\n' + out[-2000:]


def search_harder(run, nproc, per, steps):
    more, _ = gen_run(run, nproc, per * 2 if run.quick() else per // 4, steps, tag='search', seed_off=500)
    if not more:
        return
    mm2, ff2 = evaluate(run.work, more, 'search_cases')
    if mm2 is None:
        return   # the evaluation itself failed: nothing found by the search
    for h, s, k in ff2[:1]:
        spec = dict(more[h]['spec'])
        spec['steps'] = spec['steps'][:s + 1]
        small = shrink(run.work, spec, 'monitor')
        run.violation(dict(kind='monitor', code=k, what=KINDS.get(k), spec=small, failing_step=s, found_by='search after a '
                           'model/implementation mismatch', observed=more[h]['obs'][s]), name='replay_h_search%d.json' % h)


def check(run):
    # Props/C06.v + Refuted/C06_refuted.v + the refinement theorems between the authorization model and the packet-core model
    pr = run.proof_stage(extra_modules=[EXTRA_PROPS])
    if not run.quick():
        run.coqchk_stage()   # independent re-check of the .vo closure; a failure / an axiom marks the proof stage broken
        coqchk_extra(run)
    ok, out = vlib.build_harness(['c06'])
    if not ok:
        run.violation(dict(kind='harness-build-failed', log=out[-3000:],
                           explanation='the correspondence harness no longer builds against /repo'), no_input=True)
        return run.finish()
    nproc = 8
    per = run.budget(24, 250)
    steps = run.budget(40, 60)
    results, log = gen_run(run, nproc, per, steps)
    if results is not None:
        cres = run_specs(run.work, corpus(), 'corpus')
        if cres is None:
            results, log = None, 'corpus run failed\n' + LAST_HARNESS_LOG[0]
        else:
            results = cres + results
    if results is None:
        report_harness_failure(run, 'auth', log)
        part_b(run)  # the contract enumeration may still locate the cause
        return run.finish()
    BRANCH_COUNTS.clear()
    mm, ff = evaluate(run.work, results, count_branches=True)
    if mm is None:
        run.violation(dict(kind='coq-evaluation-failed', log=ff), no_input=True)
        return run.finish()
    dist, nontrivial = stats(results)
    nsteps = sum(len(r['obs']) for r in results)
    run.coverage.update(dict(
        evaluations=nsteps, histories=len(results), distinct_nontrivial=len(nontrivial),
        rule='part A: histories of relayer registrations (real gov proposal handler after ValidateBasic; genesis path) interleaved '
             'with signed MsgUpdateClient / MsgRecvPacket / MsgAcknowledgement delivered through BaseApp on a real chain with a '
             'real Tendermint counterparty (real headers and IAVL proofs) and TSS clients; distinct = distinct (kind, client '
             'type, lower-layer verdict, outcome, signer registered?, registry content)',
        distribution=dict(dist), model_mismatches=len(mm), monitor_failures=len(ff),
        model_branches={BRANCHES.get(c, str(c)): BRANCH_COUNTS.get(c, 0) for c in sorted(BRANCHES)},
        model_branches_never_reached=[BRANCHES[c] for c in sorted(BRANCHES) if BRANCH_COUNTS.get(c, 0) == 0],
        samples=samples_of(results)))
    run.coverage['partial'] = ('PARTIAL: the Go-side authorization logic is proved (Props/C06.v) and tied by the differential run; the '
                               'msg.sender checks inside the XIBC system contracts exist only as EVM byte code and are validated by an '
                               'exhaustive non-view-method x caller-kind enumeration on the real byte code (arguments sampled), NOT proved')
    run.coverage['trusted_base'] += [
        'hand-written model Model/Auth.v tied to x/xibc/keeper/msg_server.go + client/keeper/relayer.go by this differential run',
        'cosmos-sdk BaseApp atomicity of a failed message (modelled by `deliver`; validated by the store/contract fingerprint)',
        'bech32 decoding and strings.EqualFold are oracle arguments of the model (tabulated / ASCII folding; generator is ASCII)',
        'system contracts: byte code only — access control validated by the exhaustive method x caller enumeration, not proved']
    run.assumptions += [
        'the relayer registry is written only by RegisterRelayers (gov handler, InitGenesis); no other key of the xibc store '
        'starts with "relayers"',
        'a transaction carrying msg.Signer = s is signed by the account s decodes to (SDK ante handler)']

    part_b(run)
    run.coverage['evaluations'] = nsteps + run.coverage.get('contracts', {}).get('attempts', 0)

    reported = set()
    for h, s, k in ff:
        if h in reported:
            continue
        reported.add(h)
        spec = dict(results[h]['spec'])
        spec['steps'] = spec['steps'][:s + 1]
        small = shrink(run.work, spec, 'monitor')
        run.violation(dict(kind='monitor', code=k, what=KINDS.get(k), spec=small, failing_step=s,
                           observed=results[h]['obs'][s]), name='replay_h%d.json' % h)
        if len(run.violations) >= 3:
            break
    if mm and not [v for v in run.violations if 'replay_h' in v[0]]:
        # model and code disagree but no monitor failed: search harder for a concrete input that violates the property
        # itself (twice the generated budget of the quick tier, fresh seeds) before reporting the correspondence as broken;
        # a failure of this optional search must never hide the correspondence violation reported below
        try:
            search_harder(run, nproc, per, steps)
        except Exception as e:  # noqa
            run.coverage['search_error'] = repr(e)[:300]
    if not [v for v in run.violations if 'replay_h' in v[0]]:
        for h, s, k in mm[:1]:
            spec = dict(results[h]['spec'])
            spec['steps'] = spec['steps'][:s + 1]
            small = shrink(run.work, spec, 'model')
            run.violation(dict(kind='correspondence', code=k, what=KINDS.get(k), spec=small, observed=results[h]['obs'][s],
                               explanation='Model/Auth.v no longer describes the authorization code of x/xibc; the theorems of '
                                           'Props/C06.v are about the model, so the property is no longer shown to hold',
                               broken='correspondence Model.Auth <-> x/xibc/keeper/msg_server.go, client/keeper/relayer.go'),
                          name='replay_corr_h%d.json' % h, no_input=True)
        if not run.proof_ok():
            run.proof_violation()
    return run.finish()


def replay(path):
    rp = json.load(open(path))
    work = os.path.join(vlib.ROOT, 'work', 'C06_replay')
    os.makedirs(work, exist_ok=True)
    ok, out = vlib.build_harness(['c06'])
    if ok and rp.get('kind') == 'contract-access':
        # re-run the enumeration with the recorded harness seed and re-check the recorded (method, caller, variant)
        outp = os.path.join(work, 'replay_contracts.jsonl')
        rc, o = vlib.run_harness('c06', ['-mode', 'contracts', '-seed', rp['harness_seed'], '-out', outp])
        if rc != 0:
            print('harness failed: %s' % o[-500:])
            return 2
        rows = [r for r in vlib.read_jsonl(outp) if r['contract'] >= 0 and r.get('args') == rp['call_data']
                and CALLERS[r['caller']] == rp['caller'] and CONTRACTS[r['contract']] == rp['contract']]
        fails, _ = eval_contracts(work, rows, 'replay_contracts')
        for r in rows:
            print('observed: %s.%s <- %s effect=%s state_unchanged=%s %s' % (rp['contract'], r['method'], rp['caller'], r['effect'],
                                                                             r['same'], r.get('note', '')))
        if fails is None or fails:
            print('VIOLATION property=C06 replay=%s' % path)
            return 1
        print('replay passes on the current tree')
        return 0
    if not ok or 'spec' not in rp:
        print('cannot replay: %s' % (out[-500:] if not ok else 'no spec in replay file (%s)' % rp.get('kind')))
        return 2
    rs = run_specs(work, [rp['spec']], 'replay')
    mm, ff = evaluate(work, rs, 'replay_cases')
    print('observed:', json.dumps(rs[0]['obs'][-1]))
    print('model mismatches:', mm, ' monitor failures:', ff)
    if ff or mm:
        print('VIOLATION property=C06 replay=%s' % path)
        return 1
    print('replay passes on the current tree')
    return 0
