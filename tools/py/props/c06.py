"""C06 — who can drive the bridge. Model: coq/theories/Model/Auth.v; harness: harness/cmd/c06.

Part A (proved + correspondence): the Go authorization logic of the XIBC message server.
Part B (exhaustive test, NOT proved): msg.sender checks of the source-less system contracts."""
import json
import os
import threading
from collections import Counter

import vlib
from vlib import coq_bool, coq_list, coq_option

# byte strings are interned per Coq file (Definition bN := [...]) — keeps the generated files small
_INTERN = {}


def cb(b):
    if isinstance(b, str):
        b = b.encode('utf-8')
    if len(b) == 0:
        return '[]'
    n = _INTERN.get(b)
    if n is None:
        n = _INTERN[b] = 'b%d' % len(_INTERN)
    return n


def intern_defs(terms_fn):
    """evaluate terms_fn() with a fresh intern table; returns (definitions text, result)"""
    _INTERN.clear()
    res = terms_fn()
    defs = ''.join('Definition %s : bytes := %s.\n' % (n, vlib.coq_literal_bytes(b)) for b, n in _INTERN.items())
    return defs, res

_LOCK = threading.Lock()
HEADER = 'From Teleport Require Import Base.Bytes Base.Outcome Model.Auth Model.AuthCheck.\n'
SHARD = 12  # histories per Coq file (each has ~40 steps)

KINDS = {
    1: 'model and code disagree on the outcome class (accepted / error / panic) of a registration or message',
    2: 'model and code disagree on the relayer registry after the step',
    3: 'model and code disagree on the acknowledgement written by RecvPacket (presence, packet, code, Relayer, fee option)',
    4: 'model and code disagree on the account that received the relayer fee of an acknowledgement',
    11: 'UpdateClient / RecvPacket accepted from a signer whose current record does not list that chain',
    12: 'TSS-secured chain: update / receive / acknowledgement accepted from a signer other than the TSS account',
    13: 'a rejected message (or rejected proposal) changed state',
    14: 'Relayer of the written acknowledgement is not the address registered for the submitting signer and the source chain',
    15: 'a message changed the relayer registry',
    16: 'a registration did not result in exactly: that address -> the given lists, other records untouched',
    17: 'accepted receive for this chain wrote no acknowledgement, or an unexpected acknowledgement event',
    18: 'relayer fee of an acknowledgement paid to an account other than the first record listing (dst chain, ack.Relayer)',
    21: 'a privileged system-contract method took effect (or changed contract state) for a non-module caller',
    22: 'a non-view method of a system-contract ABI is not classified privileged/unprivileged',
}


def N(n):
    return '%d%%N' % int(n)


def ack_term(a):
    return '{| ack_code := %s; ack_result := %s; ack_message := %s; ack_relayer := %s; ack_fee := %s |}' % (
        N(a['code']), cb(bytes.fromhex(a.get('result', ''))), cb(a.get('message', '')), cb(a.get('relayer', '')), N(a['fee_opt']))


def step_term(st, o):
    k = st['k']
    chain = st.get('chain', '')
    if chain == '@self':
        chain = o['self']
    if k in ('gov', 'gen', 'raw'):
        kind = '(%s %s %s %s)' % ('KGov' if k in ('gov', 'gen') else 'KRaw', cb(st.get('addr', '')),
                                  coq_list([cb(c) for c in st.get('chains') or []]),
                                  coq_list([cb(c) for c in st.get('addrs') or []]))
    elif k == 'update':
        kind = '(KUpdate %s %s)' % (cb(chain), cb(o['signer_str']))
    elif k == 'recv':
        kind = '(KRecv %s %s %s %s %s)' % (cb(o['signer_str']), cb(o['src']), cb(o['dst']), N(o.get('seq', 0)), N(o.get('fee', 0)))
    else:
        ma = o.get('msg_ack')
        kind = '(KAck %s %s %s %s %s)' % (cb(o['signer_str']), cb(o['src']), cb(o['dst']), N(o.get('seq', 0)),
                                          coq_option(ack_term(ma) if ma else None))
    clients = coq_list(['(%s, %s)' % (cb(c['chain']), ('TSS %s' % cb(c.get('addr', ''))) if c['tss'] else 'Light')
                        for c in o['clients']])
    oa = o.get('ack')
    fcb = '(%s, %s, %s)' % (N(oa['code']), cb(bytes.fromhex(oa.get('result', ''))), cb(oa.get('message', ''))) if oa else '(0%N, [], [])'
    facts = '{| f_clients := %s; f_self := %s; f_lower := %d; f_cb := %s |}' % (clients, cb(o['self']), o['lower'], fcb)
    reg = coq_list(['(%s, (%s, %s))' % (cb(r['address']), coq_list([cb(c) for c in r['chains']]),
                                        coq_list([cb(c) for c in r['addrs']])) for r in o['reg']])
    ack = coq_option('(%s, %s, %s, %s)' % (cb(oa['src']), cb(oa['dst']), N(oa['seq']), ack_term(oa)) if oa else None)
    payee = coq_option(cb(o['payee']) if o.get('payee') else None)
    return ('{| os_kind := %s; os_facts := %s; os_class := %d; os_reg := %s; os_same := %s; os_ack := %s; '
            'os_ack_stored := %s; os_payee := %s |}') % (kind, facts, o['class'], reg, coq_bool(o['same']), ack,
                                                         coq_bool(o['ack_stored']), payee)


def hist_term(r):
    steps = [step_term(st, o) for st, o in zip(r['spec']['steps'], r['obs'])]
    canon = coq_list(['(%s, %s)' % (cb(a), cb(b)) for a, b in r.get('canon') or []])
    bech = coq_list(['(%s, %s)' % (cb(a), coq_bool(b == '1')) for a, b in r.get('bech') or []])
    return '{| h_canon := %s; h_bech := %s; h_steps := %s |}' % (canon, bech, coq_list(steps))


def evaluate(workdir, results, tag='cases'):
    """returns (mismatches, monitor_failures) as lists of (hist, step, kind), or (None, log) on a Coq failure"""
    shards = [results[i:i + SHARD] for i in range(0, len(results), SHARD)]

    def one(ix):
        i, sh = ix
        with _LOCK:
            idefs, terms = intern_defs(lambda: [hist_term(r) for r in sh])
        defs = idefs + 'Definition cases : list hist := %s.\n' % coq_list(terms)
        res = vlib.coq_eval_lists(workdir, '%s_%d.v' % (tag, i), HEADER, defs,
                                  [('M', 'mismatches cases'), ('F', 'monitor_failures cases')])
        m = vlib.parse_nat_tuples(res.get('M'), 3)
        f = vlib.parse_nat_tuples(res.get('F'), 3)
        if res['_rc'] != 0 or m is None or f is None:
            return ('error', res['_out'][-3000:])
        off = i * SHARD
        return ([(h + off, s, k) for h, s, k in m], [(h + off, s, k) for h, s, k in f])

    outs = vlib.parallel(one, list(enumerate(shards)), workers=12)
    mm, ff = [], []
    for o in outs:
        if o[0] == 'error':
            return None, o[1]
        mm += o[0]
        ff += o[1]
    return mm, ff


def run_specs(workdir, specs, tag):
    inp = os.path.join(workdir, tag + '_in.jsonl')
    out = os.path.join(workdir, tag + '_out.jsonl')
    vlib.write_jsonl(inp, specs)
    rc, o = vlib.run_harness('c06', ['-mode', 'auth', '-in', inp, '-out', out])
    if rc != 0:
        return None
    return vlib.read_jsonl(out)


B_CHAIN = 'teleport_9000-11'


def corpus():
    """hand-written histories that run first on every check (boundary cases of the registry semantics)"""
    g = lambda a, cs, ads: dict(k='gov', addr=a, chains=cs, addrs=ads)
    m = lambda k, signer, chain, **kw: dict(dict(k=k, signer=signer, chain=chain, flavor='valid'), **kw)
    tss = [dict(name='tss-one', acct=2)]
    return [
        # duplicates: the FIRST index wins; another chain's address is never used
        dict(id=9001, seed=11, tss=tss, steps=[g('@acct0', [B_CHAIN, 'tss-one', B_CHAIN], ['0xFIRST', '0xOTHER', '0xSECOND']),
                                               m('recv', 0, B_CHAIN), m('update', 0, B_CHAIN)]),
        # re-registration REPLACES: the old chain is revoked
        dict(id=9002, seed=12, tss=tss, steps=[g('@acct0', [B_CHAIN], ['0xA']), m('update', 0, B_CHAIN), m('recv', 0, B_CHAIN),
                                               g('@acct0', ['ghost-net'], ['0xB']), m('update', 0, B_CHAIN), m('recv', 0, B_CHAIN),
                                               m('update', 0, 'tss-one', new_tss=2), m('recv', 0, 'tss-one')]),
        # TSS: only the TSS account (which must be a relayer of that chain); rotation of the TSS address
        dict(id=9003, seed=13, tss=tss, steps=[g('@acct2', ['tss-one'], ['0xT']), g('@acct3', ['tss-one', B_CHAIN], ['0xU', '0xV']),
                                               m('recv', 2, 'tss-one'), m('recv', 3, 'tss-one'), m('recv', 3, 'tss-one', flavor='tssproof'),
                                               m('ack', 3, 'tss-one', flavor='tssproof', ack_relayer='0xT'),
                                               m('ack', 2, 'tss-one', ack_relayer='0xt'), m('update', 3, 'tss-one', new_tss=3),
                                               m('update', 2, 'tss-one', new_tss=3), m('recv', 2, 'tss-one'), m('recv', 3, 'tss-one'),
                                               m('ack', 3, 'tss-one', ack_relayer='0XU', ack_code=1)]),
        # the registry is keyed by the STRING: upper-case form of the same account is another record
        dict(id=9004, seed=14, tss=tss, steps=[g('@ACCT1', [B_CHAIN], ['0xA']), m('update', 1, B_CHAIN), m('update', 1, B_CHAIN, upper=True),
                                               m('recv', 1, B_CHAIN, upper=True), m('ack', 4, B_CHAIN, ack_relayer='0Xa'),
                                               m('ack', 4, B_CHAIN, ack_relayer='0xZ'), m('ack', 4, B_CHAIN, flavor='zero')]),
        # rejected by ValidateBasic: empty lists, mismatched lengths, bad chain id, bad address; genesis path without checks
        dict(id=9005, seed=15, tss=tss, steps=[g('@acct0', [], []), g('@acct0', [B_CHAIN, 'tss-one'], ['0xA']), g('@acct0', ['ab'], ['0xA']),
                                               g('notbech32', [B_CHAIN], ['0xA']), dict(k='raw', addr='@acct0', chains=['ghost-net', B_CHAIN], addrs=['0xA']),
                                               m('recv', 0, B_CHAIN), m('update', 0, B_CHAIN), m('ack', 1, B_CHAIN, ack_relayer='0xA'),
                                               dict(k='raw', addr='', chains=[B_CHAIN], addrs=['0xA'])]),
    ]


def gen_run(run, nproc, per, steps, tag='gen', seed_off=0):
    """run the generator in nproc processes (disjoint seeds derived from the run seed)"""
    def one(i):
        outp = os.path.join(run.work, '%s_%d.jsonl' % (tag, i))
        rc, o = vlib.run_harness('c06', ['-mode', 'auth', '-seed', run.seed * 1000 + seed_off + i, '-n', per, '-steps', steps,
                                         '-out', outp])
        return (rc, o, outp)
    outs = vlib.parallel(one, list(range(nproc)), workers=nproc)
    results = []
    for rc, o, outp in outs:
        if rc != 0:
            return None, o
        results += vlib.read_jsonl(outp)
    return results, ''


def shrink(workdir, spec, which):
    """delta-debug the step list of a failing history (re-running the real code each time)"""
    def fails(sp):
        rs = run_specs(workdir, [sp], 'shrink')
        if not rs:
            return False
        mm, ff = evaluate(workdir, rs, 'shrink_cases')
        if mm is None:
            return False
        return len(ff if which == 'monitor' else mm) > 0
    best = spec
    budget = 40
    # first try the failing step alone, then drop chunks, then single steps
    n = len(best['steps'])
    chunk = max(1, n // 2)
    while chunk >= 1 and budget > 0:
        i = 0
        changed = False
        while i < len(best['steps']) - 1 and budget > 0:  # never drop the last (failing) step
            cand = dict(best)
            cand['steps'] = best['steps'][:i] + best['steps'][min(i + chunk, len(best['steps']) - 1):]
            if len(cand['steps']) == len(best['steps']):
                break
            budget -= 1
            if fails(cand):
                best = cand
                changed = True
            else:
                i += chunk
        if not changed:
            chunk //= 2
    return best


def stats(results):
    dist = Counter()
    nontrivial = set()
    for r in results:
        for st, o in zip(r['spec']['steps'], r['obs']):
            k = st['k']
            cls = {0: 'accepted', 1: 'rejected', 2: 'panic'}[o['class']]
            dist['%s_%s' % (k, cls)] += 1
            if k in ('update', 'recv', 'ack'):
                ch = st.get('chain')
                cl = [c for c in o['clients'] if c['chain'] == (o['self'] if ch == '@self' else ch)]
                ckind = 'noclient' if not cl else ('tss' if cl[0]['tss'] else 'light')
                dist['%s_%s_%s' % (k, ckind, cls)] += 1
                if o['lower'] == 0 and o['class'] != 0:
                    dist['%s_rejected_for_authorization_only' % k] += 1
                if st.get('upper'):
                    dist['signer_uppercase_form'] += 1
                if o.get('ack'):
                    dist['ack_written'] += 1
                if o.get('payee'):
                    dist['fee_payee_observed'] += 1
                nontrivial.add(json.dumps([k, ckind, o['lower'], o['class'], o['signer_str'] in [x['address'] for x in o['reg']],
                                           sorted((x['address'], tuple(x['chains'])) for x in o['reg'])], sort_keys=True))
            else:
                dist['registry_size_%d' % min(len(o['reg']), 6)] += 1
                nontrivial.add(json.dumps([k, st.get('addr'), st.get('chains'), st.get('addrs')]))
    return dist, nontrivial


# ----------------------------------------------------------------------------------------------------------
# Part B: system contracts (exhaustive method x caller enumeration on the byte code)
ABI_FILES = [(0, 'syscontracts/xibc_packet/packet.json'), (1, 'syscontracts/xibc_endpoint/Endpoint.json'),
             (2, 'syscontracts/xibc_endpoint/Execute.json')]
CALLERS = {0: 'EOA', 1: 'contract(proxy)', 2: 'via-execute', 3: 'packet-calldata', 4: 'xibc-module', 5: 'aggregate-module',
           6: 'packet-contract', 7: 'endpoint-contract', 8: 'packet-contract(nested)'}
CONTRACTS = {0: 'packet', 1: 'endpoint', 2: 'execute'}


def abi_nonview():
    """independent reading of the ABIs of the tree under test: set of (contract id, method) that are not view/pure"""
    out = set()
    for cid, rel in ABI_FILES:
        j = json.load(open(os.path.join(vlib.REPO, rel)))
        abi = j['abi']
        if isinstance(abi, str):
            abi = json.loads(abi)
        for e in abi:
            if e.get('type') == 'function' and e.get('stateMutability') not in ('view', 'pure'):
                out.add((cid, e['name']))
    return out


def cobs_term(r):
    return '{| co_contract := %d; co_method := %s; co_caller := %d; co_effect := %s; co_same := %s |}' % (
        r['contract'], cb(r['method']), r['caller'], coq_bool(r['effect']), coq_bool(r['same']))


def run_contracts(run, seed, tag):
    outp = os.path.join(run.work, '%s.jsonl' % tag)
    rc, o = vlib.run_harness('c06', ['-mode', 'contracts', '-seed', seed, '-out', outp])
    if rc != 0:
        return None, o
    return vlib.read_jsonl(outp), ''


def eval_contracts(workdir, rows, tag='contracts'):
    with _LOCK:
        idefs, terms = intern_defs(lambda: [cobs_term(r) for r in rows])
    defs = idefs + 'Definition obs : list cobs := %s.\n' % coq_list(terms)
    res = vlib.coq_eval_lists(workdir, tag + '.v', HEADER, defs, [('F', 'contract_failures obs'), ('U', 'undemonstrated obs')])
    f = vlib.parse_nat_tuples(res.get('F'), 2)
    u = vlib.parse_nat_tuples(res.get('U'), 1)
    if res['_rc'] != 0 or f is None or u is None:
        return None, res['_out'][-3000:]
    return f, [x[0] for x in u]


def part_b(run):
    """returns False if the stage could not run"""
    seeds = [run.seed * 100 + i for i in range(run.budget(2, 12))]
    allrows, matrix = [], {}
    for i, sd in enumerate(seeds):
        rows, log = run_contracts(run, sd, 'contracts_%d' % i)
        if rows is None:
            run.violation(dict(kind='harness-crashed', stage='contracts', log=log[-3000:]), no_input=True)
            return False
        setup = [r for r in rows if r['contract'] < 0]
        rows = [r for r in rows if r['contract'] >= 0]
        if setup:
            run.violation(dict(kind='contract-setup-failed', notes=[r.get('note') for r in setup],
                               explanation='the module-side set-up calls (bindToken / supply limit) failed; the enumeration '
                                           'cannot demonstrate accepted module calls'), no_input=True)
            return False
        fails, undem = eval_contracts(run.work, rows, 'contracts_%d' % i)
        if fails is None:
            run.violation(dict(kind='coq-evaluation-failed', stage='contracts', log=undem), no_input=True)
            return False
        # exhaustiveness against an independent reading of the ABI files of the tree under test
        want = abi_nonview()
        got = {(r['contract'], r['method']) for r in rows if r['mut'] not in ('view', 'pure')}
        missing = sorted(want - got) + sorted(m for m in want if {r['caller'] for r in rows if (r['contract'], r['method']) == m} < set(range(8)))
        if missing:
            run.violation(dict(kind='enumeration-incomplete', missing=missing,
                               explanation='not every non-view method of the ABIs was exercised from every caller kind'), no_input=True)
        for idx, k in fails:
            r = rows[idx]
            if k == 21:
                run.violation(dict(kind='contract-access', code=k, what=KINDS[k], contract=CONTRACTS[r['contract']], method=r['sig'],
                                   caller=CALLERS[r['caller']], call_data=r['args'], effect=r['effect'], state_unchanged=r['same'],
                                   note=r.get('note'), harness_seed=sd, variant=r['variant'],
                                   replay_hint='harness/bin/c06 -mode contracts -seed %d' % sd),
                              name='replay_contract_s%d_%s_%s_%d_v%d.json' % (i, CONTRACTS[r['contract']], r['method'], r['caller'], r['variant']))
            else:
                run.violation(dict(kind='contract-enumeration', code=k, what=KINDS.get(k), contract=r['contract'], method=r['method'],
                                   caller=CALLERS[r['caller']], note=r.get('note')), no_input=True,
                              name='replay_contract_enum_s%d_%d.json' % (i, idx))
            if len(run.violations) >= 4:
                break
        if undem and i == 0:
            run.violation(dict(kind='contract-enumeration', what='privileged methods (indices into AuthCheck.classification) never '
                               'accepted from a legitimate caller or not tried from every non-module caller kind', indices=undem),
                          no_input=True, name='replay_contract_undemonstrated.json')
        allrows += rows
        for r in rows:
            key = (CONTRACTS[r['contract']] + '.' + r['method'], CALLERS[r['caller']])
            e = matrix.setdefault(key, dict(accepted=0, rejected=0, changed=0))
            e['accepted' if r['effect'] else 'rejected'] += 1
            if not r['same']:
                e['changed'] += 1
    priv_rej = sorted({k[0] + ' <- ' + k[1] for k, v in matrix.items() if v['accepted'] == 0 and v['changed'] == 0})
    accepted = sorted({k[0] + ' <- ' + k[1] for k, v in matrix.items() if v['accepted'] > 0})
    run.coverage['contracts'] = dict(
        attempts=len(allrows), methods=len({(r['contract'], r['method']) for r in allrows}), caller_kinds=len(CALLERS),
        argument_variants_per_method=3 * len(seeds), harness_seeds=seeds,
        accepted_pairs=accepted, rejected_unchanged_pairs=len(priv_rej),
        note='EXHAUSTIVE over non-view methods x caller kinds, SAMPLED over arguments; validates (does not prove) the msg.sender '
             'checks of the byte code')
    return True


def coqchk(run):
    """thorough tier: independent re-check of the compiled closure of Props/C06 and Refuted/C06_refuted"""
    rc, out = vlib.sh(['coqchk', '-silent', '-o', '-Q', vlib.THEORIES, 'Teleport', 'Teleport.Props.C06', 'Teleport.Refuted.C06_refuted'],
                      cwd=vlib.COQ, timeout=1500)
    ok = rc == 0 and 'Axioms:' in out and '<none>' in out.split('Axioms:')[1][:40]
    run.coverage['coqchk'] = dict(rc=rc, axioms_none=ok, tail=out[-400:])
    return ok


def check(run):
    pr = run.proof_stage()
    ok, out = vlib.build_harness(['c06'])
    if not ok:
        run.violation(dict(kind='harness-build-failed', log=out[-3000:],
                           explanation='the correspondence harness no longer builds against /repo'), no_input=True)
        return run.finish()
    nproc = 8
    per = run.budget(30, 300)
    steps = run.budget(40, 60)
    results, log = gen_run(run, nproc, per, steps)
    if results is not None:
        cres = run_specs(run.work, corpus(), 'corpus')
        if cres is None:
            results, log = None, 'corpus run failed'
        else:
            results = cres + results
    if results is None:
        run.violation(dict(kind='harness-crashed', stage='auth', log=log[-3000:],
                           explanation='the part A harness (real chains, relayer registry, signed messages) crashed: the '
                                       'set-up calls of the real code failed'), no_input=True)
        part_b(run)  # the contract enumeration may still locate the cause
        return run.finish()
    mm, ff = evaluate(run.work, results)
    if mm is None:
        run.violation(dict(kind='coq-evaluation-failed', log=ff), no_input=True)
        return run.finish()
    dist, nontrivial = stats(results)
    nsteps = sum(len(r['obs']) for r in results)
    run.coverage.update(dict(
        evaluations=nsteps, histories=len(results), distinct_nontrivial=len(nontrivial),
        rule='part A: histories of relayer registrations (real gov proposal handler after ValidateBasic; genesis path) interleaved '
             'with signed MsgUpdateClient / MsgRecvPacket / MsgAcknowledgement delivered through BaseApp on a real chain with a '
             'real Tendermint counterparty (real headers and IAVL proofs) and TSS clients; distinct = distinct (kind, client '
             'type, lower-layer verdict, outcome, signer registered?, registry content)',
        distribution=dict(dist), model_mismatches=len(mm), monitor_failures=len(ff),
        samples=[results[0]['spec']['steps'][:6]] if results else []))
    run.coverage['partial'] = ('PARTIAL: the Go-side authorization logic is proved (Props/C06.v) and tied by the differential run; the '
                               'msg.sender checks inside the XIBC system contracts exist only as EVM byte code and are validated by an '
                               'exhaustive non-view-method x caller-kind enumeration on the real byte code (arguments sampled), NOT proved')
    run.coverage['trusted_base'] += [
        'hand-written model Model/Auth.v tied to x/xibc/keeper/msg_server.go + client/keeper/relayer.go by this differential run',
        'cosmos-sdk BaseApp atomicity of a failed message (modelled by `deliver`; validated by the store/contract fingerprint)',
        'bech32 decoding and strings.EqualFold are oracle arguments of the model (tabulated / ASCII folding; generator is ASCII)',
        'system contracts: byte code only — access control validated by the exhaustive method x caller enumeration, not proved']
    run.assumptions += [
        'the relayer registry is written only by RegisterRelayers (gov handler, InitGenesis); no other key of the xibc store '
        'starts with "relayers"',
        'a transaction carrying msg.Signer = s is signed by the account s decodes to (SDK ante handler)']

    part_b(run)
    run.coverage['evaluations'] = nsteps + run.coverage.get('contracts', {}).get('attempts', 0)

    reported = set()
    for h, s, k in ff:
        if h in reported:
            continue
        reported.add(h)
        spec = dict(results[h]['spec'])
        spec['steps'] = spec['steps'][:s + 1]
        small = shrink(run.work, spec, 'monitor')
        run.violation(dict(kind='monitor', code=k, what=KINDS.get(k), spec=small, failing_step=s,
                           observed=results[h]['obs'][s]), name='replay_h%d.json' % h)
        if len(run.violations) >= 3:
            break
    if not [v for v in run.violations if 'replay_h' in v[0]]:
        for h, s, k in mm[:1]:
            spec = dict(results[h]['spec'])
            spec['steps'] = spec['steps'][:s + 1]
            small = shrink(run.work, spec, 'model')
            run.violation(dict(kind='correspondence', code=k, what=KINDS.get(k), spec=small, observed=results[h]['obs'][s],
                               explanation='Model/Auth.v no longer describes the authorization code of x/xibc; the theorems of '
                                           'Props/C06.v are about the model, so the property is no longer shown to hold',
                               broken='correspondence Model.Auth <-> x/xibc/keeper/msg_server.go, client/keeper/relayer.go'),
                          name='replay_corr_h%d.json' % h, no_input=True)
        if not run.proof_ok():
            run.proof_violation()
        elif not run.quick() and not coqchk(run):
            run.violation(dict(kind='coqchk-failed', log=run.coverage['coqchk']['tail']), no_input=True)
    return run.finish()


def replay(path):
    rp = json.load(open(path))
    work = os.path.join(vlib.ROOT, 'work', 'C06_replay')
    os.makedirs(work, exist_ok=True)
    ok, out = vlib.build_harness(['c06'])
    if ok and rp.get('kind') == 'contract-access':
        # re-run the enumeration with the recorded harness seed and re-check the recorded (method, caller, variant)
        outp = os.path.join(work, 'replay_contracts.jsonl')
        rc, o = vlib.run_harness('c06', ['-mode', 'contracts', '-seed', rp['harness_seed'], '-out', outp])
        if rc != 0:
            print('harness failed: %s' % o[-500:])
            return 2
        rows = [r for r in vlib.read_jsonl(outp) if r['contract'] >= 0 and r.get('args') == rp['call_data']
                and CALLERS[r['caller']] == rp['caller'] and CONTRACTS[r['contract']] == rp['contract']]
        fails, _ = eval_contracts(work, rows, 'replay_contracts')
        for r in rows:
            print('observed: %s.%s <- %s effect=%s state_unchanged=%s %s' % (rp['contract'], r['method'], rp['caller'], r['effect'],
                                                                             r['same'], r.get('note', '')))
        if fails is None or fails:
            print('VIOLATION property=C06 replay=%s' % path)
            return 1
        print('replay passes on the current tree')
        return 0
    if not ok or 'spec' not in rp:
        print('cannot replay: %s' % (out[-500:] if not ok else 'no spec in replay file (%s)' % rp.get('kind')))
        return 2
    rs = run_specs(work, [rp['spec']], 'replay')
    mm, ff = evaluate(work, rs, 'replay_cases')
    print('observed:', json.dumps(rs[0]['obs'][-1]))
    print('model mismatches:', mm, ' monitor failures:', ff)
    if ff or mm:
        print('VIOLATION property=C06 replay=%s' % path)
        return 1
    print('replay passes on the current tree')
    return 0
