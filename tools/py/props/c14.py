"""C14 — deterministic state machine (partial).

Static part (Coq): order-independence theorems for every map-ranging loop (Props/C14.v) + the side conditions
evaluated on the inventory regenerated from /repo (Props/C14_inventory.v, Gen/HazardsGen.v).
Dynamic part: harness/cmd/c14 generates block histories on real applications, records every ABCI request, and the
recorded histories are replayed on fresh applications in SEPARATE processes (different map seeds, GOMAXPROCS, TMPDIR —
one unusable); the traces are compared inside Coq (Model/DeterminismCheck.v: replay_disagreements).
"""
import json
import os
import re
import shutil
from collections import Counter

import vlib
from vlib import coq_list

_H = 'From Coq Require Import List String NArith.\nFrom Teleport Require Import Base.Bytes %s.\nImport ListNotations.\nOpen Scope string_scope.\nOpen Scope N_scope.\n'
HEADER_INV = _H % 'Gen.HazardsGen Model.MapLoops Model.MapLoopsIR Model.DeterminismCheck'   # depends on the regenerated inventory
HEADER_REPLAY = _H % 'Model.ReplayCheck'                                    # does not
HEADER_ML = _H % 'Model.MapLoops Model.MapLoopsCheck'

FIELDS = {1: 'operation kind', 2: 'outcome class (returned / panicked)', 3: 'response code', 4: 'gas wanted / used',
          5: 'response data', 6: 'events (attribute order inside an event ignored)', 7: 'validator / consensus-parameter updates',
          8: 'application hash (LastCommitID().Hash)', 9: 'attribute order inside an event', 10: 'trace length'}
KINDS = {'init': 0, 'begin': 1, 'tx': 2, 'end': 3, 'commit': 4, 'oob': 5}

KEY_TMPDIR = 'eth-ethash-tmpdir'
KEY_EVENTS = 'typed-event-attr-order'
NO_TMP = '/nonexistent/c14-no-tmp'


# ----------------------------------------------------------------------------------------------
# static side: inventory
# ----------------------------------------------------------------------------------------------

def coq_strings(s):
    """strings of a printed Coq term (doubled quotes = one quote)"""
    return [x.replace('""', '"') for x in re.findall(r'"((?:[^"]|"")*)"', s or '')]


def inventory(run):
    qs = [('Q_unmatched', 'unmatched_sites'), ('Q_unallowed', 'unallowed_hazards'),
          ('Q_counts', '([sites_found; sites_matched; sites_proved; sites_argued; stale_table_rows; hazards_found; '
                       'hazard_constructs; hazards_allowed; N.of_nat (List.length finding_groups); typecheck_errors; '
                       'files_scanned; range_statements] ++ sites_by_shape)%list'),
          ('Q_findings', 'finding_groups'),
          ('Q_eth', '(eth_seal_config_ok, eth_engine_constructions, eth_verify_seal_calls)'),
          ('Q_verdicts', 'map (fun s => (s_file s, s_func s, match site_verdict s with VProved ShStore => "proved: store shape" '
                         '| VProved ShSearch => "proved: search shape" | VProved (ShCollectSort _ _) => "proved: collect-then-sort shape" '
                         '| VArgued => "argued (not proved)" | VOpen _ => "OPEN" end)) map_range_sites_ir')]
    res = vlib.coq_eval_lists(run.work, 'inventory.v', HEADER_INV, '', qs)
    if res['_rc'] != 0 or 'Q_counts' not in res:
        return None, res['_out'][-3000:]
    nums = [int(x) for x in re.findall(r'\d+', res['Q_counts'])]
    names = ['map_range_sites_found', 'map_range_sites_matched', 'map_range_sites_proved', 'map_range_sites_argued',
             'stale_table_rows', 'hazard_groups_found', 'hazard_constructs', 'hazard_groups_allowed',
             'hazard_groups_that_are_findings', 'typecheck_errors', 'files_scanned', 'range_statements_seen',
             'proved_store_shape', 'proved_search_shape', 'proved_collect_sort_shape']
    inv = dict(zip(names, nums))
    um = coq_strings(res.get('Q_unmatched'))
    inv['unmatched_sites'] = [dict(file=um[i], function=um[i + 1], hash=um[i + 2], why=um[i + 3]) for i in range(0, len(um) - 3, 4)]
    vd = coq_strings(res.get('Q_verdicts'))
    inv['site_verdicts'] = [dict(file=vd[i], function=vd[i + 1], verdict=vd[i + 2]) for i in range(0, len(vd) - 2, 3)]
    ua = res.get('Q_unallowed') or ''
    inv['unallowed_hazards'] = [dict(file=f, function=g, constructs=int(c)) for f, g, c in
                                re.findall(r'\("((?:[^"]|"")*)",\s*"((?:[^"]|"")*)",\s*(\d+)\)', ua)]
    inv['finding_reasons'] = dict(Counter(coq_strings(res.get('Q_findings'))))
    eth = res.get('Q_eth') or ''
    inv['eth_seal_config_ok'] = bool(re.search(r'\(\s*true\s*,', eth))
    inv['eth_seal_config'] = ' '.join(eth.split())[:900]
    return inv, ''


def site_details(inv):
    """text of the unmatched statements / details of unallowed hazards from Gen/HazardsGen.v"""
    p = os.path.join(vlib.THEORIES, 'Gen', 'HazardsGen.v')
    try:
        txt = open(p, encoding='utf-8', errors='replace').read()
    except OSError:
        return
    for s in inv['unmatched_sites']:
        m = re.search(r'"%s", "[0-9a-f]*",\s*\n\s*"((?:[^"]|"")*)"' % re.escape(s['hash']), txt)
        if m:
            s['statement'] = m.group(1).replace('""', '"')[:1500]
        m = re.search(r's_hash := "%s";.*?s_body := (.*?);\n\s*s_after := (.*?);\n\s*s_text' % re.escape(s['hash']), txt, flags=re.S)
        if m:
            s['loop_language_body'], s['loop_language_after'] = m.group(1)[:1500], m.group(2)[:600]
    for h in inv['unallowed_hazards']:
        rows = re.findall(r'\("%s", "%s", "([^"]*)", "((?:[^"]|"")*)", (\d+)%%N\)' % (re.escape(h['file']), re.escape(h['function'])), txt)
        h['constructs_detail'] = ['%s: %s x%s' % r for r in rows]


# ----------------------------------------------------------------------------------------------
# dynamic side: generate, replay, compare
# ----------------------------------------------------------------------------------------------

def harness(args, env=None, timeout=3000):
    return vlib.sh([os.path.join(vlib.ROOT, 'harness', 'bin', 'c14')] + [str(a) for a in args], cwd=vlib.ROOT, timeout=timeout, env=env)


def generate(run, seed, n, steps, outdir, eth_headers=1, workers=12):
    os.makedirs(outdir, exist_ok=True)
    per = max(1, (n + workers - 1) // workers)
    shards = [(i, min(n, i + per)) for i in range(0, n, per)]

    def one(sh):
        return harness(['gen', '-seed', seed, '-n', n, '-from', sh[0], '-to', sh[1], '-steps', steps, '-repo', vlib.REPO,
                        '-outdir', outdir, '-eth', eth_headers])
    outs = vlib.parallel(one, shards, workers=workers)
    for rc, o in outs:
        if rc != 0:
            return None, o[-3000:]
    index = []
    for a, _ in shards:
        index += vlib.read_jsonl(os.path.join(outdir, 'index_%d.jsonl' % a))
    return index, ''


CONFIGS = {
    # one core, no usable temporary directory, no home, Tokyo time, C locale
    'A': dict(GOMAXPROCS='1', TMPDIR=NO_TMP, HOME='/nonexistent/c14-no-home', TZ='Asia/Tokyo', LANG='C', LC_ALL='C', USER='nobody'),
    # eight cores, private temporary directory (set below), New York time, another locale
    'B': dict(GOMAXPROCS='8', TZ='America/New_York', LANG='de_DE.UTF-8', USER='c14'),
    # like B with another core count (used to look behind a known finding)
    'C': dict(GOMAXPROCS='3', TZ='UTC'),
}


def replay_files(run, files, labels, tag, workers=12):
    """replays every history file under every configuration label, each (shard, label) in its own process;
    returns {label: {history id: trace}} or (None, log)"""
    files = sorted(files)
    k = max(1, min(len(files), workers // max(1, len(labels)) or 1))
    shards = [files[i::k] for i in range(k)]
    jobs = [(si, lb) for si in range(len(shards)) for lb in labels]
    tmpdir = os.path.join(run.work, 'tmp')
    os.makedirs(tmpdir, exist_ok=True)

    def one(job):
        si, lb = job
        env = dict(CONFIGS[lb])
        env.setdefault('TMPDIR', tmpdir)
        out = os.path.join(run.work, '%s_trace_%s_%d.jsonl' % (tag, lb, si))
        rc, o = harness(['replay', '-in', ','.join(shards[si]), '-label', lb, '-out', out], env=env)
        return rc, o, out, lb
    res = vlib.parallel(one, jobs, workers=workers)
    traces = {lb: {} for lb in labels}
    for rc, o, out, lb in res:
        if rc != 0:
            return None, o[-3000:]
        for t in vlib.read_jsonl(out):
            traces[lb][t['id']] = t
    return traces, ''


def dnum(h, bits=64):
    """a hex digest as a Coq N numeral: the first `bits` bits (hexadecimal numerals parse ~5x faster than decimal ones;
    64 bits of a SHA-256 value are plenty to detect a difference, the application hash is compared in full)"""
    if not h:
        return '0'
    return '0x' + h[:bits // 4]


def obs_term(o):
    return ('{| o_kind := %d; o_class := %d; o_code := %d; o_gas_wanted := %d; o_gas_used := %d; o_data := %s; o_events := %s; '
            'o_extra := %s; o_hash := %s; o_events_raw := %s |}' % (
                KINDS[o['t']], o.get('class', 0), o.get('code', 0), max(0, o.get('gas_wanted', 0)), max(0, o.get('gas_used', 0)),
                dnum(o.get('data')), dnum(o.get('events_c')), dnum(o.get('extra')), dnum(o.get('hash'), 256), dnum(o.get('events'))))


def evaluate(run, cases, tag):
    """cases: list of lists of traces (each trace = list of obs dicts); returns list of (case, step, field) or (None, log)"""
    size = 3
    shards = [cases[i:i + size] for i in range(0, len(cases), size)]

    def one(ix):
        i, sh = ix
        defs = 'Definition cases : list (list (list obs)) := %s.\n' % coq_list(
            [coq_list([coq_list([obs_term(o) for o in tr]) for tr in c]) for c in sh])
        res = vlib.coq_eval_lists(run.work, '%s_%d.v' % (tag, i), HEADER_REPLAY, defs, [('D', 'replay_disagreements cases')])
        d = vlib.parse_nat_tuples(res.get('D'), 3)
        if res['_rc'] != 0 or d is None:
            return ('error', res['_out'][-3000:])
        return [(c + i * size, s, f) for c, s, f in d]
    outs = vlib.parallel(one, list(enumerate(shards)), workers=12)
    allv = []
    for o in outs:
        if o and o[0] == 'error':
            return None, o[1]
        allv += o
    return allv, ''


def classify(hist, diffs, traces_by_label, labels):
    """diffs: list of (replica index >= 1 in labels order is not known here; we get (step, field)) for one history.
    Returns (key or None, first step, field)"""
    diffs = sorted(diffs)
    if all(f == 9 for _, f in diffs):
        return KEY_EVENTS, diffs[0][0], 9
    step, field = [d for d in diffs if d[1] != 9][0]
    op = hist['ops'][step] if step < len(hist['ops']) else {}
    tagname = op.get('tag', '')
    if tagname.startswith('xibc-update-client-eth') and field in (3, 4, 5, 6):
        codes = {lb: traces_by_label[lb][hist['id']]['obs'][step].get('code', 0) for lb in labels if hist['id'] in traces_by_label[lb]}
        usable = {lb: traces_by_label[lb][hist['id']]['env'].get('tmp_usable') for lb in codes}
        bad = [lb for lb in codes if usable[lb] == 'false']
        good = [lb for lb in codes if usable[lb] == 'true']
        if bad and good and all(codes[lb] != 0 for lb in bad) and len({codes[lb] for lb in good}) == 1:
            return KEY_TMPDIR, step, field
    return None, step, field


def load_hist(path):
    with open(path) as f:
        return json.load(f)


def compare(run, index, labels, tag, with_generator=True):
    """replay + Coq comparison; returns dict(per history id -> list of (step, field)), traces, evaluations"""
    files = [e['file'] for e in index]
    traces, log = replay_files(run, files, labels, tag)
    if traces is None:
        return None, None, log
    hists = {e['id']: load_hist(e['file']) for e in index}
    ids = sorted(hists)
    cases = []
    for hid in ids:
        c = [traces[lb][hid]['obs'] for lb in labels]
        if with_generator:
            c.append(hists[hid]['gen_obs'])
        cases.append(c)
    d, log = evaluate(run, cases, tag + '_cases')
    if d is None:
        return None, None, log
    per = {}
    for c, s, f in d:
        per.setdefault(ids[c], []).append((s, f))
    evals = sum(len(tr) for c in cases for tr in c)
    return (per, hists), traces, evals


def report(run, per, hists, traces, labels, look_behind=True):
    """turns disagreements into KNOWN-FINDING / VIOLATION; returns counters"""
    stats = Counter()
    behind = []
    for hid, diffs in sorted(per.items()):
        hist = hists[hid]
        key, step, field = classify(hist, diffs, traces, labels)
        op = hist['ops'][step] if step < len(hist['ops']) else {}
        what = None
        if key == KEY_EVENTS:
            what = ('key=%s the attribute order inside typed events (cosmos-sdk v0.45.2 TypedEventToEvent ranges over a map) '
                    'differs between replays of the same blocks; codes, data, gas and application hashes agree' % key)
        elif key == KEY_TMPDIR:
            what = ('key=%s a main-net ETH header (ChainId != 4) is rejected by the replay without a usable temporary directory and '
                    'accepted by the others: application hashes diverge from that block on' % key)
            behind.append(hid)
        if key and run.known_finding(key, what):
            stats['known:' + key] += 1
            continue
        stats['violations'] += 1
        if len(run.violations) >= 4:
            continue
        cut = step + 1
        while cut < len(hist['ops']) and hist['ops'][cut - 1]['t'] != 'commit':
            cut += 1
        obs_at = {lb: traces[lb][hid]['obs'][step] for lb in labels if hid in traces[lb] and step < len(traces[lb][hid]['obs'])}
        run.violation(dict(kind='replay-disagreement', finding_key=key, history_id=hid, scenario=hist['scenario'],
                           first_differing_step=step, field=field, field_name=FIELDS.get(field), operation=op.get('t'),
                           operation_tag=op.get('tag'), all_differences=[[s, f] for s, f in sorted(diffs)][:40],
                           observed={lb: obs_at[lb] for lb in obs_at},
                           replicas={lb: traces[lb][hid]['env'] for lb in labels if hid in traces[lb]},
                           explanation='the same recorded block sequence, executed on fresh applications in separate processes, '
                                       'produced different %s at operation %d' % (FIELDS.get(field), step),
                           history=dict(id=hid, scenario=hist['scenario'], chain=hist['chain'], ops=hist['ops'][:cut])),
                      name='replay_%s.json' % re.sub(r'[^A-Za-z0-9_.-]', '_', hid))
    return stats, behind


def check(run):
    import time
    t0 = time.time()
    timing = {}

    def lap(name):
        nonlocal t0
        timing[name] = round(time.time() - t0, 1)
        t0 = time.time()
    pr = run.proof_stage(extra_modules=['theories/Props/C14_inventory.v', 'theories/Model/MapLoopsCheck.v'])
    if not run.quick() and pr['build_ok']:
        run.coqchk_stage()
    lap('proofs')
    inv, log = inventory(run)
    lap('inventory')
    if inv is None:
        run.violation(dict(kind='inventory-evaluation-failed', log=log, build_log=pr['build_log'][-3000:],
                           explanation='the hazard inventory could not be regenerated / evaluated (translator tools/gotocoq/hazards '
                                       'or Model/DeterminismCheck.v broken against this tree)'), no_input=True)
        return run.finish()
    site_details(inv)
    ok, out = vlib.build_harness(['c14'])
    if not ok:
        run.violation(dict(kind='harness-build-failed', log=out[-3000:]), no_input=True)
        return run.finish()

    static_open = bool(inv['unmatched_sites'] or inv['unallowed_hazards'] or inv['typecheck_errors'] or not inv.get('eth_seal_config_ok', True))
    n = run.budget(15, 420)
    steps = run.budget(10, 14)
    if static_open:   # an open obligation: search harder (more histories, the same comparison)
        n = run.budget(45, 600)
    hdir = os.path.join(run.work, 'hist')
    lap('harness_build')
    index, log = generate(run, run.seed, n, steps, hdir, eth_headers=run.budget(1, 3))
    lap('generate')
    if index is None:
        run.violation(dict(kind='harness-crashed', stage='generate', log=log), no_input=True)
        return run.finish()
    labels = ['A', 'B']
    res, traces, evals = compare(run, index, labels, 'replay')
    if res is None:
        run.violation(dict(kind='replay-or-evaluation-failed', log=evals), no_input=True)
        return run.finish()
    per, hists = res
    lap('replay_and_compare')
    stats, behind = report(run, per, hists, traces, labels)
    # behind a history in which the temp-dir finding fired everything after it differs: replay those again with usable
    # temporary directories on both sides so that any OTHER disagreement in them is still seen
    evals2 = 0
    if behind:
        idx2 = [e for e in index if e['id'] in behind]
        res2, traces2, evals2 = compare(run, idx2, ['B', 'C'], 'behind')
        if res2 is None:
            run.violation(dict(kind='replay-or-evaluation-failed', log=evals2), no_input=True)
            return run.finish()
        st2, _ = report(run, res2[0], res2[1], traces2, ['B', 'C'])
        stats.update({'behind:' + k: v for k, v in st2.items()})

    # map-loop models vs the real functions
    ml = maploops_stage(run)
    lap('maploops')
    run.coverage['timing_s'] = timing

    # ---- coverage -------------------------------------------------------------------------------------
    tags = Counter()
    outcomes = Counter()
    nontrivial = set()
    for e in index:
        h = hists[e['id']]
        for op, o in zip(h['ops'], h['gen_obs']):
            if op['t'] == 'tx':
                t = op.get('tag', '?')
                tags[t] += 1
                oc = 'ok' if o.get('code', 0) == 0 else 'rejected(%s/%d)' % (o.get('space', ''), o.get('code'))
                outcomes[oc] += 1
                nontrivial.add((t, oc))
            elif op['t'] == 'oob':
                tags['oob:' + op.get('kind', '?')] += 1
    dist = dict(histories=len(index), scenario_cases=n, scenarios=dict(Counter(e['scenario'] for e in index)),
                blocks=sum(e['blocks'] for e in index), operations=sum(e['ops'] for e in index),
                transactions=sum(tags[t] for t in tags if not t.startswith('oob:')), tx_outcomes=dict(outcomes.most_common(12)),
                operations_by_kind=dict(tags), packets=dict(recv_ok=sum(e['stats'].get('recv_ok', 0) for e in index) // 2,
                                                            acknowledged=sum(e['stats'].get('ack_ok', 0) for e in index) // 2),
                replicas_per_history='2 fresh applications in 2 separate processes (A: GOMAXPROCS=1, TMPDIR and HOME unusable, TZ=Asia/Tokyo, '
                                     'LANG=C; B: GOMAXPROCS=8, private TMPDIR, TZ=America/New_York, LANG=de_DE.UTF-8) + the generator '
                                     'process itself (inherited environment) as third replica',
                histories_with_disagreement=len(per), disagreement_classes=dict(stats))
    run.coverage.update(dict(
        evaluations=evals + evals2 + ml.get('evaluations', 0), distinct_nontrivial=len(nontrivial),
        rule='one evaluation = one observed operation (InitChain / BeginBlock / DeliverTx / EndBlock / Commit / out-of-band keeper call) of '
             'one replica compared in Coq (10 fields incl. the application hash after every block), plus the map-loop model cases; '
             'distinct = distinct (transaction kind, outcome) pairs in the replayed histories',
        inventory={k: v for k, v in inv.items()}, distribution=dist, map_loop_correspondence=ml,
        samples=([dict(id=index[0]['id'], ops=[dict(t=o['t'], tag=o.get('tag')) for o in hists[index[0]['id']]['ops'][:25]])] if index else []) +
                [dict(map_loop_case=c) for c in (ml.get('samples') or [])] +
                [dict(site=v) for v in (inv.get('site_verdicts') or [])[:3]]))
    run.coverage['trusted_base'] += [
        'translator tools/gotocoq/hazards (go/parser + go/types over the scope packages, export data of dependencies): decides what '
        'is a range over a map and what is a hazardous construct; scope = non-test .go under app/ x/ adapter/ syscontracts/ types/ ibc/ '
        '(minus client/cli, simulation, testing, *.pb.go); LIBRARY code (cosmos-sdk, ethermint, go-ethereum, tendermint) is NOT inventoried',
        'allow-list reasons in Model/DeterminismCheck.v are arguments, not proofs',
        'loop language: the translator emits every range-over-map statement as a term of Model/MapLoopsIR.v (statements by syntactic '
        'form, expressions opaque with the variables read and functions called); the reading of run_loop as Go semantics, the list '
        'of pure callees and the canonical sorters (validatorsAscending.Less, text-pinned one-liner) are trusted; the specific '
        'transcriptions of Model/MapLoops.v (what the loops compute) are tied to the real functions by a differential run (maploops)',
        'replay engine: generator bounds what is exercised; out-of-band keeper calls of x/xibc/testing style (chain name in the packet '
        'contract, endpoint-owned ERC-20 deployment, optional client creation) are re-executed by the replayer, everything else is ABCI']
    run.assumptions += [
        'Go map iteration = an arbitrary permutation of the entry list (distinct keys) per range statement',
        'sort.Sort returns a sorted permutation (sort_spec); the address derivation is collision free on the module names (premise of blocked_addrs_order_independent); ABI event IDs are pairwise different (premise of handler_table_order_independent)',
        'consensus covers code, data, gas and the application hash (Tendermint 0.34); events are compared too because the property says so; log strings are not compared']

    # ---- a real function that is not a function of its input: a concrete witness (reported before the static side) ------
    for c in ml.get('unstable_samples') or []:
        run.violation(dict(kind='order-dependent-function', what=c['unstable'], input=c,
                           rerun=dict(mode='maploops', seed=run.seed, n=ml.get('n'), case_kind=c.get('kind')),
                           explanation='the real function, called repeatedly in one process on the same input, gave different '
                                       'results (Go map iteration order); ./check C14 --replay <this file> runs the generator again '
                                       'with the recorded seed and reports the unstable cases'),
                      name='replay_unstable.json')
        break
    # ---- decisions on the static side --------------------------------------------------------------------
    if static_open and not any(v for v in run.violations):
        run.violation(dict(kind='open-determinism-obligation', unmatched_map_range_sites=inv['unmatched_sites'],
                           unallowed_hazards=inv['unallowed_hazards'], typecheck_errors=inv['typecheck_errors'],
                           eth_seal_config_ok=inv.get('eth_seal_config_ok'), eth_seal_config=inv.get('eth_seal_config'),
                           searched=dict(histories=len(index), replicas=3, disagreements=len(per), map_loop_cases=ml.get('evaluations', 0)),
                           broken='Props/C14_inventory.v: map_range_sites_covered / other_hazards_allowed / inventory_typechecked',
                           explanation='the tree contains a range over a map that the order-independence classifier of '
                                       'Model/MapLoopsIR.v does not accept (and that is not an argued row), or a hazardous construct '
                                       '(clock, randomness, goroutine, file system, ...) that is not on the allow-list of '
                                       'Model/DeterminismCheck.v or not of the kind its allow-list reason is about; the replay search '
                                       'found no history on which replicas disagree'),
                      name='replay_inventory.json', no_input=True)
    elif static_open:
        run.coverage['open_static_obligations'] = dict(unmatched_map_range_sites=inv['unmatched_sites'], unallowed_hazards=inv['unallowed_hazards'])
    elif not run.proof_ok() and not any(v for v in run.violations):
        run.coverage['proof_build_log_tail'] = (pr.get('build_log') or '')[-3000:]   # diagnosis: translator / make output
        run.proof_violation()
    if ml.get('mismatches') and not ml.get('unstable'):
        run.violation(dict(kind='correspondence', what='a map-loop model of Model/MapLoops.v disagrees with the real function',
                           cases=ml['mismatch_samples'], broken='correspondence Model.MapLoops <-> real loops'),
                      name='replay_maploops.json', no_input=True)
    if ml.get('error'):
        run.violation(dict(kind='maploops-stage-failed', log=ml['error']), name='replay_maploops_error.json', no_input=True)
    run.coverage['claim'] = ('PARTIAL: order-independence is proved for every range-over-map statement of the scope that the classifier '
                             'accepts (8 of 11 on HEAD; 3 argued); absence of other such places, the harmlessness of the other hazards '
                             '(allow-list) and agreement of independent replays are checked, not proved')
    return run.finish()


# ----------------------------------------------------------------------------------------------
# map-loop models vs the real functions
# ----------------------------------------------------------------------------------------------

def maploops_stage(run):
    out = os.path.join(run.work, 'maploops.jsonl')
    n = run.budget(300, 10000)
    rc, o = harness(['maploops', '-seed', run.seed, '-n', n, '-out', out])
    if rc != 0 or not os.path.exists(out):
        return dict(evaluations=0, error=o[-1500:] or 'maploops produced no output')
    cases = vlib.read_jsonl(out)
    if not cases:
        return dict(evaluations=0, error='maploops produced no cases')
    res = maploops_evaluate(run, cases)
    res['n'] = n
    return res


def hb(h):
    return vlib.coq_literal_bytes(bytes.fromhex(h))


def sb(x):
    return vlib.coq_literal_bytes(x.encode())


def mlcase_term(c):
    if c['kind'] == 'validators':
        return '(CValidators %s %d %s %s %d)' % (coq_list([hb(e) for e in c.get('entries') or []]), c.get('number', 0), hb(c['validator']),
                                                 coq_list([hb(e) for e in c.get('real_sorted') or []]), c['real_inturn'])
    if c['kind'] == 'recents':
        return '(CRecents %s %s %d %d %d)' % (coq_list(['(%d, %s)' % (int(h, 16), hb(v)) for h, v in c.get('recents') or []]),
                                              hb(c['validator']), c.get('number', 0), c.get('limit', 0), c['real_recent'])
    if c['kind'] == 'macc':
        pairs = lambda ps: coq_list(['(%s, %s)' % (sb(k), 'true' if v == '1' else 'false') for k, v in ps])
        return '(CMacc %s %s %s %s)' % (
            coq_list(['(%s, (%s, %s))' % (sb(n), sb(a), 'true' if al == '1' else 'false') for n, a, al in c['macc']]),
            pairs(c['real_mod']), pairs(c['real_blocked']), coq_list([sb(k) for k in c['real_copy']]))
    return '(CHandlers %s %s %s %s)' % (coq_list(['(%s, %s)' % (sb(n), hb(i)) for n, i in c['events']]),
                                       coq_list([sb(k) for k in c['known']]), coq_list([hb(i) for i in c.get('real_ids') or []]),
                                       'true' if c['real_panicked'] else 'false')


def maploops_evaluate(run, cases):
    size = 400
    shards = [cases[i:i + size] for i in range(0, len(cases), size)]

    def one(ix):
        i, sh = ix
        defs = 'Definition cases : list mlcase := %s.\n' % coq_list([mlcase_term(c) for c in sh])
        res = vlib.coq_eval_lists(run.work, 'maploops_%d.v' % i, HEADER_ML, defs, [('M', 'ml_mismatches cases')])
        m = vlib.parse_nat_tuples(res.get('M'), 2)
        if res['_rc'] != 0 or m is None:
            return ('error', res['_out'][-2000:])
        return [(c + i * size, k) for c, k in m]
    unstable = [c for c in cases if c.get('unstable')]
    mm = []
    for o in vlib.parallel(one, list(enumerate(shards)), workers=6):
        if o and o[0] == 'error':
            return dict(evaluations=0, error=o[1], mismatches=1, mismatch_samples=[dict(error=o[1])])
        mm += o
    kinds = Counter(c['kind'] for c in cases)
    sizes = Counter(min(len(c.get('entries') or []), 10) for c in cases if c['kind'] == 'validators')
    return dict(evaluations=len(cases), cases_by_kind=dict(kinds), validator_set_sizes={str(k): v for k, v in sorted(sizes.items())},
                inturn_outcomes=dict(Counter({0: 'false', 1: 'true', 2: 'panic'}[c['real_inturn']] for c in cases if c['kind'] == 'validators')),
                recents_verdicts=dict(Counter({0: 'accepted', 1: 'recently-signed', 2: 'panic', 3: 'other-error'}[c['real_recent']]
                                              for c in cases if c['kind'] == 'recents')),
                recents_with_two_entries_of_the_signer=sum(1 for c in cases if c['kind'] == 'recents' and
                                                           sum(1 for _, v in c.get('recents') or [] if v == c['validator']) >= 2),
                mismatches=len(mm), mismatch_samples=[dict(kind=k, case=cases[c]) for c, k in mm[:3]],
                unstable=len(unstable), unstable_samples=unstable[:2],
                samples=[c for c in cases if c['kind'] == 'recents'][:1] + [c for c in cases if c['kind'] == 'validators' and len(c.get('entries') or []) > 2][:1])


def replay(path):
    rp = json.load(open(path))
    if rp.get('kind') == 'order-dependent-function' and rp.get('rerun'):
        ok, out = vlib.build_harness(['c14'])
        if not ok:
            print('cannot build harness: ' + out[-500:])
            return 2
        work = os.path.join(vlib.ROOT, 'work', 'C14_replay')
        os.makedirs(work, exist_ok=True)
        outp = os.path.join(work, 'maploops.jsonl')
        rr = rp['rerun']
        rc, o = harness(['maploops', '-seed', rr.get('seed', 1), '-n', rr.get('n') or 300, '-out', outp])
        if rc != 0:
            print('maploops failed: ' + o[-500:])
            return 2
        bad = [c for c in vlib.read_jsonl(outp) if c.get('unstable')]
        for c in bad[:5]:
            print('unstable: %s  input=%s' % (c['unstable'], json.dumps({k: v for k, v in c.items() if k != 'unstable'})[:400]))
        if bad:
            print('VIOLATION property=C14 replay=%s' % path)
            return 1
        print('replay passes on the current tree: every real map-ranging function gave one result per input')
        return 0
    if 'history' not in rp:
        print('no history in the replay file (%s): static obligation — rebuild with: ./check C14 quick' % rp.get('kind'))
        return 2
    run = vlib.Run('C14_replay', 'quick')
    okc, outc = vlib.coq_build(['theories/Model/ReplayCheck.vo'])
    if not okc:
        print('cannot build Model/ReplayCheck.vo: ' + outc[-500:])
        return 2
    ok, out = vlib.build_harness(['c14'])
    if not ok:
        print('cannot build harness: ' + out[-500:])
        return 2
    hp = os.path.join(run.work, 'history.json')
    h = dict(rp['history'])
    h['gen_obs'] = []
    json.dump(h, open(hp, 'w'))
    index = [dict(id=h['id'], file=hp)]
    res, traces, evals = compare(run, index, ['A', 'B'], 'replay', with_generator=False)
    if res is None:
        print('replay failed: ' + str(evals)[-1000:])
        return 2
    per, hists = res
    for hid, diffs in per.items():
        for s, f in sorted(diffs)[:10]:
            print('operation %d (%s %s): %s differs' % (s, h['ops'][s]['t'], h['ops'][s].get('tag', ''), FIELDS.get(f)))
            for lb in ('A', 'B'):
                print('   ', lb, traces[lb][hid]['env'], json.dumps(traces[lb][hid]['obs'][s]))
    if per:
        print('VIOLATION property=C14 replay=%s' % path)
        return 1
    print('replay passes on the current tree: both replicas agree on all %d operations' % len(h['ops']))
    return 0
