"""Shared machinery of the packet-core checks C01 C02 C04 C05.
Model: coq/theories/Model/Packet.v (+ PacketCheck.v); harness: harness/cmd/packet (one binary, `-focus` biases the
generator towards the property).  Each ./check invocation rebuilds the harness against the current tree and reruns it."""
import hashlib
import json
import os
import re
import time
from collections import Counter

import vlib
from vlib import coq_literal_bytes as cb, coq_bool, coq_list, coq_option

HEADER = ('From Teleport Require Import Base.Bytes Base.Outcome Base.AList Model.Packet Model.PacketClients Model.PacketCheck.\n'
          'Local Open Scope N_scope.\n')

MISMATCH = {1: 'model and code disagree on accepting / rejecting the message',
            2: 'model and code disagree on the packet families of the xibc store (receipts, acks, commitments, nextSequenceSend)',
            3: 'model and packet contract disagree on getNextSequenceSend',
            4: 'model and packet contract disagree on getAckStatus',
            5: 'final store of a chain differs from the model / from the reconstructed observation',
            6: 'malformed case (chain index out of range)',
            8: 'Acknowledgement.String() emptiness differs from the model (all fields zero)'}
MONITOR = {11: 'a (source, destination, sequence) triple was accepted twice',
           12: 'a rejected message changed state',
           20: 'a packet receipt disappeared or changed',
           21: 'an accepted receive did not write the (previously absent) receipt of its triple',
           24: 'a commitment is not the sha256 of the packet bytes the packet contract emitted (PacketSent log) in the accepted transaction',
           13: 'nextSequenceSend / commitments changed in a way not explained by the sends of the step (gap, repeat, wrong hash)',
           14: 'packet contract send counter differs from the chain-side counter',
           15: 'accepted receive addressed to this chain did not write exactly one new acknowledgement',
           16: 'a stored acknowledgement changed or disappeared',
           17: 'a commitment disappeared without an accepted acknowledgement of exactly that packet',
           18: 'a second acknowledgement of the same packet was accepted',
           23: 'an acknowledgement appeared in the store that is not the one of an accepted receive of exactly that triple',
           26: 'the acknowledgement an accepted receive wrote does not carry the callback\'s result code (1 for a failed callback) and the packet\'s fee option',
           27: 'an accepted acknowledgement does not decode, is all zero, or names a relayer that is not registered on the sending chain (the fee could not be paid: the message must fail and keep the commitment)',
           25: 'a light client is registered under the chain\'s own name (the create proposal must be refused: fix a9e74e1)',
           19: 'an accepted receive / acknowledgement was not verified by the counterparty client for the recomputed (path, value)',
           22: 'a rejected message changed balances / bindings',
           6: 'malformed case'}
KINDS = {'C01': {11, 12, 20, 21, 22, 6}, 'C02': {19, 12, 22, 6}, 'C04': {13, 14, 24, 25, 12, 22, 6}, 'C05': {15, 16, 17, 18, 19, 23, 25, 26, 27, 6}}
LONG = 64


class Tok:
    """consistent, injective renaming of long opaque byte strings (packet bytes, proofs, ack bytes, payloads): the model
    only passes them to oracles, so the comparison is unaffected; keeps the Coq terms small"""

    def __init__(self):
        self.seen = {}

    def __call__(self, hx):
        b = bytes.fromhex(hx)
        if len(b) <= LONG:
            assert not (len(b) == 12 and b[:1] == b'\xff'), 'raw string looks like a token'
            return b
        t = b'\xff' + hashlib.sha256(b).digest()[:11]
        if self.seen.setdefault(t, b) != b:
            raise RuntimeError('token collision')
        return t


def N(s):
    return '%d' % int(s)


def t_packet(tk, p):
    return '(mkPacket %s %s %s %s %s %s %s %s)' % (cb(tk(p['src'])), cb(tk(p['dst'])), N(p['seq']), cb(tk(p['sender'])),
                                                  cb(tk(p['tdata'])), cb(tk(p['cdata'])), cb(tk(p['cb'])), N(p['fee']))


def t_ack(tk, a):
    return '(mkAck %s %s %s %s %s)' % (N(a['code']), cb(tk(a['result'])), cb(tk(a['message'])), cb(tk(a['relayer'])), N(a['fee']))


def t_cb(tk, c):
    sends = coq_list(['(%s, %s)' % (t_packet(tk, p), coq_bool(ok)) for p, ok in c.get('sends') or []])
    ret = c.get('ret')
    r = 'None' if ret is None else '(Some (%s, %s, %s))' % (N(ret[0]), cb(tk(ret[1])), cb(tk(ret[2])))
    return '(mkCb %s %s %s)' % (coq_bool(c.get('fail', False)), sends, r)


def t_height(h):
    return '(%s, %s)' % (N(h[0]), N(h[1]))


def t_act(tk, a, cls, err=''):
    t = a['t']
    if t == 'recv':
        c = a['cb']
        if cls != 0:
            # nothing of the callback is observable for a rejected message.  Give the model the input "the callback
            # fails" (error acknowledgement, always packable): then the model accepts exactly when the verification and
            # relayer stages pass, so an implementation that rejects a message it should accept is NOT masked.
            c = dict(sends=[], fail=True, ret=None)
        return '(ARecv (mkRecv %s %s %s %s) %s)' % (cb(tk(a['packet'])), cb(tk(a['proof'])), t_height(a['height']),
                                                    cb(tk(a['signer'])), t_cb(tk, c))
    if t == 'ack':
        # which module->contract call fails is an INPUT of the model (environment's choice); for a rejected ack the
        # harness takes it from a dry run of the three calls on a throw-away branch (a['cbs'][i]['fail'])
        cbs = [dict(c) for c in a['cbs']]
        return '(AAck (mkAckMsg %s %s %s %s %s) %s %s %s)' % (
            cb(tk(a['packet'])), cb(tk(a['ack'])), cb(tk(a['proof'])), t_height(a['height']), cb(tk(a['signer'])),
            t_cb(tk, cbs[0]), t_cb(tk, cbs[1]), t_cb(tk, cbs[2]))
    if t == 'send':
        return '(ASend %s)' % t_cb(tk, dict(sends=a['sends'], fail=a['fail'], ret=None))
    if t == 'update':
        return '(AUpdateClient %s %s)' % (cb(tk(a['name'])), coq_bool(cls == 0))
    if t == 'block':
        return 'ANextBlock'
    if t == 'reg_relayer':
        return '(ARegisterRelayer %s %s %s)' % (cb(tk(a['addr'])), coq_list([cb(tk(c)) for c in a['chains']]),
                                               coq_list([cb(tk(c)) for c in a['addrs']]))
    if t == 'create_client':
        return '(ARegisterClient %s %s %s)' % (cb(tk(a['name'])), '0' if a['tss'] else '1', coq_bool(cls == 0))
    if t == 'toggle_client':
        return '(AToggleClient %s %s %s)' % (cb(tk(a['name'])), '0' if a['tss'] else '1', coq_bool(cls == 0))
    if t == 'upgrade_client':
        return '(AUpgradeClient %s %s %s)' % (cb(tk(a['name'])), '0' if a['tss'] else '1', coq_bool(cls == 0))
    raise RuntimeError('unknown act ' + t)


def t_store(st):
    return coq_list(['(%s, %s)' % (cb(bytes.fromhex(k)), cb(bytes.fromhex(v))) for k, v in st])


def delta(before, after):
    b, a = dict(before), dict(after)
    out = []
    for k in sorted(set(b) | set(a)):
        if k not in a:
            out.append('(%s, None)' % cb(bytes.fromhex(k)))
        elif b.get(k) != a[k]:
            out.append('(%s, Some %s)' % (cb(bytes.fromhex(k)), cb(bytes.fromhex(a[k]))))
    return coq_list(out)


def nums(pairs):
    return [(k, v) for k, v in pairs if str(v).isdigit()]


def case_term(c):
    tk = Tok()
    chains = []
    for ch in c['chains']:
        clients = coq_list(['(%s, %s)' % (cb(tk(x['name'])), '0' if x['tss'] else '1') for x in ch['clients']])
        rel = coq_list(['(%s, (%s, %s))' % (cb(tk(r['addr'])), coq_list([cb(tk(x)) for x in r['chains']]),
                                            coq_list([cb(tk(x)) for x in r['addrs']])) for r in ch['relayers']])
        cseq = coq_list(['(%s, %s)' % (cb(tk(d)), N(n)) for d, n in nums(ch['cseq'])])
        cons = coq_list(['(%s, %s)' % (cb(tk(x['name'])), coq_list([t_height(h) for h in x.get('cons') or []])) for x in ch['clients']])
        chains.append('(mkChain %s %s %s %s %s %s)' % (cb(tk(ch['name'])), clients, rel, t_store(ch['store']), cseq, cons))
    prev = [ch['store'] for ch in c['chains']]
    steps = []
    for st in c['steps']:
        o = st['obs']
        i = st['chain']
        cseq = coq_list(['(%s, %s)' % (cb(tk(d)), N(n)) for d, n in nums(o.get('cseq') or [])])
        acks = coq_list(['((%s, %s), %s)' % (cb(tk(d)), N(q), N(s)) for d, q, s in (o.get('ackstatus') or []) if str(s).isdigit()])
        emitted = coq_list([cb(tk(x)) for x in (st['act'].get('raw') or [])] if o['class'] == 0 else [])
        wcons = coq_list([t_height(h) for h in o.get('cons') or []])
        wack = 'None' if not o.get('wack') else '(Some (%s, %s))' % (N(o['wack'][0]), N(o['wack'][1]))
        steps.append('(mkOStep %d%%nat %s %s %d%%nat %s %s %s %s %s %s %s)' % (
            i, N(st['env']), t_act(tk, st['act'], o['class'], o.get('err', '')), o['class'], delta(prev[i], o['store']),
            coq_bool(o['unchanged']), cseq, acks, emitted, wcons, wack))
        prev[i] = o['store']
    orc = c['oracles']
    dec = coq_list(['(%s, (%s, %s))' % (cb(tk(e['bz'])), t_packet(tk, e['pkt']), coq_bool(e['err'])) for e in orc['decode']])
    pack = coq_list(['(%s, %s)' % (t_packet(tk, e['pkt']), coq_option(None if e['bz'] is None else cb(tk(e['bz'])))) for e in orc['pack']])
    sha = coq_list(['(%s, %s)' % (cb(tk(e['in'])), cb(tk(e['out']))) for e in orc['sha']])
    dack = coq_list(['(%s, %s)' % (cb(tk(e['bz'])), coq_option(None if e['ack'] is None else t_ack(tk, e['ack']))) for e in orc['decode_ack']])
    pack_ack = coq_list(['(%s, %s)' % (t_ack(tk, e['ack']), cb(tk(e['bz']))) for e in orc['pack_ack']])
    ver = coq_list(['(mkV %s %s %s %s %s %s %s %s %s, (%s, %s))' % (
        N(e['env']), cb(tk(e['client'])), N(e['kind']), t_height(e['h']), cb(tk(e['proof'])), cb(tk(e['src'])), cb(tk(e['dst'])),
        N(e['seq']), cb(tk(e['val'])), coq_bool(e['ok']), coq_bool(e.get('low', e['ok']))) for e in orc['verify']])
    b32 = coq_list(['(%s, %s)' % (cb(tk(e['s'])), coq_option(None if e['addr'] is None else cb(tk(e['addr'])))) for e in orc['bech32']])
    fold = coq_list(['((%s, %s), %s)' % (cb(tk(e['a'])), cb(tk(e['b'])), coq_bool(e['eq'])) for e in orc['fold']])
    final = coq_list([t_store(f['store']) for f in c['final']])
    return '(mkCase %s %s %s (mkOr %s %s %s %s %s %s %s %s))' % (
        coq_list(chains), coq_list(steps), final, dec, pack, sha, dack, pack_ack, ver, b32, fold)


def python_side(results):
    """checks done on the raw output in glue code: (case, step, kind) for kind 8 (ack emptiness) and 22 (balances of a
    rejected step) — cheap sanity checks next to the Coq evaluation"""
    mm, ff = [], []
    for ci, c in enumerate(results):
        for e in c['oracles']['decode_ack']:
            a = e['ack']
            if a is not None:
                z = int(a['code']) == 0 and a['result'] == '' and a['message'] == '' and a['relayer'] == '' and int(a['fee']) == 0
                if z != bool(e.get('empty', z)):
                    mm.append((ci, 0, 8))
        prev = {}
        for si, st in enumerate(c['steps']):
            o = st['obs']
            b = o.get('bal')
            if o['class'] != 0 and b is not None and st['chain'] in prev and prev[st['chain']] != b:
                ff.append((ci, si, 22))
            if b is not None:
                prev[st['chain']] = b
    return mm, ff


SHARD = 4


def evaluate(workdir, results, tag='cases', workers=12):
    """-> (mismatches, monitor_failures) lists of (case, step, kind), or (None, log).  A shard whose coqc run died without
    a Coq error (killed under memory pressure, timeout) is retried, alone, up to two more times."""
    shards = [results[i:i + SHARD] for i in range(0, len(results), SHARD)]

    def attempt(i, sh):
        defs = 'Definition cases : list pcase := %s.\n' % coq_list([case_term(r) for r in sh])
        res = vlib.coq_eval_lists(workdir, '%s_%d.v' % (tag, i), HEADER, defs,
                                  [('M', 'mismatches cases'), ('F', 'monitor_failures cases')])
        m = vlib.parse_nat_tuples(res.get('M'), 3)
        f = vlib.parse_nat_tuples(res.get('F'), 3)
        if res['_rc'] != 0 or m is None or f is None:
            return ('error', res['_out'][-3000:], 'Error' in res['_out'])
        off = i * SHARD
        return ([(h + off, s, k) for h, s, k in m], [(h + off, s, k) for h, s, k in f])

    def one(ix):
        i, sh = ix
        r = attempt(i, sh)
        return r if r[0] != 'error' else ('retry', i)

    outs = vlib.parallel(one, list(enumerate(shards)), workers=workers)
    mm, ff = [], []
    for o in outs:
        if o[0] == 'retry':
            i = o[1]
            r = None
            for wait in (2, 10):
                time.sleep(wait)
                r = attempt(i, shards[i])
                if r[0] != 'error' or r[2]:
                    break
            if r[0] == 'error':
                return None, r[1]
            o = r
        mm += o[0]
        ff += o[1]
    pm, pf = python_side(results)
    return mm + pm, ff + pf


def run_generated(workdir, seed, n, steps, focus, procs=8, tag='gen', lo=0, hi=None):
    """cases lo..hi-1 of the n cases of this (seed, focus); a harness process that was killed is re-run once"""
    hi = n if hi is None else hi
    per = max(1, (hi - lo + procs - 1) // procs)
    jobs = [(a, min(hi, a + per)) for a in range(lo, hi, per)]

    def one(j):
        a, b = j
        out = os.path.join(workdir, '%s_%d.jsonl' % (tag, a))
        args = ['-seed', seed, '-n', n, '-steps', steps, '-focus', focus, '-from', a, '-to', b, '-out', out]
        rc, o = vlib.run_harness('packet', args)
        if rc not in (0, 2):        # 2 = the harness itself reports a failure; anything else: killed / crashed
            time.sleep(3)
            rc, o = vlib.run_harness('packet', args)
        return rc, o, out

    res = vlib.parallel(one, jobs, workers=procs)
    results = []
    for rc, o, out in res:
        if rc != 0:
            return None, o[-3000:]
        results += vlib.read_jsonl(out)
        os.remove(out)
    return results, ''


def run_specs(workdir, specs, tag):
    inp = os.path.join(workdir, tag + '_in.jsonl')
    out = os.path.join(workdir, tag + '_out.jsonl')
    vlib.write_jsonl(inp, specs)
    rc, o = vlib.run_harness('packet', ['-in', inp, '-out', out])
    if rc != 0:
        return None
    return vlib.read_jsonl(out)


def shrink(workdir, spec, fails, budget=14):
    """delta-debug the op list of a failing abstract history, re-running the real code each time"""
    best = dict(spec)
    n = len(best['ops'])
    chunk = max(1, n // 2)
    while chunk >= 1 and budget > 0:
        i, progressed = 0, False
        while i < len(best['ops']) and budget > 0:
            cand = dict(best)
            cand['ops'] = best['ops'][:i] + best['ops'][i + chunk:]
            budget -= 1
            if cand['ops'] and fails(cand):
                best, progressed = cand, True
            else:
                i += chunk
        if not progressed or chunk == 1:
            chunk //= 2
    return best


def op_of_step(result, step):
    """index of the abstract op whose execution produced recorded step `step` (steps carry an `op` index if the
    harness provides it; else estimate by proportion)"""
    st = result['steps'][step] if step < len(result['steps']) else None
    if st is not None and 'op' in st:
        return st['op']
    return None

# ---------------------------------------------------------------------------------------------------------------
# Self-test of the monitors: the observed trace of a corpus case is falsified in one way per monitor kind; the monitor
# of that kind must fire on it.  Guards against a monitor going blind (a renamed key family, a record field that is
# no longer filled): a monitor that cannot fail proves nothing.

def _hex(s):
    return s.encode().hex()


def _drop_key(r, chain, frm, pred):
    """remove the first key satisfying pred from the observed stores of `chain` in steps frm.. (and the final dump)"""
    key = None
    for st in r['steps'][frm:]:
        if st['chain'] != chain:
            continue
        for kv in st['obs']['store']:
            if key is None and pred(kv[0]):
                key = kv[0]
        if key is not None:
            st['obs']['store'] = [kv for kv in st['obs']['store'] if kv[0] != key]
    if key is not None:
        r['final'][chain]['store'] = [kv for kv in r['final'][chain]['store'] if kv[0] != key]
    return key


def _new_keys(r, i, prefix):
    """keys with the prefix that step i added to its chain's store"""
    st = r['steps'][i]
    before = None
    for j in range(i - 1, -1, -1):
        if r['steps'][j]['chain'] == st['chain']:
            before = {kv[0] for kv in r['steps'][j]['obs']['store']}
            break
    if before is None:
        before = {kv[0] for kv in r['chains'][st['chain']]['store']}
    return [kv[0] for kv in st['obs']['store'] if kv[0].startswith(_hex(prefix)) and kv[0] not in before]


def selftest_cases(kinds, guards, multi, o7=None):
    """-> list of (expected kind, falsified result).  guards = result of corpus case 3, multi = of corpus case 2"""
    import copy
    out = []

    def steps(r, t, cls, pred=lambda st: True):
        return [i for i, st in enumerate(r['steps']) if st['act']['t'] == t and st['obs']['class'] == cls and pred(st)]

    def add(kind, base, f):
        if kind not in kinds or base is None:
            return
        r = copy.deepcopy(base)
        if f(r):
            out.append((kind, r))

    def dup_of_accepted(r, t):
        """rejected steps of kind t that repeat, on the same chain, the packet bytes of an earlier ACCEPTED step"""
        seen, c = set(), []
        for i, st in enumerate(r['steps']):
            if st['act']['t'] != t:
                continue
            k = (st['chain'], st['act']['packet'])
            if st['obs']['class'] == 0:
                seen.add(k)
            elif k in seen:
                c.append(i)
        return c

    def m11(r):
        c = dup_of_accepted(r, 'recv')
        if not c:
            return False
        r['steps'][c[0]]['obs']['class'] = 0
        return True

    def m12(r):
        c = steps(r, 'recv', 1)
        if not c:
            return False
        r['steps'][c[0]]['obs']['unchanged'] = False
        return True

    def drop_old(prefix):
        def f(r):
            acc = steps(r, 'recv', 0)
            if len(acc) < 2:
                return False
            i = acc[-1]
            ch = r['steps'][i]['chain']
            new = set(_new_keys(r, i, prefix))
            return _drop_key(r, ch, i, lambda k: k.startswith(_hex(prefix)) and k not in new) is not None
        return f

    def drop_new(prefix):
        def f(r):
            for i in steps(r, 'recv', 0):
                new = _new_keys(r, i, prefix)
                if new:
                    return _drop_key(r, r['steps'][i]['chain'], i, lambda k: k == new[0]) is not None
            return False
        return f

    def m17(r):
        acc = steps(r, 'ack', 0)
        if not acc:
            return False
        i = acc[0]
        others = [st['act']['packet'] for st in r['steps'] if st['act']['t'] == 'recv' and st['obs']['class'] == 0
                  and st['act']['packet'] != r['steps'][i]['act']['packet']]
        if not others:
            return False
        r['steps'][i]['act']['packet'] = others[-1]
        return True

    def m18(r):
        c = dup_of_accepted(r, 'ack')
        if not c:
            return False
        r['steps'][c[-1]]['obs']['class'] = 0
        return True

    def m19(r):
        acc = steps(r, 'recv', 0)
        if not acc:
            return False
        env = r['steps'][acc[0]]['env']
        for e in r['oracles']['verify']:
            if e['env'] == env:
                e['low'] = False
        return True

    def m23(r):
        for i, st in enumerate(r['steps']):
            if st['act']['t'] == 'block' and i > 0:
                ch = st['chain']
                k = _hex('acks/selftest/x/sequences/1')
                for st2 in r['steps'][i:]:
                    if st2['chain'] == ch:
                        st2['obs']['store'] = sorted(st2['obs']['store'] + [[k, '00']])
                r['final'][ch]['store'] = sorted(r['final'][ch]['store'] + [[k, '00']])
                return True
        return False

    def m13(r):
        c = steps(r, 'send', 0, lambda st: len(st['act'].get('sends') or []) > 1)
        if not c:
            return False
        a = r['steps'][c[0]]['act']
        a['sends'], a['raw'] = a['sends'][:1], (a.get('raw') or [])[:1]
        return True

    def m14(r):
        c = steps(r, 'send', 0, lambda st: any(str(v).isdigit() for _, v in st['obs'].get('cseq') or []))
        if not c:
            return False
        cs = r['steps'][c[0]]['obs']['cseq']
        for e in cs:
            if str(e[1]).isdigit():
                e[1] = str(int(e[1]) + 1)
                return True
        return False

    def m24(r):
        c = steps(r, 'send', 0, lambda st: st['act'].get('raw'))
        if not c:
            return False
        raw = r['steps'][c[0]]['act']['raw']
        raw[0] = raw[0][:-2] + ('00' if raw[0][-2:] != '00' else '01')
        return True

    def m25(r):
        # the refused proposal creating a client under the chain's own name, marked accepted
        c = [i for i, st in enumerate(r['steps']) if st['act']['t'] == 'create_client' and st['obs']['class'] != 0
             and st['act']['name'] == r['chains'][st['chain']]['name']]
        if not c:
            return False
        r['steps'][c[0]]['obs']['class'] = 0
        return True

    def m26(r):
        for i in steps(r, 'recv', 0, lambda st: st['obs'].get('wack')):
            w = r['steps'][i]['obs']['wack']
            r['steps'][i]['obs']['wack'] = [str(int(w[0]) + 1), w[1]]
            return True
        return False

    def m27(r):
        acc = steps(r, 'ack', 0)
        if not acc:
            return False
        for ch in r['chains']:
            ch['relayers'] = []
        r['steps'] = [st for st in r['steps'] if st['act']['t'] != 'reg_relayer']
        return True

    add(26, guards, m26)
    add(27, guards, m27)
    add(25, o7 if (o7 or {}).get('spec', {}).get('o7') else None, m25)
    add(11, guards, m11)
    add(12, guards, m12)
    add(20, guards, drop_old('receipts/'))
    add(21, guards, drop_new('receipts/'))
    add(15, guards, drop_new('acks/'))
    add(16, guards, drop_old('acks/'))
    add(17, guards, m17)
    add(18, guards, m18)
    add(19, guards, m19)
    add(23, guards, m23)
    add(13, multi, m13)
    add(14, multi, m14)
    add(24, multi, m24)
    return out


def by_o7(results, h):
    return h < len(results) and bool(results[h]['spec'].get('o7'))


def monitor_selftest(workdir, kinds, guards, multi, o7=None):
    """-> (dict kind -> fired?, error log or None)"""
    cases = selftest_cases(kinds, guards, multi, o7)
    if not cases:
        return {}, None
    mm, ff = evaluate(workdir, [r for _, r in cases], tag='selftest', workers=4)
    if mm is None:
        return {}, ff
    fired = {}
    for i, (k, _) in enumerate(cases):
        fired[k] = any(h == i and kk == k for h, _, kk in ff)
    return fired, None


def poisoned_formats():
    """names listed in Gen/KeysPoisonGen.v (`poisoned_formats`); [] when every key builder translated or the file is absent"""
    p = os.path.join(vlib.ROOT, 'coq', 'theories', 'Gen', 'KeysPoisonGen.v')
    try:
        src = open(p).read()
    except OSError:
        return []
    i = src.find('Definition poisoned_formats')
    if i < 0:
        return ['<unreadable Gen/KeysPoisonGen.v>']
    body = src[i:].split(':=', 1)[-1]
    names = re.findall(r'\(\*\s*(\S+)\s*\*\)', body)
    if names:
        return names
    return [] if re.sub(r'\s', '', body) == '[].' else ['<unreadable Gen/KeysPoisonGen.v>']


def check(run, prop):
    focus = prop.lower()
    kinds = KINDS[prop]
    # Model/PacketCheck.v (mismatches / monitors evaluated below) is not in the dependency cone of Props/: build it too
    run.proof_stage(extra_modules=['theories/Model/PacketCheck.v'])
    if not run.quick():
        run.coqchk_stage()
    ok, out = vlib.build_harness(['packet'])
    if not ok:
        run.violation(dict(kind='harness-build-failed', log=out[-3000:],
                           explanation='the correspondence harness no longer builds against /repo'), no_input=True)
        return run.finish()
    n = run.budget(40, 320)
    steps = run.budget(30, 60)
    chunk = 40                      # cases per round: bounds the memory of the glue and of the parallel coqc runs
    workers = run.budget(12, 8)
    light = {}                      # case -> what is needed after the evaluation (spec, per step: op index, error text)
    mm, ff = [], []
    dist = Counter()
    nontrivial = set()
    by_client = Counter()
    nsteps = multi = 0
    o7_cases = []
    samples = []
    for lo in range(0, n, chunk):
        results, err = run_generated(run.work, run.seed, n, steps, focus, lo=lo, hi=min(n, lo + chunk))
        if results is None:
            run.violation(dict(kind='harness-crashed', log=err), no_input=True)
            return run.finish()
        m1, f1 = evaluate(run.work, results, tag='cases%d' % lo, workers=workers)
        if m1 is None:
            run.violation(dict(kind='coq-evaluation-failed', log=f1), no_input=True)
            return run.finish()
        mm += [(h + lo, s_, k) for h, s_, k in m1]
        ff += [(h + lo, s_, k) for h, s_, k in f1]
        if lo == 0 and not m1 and not [f for f in f1 if f[2] in kinds]:
            # the monitors of this property must fire on falsified copies of the corpus traces
            by_idx = {r['spec']['case']: r for r in results}
            fired, serr = monitor_selftest(run.work, kinds - {6, 22}, by_idx.get(3), by_idx.get(2), by_idx.get(1))
            run.coverage['monitor_selftest'] = {str(k): v for k, v in sorted(fired.items())}
            blind = sorted(k for k, v in fired.items() if not v)
            missing = sorted((kinds - {6, 22}) - set(fired))
            run.coverage['monitor_selftest_not_exercised'] = missing
            if serr is not None or blind:
                run.violation(dict(kind='monitor-selftest-failed', blind_monitors=blind, not_exercised=missing, log=serr or '',
                                   explanation='a monitor of this property did not fire on a trace falsified for it: the '
                                               'check machinery can no longer detect that kind of violation',
                                   broken='monitors of Model/PacketCheck.v'), name='replay_selftest.json', no_input=True)
                return run.finish()
        # ---- coverage (measured) ----
        for ci, r in enumerate(results):
            light[lo + ci] = dict(spec=r['spec'], steps=[dict(op=st.get('op'), err=st['obs'].get('err', '')) for st in r['steps']])
            if r['spec'].get('o7'):
                o7_cases.append(lo + ci)
            if len(samples) < 2:
                samples.append(r['spec'])
            for k, v in (r.get('stats') or {}).items():
                if isinstance(v, int) and not k.startswith('ms_') and not k.startswith('n_') and not k.startswith('pool_'):
                    dist[k] += v
            ver = {e['env']: e for e in r['oracles']['verify']}
            for st in r['steps']:
                nsteps += 1
                a = st['act']
                if a['t'] in ('recv', 'ack', 'send'):
                    key = a.get('packet') or json.dumps(a.get('sends'))
                    nontrivial.add(hashlib.sha1((a['t'] + str(st['obs']['class']) + key + a.get('proof', '')[:64]).encode()).hexdigest())
                if a['t'] == 'send' and len(a.get('sends') or []) > 1:
                    multi += 1
                # accepted receives / acknowledgements by the kind of light client that verified them
                if a['t'] in ('recv', 'ack') and st['obs']['class'] == 0 and st['env'] in ver:
                    nm = bytes.fromhex(ver[st['env']]['client']).decode('latin1')
                    kind = nm.split('-')[0] if nm[:4] in ('tss-', 'eth-', 'bsc-') else 'tendermint'
                    by_client['%s.%s' % (a['t'], kind)] += 1
        del results
    top = dict(sorted(dist.items(), key=lambda kv: -kv[1])[:80])
    run.coverage.update(dict(
        evaluations=nsteps, histories=len(light), distinct_nontrivial=len(nontrivial),
        rule='relay histories on 3 real chains (Tendermint light clients + IAVL proofs, TSS clients, Ethereum and BSC light clients '
             'over harness-built MPT worlds; BaseApp.Deliver, real EVM contracts); '
             'one evaluation = one recorded step (message / EVM transaction / block) compared with the model and checked by the '
             'monitors; non-trivial = recv/ack/send steps, distinct by (kind, outcome, packet bytes, proof prefix)',
        distribution=top, model_mismatches=len(mm), monitor_failures_incl_o7_witness=len([f for f in ff if f[2] in kinds]),
        accepted_by_verifying_client=dict(sorted(by_client.items())),
        transactions_with_several_sends=multi, corpus_cases_run_first=[0, 1, 2, 3, 4, 5],
        samples=samples))
    run.coverage['trusted_base'] += [
        'hand-written model Model/Packet.v tied to x/xibc (msg_server, packet keeper, EVM hook) by this differential run on real '
        'chains; the generator bounds what it sees',
        'key builders: format terms regenerated from x/xibc/core/host/keys.go (tools/gotocoq/keys, C19 key library)',
        'oracles (tabulated from the real functions on the arguments of each case): go-ethereum ABI codec + encoding/json '
        '(Packet/Acknowledgement ABIDecode/ABIPack), crypto/sha256, light-client VerifyPacketCommitment/Acknowledgement (Tendermint, '
        'TSS, ETH, BSC; each answer cross-checked by a recomputation that bypasses the client code: ICS-23 VerifyMembership / '
        'trie.VerifyProof for the slot the property names), bech32, strings.EqualFold; the EVM byte code of the packet/endpoint '
        'contracts (callback outcomes and the PacketSent logs of a transaction are inputs observed from logs/events)',
        'cosmos-sdk BaseApp.runMsgs / ethermint ApplyTransaction atomicity (modelled by `step` / `step_tx`; validated by full '
        'xibc+evm+bank store hashes around every rejected message; one message per delivered transaction)']
    run.assumptions += [
        'client look-up by name abstracts GetClientState: no other key of a client store ends in "/clientState"',
        'C04 and C05.ack_processed_once: the INITIAL state has no client under the chain\'s own name (necessary: '
        'Refuted/C04_selfclient.v, Refuted/C05_selfclient.v); no history can introduce one since fix a9e74e1 '
        '(C04_noself_invariant; the corpus history that tries is refused on the real code, monitor 25)',
        'sha256 never returns the empty string (needed because bytes.Equal(nil, []) holds in AcknowledgePacket)',
        'C04: all stored nextSequenceSend values are 8 bytes and equal the packet contract counters in the initial state']

    # ---- the O7 history (corpus case 1 of c04 / c05): since fix a9e74e1 the proposal creating a client under the chain's
    # own name is REFUSED; the case is an ordinary corpus case (any monitor failure in it is a violation)
    run.coverage['o7_history_cases'] = o7_cases
    run.coverage['o7_history_monitor_kinds_on_real_code'] = sorted({k for h, s, k in ff if h in o7_cases})
    ff = [f for f in ff if f[2] in kinds]

    def fails_monitor(sp):
        rs = run_specs(run.work, [sp], 'shrink')
        if not rs:
            return False
        m2, f2 = evaluate(run.work, rs, 'shrink_cases')
        return m2 is not None and any(k in kinds for _, _, k in f2)

    def fails_model(sp):
        rs = run_specs(run.work, [sp], 'shrink')
        if not rs:
            return False
        m2, f2 = evaluate(run.work, rs, 'shrink_cases')
        return m2 is not None and len(m2) > 0

    def truncated(h, s):
        # cut the abstract history after the op that produced the failing step
        sp = dict(light[h]['spec'])
        op = light[h]['steps'][s]['op'] if s < len(light[h]['steps']) else None
        if op is not None:
            sp['ops'] = sp['ops'][:op + 1]
        return sp

    # key families the `keys` translator could not normalise (Gen/KeysPoisonGen.v, regenerated by this run): the monitors
    # recompute the expected store paths from those terms, so with a poisoned family a monitor failure is NOT a concrete
    # counterexample of the property -- it is reported, but as a broken tie (no-failing-input-found)
    poisoned = poisoned_formats()
    run.coverage['poisoned_key_families'] = poisoned
    reported = set()
    for h, s, k in ff:
        if h in reported:
            continue
        reported.add(h)
        sp = truncated(h, s)
        if not fails_monitor(sp):
            sp = light[h]['spec']
        small = shrink(run.work, sp, fails_monitor, budget=8)
        rep = dict(kind='monitor', code=k, what=MONITOR.get(k), spec=small, failing_step=s,
                   observed=light[h]['steps'][s]['err'] if s < len(light[h]['steps']) else '')
        if poisoned:
            rep.update(broken='translator tools/gotocoq/keys: key families %s of x/xibc/core/host/keys.go were not translated '
                              '(Gen/KeysPoisonGen.v); obligation C19_all_keys_ok' % ', '.join(poisoned),
                       explanation='the expected store paths of this monitor are computed from key terms the translator could '
                                   'not normalise, so this failure is not a concrete counterexample of the property; the '
                                   'property is no longer shown to hold')
        run.violation(rep, name='replay_h%d.json' % h, no_input=bool(poisoned))
        if len(run.violations) >= 2:
            break
    if not run.violations:
        for h, s, k in mm[:1]:
            sp = truncated(h, s)
            if not fails_model(sp):
                sp = light[h]['spec']
            small = shrink(run.work, sp, fails_model, budget=8)
            run.violation(dict(kind='correspondence', code=k, what=MISMATCH.get(k), spec=small, failing_step=s,
                               explanation='Model/Packet.v no longer describes the packet core of /repo; the theorems of '
                                           'Props/%s.v are about the model, so the property is no longer shown to hold' % prop,
                               broken='correspondence Model.Packet <-> x/xibc packet core'),
                          name='replay_corr_h%d.json' % h, no_input=True)
        if not run.proof_ok():
            run.proof_violation()
    return run.finish()


def replay(path, prop):
    rp = json.load(open(path))
    work = os.path.join(vlib.ROOT, 'work', prop + '_replay')
    os.makedirs(work, exist_ok=True)
    ok, out = vlib.build_harness(['packet'])
    if not ok or 'spec' not in rp:
        print('cannot replay: %s' % (out[-500:] if not ok else 'no spec in replay file (%s)' % rp.get('kind')))
        return 2
    rs = run_specs(work, [rp['spec']], 'replay')
    if not rs:
        print('harness failed on the replay spec')
        return 2
    mm, ff = evaluate(work, rs, 'replay_cases')
    kinds = KINDS[prop]
    ffk = [f for f in (ff or []) if f[2] in kinds] if mm is not None else ff
    print('model mismatches:', mm, ' monitor failures:', ffk)
    for _, s, k in (ffk or []) + (mm or []):
        if s < len(rs[0]['steps']):
            print(' step %d kind %d (%s): act %s obs class %s err %s' % (
                s, k, MONITOR.get(k) or MISMATCH.get(k), rs[0]['steps'][s]['act']['t'], rs[0]['steps'][s]['obs']['class'],
                rs[0]['steps'][s]['obs'].get('err', '')))
    if mm is None or ffk or mm:
        print('VIOLATION property=%s replay=%s' % (prop, path))
        return 1
    print('replay passes on the current tree')
    return 0
