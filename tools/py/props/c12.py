"""C12 — token-pair registry. Model: coq/theories/Model/Registry.v; harness: harness/cmd/c12."""
import json
import os
from collections import Counter

import vlib
from vlib import coq_bool, coq_list, coq_option

HEADER = ('From Teleport Require Import Base.Bytes Base.Outcome Base.AList Model.Registry Model.RegistryExport Model.RegistryCheck.\n'
          'Local Open Scope N_scope.\n')

KINDS = {
    1: 'model and code disagree on the outcome class of the operation (ok / error / panic / refused by ValidateBasic)',
    2: 'model and code disagree on the stored token pairs (prefix 0x01)',
    3: 'model and code disagree on the ERC20 address index (prefix 0x02)',
    4: 'model and code disagree on the denomination index (prefix 0x03)',
    5: 'model and code disagree on the bank denomination metadata',
    6: 'model and code disagree on params.EnableAggregate',
    7: 'model and code disagree on GetTokenPairID for some token string',
    8: 'model and code disagree on MintingEnabled for some (token, denomination)',
    9: 'the model asked the GetID / Address.Hex oracle something the implementation never computed',
    10: 'the aggregate store contains keys outside the three modelled prefixes',
    11: 'model and code disagree on whether GenesisState.Validate accepts the exported registry (ExportGenesis after the step)',
    12: 'internal: the branch classifier (Model/RegistryExport.v) disagrees with the model\'s own step about the outcome class',
    13: 'an observed value of the real TokenPair.GetID / Address.Hex violates the oracle hypotheses of the theorems (empty or '
        'colliding id on hex-address texts; Address.Hex text that is no hex address or does not parse back)',
    14: 'an executed operation violates the environment hypotheses of the theorems (RegisterCoin deployment address already in '
        'the ERC20 index / not 20 bytes; genesis imported into a non-empty registry)',
    21: 'the registry is not self-consistent (a pair not reachable by its address or by one of its denominations, '
        'a dangling index entry, a wrong pair id, a denomination / contract in two pairs)',
    22: 'a registered denomination reads as a hex address (GetTokenPairID resolves it through the address index)',
    23: 'GetTokenPairID does not resolve a registered pair by its address text or by one of its denominations',
    24: 'MintingEnabled succeeded for a token / denomination that does not belong to the returned enabled pair',
    25: 'MintingEnabled refused a listed denomination of an enabled pair (module enabled)',
    26: 'a denomination that could be converted before the operation can no longer be converted through its pair, '
        'although the operation did not explicitly remove or disable that pair',
    27: 'bank metadata of a denomination was removed',
    28: 'a proposal handler / genesis validation panicked',
    29: 'ExportGenesis of the registry does not pass GenesisState.Validate, panics, or InitGenesis of it into an empty registry '
        'does not reproduce the three store prefixes (the chain could not restart from its own export)',
    30: 'a registered denomination is not a valid bank denomination, or a key of the address index is not 20 bytes long',
}

# branch codes of Model/RegistryExport.v [branch]: which branch of the code a step took
BRANCHES = {
    1: 'RegisterCoin refused by ValidateBasic', 2: 'RegisterCoin module disabled', 3: 'RegisterCoin base reads as hex address',
    4: 'RegisterCoin base is the EVM denom', 5: 'RegisterCoin base already registered', 6: 'RegisterCoin no supply',
    7: 'RegisterCoin stored metadata differs', 8: 'RegisterCoin ok (stored metadata equal: needs metadata without units)',
    9: 'RegisterCoin ok (new metadata)',
    11: 'AddCoin refused by ValidateBasic', 12: 'AddCoin module disabled', 13: 'AddCoin base reads as hex address',
    14: 'AddCoin base is the EVM denom', 15: 'AddCoin base already registered', 16: 'AddCoin no supply',
    17: 'AddCoin stored metadata differs', 18: 'AddCoin contract not registered', 19: 'AddCoin ok onto a 1-denom pair',
    20: 'AddCoin ok onto a multi-denom pair',
    21: 'RegisterERC20 refused by ValidateBasic', 22: 'RegisterERC20 module disabled', 23: 'RegisterERC20 contract already registered',
    24: 'RegisterERC20 QueryERC20 fails', 25: 'RegisterERC20 metadata exists', 26: 'RegisterERC20 denom registered (needs a genesis '
        'pair listing aggregate/<address> without metadata)', 27: 'RegisterERC20 generated metadata invalid', 28: 'RegisterERC20 ok',
    31: 'Toggle refused by ValidateBasic', 32: 'Toggle token not registered', 33: 'Toggle id without pair (inconsistent registry only)',
    34: 'Toggle ok (disables)', 35: 'Toggle ok (enables)',
    41: 'Update refused by ValidateBasic', 42: 'Update old address not registered', 43: 'Update new address already registered',
    44: 'Update id without pair / pair without denoms (inconsistent registry only)', 45: 'Update no metadata for Denoms[0]',
    46: 'Update metadata without units (unvalidated metadata only)', 47: 'Update QueryERC20 fails', 48: 'Update display differs',
    49: 'Update symbol differs', 50: 'Update description differs', 51: 'Update no unit with the ERC20 name and decimals',
    52: 'Update ok (1-denom pair)', 53: 'Update ok (multi-denom pair)',
    61: 'ConvertCoin refused by ValidateBasic', 62: 'ConvertCoin module disabled', 63: 'ConvertCoin denom index differs from token',
    64: 'ConvertCoin not registered', 65: 'ConvertCoin id without pair (inconsistent registry only)', 66: 'ConvertCoin pair disabled',
    67: 'ConvertCoin self-destruct clean-up', 68: 'ConvertCoin conversion proper',
    71: 'ConvertERC20 refused by ValidateBasic', 72: 'ConvertERC20 module disabled', 73: 'ConvertERC20 denom not of the contract\'s pair',
    74: 'ConvertERC20 not registered', 75: 'ConvertERC20 id without pair (inconsistent registry only)', 76: 'ConvertERC20 pair disabled',
    77: 'ConvertERC20 self-destruct clean-up', 78: 'ConvertERC20 conversion proper',
    81: 'EnableAggregate on', 82: 'EnableAggregate off',
    91: 'genesis duplicate contract', 92: 'genesis pair without denominations', 93: 'genesis duplicate denomination',
    94: 'genesis TokenPair.Validate refuses', 95: 'genesis ok',
    99: 'environment step (deploy / destroy / mint / other aggregate proposals): registry must stay untouched',
}
# branches no consistent registry / validated metadata can reach (never expected in the distribution)
UNREACHABLE = {8, 33, 44, 46, 65, 75}


class Interner:
    """byte strings are defined once per Coq file and referenced by name"""

    def __init__(self):
        self.names = {}
        self.defs = []

    def b(self, data):
        if isinstance(data, str):
            data = data.encode('utf-8')
        n = self.names.get(data)
        if n is None:
            n = 'b%d' % len(self.names)
            self.names[data] = n
            self.defs.append('Definition %s : bytes := %s.' % (n, vlib.coq_literal_bytes(data)))
        return n

    def h(self, hx):
        return self.b(bytes.fromhex(hx))


def md_term(I, m):
    units = coq_list(['(%s, %d)' % (I.b(u['d']), u['e']) for u in (m.get('units') or [])])
    return ('{| md_desc := %s; md_units := %s; md_base := %s; md_display := %s; md_name := %s; md_symbol := %s |}' % (
        I.b(m['desc']), units, I.b(m['base']), I.b(m['display']), I.b(m['name']), I.b(m['symbol'])))


def pair_term(I, text, denoms, enabled, owner):
    return '{| p_text := %s; p_denoms := %s; p_enabled := %s; p_owner := %d |}' % (
        I.b(text), coq_list([I.b(d) for d in denoms]), coq_bool(enabled), owner)


def q_term(I, q):
    if q is None:
        return 'None'
    return '(Some {| q_name := %s; q_symbol := %s; q_decimals := %d; q_sname := %s |})' % (
        I.b(q['name']), I.b(q['symbol']), q['decimals'], I.b(q['sname']))


def op_term(I, o):
    op = o['op']
    k = op['k']
    live = coq_list([I.h(a) for a in o.get('live') or []])
    if k == 'regcoin':
        return '(ORegisterCoin %s %s %s)' % (md_term(I, op['md']), I.h(o['addr']), coq_bool(o['supply']))
    if k == 'addcoin':
        return '(OAddCoin %s %s %s)' % (md_term(I, op['md']), I.b(op.get('a', '')), coq_bool(o['supply']))
    if k == 'regerc20':
        return '(ORegisterERC20 %s %s)' % (I.b(op.get('a', '')), q_term(I, o.get('q20')))
    if k == 'toggle':
        return '(OToggle %s)' % I.b(op.get('a', ''))
    if k == 'update':
        return '(OUpdate %s %s %s)' % (I.b(op.get('a', '')), I.b(op.get('b', '')), q_term(I, o.get('q20')))
    if k == 'convcoin':
        return '(OConvertCoin %s %s)' % (I.b(op.get('a', '')), live)
    if k == 'converc20':
        return '(OConvertERC20 %s %s %s)' % (I.b(op.get('a', '')), I.b(op.get('b', '')), live)
    if k == 'enable':
        return '(OSetEnable %s)' % coq_bool(op.get('on', False))
    if k == 'genesis':
        ps = coq_list([pair_term(I, g['text'], g.get('denoms') or [], g['enabled'], g['owner']) for g in op.get('pairs') or []])
        ms = coq_list([md_term(I, m) for m in op.get('metas') or []])
        return '(OGenesis %s %s)' % (ps, ms)
    return 'OEnv'


def state_term(I, o):
    pairs = coq_list(['(%s, %s)' % (I.h(p['id']), pair_term(I, p['text'], p['denoms'], p['enabled'], p['owner'])) for p in o['pairs']])
    erc20 = coq_list(['(%s, %s)' % (I.h(a), I.h(i)) for a, i in o['erc20']])
    denom = coq_list(['(%s, %s)' % (I.b(d), I.h(i)) for d, i in o['denom']])
    meta = coq_list(['(%s, %s)' % (I.b(m['base']), md_term(I, m)) for m in o['meta']])
    return '{| st_pairs := %s; st_erc20 := %s; st_denom := %s; st_meta := %s; st_enable := %s |}' % (
        pairs, erc20, denom, meta, coq_bool(o['enable']))


def case_term(I, r):
    steps = []
    for o in r['obs']:
        me = coq_list(['(%d%%nat, (%d%%nat, %d%%nat))' % (a, b, c if c >= 0 else 997) for a, b, c in o['me']])
        steps.append('{| os_op := %s; os_class := %d; os_after := %s; os_other := %d; os_toks := %s; os_ids := %s; '
                     'os_me := %s; os_me_bad := %d; os_export := %d |}' % (
                         op_term(I, o), o['class'], state_term(I, o), o['other'],
                         coq_list([I.b(t) for t in o['toks']]), coq_list([I.h(i) for i in o['ids']]), me, o['me_bad_pair'],
                         o.get('export', 0)))
    idtab = coq_list(['(%s, (%s, %s))' % (I.b(t), I.b(d), I.h(i)) for t, d, i in r['idtab']])
    canon = coq_list(['(%s, %s)' % (I.h(a), I.b(t)) for a, t in r['canon']])
    return '{| c_idtab := %s; c_canon := %s; c_evm_denom := %s; c_steps := %s |}' % (
        idtab, canon, I.b(r['evm_denom']), coq_list(steps))


SHARD = 10
BRANCH_COUNT = Counter()   # filled by evaluate(): branch code -> steps (model's classification of every step)


def evaluate(workdir, results, tag='cases'):
    """returns (mismatches, monitor_failures) as lists of (case, step, kind); (None, log) on a Coq failure"""
    shards = [results[i:i + SHARD] for i in range(0, len(results), SHARD)]

    def one(ix):
        i, sh = ix
        I = Interner()
        terms = [case_term(I, r) for r in sh]
        defs = '\n'.join(I.defs) + '\n'
        for j, t in enumerate(terms):
            defs += 'Definition case%d : rcase := %s.\n' % (j, t)
        defs += 'Definition cases : list rcase := %s.\n' % coq_list(['case%d' % j for j in range(len(terms))])
        res = vlib.coq_eval_lists(workdir, '%s_%d.v' % (tag, i), HEADER, defs,
                                  [('M', 'mismatches cases'), ('F', 'monitor_failures cases'), ('Br', 'branches cases')])
        m = vlib.parse_nat_tuples(res.get('M'), 3)
        f = vlib.parse_nat_tuples(res.get('F'), 3)
        br = vlib.parse_nat_tuples(res.get('Br'), 1)
        if res['_rc'] != 0 or m is None or f is None or br is None:
            return ('error', res['_out'][-3000:])
        off = i * SHARD
        return ([(h + off, s, k) for h, s, k in m], [(h + off, s, k) for h, s, k in f], [b for (b,) in br])

    outs = vlib.parallel(one, list(enumerate(shards)), workers=14)
    mm, ff = [], []
    for o in outs:
        if o[0] == 'error':
            return None, o[1]
        mm += o[0]
        ff += o[1]
        if tag == 'cases':
            BRANCH_COUNT.update(o[2])
    return mm, ff


def run_specs(workdir, specs, tag):
    inp = os.path.join(workdir, tag + '_in.jsonl')
    out = os.path.join(workdir, tag + '_out.jsonl')
    vlib.write_jsonl(inp, specs)
    rc, o = vlib.run_harness('c12', ['-in', inp, '-out', out])
    if rc != 0:
        return None
    return vlib.read_jsonl(out)


def failing(workdir, spec, which):
    rs = run_specs(workdir, [spec], 'shrink')
    if not rs:
        return False
    mm, ff = evaluate(workdir, rs, 'shrink_cases')
    if mm is None:
        return False
    got = ff if which == 'monitor' else mm
    return len(got) > 0


def shrink(workdir, spec, which, budget=24):
    """delta-debug the operation list of a failing sequence (re-running the real code each time)"""
    best = dict(spec)
    changed = True
    while changed and budget > 0:
        changed = False
        for i in range(len(best['ops']) - 1, -1, -1):
            if len(best['ops']) <= 1 or budget <= 0:
                break
            cand = dict(best)
            cand['ops'] = best['ops'][:i] + best['ops'][i + 1:]
            budget -= 1
            if failing(workdir, cand, which):
                best = cand
                changed = True
                break
    return best


def finding_key(kind, obs):
    return 'c12-k%d-%s' % (kind, obs['op']['k'])


def shape(o):
    return tuple(sorted((len(p['denoms']), p['enabled'], p['owner']) for p in o['pairs']))


def coverage(run, results, mm, ff, branch_count):
    dist = Counter()
    nontrivial = set()
    steps = 0
    for r in results:
        prev = None
        for o in r['obs']:
            steps += 1
            k = o['op']['k']
            dist['%s_%s' % (k, {0: 'ok', 1: 'error', 2: 'panic', 3: 'refused_by_ValidateBasic'}[o['class']])] += 1
            cur = json.dumps([o['pairs'], o['erc20'], o['denom'], [m['base'] + m['desc'] for m in o['meta']], o['enable']])
            if prev is not None and cur != prev[0] and k not in ('deploy', 'destroy', 'supply'):
                dist['steps_changing_registry'] += 1
                nontrivial.add(json.dumps([k, prev[1], shape(o)]))
                if k == 'update' and any(len(p['denoms']) > 1 for p in o['pairs']):
                    dist['update_with_multi_denom_pair_present'] += 1
            if k in ('convcoin', 'converc20') and o['class'] == 0 and prev is not None and len(o['pairs']) < prev[2]:
                dist['self_destruct_cleanups'] += 1
            prev = (cur, shape(o), len(o['pairs']))
            dist['pairs_%d' % min(len(o['pairs']), 6)] += 1
            if o['pairs']:
                dist['max_denoms_%d' % min(max(len(p['denoms']) for p in o['pairs']), 5)] += 1
            dist['minting_enabled_queries'] += len(o['toks']) ** 2
            dist['minting_enabled_ok'] += len(o['me'])
    dist['export_checked_steps'] = steps
    dist['export_not_ok'] = sum(1 for r in results for o in r['obs'] if o.get('export', 0) != 0)
    for b, n in sorted(branch_count.items()):
        dist['branch_%02d_%s' % (b, BRANCHES.get(b, '?').replace(' ', '_'))] = n
    never = sorted(b for b in BRANCHES if b not in branch_count and b not in UNREACHABLE)
    run.coverage['branches_reached'] = len([b for b in branch_count if b in BRANCHES])
    run.coverage['branches_never_reached'] = ['%d %s' % (b, BRANCHES[b]) for b in never]
    run.coverage['branches_unreachable_by_invariant'] = ['%d %s' % (b, BRANCHES[b]) for b in sorted(UNREACHABLE)]
    # samples: actual executed cases (spec + outcome classes): first directed, first witness, first two random sequences
    samples = []
    seen_kinds = set()
    for r in results:
        sid = r['spec']['id']
        kind = 'directed' if sid <= -17 else ('witness' if sid < 0 else 'random')
        if kind in seen_kinds and not (kind == 'random' and len([x for x in samples if x['kind'] == 'random']) < 2):
            continue
        seen_kinds.add(kind)
        samples.append(dict(kind=kind, spec=r['spec'], classes=[o['class'] for o in r['obs']],
                            pairs_after=[len(o['pairs']) for o in r['obs']]))
    run.coverage.update(dict(
        evaluations=steps, sequences=len(results), distinct_nontrivial=len(nontrivial),
        rule='operation sequences (RegisterCoin / AddCoin / RegisterERC20 / ToggleTokenRelay / UpdateTokenPairERC20 proposals through '
             'the gov router handler on a cache context, MsgConvertCoin / MsgConvertERC20, self-destructed contracts, EnableAggregate '
             'changes, genesis Validate+InitGenesis) on the real app; after every step the three raw store prefixes, the bank metadata and '
             'GetTokenPairID / MintingEnabled for all token strings of the case are compared with the model in Coq and the Consistent / '
             'resolvable / convert-back / valid-denomination monitors are evaluated on the implementation\'s dump; after every step '
             'ExportGenesis is validated and re-imported into an empty registry on the real code; a step is non-trivial when the registry or '
             'the metadata changed; distinct = distinct (operation, registry shape before, registry shape after)',
        distribution=dict(dist), model_mismatches=len(mm), monitor_failures=len(ff),
        samples=samples))
    run.coverage['trusted_base'] += [
        'hand-written model Model/Registry.v + Model/RegistryExport.v tied to x/aggregate by this differential run (generator bounds '
        'what it sees; measured reach: coverage.branches_reached / branches_never_reached)',
        'translator tools/gotocoq/registry (go/parser): GetID operands, CreateDenom / CreateDenomDescription formats, Owner constants, '
        'interprocedural write footprints of the exported functions under x/aggregate -> Gen/RegistryGen.v; generic lemmas in '
        'Proofs/RegistrySource.v, one obligation file per item: Props/C12Source{GetID,Formats,Owners,Writers}.v',
        'oracles of the model: TokenPair.GetID (sha256) and Address.Hex (EIP-55) are tabulated from the real functions per case; '
        'theorems assume GetID injective ON HEX-ADDRESS TEXTS and non-empty (derived in Coq from collision-freedom of sha256 for the '
        'regenerated concatenation text|denom), HexToAddress(Address.Hex(a)) = a',
        'environment inputs observed on the real app right before each operation: QueryERC20 result, HasSupply, live contract accounts, '
        'the address the module account deploys next']
    run.assumptions += [
        'the address DeployERC20Contract creates (CreateAddress(module, nonce)) is not already in the ERC20 index (keccak collision resistance)',
        'sha256 (tmhash.Sum) is collision-free on the strings GetID hashes (text|denom with a hex-address text): then GetID is '
        'injective on (address text, first denomination) - proved from the regenerated GetID, C12_real_getid_meets_oracles',
        'proposals reach the handler only after ValidateBasic (gov MsgSubmitProposal) and run on a cache context written only on success',
        'bank metadata is only written by x/aggregate and the bank genesis; the bank never removes metadata',
        'MintingEnabled is modelled for sender == receiver, not a blocked address']


# the tie to the source: one obligation file per regenerated item (an undetermined / harmfully changed item breaks its own
# obligation only)
SOURCE_MODULES = ['theories/Props/C12SourceGetID.v', 'theories/Props/C12SourceFormats.v',
                  'theories/Props/C12SourceOwners.v', 'theories/Props/C12SourceWriters.v']


def coqchk_source(run):
    """thorough: the independent checker on the source-tie modules too (run.coqchk_stage covers Props/C12 + Refuted)"""
    import re
    mods = ['Teleport.Props.' + os.path.basename(m)[:-2] for m in SOURCE_MODULES
            if os.path.exists(os.path.join(vlib.COQ, m[:-2] + '.vo'))]
    if not mods:
        return
    with vlib.Lock('coq'):
        rc, out = vlib.sh(['coqchk', '-silent', '-o', '-Q', vlib.THEORIES, 'Teleport'] + mods, cwd=vlib.COQ, timeout=2400)
    m = re.search(r'\* Axioms:(.*?)\n\s*\n\* Constants', out, flags=re.S)
    axioms = m.group(1).strip() if m else 'unparsed'
    run.coverage['coqchk_source_tie'] = dict(modules=mods, rc=rc, axioms=axioms)
    if rc != 0 or axioms != '<none>':
        run.proof['build_ok'] = False
        run.proof['build_log'] += '\n[coqchk source tie]\n' + out[-2000:]


def check(run):
    pr = run.proof_stage(extra_modules=SOURCE_MODULES)
    if not run.quick():
        run.coqchk_stage()
        coqchk_source(run)
    ok, out = vlib.build_harness(['c12'])
    if not ok:
        run.violation(dict(kind='harness-build-failed', log=out[-3000:],
                           explanation='the correspondence harness no longer builds against /repo'), no_input=True)
        return run.finish()
    n = run.budget(80, 1000)
    outp = os.path.join(run.work, 'out.jsonl')
    rc, o = vlib.run_harness('c12', ['-seed', run.seed, '-n', n, '-steps', run.budget(14, 22), '-out', outp])
    if rc != 0:
        run.violation(dict(kind='harness-crashed', log=o[-3000:]), no_input=True)
        return run.finish()
    results = vlib.read_jsonl(outp)
    if not run.quick():
        # thorough: a second pass of LONG histories (up to 40 operations: more pairs, more denominations per pair, several
        # moves of one pair) from another seed
        outl = os.path.join(run.work, 'out_long.jsonl')
        rc, o = vlib.run_harness('c12', ['-seed', run.seed + 15485863, '-n', 60, '-steps', 32, '-out', outl])
        if rc != 0:
            run.violation(dict(kind='harness-crashed', log=o[-3000:]), no_input=True)
            return run.finish()
        results += [r for r in vlib.read_jsonl(outl) if r['spec']['id'] >= 0]
    BRANCH_COUNT.clear()
    mm, ff = evaluate(run.work, results)
    if mm is None:
        run.violation(dict(kind='coq-evaluation-failed', log=ff), no_input=True)
        return run.finish()
    coverage(run, results, mm, ff, Counter(BRANCH_COUNT))

    def report_monitor(results, ff, prefix):
        reported = set()
        for h, s, k in ff:
            if h in reported:
                continue
            reported.add(h)
            spec = dict(results[h]['spec'])
            spec['ops'] = spec['ops'][:s + 1]
            small = shrink(run.work, spec, 'monitor')
            obs = results[h]['obs'][s]
            key = finding_key(k, obs)
            if run.known_finding(key, 'key=%s %s' % (key, KINDS.get(k))):
                continue
            run.violation(dict(kind='monitor', code=k, what=KINDS.get(k), key=key, spec=small, failing_step=s,
                               failing_op=obs['op'], observed=dict(pairs=obs['pairs'], erc20=obs['erc20'], denom=obs['denom'])),
                          name='%s_h%d.json' % (prefix, h if h >= 0 else 0))
            if len(run.violations) >= 2:
                break

    report_monitor(results, ff, 'replay')
    if not run.violations and mm:
        # model and code disagree, the monitors are silent: search harder for a failing input on the real code
        outp2 = os.path.join(run.work, 'search.jsonl')
        rc, o = vlib.run_harness('c12', ['-seed', run.seed + 7919, '-n', run.budget(400, 1500), '-steps', 22, '-out', outp2])
        found = False
        if rc == 0:
            res2 = vlib.read_jsonl(outp2)
            mm2, ff2 = evaluate(run.work, res2, 'search')
            if mm2 is not None and ff2:
                report_monitor(res2, ff2, 'replay_search')
                found = bool(run.violations)
        if not found:
            h, s, k = mm[0]
            spec = dict(results[h]['spec'])
            spec['ops'] = spec['ops'][:s + 1]
            small = shrink(run.work, spec, 'model')
            run.violation(dict(kind='correspondence', code=k, what=KINDS.get(k), spec=small, failing_op=results[h]['obs'][s]['op'],
                               explanation='Model/Registry.v no longer describes x/aggregate; the theorems of Props/C12.v are about '
                                           'the model, so the property is no longer shown to hold',
                               broken='correspondence Model.Registry <-> x/aggregate (keeper/proposals.go, token_pairs.go, mint.go, '
                                      'types/token_pair.go, types/genesis.go)'),
                          name='replay_corr_h%d.json' % max(h, 0), no_input=True)
    if not run.violations and not run.proof_ok():
        # a proof obligation / the source tie (Gen/RegistryGen.v) broke while monitors and correspondence are silent on the
        # standard budget: search the implementation side harder before reporting the obligation alone
        outp3 = os.path.join(run.work, 'search_proof.jsonl')
        rc, o = vlib.run_harness('c12', ['-seed', run.seed + 104729, '-n', run.budget(300, 1500), '-steps', 22, '-out', outp3])
        if rc == 0:
            res3 = vlib.read_jsonl(outp3)
            mm3, ff3 = evaluate(run.work, res3, 'searchp')
            if mm3 is not None and ff3:
                report_monitor(res3, ff3, 'replay_search')
        if not run.violations:
            run.proof_violation()
    return run.finish()


def replay(path):
    rp = json.load(open(path))
    work = os.path.join(vlib.ROOT, 'work', 'C12_replay')
    os.makedirs(work, exist_ok=True)
    ok, out = vlib.build_harness(['c12'])
    if not ok or 'spec' not in rp:
        print('cannot replay: %s' % (out[-500:] if not ok else 'no spec in replay file (%s)' % rp.get('kind')))
        return 2
    rs = run_specs(work, [rp['spec']], 'replay')
    if not rs:
        print('harness failed')
        return 2
    mm, ff = evaluate(work, rs, 'replay_cases')
    last = rs[0]['obs'][-1]
    print('last step:', json.dumps(last['op']), 'class', last['class'])
    print('pairs:', json.dumps(last['pairs']))
    print('erc20 index:', json.dumps(last['erc20']), ' denom index:', json.dumps(last['denom']))
    print('model mismatches:', mm, ' monitor failures:', ff)
    for _, s, k in (ff or []) + (mm or []):
        print('  step %d: %s' % (s, KINDS.get(k)))
    if ff or mm:
        print('VIOLATION property=C12 replay=%s' % path)
        return 1
    print('replay passes on the current tree')
    return 0
