"""C11 — coin/ERC-20 conversion: exact amount or nothing, backing, gates.
Model: coq/theories/Model/Convert.v (+ ConvertTokens.v, ConvertCheck.v); harness: harness/cmd/c11."""
import json
import os
from collections import Counter

import vlib
from vlib import coq_literal_bytes, coq_bool, coq_list

HEADER = ('From Teleport Require Import Base.Bytes Base.Outcome Model.Convert Model.ConvertTokens Model.ConvertCheck.\n'
          'Local Open Scope Z_scope.\n')

KINDS = {
    1: 'model and code disagree on the outcome class (ok / error / recovered panic) of a step',
    2: 'model and code disagree on parameters / send-enabled flags after a step',
    3: 'model and code disagree on the token-pair registry after a step',
    4: 'model and code disagree on bank balances after a step',
    5: 'model and code disagree on the bank supply after a step',
    6: 'model and code disagree on which accounts exist after a step',
    7: 'model and code disagree on token contract state (balances, totalSupply, storage, liveness)',
    21: 'a failed message (or failed environment call) changed the observed state',
    22: 'a conversion succeeded although the module is disabled',
    23: 'a conversion succeeded although the token pair is disabled',
    24: 'a conversion paid out to a blocked address',
    25: 'a conversion to another address succeeded although sending the coin is disabled',
    26: 'a conversion succeeded for a denomination that no pair (or more than one pair) lists, or through a contract '
        'that is not the pair\'s',
    27: 'the clean-up of a self-destructed contract did more than deleting its pair',
    28: 'bank balances did not move by exactly the converted amount (or another balance moved)',
    29: 'the bank supply did not move by exactly the converted amount (or another supply moved)',
    30: 'token balances did not move by exactly the converted amount (or another holder moved)',
    31: 'a conversion changed another token contract, the registry, the parameters or created an unrelated account',
    41: 'totalSupply of a module-owned token contract exceeds the coins of its denominations escrowed in the module account',
    42: 'the supply of the voucher coin of an external pair exceeds the ERC-20 balance held by the module',
}

# unrepaired findings: key -> recogniser on (result, failing step index, kind)
FINDING_SENDER_FEE = 'voucher-backing:sender-side-fee-token:convertCoinNativeERC20-checks-only-receiver'


class Intern:
    """Coq's number notation converts a decimal literal by reduction inside Coq (milliseconds for a 160-bit address),
    so every large numeral is defined once per file and referenced by name."""

    def __init__(self):
        self.names = {}

    def z(self, x):
        x = int(x)
        if -1000000000 < x < 1000000000:
            return '(%d)' % x if x < 0 else '%d' % x
        if x not in self.names:
            self.names[x] = 'n%d' % len(self.names)
        return self.names[x]

    def b(self, x):
        if isinstance(x, str):
            x = x.encode('utf-8')
        if len(x) < 3:
            return coq_literal_bytes(x)
        if x not in self.names:
            self.names[x] = 'b%d' % len(self.names)
        return self.names[x]

    def defs(self):
        return ''.join('Definition %s : bytes := %s.\n' % (n, coq_literal_bytes(x)) if isinstance(x, bytes) else
                       'Definition %s : Z := %s.\n' % (n, '(%d)' % x if x < 0 else '0x%x' % x) for x, n in self.names.items())


IN = Intern()


def Z(x):
    return IN.z(x)


def cb(x):
    return IN.b(x)


def zhex(h):
    return IN.z(int(h, 16)) if h else '0'


def oz(s):
    return 'None' if s == '' or s is None else '(Some %s)' % Z(s)


def obs_term(o):
    addrs = [zhex(a['hex']) for a in o['addrs']]
    pairs = []
    for p in o['pairs']:
        pairs.append('(%s, {| p_id := %s; p_erc20 := %s; p_denoms := %s; p_enabled := %s; p_owner := %d |})' % (
            cb(bytes.fromhex(p['key'])), cb(bytes.fromhex(p['id'])), zhex(p['erc20']),
            coq_list([cb(d) for d in p['denoms']]), coq_bool(p['enabled']), p['owner']))
    toks = []
    for t in o['tokens']:
        toks.append('{| to_addr := %s; to_kind := %d; to_contract := %s; to_owner := %s; to_total := %s; to_bals := %s; '
                    'to_allow := %s; to_ledger := %s; to_cfg := %s |}' % (
                        zhex(t['addr']), t['kind'], coq_bool(t['contract']), zhex(t['owner']), oz(t['total']),
                        coq_list([oz(b) for b in t['bals']]),
                        coq_list(['((%s, %s), %s)' % (zhex(o), zhex(sp), Z(v or 0)) for o, sp, v in t.get('allow') or []]),
                        coq_list([Z(v) for v in t.get('ledger') or []]),
                        coq_list([Z(v) for v in t.get('cfg') or []])))
    return ('{| o_params := %s; o_evm_call := %s; o_send_default := %s; o_send := %s; o_addrs := %s; o_exists := %s; '
            'o_blocked := %s; o_bank := %s; o_supply := %s; o_pairs := %s; o_erc20 := %s; o_denom := %s; o_toks := %s |}' % (
                coq_bool(o['params']), coq_bool(o['evm_call']), coq_bool(o['send_default']),
                coq_list(['(%s, %s)' % (cb(d), v) for d, v in o['send_list']]),
                coq_list(addrs), coq_list([coq_bool(a['exists']) for a in o['addrs']]),
                coq_list([coq_bool(a['blocked']) for a in o['addrs']]),
                coq_list(['((%s, %s), %s)' % (zhex(a), cb(d), Z(v)) for a, d, v in o['bank']]),
                coq_list(['(%s, %s)' % (cb(d), Z(v)) for d, v in o['supply']]),
                coq_list(pairs),
                coq_list(['(%s, %s)' % (zhex(a), cb(bytes.fromhex(i))) for a, i in o['erc20_map']]),
                coq_list(['(%s, %s)' % (cb(d), cb(bytes.fromhex(i))) for d, i in o['denom_map']]),
                coq_list(toks)))


def sop_term(st):
    op = st['op']
    if op == 'convert_coin':
        return ('(SMsg (MCC {| cc_denom := %s; cc_amount := %s; cc_receiver := %s; cc_sender := %s; cc_sender_ok := %s |}))' % (
            cb(st.get('denom', '')), Z(st['amount']), cb(st.get('receiver_raw', '')), zhex(st.get('sender_hex', '')),
            coq_bool(st.get('sender_ok', False))))
    if op == 'convert_erc20':
        return ('(SMsg (MCE {| ce_contract := %s; ce_amount := %s; ce_receiver := %s; ce_receiver_ok := %s; ce_sender := %s; '
                'ce_denom := %s |}))' % (
                    cb(st.get('contract_raw', '')), Z(st['amount']), zhex(st.get('receiver_hex', '')),
                    coq_bool(st.get('receiver_ok', False)), cb(st.get('sender_raw', '')), cb(st.get('denom', ''))))
    if op in ('tok_transfer', 'tok_burn') and st.get('tok_addr') and int(st.get('amount') or 0) >= 0:
        cl = '(CTransfer %s %s)' % (zhex(st['to_hex']), Z(st['amount'])) if op == 'tok_transfer' else '(CBurn %s)' % Z(st['amount'])
        return '(STokenCall %s %s %s)' % (zhex(st['tok_addr']), zhex(st['from_hex']), cl)
    std = op.startswith('tok_') and st.get('tok_kind') in (1, 2) and st.get('tok_addr') and int(st.get('amount') or 0) >= 0
    if op in ('tok_approve', 'tok_inc_allow', 'tok_dec_allow') and std:
        c = {'tok_approve': 'CApprove', 'tok_inc_allow': 'CIncAllow', 'tok_dec_allow': 'CDecAllow'}[op]
        return '(STokenCall %s %s (%s %s %s))' % (zhex(st['tok_addr']), zhex(st['from_hex']), c, zhex(st['to_hex']), Z(st['amount']))
    if op == 'tok_transfer_from' and std:
        return '(STokenCall %s %s (CTransferFrom %s %s %s))' % (zhex(st['tok_addr']), zhex(st['from_hex']), zhex(st['owner_hex']),
                                                                zhex(st['to_hex']), Z(st['amount']))
    if op == 'tok_burn_from' and std:
        return '(STokenCall %s %s (CBurnFrom %s %s))' % (zhex(st['tok_addr']), zhex(st['from_hex']), zhex(st['owner_hex']), Z(st['amount']))
    if op == 'bank_send':
        return '(SBankSend %s %s %s %s)' % (zhex(st['from_hex']), zhex(st['to_hex']), cb(st['denom']), Z(st['amount']))
    if op == 'ibc_recv':
        if st.get('hook_ok'):
            return '(SHook %s %s %s)' % (zhex(st['receiver_hex']), cb(st['denom']), Z(st['amount']))
        return 'SNoop'
    return 'SReload'


def hist_term(r):
    steps = ['{| cs_op := %s; cs_class := %d; cs_obs := %s |}' % (sop_term(st), st['class'], obs_term(st['obs']))
             for st in r['steps']]
    return '{| h_module := %s; h_init := %s; h_steps := %s |}' % (zhex(r['module']), obs_term(r['init']), coq_list(steps))


SHARD = 6  # histories per coqc invocation


def evaluate(workdir, results, tag='cases'):
    """returns (mismatches, monitor_failures) as lists of (hist, step, kind); (None, log) on a Coq failure"""
    shards = [results[i:i + SHARD] for i in range(0, len(results), SHARD)]

    def build(sh):
        global IN
        IN = Intern()
        body = ''.join('Definition h%d : hist := %s.\n' % (j, hist_term(r)) for j, r in enumerate(sh))
        defs = IN.defs() + body
        return defs + 'Definition cases : list hist := %s.\n' % coq_list(['h%d' % j for j in range(len(sh))])

    texts = [build(sh) for sh in shards]  # sequential: the interning table is per file

    def one(ix):
        i, _ = ix
        res = vlib.coq_eval_lists(workdir, '%s_%d.v' % (tag, i), HEADER, texts[i],
                                  [('M', 'mismatches cases'), ('F', 'monitor_failures cases')])
        m = vlib.parse_nat_tuples(res.get('M'), 3)
        f = vlib.parse_nat_tuples(res.get('F'), 3)
        if res['_rc'] != 0 or m is None or f is None:
            return ('error', res['_out'][-3000:])
        off = i * SHARD
        return ([(h + off, s, k) for h, s, k in m], [(h + off, s, k) for h, s, k in f])

    outs = vlib.parallel(one, list(enumerate(shards)), workers=14)
    mm, ff = [], []
    for o in outs:
        if o[0] == 'error':
            return None, o[1]
        mm += o[0]
        ff += o[1]
    return mm, ff


def run_specs(workdir, specs, tag):
    inp = os.path.join(workdir, tag + '_in.jsonl')
    out = os.path.join(workdir, tag + '_out.jsonl')
    vlib.write_jsonl(inp, specs)
    rc, o = vlib.run_harness('c11', ['-in', inp, '-out', out])
    if rc != 0:
        return None
    return vlib.read_jsonl(out)


def run_generated(run, n, steps, tag='gen', seed=None):
    """runs the generator in parallel shards; returns results ordered by spec id"""
    shards = 8
    seed = run.seed if seed is None else seed

    def one(i):
        out = os.path.join(run.work, '%s_%d.jsonl' % (tag, i))
        rc, o = vlib.run_harness('c11', ['-seed', seed, '-n', n, '-steps', steps, '-shard', i, '-shards', shards, '-out', out])
        return (rc, o, out)

    res = vlib.parallel(one, list(range(shards)), workers=shards)
    results = []
    for rc, o, out in res:
        if rc != 0:
            return None, o
        results += vlib.read_jsonl(out)
    results.sort(key=lambda r: r['spec']['id'])
    return results, ''


def shrink(workdir, spec, want):
    """delta-debug the step list of a failing history (re-running the real code each time); `want(mm, ff)` says
    whether the failure of interest is still there"""
    def fails(sp):
        rs = run_specs(workdir, [sp], 'shrink')
        if not rs or rs[0].get('fatal'):
            return False
        mm, ff = evaluate(workdir, rs, 'shrink_cases')
        if mm is None:
            return False
        return want(mm, ff)
    best = spec
    budget = 30
    changed = True
    while changed and budget > 0:
        changed = False
        for i in range(len(best['steps']) - 1, -1, -1):
            if len(best['steps']) <= 1 or budget <= 0:
                break
            cand = dict(best)
            cand['steps'] = best['steps'][:i] + best['steps'][i + 1:]
            budget -= 1
            if fails(cand):
                best = cand
                changed = True
                break
    return best


def sender_fee_signature(result, step):
    """the failing step is a voucher -> token conversion (convertCoinNativeERC20) through an AdvToken whose
    sender-side fee is non-zero, the conversion itself succeeded and the module was debited more than the amount"""
    if step < 0 or step >= len(result['steps']):
        return False
    st = result['steps'][step]
    if st['op'] != 'convert_coin' or st['class'] != 0:
        return False
    pre = result['steps'][step - 1]['obs'] if step > 0 else result['init']
    post = st['obs']
    for p in pre['pairs']:
        if st['denom'] in p['denoms'] and p['owner'] == 2 and len(p['denoms']) == 1:
            for t, t2 in zip(pre['tokens'], post['tokens']):
                if t['addr'] == p['erc20'] and t['kind'] == 5 and int(t['cfg'][1]) > 0 and int(t['cfg'][9]) == 0 \
                        and int(t['cfg'][6]) == 0 and int(t['cfg'][8]) == 0:
                    mi = [a['hex'] for a in pre['addrs']].index(result['module'])
                    debit = int(t['ledger'][mi]) - int(t2['ledger'][mi])
                    return debit > int(st['amount'])
    return False


REASONS = [  # which exit of the code refused (measured from the error text, for the coverage figures only)
    ('validate basic', 'validate_basic'), ('cannot mint a non-positive', 'validate_basic'),
    ('invalid denom', 'validate_basic'), ('invalid sender', 'validate_basic'), ('invalid rec', 'validate_basic'),
    ('invalid contract', 'validate_basic'), ('decoding bech32', 'validate_basic'), ('hex address', 'validate_basic'),
    ('module is currently disabled', 'module_disabled'), ('not registered by id', 'pair_not_found'),
    ('not registered', 'pair_not_found'), ('is not enabled by governance', 'pair_disabled'),
    ('is not allowed to receive', 'blocked_receiver'), ('to an external address is currently disabled', 'send_disabled'),
    ('failed to escrow', 'escrow_failed'), ('insufficient funds', 'insufficient_coins'),
    ('unexpected Approval', 'approval_event'), ('failed to execute transfer', 'transfer_false'),
    ('failed to execute unescrow', 'transfer_false'), ('invalid token balance', 'token_balance_check'),
    ('invalid coin balance', 'coin_balance_check'), ('invalid escrowed token balance', 'escrow_balance_check'),
    ('cannot read the escrowed', 'escrow_balance_unreadable'), ('failed to burn', 'burn_failed'),
    ('execution reverted', 'evm_reverted'), ('EVM Call operation is disabled', 'evm_call_disabled'),
    ('contract call failed', 'evm_failed'), ('abi:', 'abi_unpack'), ('improperly formatted output', 'abi_unpack'),
    ('panic', 'panic'), ('nil pointer', 'panic'), ('overflow', 'panic'), ('negative coin amount', 'panic'),
    ('account', 'no_account'), ('unauthorized', 'blocked_receiver'),
]


def reason(err):
    for k, v in REASONS:
        if k in err:
            return v
    return 'other'


def coverage(run, results, mm, ff):
    dist = Counter()
    nontrivial = set()
    steps = 0
    for r in results:
        for i, st in enumerate(r['steps']):
            steps += 1
            op = st['op']
            dist['op_' + op] += 1
            if op in ('convert_coin', 'convert_erc20'):
                dist['%s_class%d_%s' % (op, st['class'], st.get('via', ''))] += 1
                pre = r['steps'][i - 1]['obs'] if i > 0 else r['init']
                kind = 'nopair'
                for p in pre['pairs']:
                    if st.get('denom') in p['denoms']:
                        tk = [t for t in pre['tokens'] if t['addr'] == p['erc20']]
                        kind = 'owner%d_kind%s_denoms%d' % (p['owner'], tk[0]['kind'] if tk else '?', len(p['denoms']))
                dist['%s_%s_class%d' % (op, kind, st['class'])] += 1
                if st['class'] == 0:
                    nontrivial.add(json.dumps([op, kind, st.get('amount'), st.get('sender_hex'), st.get('receiver_hex'),
                                               pre['bank'], [t['bals'] for t in pre['tokens']]]))
                if st['class'] == 2:
                    dist['recovered_panics'] += 1
                if st['class'] != 0:
                    dist['%s_refused_%s' % (op, reason(st.get('err', '')))] += 1
            elif op == 'ibc_recv':
                pre = r['steps'][i - 1]['obs'] if i > 0 else r['init']
                kind = 'undecodable' if not st.get('hook_ok') else 'nopair'
                for p in pre['pairs']:
                    if st.get('hook_ok') and st.get('denom') in p['denoms']:
                        kind = 'owner%d_denoms%d' % (p['owner'], len(p['denoms']))
                dist['ibc_recv_%s_class%d' % (kind, st['class'])] += 1
                if st['class'] == 0:
                    nontrivial.add(json.dumps(['hook', kind, st.get('amount'), st.get('receiver_hex'), pre['bank']]))
                if st['class'] != 0 and st.get('hook_ok') and kind != 'nopair':
                    dist['ibc_recv_failed_' + reason(st.get('err', ''))] += 1
            elif op in ('tok_transfer', 'tok_burn', 'bank_send', 'tok_approve', 'tok_inc_allow', 'tok_dec_allow',
                        'tok_transfer_from', 'tok_burn_from'):
                dist['%s_class%d' % (op, st['class'])] += 1
    run.coverage.update(dict(
        evaluations=steps, histories=len(results), distinct_nontrivial=len(nontrivial),
        rule='every step of every history is executed on the real app (MsgConvertCoin/MsgConvertERC20 through '
             'BaseApp.DeliverTx or the registered msg-service handler, ICS-20 packets through Keeper.OnRecvPacket) and on '
             'the model, and the complete observed state is compared; non-trivial = a conversion that succeeded; '
             'distinct = distinct (flow, pair kind, amount, sender, receiver, balances before)',
        distribution=dict(sorted(dist.items())), model_mismatches=len(mm), monitor_failures=len(ff),
        samples=[results[0]['spec'], results[-1]['spec']] if results else []))
    run.coverage['trusted_base'] += [
        'hand-written model Model/Convert.v tied to x/aggregate by this differential run (the generator bounds what it sees)',
        'modelled, not verified: cosmos-sdk bank keeper and sdk.Int, ethermint ApplyMessage/statedb, go-ethereum EVM + abi, '
        'the byte code of ERC20MinterBurnerDecimals (executed by the real EVM in this run; NOT the 4.3.2 Solidity sources of the repo: '
        'infinite-allowance semantics), BaseApp message atomicity',
        'external token contracts are oracle arguments of the model; the correspondence instantiates them with '
        'ERC20MinterBurnerDecimals, ERC20MaliciousDelayed, ERC20DirectBalanceManipulation and the hand-assembled AdvToken '
        '(harness/cmd/c11/advtoken.go), all executed by the real EVM',
        'translator tools/gotocoq/erc20abi (token ABI and EVM call sites of msg_server.go -> Gen/Erc20AbiGen.v)']
    run.assumptions += [
        'the token-pair registry is given state (its consistency is property C12); the backing theorems assume it '
        'well formed (a denomination is listed by at most one pair, the denom index agrees with the pairs)',
        'nobody holds a private key of the module account / module EVM address; the module never grants roles on or '
        'pauses the contracts it deploys',
        'no vesting (locked) coins on converting accounts',
        'voucher backing (C11_voucher_backing): the external token reports balances honestly (balanceOf is a view of a '
        'ledger) and no call other than the module\'s own transfer lowers the module\'s balance; both hypotheses are shown '
        'necessary (Refuted/C11_refuted.v: misreporting token; user-deployed ERC20MinterBurnerDecimals whose deployer '
        'burns the escrow) and satisfiable (C11_voucher_hypotheses_satisfiable); what the module\'s own transfer debits is '
        'checked by the code since c5eeeaa',
        'coins of "aggregate/..." denominations are minted by x/aggregate only (other modules\' mints are of other '
        'denominations); the ICS-20 hook never runs for the module account (the transfer application refuses to credit a '
        'blocked address)',
        'the ICS-20 hook is modelled from the point where the packet decoded to (receiver of 20 bytes, hook denomination, '
        'amount); JSON decoding, NewIntFromString, bech32 and the sha256 of the denomination trace are C16\'s oracles']


def check(run):
    run.proof_stage()
    if not run.quick():
        run.coqchk_stage()
    ok, out = vlib.build_harness(['c11'])
    if not ok:
        run.violation(dict(kind='harness-build-failed', log=out[-3000:],
                           explanation='the correspondence harness no longer builds against /repo'), no_input=True)
        return run.finish()
    n = run.budget(64, 900)
    results, log = run_generated(run, n, run.budget(16, 24))
    if results is None:
        run.violation(dict(kind='harness-crashed', log=log[-3000:]), no_input=True)
        return run.finish()
    fatal = [r for r in results if r.get('fatal')]
    if fatal:
        run.violation(dict(kind='harness-fatal', spec=fatal[0]['spec'], log=fatal[0]['fatal'][:2000]), no_input=True)
        return run.finish()
    mm, ff = evaluate(run.work, results)
    if mm is None:
        run.violation(dict(kind='coq-evaluation-failed', log=ff), no_input=True)
        return run.finish()
    coverage(run, results, mm, ff)

    reported = set()
    known_hist = set()
    for h, s, k in ff:  # the property failed on the real code
        if h in reported or h in known_hist:
            continue
        r = results[h]
        if k == 42 and sender_fee_signature(r, s):
            what = ('key=%s history=%s step=%d: %s' % (FINDING_SENDER_FEE, r['spec'].get('tag') or r['spec']['id'], s, KINDS[42]))
            if run.known_finding(FINDING_SENDER_FEE, what):
                known_hist.add(h)
                continue
        reported.add(h)
        spec = dict(r['spec'])
        spec['steps'] = spec['steps'][:s + 1]
        small = shrink(run.work, spec, lambda mm2, ff2, k=k: any(kk == k for _, _, kk in ff2))
        run.violation(dict(kind='monitor', code=k, what=KINDS.get(k), spec=small, failing_step=s,
                           observed_step={x: v for x, v in r['steps'][s].items() if x != 'obs'}),
                      name='replay_h%d.json' % h)
        if len(run.violations) >= 3:
            break
    if not run.violations:
        for h, s, k in mm[:1]:  # model and code disagree, property monitors silent
            r = results[h]
            spec = dict(r['spec'])
            spec['steps'] = spec['steps'][:s + 1]
            small = shrink(run.work, spec, lambda mm2, ff2: len(mm2) > 0)
            run.violation(dict(kind='correspondence', code=k, what=KINDS.get(k), spec=small,
                               observed_step={x: v for x, v in r['steps'][s].items() if x != 'obs'},
                               explanation='Model/Convert.v no longer describes x/aggregate conversion; the theorems of '
                                           'Props/C11.v are about the model, so the property is no longer shown to hold',
                               broken='correspondence Model.Convert <-> x/aggregate/keeper/msg_server.go'),
                          name='replay_corr_h%d.json' % h, no_input=True)
        if not run.proof_ok():
            run.proof_violation()
    return run.finish()


def replay(path):
    rp = json.load(open(path))
    work = os.path.join(vlib.ROOT, 'work', 'C11_replay')
    os.makedirs(work, exist_ok=True)
    ok, out = vlib.build_harness(['c11'])
    if not ok or 'spec' not in rp:
        print('cannot replay: %s' % (out[-500:] if not ok else 'no spec in replay file (%s)' % rp.get('kind')))
        return 2
    rs = run_specs(work, [rp['spec']], 'replay')
    mm, ff = evaluate(work, rs, 'replay_cases')
    for st in rs[0]['steps']:
        print('step:', json.dumps({x: v for x, v in st.items() if x != 'obs'}))
    print('model mismatches:', mm, ' monitor failures:', ff)
    for _, s, k in (ff or []) + (mm or []):
        print('  step %d: %s' % (s, KINDS.get(k, k)))
    if ff or mm:
        print('VIOLATION property=C11 replay=%s' % path)
        return 1
    print('replay passes on the current tree')
    return 0
