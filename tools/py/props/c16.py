"""C16 — ICS-20 middleware is transparent: acks survive, conversion is atomic.
Model: coq/theories/Model/Ics20.v; harness: harness/cmd/c16 (real transfer stack, real ibc-go core handler)."""
import json
import os
from collections import Counter

import vlib
from vlib import coq_literal_bytes as cb, coq_Z, coq_bool, coq_list, coq_option

HEADER = ('From Teleport Require Import Base.Bytes Base.Outcome Model.Ics20 Model.Ics20Check.\n'
          'Local Open Scope Z_scope.\n')

KINDS = {
    1: 'model and code disagree on the outcome class of the stack (return / panic)',
    2: 'model and code disagree on the acknowledgement returned by the stack',
    3: 'model and code disagree on the hook path (EventIBCAggregate status)',
    4: 'model and code disagree on balances / tokens after the stack',
    5: 'model and code disagree on the registry after the stack',
    6: 'model and code disagree on the outcome class of ibc-go RecvPacket',
    7: 'model and code disagree on the acknowledgement committed by ibc-go RecvPacket',
    8: 'model and code disagree on the state committed by ibc-go RecvPacket',
    9: 'model of x/aggregate/types.IBCDenom disagrees with the code',
    10: 'model of the denomination credited by the transfer keeper disagrees with the code',
    11: 'the model asked sha256 on an argument the implementation never hashed',
    12: 'model of common.BytesToAddress disagrees with the code',
    13: 'model of ibc-go\'s transfer application (Model/Ics20Transfer.v) disagrees with the bare transfer module',
    14: 'model of the keeper hook disagrees with Keeper.OnRecvPacket called directly',
    21: 'the middleware returned a nil acknowledgement: ibc-go writes no acknowledgement for the packet',
    22: 'the middleware returned an acknowledgement different from the transfer application\'s',
    23: 'the middleware panicked / returned where the bare transfer application did the opposite',
    24: 'ibc-go RecvPacket committed NO acknowledgement for a packet the transfer application acknowledged',
    25: 'the acknowledgement committed by ibc-go RecvPacket is not the transfer application\'s',
    26: 'after an error acknowledgement the committed state differs from the state before the packet',
    27: 'after a successful acknowledgement the committed state differs from the state after the stack',
    28: 'ibc-go RecvPacket failed / left no receipt where the transfer application returned',
    31: 'conversion neither complete nor absent (partial conversion, wrong amount or something else moved)',
    32: 'failed transfer: the middleware changed state relative to the bare transfer application',
    33: 'received coins touched although the hook converts a different denomination',
    34: 'registry changed without a conversion although the contract is alive',
    41: 'full conversion credited an EVM address that is not the receiver\'s (receiver address is not 20 bytes)',
    51: 'oracle hypothesis broken: transfer application acknowledged success for invalid data / amount / receiver',
    52: 'oracle hypothesis broken: successful receive did not credit exactly the amount',
    53: 'hypothesis broken: the aggregate or the transfer module account is not a blocked address (app.go BlockedAddrs)',
    61: 'OnAcknowledgementPacket through the middleware differs from the bare transfer application',
    62: 'OnTimeoutPacket through the middleware differs from the bare transfer application',
    71: 'the keeper hook returned nil or an acknowledgement other than the one it was given',
    72: 'the keeper hook left a conversion neither complete nor absent (direct call on the state before the packet)',
}
KNOWN_KEYS = {41: 'receiver-not-20-bytes'}


def hx(h):
    return cb(bytes.fromhex(h))


def snap(s):
    s = dict(s)
    for f in ('recv_voucher', 'recv_got', 'mod_voucher', 'supply', 'tokens', 'mod_tokens', 'tok_supply'):
        s[f] = s.get(f) or '0'   # a run that did not happen (core on an unroutable packet) has an empty snapshot
    return ('{| sn_recv_voucher := %s; sn_recv_got := %s; sn_mod_voucher := %s; sn_supply := %s; sn_tokens := %s; '
            'sn_mod_tokens := %s; sn_tok_supply := %s; sn_indexed := %s; sn_pair := %s; sn_rest := %s |}' % (
                coq_Z(s['recv_voucher']), coq_Z(s['recv_got']), coq_Z(s['mod_voucher']), coq_Z(s['supply']),
                coq_Z(s['tokens']), coq_Z(s['mod_tokens']), coq_Z(s['tok_supply']), coq_bool(s['indexed']),
                coq_bool(s['pair_stored']), hx(s['rest'])))


def callobs(c):
    return '{| co_class := %d; co_ack_nil := %s; co_ack_ok := %s; co_ack := %s; co_status := %d; co_post := %s |}' % (
        c['class'], coq_bool(c['ack_nil']), coq_bool(c['ack_ok']), hx(c['ack']), 9 if c['status'] < 0 else c['status'],
        snap(c['post']))


def coreobs(c):
    return ('{| cr_ran := %s; cr_class := %d; cr_stored := %s; cr_commit := %s; cr_receipt := %s; cr_status := %d; '
            'cr_post := %s |}' % (coq_bool(c['ran']), c['class'], coq_bool(c['ack_stored']), hx(c['ack_commit']),
                                  coq_bool(c['receipt']), 9 if c['status'] < 0 else c['status'], snap(c['post'])))


def cbobs(c):
    return '{| cb_bare := %d; cb_stack := %d; cb_same := %s |}' % (c['bare_class'], c['stack_class'], coq_bool(c['same_post']))


def trobs(t):
    return ('{| tr_recv_blocked := %s; tr_recv_enabled := %s; tr_denom_ok := %s; tr_escrow := %s; tr_tmodule := %s; '
            'tr_pre_esc := %s; tr_pre_tmod := %s; tr_pre_supply := %s; tr_post_esc := %s; tr_post_tmod := %s; '
            'tr_post_supply := %s |}' % (
                coq_bool(t['recv_blocked']), coq_bool(t['recv_enabled']), coq_bool(t['denom_ok']), hx(t['escrow']),
                hx(t['tmodule']), coq_Z(t['pre_esc'] or '0'), coq_Z(t['pre_tmod'] or '0'), coq_Z(t['pre_supply'] or '0'),
                coq_Z(t['post_esc'] or '0'), coq_Z(t['post_tmod'] or '0'), coq_Z(t['post_supply'] or '0')))


def case_term(r):
    s, o = r['spec'], r['obs']
    dst = s.get('dst_chan') or 'channel-0'
    src = s.get('src_chan') or 'channel-7'
    pkt = '{| pk_data := []; pk_seq := %d%%N; pk_sport := %s; pk_schan := %s; pk_dport := %s; pk_dchan := %s |}' % (
        s['seq'], cb('transfer'), cb(src), cb('transfer'), cb(dst))
    dec = None
    if o['decoded']:
        dec = '{| fd_denom := %s; fd_amount := %s; fd_sender := %s; fd_receiver := %s |}' % (
            hx(o['d_denom']), hx(o['d_amount']), hx(o['d_sender']), hx(o['d_receiver']))
    amt = coq_Z(o['amount_val']) if o['amount_ok'] else None
    recv = hx(o['recv_bytes']) if o['recv_ok'] else None
    pre = o['pre']
    reg = 0 if not pre['indexed'] else (1 if pre['pair_stored'] else 2)
    sha = coq_list(['(%s, %s)' % (hx(a), hx(b)) for a, b in (o.get('sha') or [])])
    return ('{| k_pkt := %s; k_decoded := %s; k_amount := %s; k_recv := %s; k_sha := %s; k_hook_denom := %s; '
            'k_got_denom := %s; k_evm_recv := %s; k_module := %s; k_reg := %d; k_contract := %s; k_alive := %s; '
            'k_owner := %d; k_pair_enabled := %s; k_agg_enabled := %s; k_blocked := %s; k_send_disabled := %s; '
            'k_pre := %s; k_bare := %s; k_stack := %s; k_core := %s; k_ackcb := %s; k_tocb := %s; k_hook := %s; '
            'k_hook_ack := %s; k_tr := %s; k_mods_blocked := %s |}' % (
                pkt, coq_option(dec), coq_option(amt), coq_option(recv), sha, cb(o['hook_denom']), cb(o['got_denom']),
                hx(o['evm_recv']), hx(o['module']), reg, hx(o['contract']), coq_bool(o['alive']), o['owner'],
                coq_bool(not s['pair_disabled']), coq_bool(not s['agg_disabled']), coq_bool(o['blocked']),
                coq_bool(s['send_disabled']), snap(pre), callobs(o['bare']), callobs(o['stack']), coreobs(o['core']),
                cbobs(o['ack_cb']), cbobs(o['to_cb']), callobs(o['hook']), hx(o['hook_ack']), trobs(o['tr']),
                coq_bool(o['mods_blocked'])))


SHARD = 250


def evaluate(workdir, results, tag='cases'):
    """returns (mismatches, monitor_failures) as lists of (case, step, kind), or (None, log) on a Coq failure"""
    shards = [results[i:i + SHARD] for i in range(0, len(results), SHARD)]

    def one(ix):
        i, sh = ix
        defs = 'Definition cases : list case := %s.\n' % coq_list([case_term(r) for r in sh])
        res = vlib.coq_eval_lists(workdir, '%s_%d.v' % (tag, i), HEADER, defs,
                                  [('M', 'mismatches cases'), ('F', 'monitor_failures cases')])
        m = vlib.parse_nat_tuples(res.get('M'), 3)
        f = vlib.parse_nat_tuples(res.get('F'), 3)
        if res['_rc'] != 0 or m is None or f is None:
            return ('error', res['_out'][-3000:])
        off = i * SHARD
        return ([(h + off, s, k) for h, s, k in m], [(h + off, s, k) for h, s, k in f])

    outs = vlib.parallel(one, list(enumerate(shards)))
    mm, ff = [], []
    for o in outs:
        if o[0] == 'error':
            return None, o[1]
        mm += o[0]
        ff += o[1]
    return mm, ff


def run_specs(workdir, specs, tag):
    inp = os.path.join(workdir, tag + '_in.jsonl')
    out = os.path.join(workdir, tag + '_out.jsonl')
    vlib.write_jsonl(inp, specs)
    rc, o = vlib.run_harness('c16', ['-in', inp, '-out', out])
    if rc != 0:
        return None
    return vlib.read_jsonl(out)


def shrink(workdir, spec, kind, which):
    """simplify a failing case (one packet + one state): reset state knobs that do not matter, re-running the real code"""
    def fails(sp):
        rs = run_specs(workdir, [sp], 'shrink')
        if not rs or rs[0]['obs'].get('setup_err'):
            return False
        mm, ff = evaluate(workdir, rs, 'shrink_cases')
        if mm is None:
            return False
        got = ff if which == 'monitor' else mm
        return any(k == kind for _, _, k in got)
    best = dict(spec)
    if best.get('chain'):
        return best   # a step of a history: the replay file carries the whole history (see history_of)
    for key, val in (('decoy', False), ('pre_voucher', '0'), ('pre_escrow', '0'), ('chan_escrow', '0'), ('send_disabled', False),
                     ('recv_disabled', False), ('agg_disabled', False), ('pair_disabled', False), ('module_tokens', '0'),
                     ('reg', 'none'), ('reg', 'coin'), ('amount', '1'), ('denom', 'uatom'),
                     ('sender', 'sender'), ('id', 0), ('seq', 1)):
        if best.get(key) == val:
            continue
        cand = dict(best)
        cand[key] = val
        if fails(cand):
            best = cand
    return best


def history_of(results, h):
    """the specs a case depends on: a chained case starts from the state its predecessors committed"""
    i = h
    while i > 0 and results[i]['spec'].get('chain'):
        i -= 1
    return [results[j]['spec'] for j in range(i, h + 1)]


EXTRA = ['theories/Props/C16_c11.v']


def check(run):
    pr = run.proof_stage(extra_modules=EXTRA)
    if not run.quick():
        run.coqchk_stage()
        # the agreement with C11's model lives in its own file (it depends on C11's cone): re-check it as well
        with vlib.Lock('coq'):
            rc3, o3 = vlib.sh(['coqchk', '-silent', '-o', '-Q', vlib.THEORIES, 'Teleport', 'Teleport.Props.C16_c11'],
                              cwd=vlib.COQ, timeout=2400)
        ok3 = rc3 == 0 and 'Axioms: <none>' in o3
        run.coverage['coqchk_c16_c11'] = 'ok, axioms: none' if ok3 else 'FAILED'
        if not ok3:
            run.proof['build_ok'] = False
            run.proof['build_log'] += '\n[coqchk C16_c11]\n' + o3[-2000:]
    ok, out = vlib.build_harness(['c16'])
    if not ok:
        run.violation(dict(kind='harness-build-failed', log=out[-3000:],
                           explanation='the correspondence harness no longer builds against /repo'), no_input=True)
        return run.finish()
    n = run.budget(400, 4000)
    outp = os.path.join(run.work, 'out.jsonl')
    rc, o = vlib.run_harness('c16', ['-seed', run.seed, '-n', n, '-out', outp])
    if rc != 0:
        run.violation(dict(kind='harness-crashed', log=o[-3000:]), no_input=True)
        return run.finish()
    results = vlib.read_jsonl(outp)
    broken = [r for r in results if r['obs'].get('setup_err')]
    if broken:
        run.violation(dict(kind='harness-setup-failed', spec=broken[0]['spec'], log=broken[0]['obs']['setup_err'],
                           explanation='the harness could not build the generated state on the real app'), no_input=True)
        return run.finish()
    mm, ff = evaluate(run.work, results)
    if mm is None:
        run.violation(dict(kind='coq-evaluation-failed', log=ff), no_input=True)
        return run.finish()

    # ---- measured coverage
    dist = Counter()
    nontrivial = set()
    for r in results:
        s, ob = r['spec'], r['obs']
        dist['tag_' + s['tag']] += 1
        dist['reg_' + s['reg']] += 1
        b, st, co = ob['bare'], ob['stack'], ob['core']
        dist['bare_' + ('panic' if b['class'] == 2 else 'ack_success' if b['ack_ok'] else 'ack_error')] += 1
        dist['hook_' + {-1: 'not_called', 1: 'status_success', 2: 'status_failed', 0: 'status_unknown'}[st['status']]] += 1
        hk = ob['hook']
        dist['direct_hook_' + ('panic' if hk['class'] == 2 else {1: 'status_success', 2: 'status_failed'}.get(hk['status'], 'other'))] += 1
        if hk['class'] == 0 and not ob['decoded']:
            dist['direct_hook_decode_error_path'] += 1
        elif hk['class'] == 0 and not ob['amount_ok']:
            dist['direct_hook_amount_error_path'] += 1
        if s.get('chain'):
            dist['history_step'] += 1
        if s.get('decoy'):
            dist['decoy_lookalike_denom'] += 1
        if s['tag'].startswith('directed-'):
            dist['directed_corpus'] += 1
        if co['ran']:
            dist['core_' + {0: 'ok', 1: 'error', 2: 'panic'}[co['class']]] += 1
            dist['core_ack_' + ('stored' if co['ack_stored'] else 'absent')] += 1
        converted = st['class'] == 0 and b['class'] == 0 and st['post']['tokens'] != b['post']['tokens']
        if converted:
            dist['converted_owner_%d' % ob['owner']] += 1
        elif st['status'] == 1:
            dist['status_success_without_conversion(selfdestructed pair removed)'] += 1
        if ob['returning']:
            dist['returning'] += 1
        if ob['recv_ok'] and len(ob['recv_bytes']) != 40:
            dist['receiver_len_not_20'] += 1
        for flag in ('pair_disabled', 'agg_disabled', 'send_disabled', 'recv_disabled'):
            if s[flag]:
                dist[flag] += 1
        if st['status'] != -1 or hk['status'] == 1 or hk['class'] == 2:
            nontrivial.add(json.dumps([s['tag'], s['reg'], s['pair_disabled'], s['agg_disabled'], st['status'], converted,
                                       ob['owner'], ob['alive'], ob['blocked'], len(ob['recv_bytes']), ob['returning'],
                                       hk['class'], hk['status'], bool(s.get('chain'))]))
    run.coverage.update(dict(
        evaluations=len(results), distinct_nontrivial=len(nontrivial),
        rule='one evaluation = one ICS-20 packet on one generated registry/bank state (or, in a history, on the state the '
             'previous packet committed through ibc-go core), run four times on branches of the same real app state (bare '
             'transfer module, the routed middleware stack, ibc-go IBCKeeper.RecvPacket with the acknowledgement store read '
             'back, Keeper.OnRecvPacket called directly) plus the ack/timeout callbacks; non-trivial = the keeper hook ran '
             'through the stack, or converted / panicked when called directly; distinct = distinct (generator tag, '
             'registration mode, pair/module switches, hook status, converted?, owner, contract alive, receiver blocked, '
             'receiver length, returning, direct-hook class and status, history step?)',
        distribution=dict(dist), model_mismatches=len(mm), monitor_failures=len(ff),
        samples=[results[0]['spec'], results[len(results) // 2]['spec'], results[-1]['spec']] if results else []))
    run.coverage['trusted_base'] += [
        'translator tools/gotocoq/ics20hook (go/ast): symbolic execution of Keeper.OnRecvPacket, IBCMiddleware and ibc.Module '
        'callbacks (closures / same-package helpers inlined, nil-ness of errors tracked per path, tests classified by data flow, '
        'names irrelevant) -> decision trees in Gen/Ics20HookGen.v, flattened and normalised by Proofs/Ics20Source.v shape_of; '
        'obligations C16_source_is_model, C16_source_shape',
        'hand-written model Model/Ics20.v tied to x/aggregate (middleware, hook, IBCDenom, ConvertCoin for standard tokens) and '
        'to ibc-go core RecvPacket by this differential run (generator bounds what it sees)',
        'harness plumbing: channel transfer/channel-0 written directly into the IBC store over a 09-localhost client (handshake '
        'and proof verification are not exercised); everything from ChannelKeeper.RecvPacket on is the real code',
        'oracles: JSON codec, sdk.NewIntFromString, AccAddressFromBech32, sha256, ValidatePrefixedDenom, bytes of error '
        'acknowledgements — tabulated from the real functions per case; the wrapped application is an oracle (observed on a '
        'discarded branch) in the generic theorems and the concrete model Model/Ics20Transfer.v (kind 13 ties it to ibc-go\'s '
        'transfer module: class, success flag, result-acknowledgement bytes, receiver / escrow / module / supply) in the '
        'end-to-end theorems',
        'Props/C16_c11.v depends on property C11\'s Model/Convert.v and Proofs/Convert*.v (agreement of the two hook models)',
        'registered ERC-20 contracts behave like syscontracts ERC20MinterBurnerDecimals (adversarial tokens: property C11)']
    run.assumptions += [
        'transfer_sound: the transfer application acknowledges success only for decodable data with a positive amount and a '
        'bech32 receiver (monitor kind 51 checks it on every case)',
        'convert_spec: ConvertCoin returning nil either performed the full conversion of exactly the amount or (self-destructed '
        'contract) changed only the registry; proved for the concrete convert_coin of the model',
        'no sha256 collision between the hook\'s path and the released denomination of a returning packet (returning_* theorems)']

    if mm and not ff:
        # model and code disagree but no monitor failed: search harder for a concrete property failure on the real code
        # (4x budget, fresh seed) before reporting a bare correspondence break
        outp2 = os.path.join(run.work, 'search.jsonl')
        rc2, _ = vlib.run_harness('c16', ['-seed', run.seed + 7919, '-n', 4 * n, '-out', outp2])
        if rc2 == 0:
            more = [r for r in vlib.read_jsonl(outp2) if not r['obs'].get('setup_err')]
            mm2, ff2 = evaluate(run.work, more, 'search_cases')
            if mm2 is not None and ff2:
                off = len(results)
                results = results + more
                ff = [(h + off, s, k) for h, s, k in ff2]
            run.coverage['search_evaluations'] = len(more)

    reported = set()
    for h, s, k in ff:  # the property failed on the real code
        if (h, k) in reported:
            continue
        reported.add((h, k))
        spec = results[h]['spec']
        key = KNOWN_KEYS.get(k)
        if key and run.known_finding(key, 'key=%s %s (e.g. case %d: receiver of %d bytes)' % (
                key, KINDS[k], spec['id'], len(results[h]['obs']['recv_bytes']) // 2)):
            continue
        if len(run.violations) >= 3:
            continue
        small = shrink(run.work, spec, k, 'monitor')
        hist = history_of(results, h) if small.get('chain') else [small]
        rs = run_specs(run.work, hist, 'final') or [results[h]]
        run.violation(dict(kind='monitor', code=k, what=KINDS.get(k), key=key, spec=small, history=hist, observed=rs[-1]['obs']),
                      name='replay_c%d_k%d.json' % (h, k))
    if not run.violations:
        for h, s, k in mm[:1]:  # model and code disagree, property monitor silent
            small = shrink(run.work, results[h]['spec'], k, 'model')
            run.violation(dict(kind='correspondence', code=k, what=KINDS.get(k), spec=small,
                               history=history_of(results, h) if small.get('chain') else [small],
                               explanation='Model/Ics20.v no longer describes the ICS-20 stack of /repo; the theorems of '
                                           'Props/C16.v are about the model, so the property is no longer shown to hold',
                               broken='correspondence Model.Ics20 <-> x/aggregate ibc_middleware.go / keeper/ibc_hook.go'),
                          name='replay_corr_c%d.json' % h, no_input=True)
        if not run.proof_ok():
            run.proof_violation()
    return run.finish()


def replay(path):
    rp = json.load(open(path))
    work = os.path.join(vlib.ROOT, 'work', 'C16_replay')
    os.makedirs(work, exist_ok=True)
    ok, out = vlib.build_harness(['c16'])
    if not ok or 'spec' not in rp:
        print('cannot replay: %s' % (out[-500:] if not ok else 'no spec in replay file (%s)' % rp.get('kind')))
        return 2
    rs = run_specs(work, rp.get('history') or [rp['spec']], 'replay')
    if not rs:
        print('harness failed')
        return 2
    mm, ff = evaluate(work, rs, 'replay_cases')
    ob = rs[-1]['obs']
    print('bare:', json.dumps(ob['bare']))
    print('stack:', json.dumps(ob['stack']))
    print('core:', json.dumps(ob['core']))
    print('model mismatches:', mm, ' monitor failures:', ff)
    for _, _, k in (ff or []) + (mm or []):
        print('  kind %d: %s' % (k, KINDS.get(k)))
    if ff or mm:
        print('VIOLATION property=C16 replay=%s' % path)
        return 1
    print('replay passes on the current tree')
    return 0
