"""C17 — system-contract staking/governance adapters.
Model: coq/theories/Model/Adapter*.v; harness: harness/cmd/c17 (modes: hook, app)."""
import json
import os
from collections import Counter

import vlib
from vlib import coq_Z, coq_N, coq_bool, coq_list, coq_option

HEADER = ('From Teleport Require Import Base.Bytes Base.Outcome Model.Adapter Model.AdapterEvm Model.AdapterNative '
          'Model.AdapterCheck.\nLocal Open Scope Z_scope.\n')

KINDS = {
    1: 'model and code disagree on how the hook ends (nil / error / panic)',
    2: 'model and code disagree on the list of native messages the receipt is turned into',
    3: 'a message carried a denomination other than the bond denomination',
    11: 'a native message was executed without a matching log of the system contract',
    12: 'the hook succeeded but did not execute exactly one message per matching log',
    13: 'the signer of a native message is not the first field of its event',
    14: 'a field of a native message (validator, amount, proposal, option, weights) is not verbatim the field of its event',
    31: 'model and code disagree on the transaction result class',
    32: 'model and code disagree on the logs of the transaction (Solidity / EVM call model)',
    33: 'model and code disagree on the native state after the transaction',
    34: 'model and code disagree on the EVM-visible counters after the transaction',
    35: 'system contract addresses / event ids differ from the model constants',
    36: 'harness built an ill-formed call tree',
    41: 'a failed transaction changed native or EVM-visible state (atomicity)',
    42: 'state of an account that did not call the system contract changed (attribution)',
    43: 'the native effect differs from the arguments passed to the system contract',
    44: 'total supply changed, or balances no longer add up to it',
    45: 'coins burned by a slash did not arrive at the fee collector',
    46: 'a step or the block boundary after it panicked outside any recovery (the chain would halt)',
    47: 'state outside the observed universe appeared (another denomination, an unknown validator, a failing reward query)',
}

EVK = ['Delegated', 'Undelegated', 'Redelegated', 'Withdrew', 'Voted', 'VotedWeighted']


class Names:
    """byte strings that occur often (addresses, topics, validator strings, ABI words) are defined once per file.
    Measured on this image: Coq ingests byte-list literals at ~25 KB/s per core (string / number notations are
    slower), which bounds the case volume; long byte strings (ABI data) are therefore cut into 32-byte words, most of
    which (offsets, lengths, padding, validator strings, small amounts) repeat across cases."""

    def __init__(self):
        self.m = {}
        self.t = {}

    def name(self, hexstr):
        if hexstr not in self.m:
            self.m[hexstr] = 'b%d' % len(self.m)
        return self.m[hexstr]

    def b(self, hexstr):
        raw = bytes.fromhex(hexstr)
        if len(raw) in (20, 32):
            return self.name(hexstr)
        if len(raw) < 40:
            return vlib.coq_literal_bytes(raw)
        words = [hexstr[i:i + 64] for i in range(0, len(hexstr), 64)]
        parts = [self.name(w) if len(w) == 64 else vlib.coq_literal_bytes(bytes.fromhex(w)) for w in words]
        return '(concat %s)' % coq_list(parts)

    def term(self, typ, text):
        """a (large) term defined once per file"""
        key = (typ, text)
        if key not in self.t:
            self.t[key] = 't%d' % len(self.t)
        return self.t[key]

    def defs(self):
        return (''.join('Definition %s : bytes := %s.\n' % (n, vlib.coq_literal_bytes(bytes.fromhex(h)))
                        for h, n in self.m.items())
                + ''.join('Definition %s : %s := %s.\n' % (n, typ, text) for (typ, text), n in self.t.items()))


def nat(n):
    return '%d%%nat' % int(n)


def log_term(nm, l):
    return '{| l_addr := %s; l_topics := %s; l_data := %s |}' % (
        nm.b(l['addr']), coq_list([nm.b(t) for t in (l.get('topics') or [])]), nm.b(l['data']))


def signer(nm, d):
    if d.startswith('!'):
        return '[]'
    return nm.b(d)


def msg_term(nm, m):
    t = m['t']
    if t in ('delegate', 'undelegate'):
        return '(%s %s %s %s)' % ('MDelegate' if t == 'delegate' else 'MUndelegate', signer(nm, m['d']),
                                  nm.b(m.get('v', '')), coq_Z(m['a']))
    if t == 'redelegate':
        return '(MRedelegate %s %s %s %s)' % (signer(nm, m['d']), nm.b(m.get('v', '')), nm.b(m.get('w', '')), coq_Z(m['a']))
    if t == 'withdraw':
        return '(MWithdraw %s %s)' % (signer(nm, m['d']), nm.b(m.get('v', '')))
    if t == 'vote':
        return '(MVote %s %s %s)' % (signer(nm, m['d']), coq_N(m['pid']), coq_Z(m['opt']))
    if t == 'votew':
        return '(MVoteW %s %s %s)' % (signer(nm, m['d']), coq_N(m['pid']),
                                      coq_list(['(%s, %s)' % (coq_Z(o), coq_Z(w)) for o, w in (m.get('opts') or [])]))
    raise ValueError(t)


def hcase_term(nm, r, denom='stake'):
    s = r['spec']
    which = {'staking': 0, 'gov': 1, 'multi': 2}[s['which']]
    den_ok = all(m.get('den', denom) == denom for m in r['msgs'])
    return '{| hc_which := %s; hc_logs := %s; hc_fail_at := %s; hc_class := %s; hc_msgs := %s; hc_den_ok := %s |}' % (
        nat(which), coq_list([log_term(nm, l) for l in (s.get('logs') or [])]),
        coq_option(nat(s['fail_at']) if s['fail_at'] >= 0 else None), nat(r['class']),
        coq_list([msg_term(nm, m) for m in r['msgs']]), coq_bool(den_ok))


# ---- application cases ------------------------------------------------------------------------

def dkey(nm, k):
    d, i = k.split('/')
    return '(%s, %s)' % (nm.b(d), nat(i))


def snap_term(nm, s):
    """the observed state; identical states (failed transactions, consecutive steps) are defined once per file"""
    bal = coq_list(['(%s, %s)' % (nm.b(a), coq_Z(v)) for a, v in (s.get('bal') or [])])
    dels = coq_list(['(%s, %s)' % (dkey(nm, kv['k']), coq_Z(kv['v'][0])) for kv in (s.get('dels') or [])])
    ubds = coq_list(['(%s, %s)' % (dkey(nm, kv['k']), coq_list([coq_Z(x) for x in (kv['v'] or [])])) for kv in (s.get('ubds') or [])])
    reds = []
    for kv in (s.get('reds') or []):
        d, i, j = kv['k'].split('/')
        reds.append('((%s, %s, %s), %s)' % (nm.b(d), nat(i), nat(j), coq_list([coq_Z(x) for x in (kv['v'] or [])])))
    votes = []
    for kv in (s.get('votes') or []):
        pid, voter = kv['k'].split('/')
        v = kv['v'] or []
        votes.append('((%s, %s), %s)' % (coq_N(int(pid)), nm.b(voter),
                                         coq_list(['(%s, %s)' % (coq_Z(v[i]), coq_Z(v[i + 1])) for i in range(0, len(v), 2)])))
    props = coq_list(['(%s, %s)' % (coq_N(p), coq_bool(st == '2')) for p, st in (s.get('props') or [])])
    rew = coq_list(['(%s, %s)' % (dkey(nm, kv['k']), coq_Z(kv['v'][0])) for kv in (s.get('rew') or [])])
    ctr = coq_list(['(%s, %s)' % (nm.b(a), coq_N(v)) for a, v in (s.get('ctr') or [])])
    core = ('{| n_bal := %s; n_supply := %s; n_vtok := %s; n_dels := %s; n_ubds := %s; n_reds := %s; n_votes := %s; '
            'n_props := %s; n_rew := [] |}') % (bal, coq_Z(s['supply']), coq_list([coq_Z(x) for x in s['vtok']]), dels, ubds,
                                                  coq_list(reds), coq_list(votes), props)
    return '{| o_n := with_rew %s %s; o_ctr := %s |}' % (nm.term('nstate', core), rew, nm.term('list (bytes * N)', ctr))


def fn_term(nm, n):
    fn = n['fn']
    if fn == 'delegate':
        return '(FDelegate %s %s)' % (nm.b(n.get('v', '')), coq_N(n['a']))
    if fn == 'undelegate':
        return '(FUndelegate %s %s)' % (nm.b(n.get('v', '')), coq_N(n['a']))
    if fn == 'redelegate':
        return '(FRedelegate %s %s %s)' % (nm.b(n.get('v', '')), nm.b(n.get('w', '')), coq_N(n['a']))
    if fn == 'withdraw':
        return '(FWithdraw %s)' % nm.b(n.get('v', ''))
    if fn == 'vote':
        return '(FVote %s %s)' % (coq_N(n['pid']), coq_N(n['opt']))
    if fn == 'votew':
        return '(FVoteW %s %s)' % (coq_N(n['pid']), coq_list(['(%s, %s)' % (coq_N(o), coq_N(w)) for o, w in (n.get('opts') or [])]))
    raise ValueError(fn)


def node_addr(env, n):
    if n['k'] == 'sys':
        return env['gov'] if n['c'] == 'gov' else env['staking']
    if n['k'] == 'emit':
        return env['emitter']
    if n['k'] == 'batch':
        return env['batches'][n.get('p', 0)]
    return env['proxies'][n.get('p', 0)]


def code_term(nm, env, n):
    if n['k'] == 'sys':
        return '(CSys %s %s)' % ('HGov' if n['c'] == 'gov' else 'HStaking', fn_term(nm, n))
    if n['k'] == 'emit':
        return '(CEmit %s %s)' % (coq_list([nm.b(t) for t in (n.get('topics') or [])]), nm.b(n.get('data', '')))
    if n['k'] == 'batch':
        t = 'CStop'
        for it in reversed(n.get('items') or []):
            fl = it.get('flags', 0)
            t = '(CSeq %s %s %s %s %s)' % (CKINDS[fl & 3], coq_bool(fl & 4), nm.b(node_addr(env, it['inner'])),
                                           code_term(nm, env, it['inner']), t)
        return t
    fl = n.get('flags', 0)
    kind = CKINDS[fl & 3]
    return '(CProxy %s %s %s %s %s %s)' % (kind, coq_bool(fl & 4), coq_bool(fl & 8), coq_bool(fl & 16),
                                           nm.b(node_addr(env, n['inner'])), code_term(nm, env, n['inner']))


CKINDS = ['KCall', 'KDelegateCall', 'KStaticCall', 'KCallCode']
DUMMY_TX = '{| tx_sender := []; tx_to := []; tx_code := CEmit [] [] |}'


def astep_term(nm, env, st, o):
    if st['t'] in ('tx', 'create'):
        if st['t'] == 'create':
            code = '(CProxy KCall false false false %s %s)' % (nm.b(node_addr(env, st['call'])), code_term(nm, env, st['call']))
        else:
            code = code_term(nm, env, st['call'])
        tx = '{| tx_sender := %s; tx_to := %s; tx_code := %s |}' % (nm.b(o['sender']), nm.b(o['to']), code)
        vres = coq_list(['(%s, %s)' % (nm.b(v), coq_option(nat(i)) if i >= 0 else 'None') for v, i in sorted((o.get('vres') or {}).items())])
        kind = 0
    else:
        tx, vres, kind = DUMMY_TX, '[]', (2 if st['t'] == 'slash' else 1)
    other_ok = not o['pre'].get('other') and not o['post'].get('other')
    return ('{| a_kind := %s; a_tx := %s; a_vres := %s; a_pre := %s; a_post := %s; a_class := %s; a_logs := %s; '
            'a_halt := %s; a_other_ok := %s |}' % (
                nat(kind), tx, vres, snap_term(nm, o['pre']), snap_term(nm, o['post']), nat(o['class']),
                coq_list([log_term(nm, l) for l in (o.get('logs') or [])]), coq_bool(bool(o.get('halt'))), coq_bool(other_ok)))


def acase_term(nm, r):
    env = r['env']
    e = ('{| e_staking := %s; e_gov := %s; e_topics := %s; e_bonded := %s; e_notbonded := %s; e_distr := %s; e_feecoll := %s; '
         'e_max := %s |}') % (nm.b(env['staking']), nm.b(env['gov']), coq_list([nm.b(env['topics'][k]) for k in EVK]),
                              nm.b(env['bonded']), nm.b(env['notbonded']), nm.b(env['distr']), nm.b(env['feecoll']),
                              nat(env['max_entries']))
    steps = [astep_term(nm, env, st, o) for st, o in zip(r['spec']['steps'], r['obs'])]
    return '{| ac_env := %s; ac_steps := %s; ac_final := %s |}' % (e, coq_list(steps), snap_term(nm, r['final']))


# ---- corpus: the witnesses of Refuted/C17_refuted.v, replayed on the real hooks on every run ----------------

def _word(n):
    return '%064x' % n


def _enc_string(b):
    pad = (32 - len(b) % 32) % 32
    return _word(len(b)) + b.hex() + '00' * pad


def corpus_hook(env):
    d = '11' * 20
    val = b'val'
    t = env['topics']

    def delegated(amount):
        return dict(addr=env['staking'], topics=[t['Delegated']],
                    data='00' * 12 + d + _word(96) + _word(amount) + _enc_string(val))
    voted = dict(addr=env['gov'], topics=[t['Voted']], data='00' * 12 + d + _word(1) + _word(1))
    voted0 = dict(addr=env['gov'], topics=[t['Voted']], data='00' * 12 + d + _word(1) + _word(0))

    def amount_ev(name, amount):     # Delegated / Undelegated(address, string, uint256)
        return dict(addr=env['staking'], topics=[t[name]], data='00' * 12 + d + _word(96) + _word(amount) + _enc_string(val))

    def redelegated(amount):         # Redelegated(address, string, string, uint256)
        s1, s2 = _enc_string(b'src'), _enc_string(b'dst')
        return dict(addr=env['staking'], topics=[t['Redelegated']],
                    data='00' * 12 + d + _word(128) + _word(128 + len(s1) // 2) + _word(amount) + s1 + s2)

    def voted_p(pid, opt):
        return dict(addr=env['gov'], topics=[t['Voted']], data='00' * 12 + d + _word(pid) + _word(opt))

    def votedw(pid, ows):
        return dict(addr=env['gov'], topics=[t['VotedWeighted']],
                    data='00' * 12 + d + _word(pid) + _word(96) + _word(len(ows)) + ''.join(_word(o) + _word(w) for o, w in ows))
    BIG = [2 ** 63 - 1, 2 ** 63, 2 ** 64 - 1, 2 ** 64, 2 ** 64 + 5, 2 ** 128 + 5, 2 ** 255, 2 ** 256 - 1]
    unknown = dict(addr=env['staking'], topics=['ab' * 32], data='')
    return [
        dict(id=-1, which='staking', fail_at=-1, logs=[delegated(7), delegated(0)]),       # C17_hook_alone_not_atomic_refuted
        dict(id=-2, which='multi', fail_at=-1, logs=[voted, delegated(7)]),                # C17_global_log_order_refuted
        dict(id=-3, which='staking', fail_at=-1, logs=[dict(addr=env['staking'], topics=[], data='')]),   # C17_hook_total_refuted
        dict(id=-4, which='staking', fail_at=-1, logs=[dict(addr=env['staking'], topics=[t['Delegated']], data='')]),
        dict(id=-5, which='multi', fail_at=-1, logs=[dict(delegated(9), addr='22' * 20), delegated(9)]),   # look-alike + real
        # a failing item at every position of a receipt with several matching logs: the hook must fail whenever ANY fails
        dict(id=-6, which='staking', fail_at=-1, logs=[delegated(0), delegated(7)]),       # ValidateBasic fails first
        dict(id=-7, which='staking', fail_at=0, logs=[delegated(7), delegated(9)]),        # the router's handler fails first
        dict(id=-8, which='staking', fail_at=1, logs=[delegated(7), delegated(8), unknown, delegated(9)]),   # ... in the middle
        dict(id=-9, which='gov', fail_at=-1, logs=[voted0, voted]),
        dict(id=-10, which='gov', fail_at=0, logs=[voted, voted]),
        dict(id=-11, which='multi', fail_at=0, logs=[voted, delegated(7), voted]),         # staking fails, gov never runs
        dict(id=-12, which='multi', fail_at=1, logs=[voted, delegated(7), voted]),         # gov's first fails after staking ran
        dict(id=-13, which='multi', fail_at=-1, logs=[voted, delegated(7), voted, delegated(8)]),
        # near-miss addresses: same low 4 / 8 / 19 bytes as the system contract, and the other system contract
        dict(id=-14, which='multi', fail_at=-1, logs=[dict(delegated(9), addr='11' * 16 + env['staking'][32:]),
                                                       dict(delegated(9), addr='11' * 12 + env['staking'][24:]),
                                                       dict(delegated(9), addr='01' + env['staking'][2:]),
                                                       dict(delegated(9), addr=env['gov']), dict(voted, addr=env['staking']),
                                                       dict(voted, addr='11' * 12 + env['gov'][24:])]),
        # every handler's amount / id / weight path at and above 2^63, 2^64, 2^64 + small, 2^128 + small, 2^255, 2^256 - 1
        dict(id=-15, which='staking', fail_at=-1, logs=[amount_ev('Delegated', a) for a in BIG]),
        dict(id=-16, which='staking', fail_at=-1, logs=[amount_ev('Undelegated', a) for a in BIG]),
        dict(id=-17, which='multi', fail_at=-1, logs=[redelegated(a) for a in BIG]),
    ] + [
        # ... and each amount alone (a handler that mangles one amount into an invalid one stops the receipt above)
        dict(id=-30 - 3 * i - j, which='staking', fail_at=-1, logs=[mk(a)])
        for i, a in enumerate(BIG)
        for j, mk in enumerate([lambda x: amount_ev('Delegated', x), lambda x: amount_ev('Undelegated', x), redelegated])
    ] + [
        dict(id=-18, which='gov', fail_at=-1, logs=[voted_p(2 ** 63, 1), voted_p(2 ** 64 - 1, 4), voted_p(2 ** 63 + 1, 2)]),
        dict(id=-19, which='gov', fail_at=-1, logs=[votedw(2 ** 64 - 1, [(1, 60), (2, 40)]), votedw(2 ** 63, [(4, 100)])]),
        dict(id=-20, which='gov', fail_at=-1, logs=[votedw(1, [(1, 2 ** 63 + 100)])]),         # weight casts: rejected
        dict(id=-21, which='gov', fail_at=-1, logs=[votedw(1, [(1, 2 ** 64 - 50), (2, 150)])]),
        dict(id=-22, which='gov', fail_at=-1, logs=[votedw(1, [(2 ** 32 - 4, 100)])]),
        dict(id=-23, which='gov', fail_at=-1, logs=[voted_p(1, 2 ** 31 + 1)]),
    ]


CORPUS_EXPECT = {-1: (1, 1), -2: (0, 2), -3: (2, 0), -4: (2, 0), -5: (0, 1), -6: (1, 0), -7: (1, 0), -8: (1, 1), -9: (1, 0),
                 -10: (1, 0), -11: (1, 0), -12: (1, 1), -13: (0, 4), -14: (0, 0), -15: (0, 8), -16: (0, 8), -17: (0, 8), -18: (0, 3),
                 -19: (0, 2), -20: (1, 0), -21: (1, 0), -22: (1, 0), -23: (1, 0)}
CORPUS_EXPECT.update({-30 - k: (0, 1) for k in range(24)})   # id -> (class, number of messages)


def evaluate(workdir, results, mode, tag, shard=None):
    """returns (mismatches, monitor_failures) as lists of (case, step, kind) — or (None, log) when Coq failed"""
    shard = shard or (400 if mode == 'hook' else 12)
    shards = [results[i:i + shard] for i in range(0, len(results), shard)]

    def one(ix):
        i, sh = ix
        nm = Names()
        if mode == 'hook':
            terms = [hcase_term(nm, r) for r in sh]
            defs = 'Definition cases : list hcase := %s.\n' % coq_list(terms)
            qs = [('M', 'hook_mismatches cases'), ('F', 'hook_monitor_failures cases')]
        else:
            terms = [acase_term(nm, r) for r in sh]
            defs = 'Definition cases : list acase := %s.\n' % coq_list(terms)
            qs = [('M', 'app_mismatches cases'), ('F', 'app_monitor_failures cases')]
        res = vlib.coq_eval_lists(workdir, '%s_%s_%d.v' % (tag, mode, i), HEADER, nm.defs() + defs, qs)
        m = vlib.parse_nat_tuples(res.get('M'), 3)
        f = vlib.parse_nat_tuples(res.get('F'), 3)
        if res['_rc'] != 0 or m is None or f is None:
            return ('error', res['_out'][-3000:])
        off = i * shard
        return ([(h + off, s, k) for h, s, k in m], [(h + off, s, k) for h, s, k in f])

    outs = vlib.parallel(one, list(enumerate(shards)), workers=12)
    mm, ff = [], []
    for o in outs:
        if o[0] == 'error':
            return None, o[1]
        mm += o[0]
        ff += o[1]
    return mm, ff


def run_generated(run, mode, n, procs, extra=()):
    """run the harness in `procs` parallel shards; returns the list of result lines (None on a crash)"""
    per = (n + procs - 1) // procs

    def one(p):
        outp = os.path.join(run.work, '%s_out_%d.jsonl' % (mode, p))
        hmode, cflag = {'appcorpus': ('app', ['-corpus']), 'appsweep': ('app', ['-sweep'])}.get(mode, (mode, []))
        rc, o = vlib.run_harness('c17', ['-mode', hmode, '-seed', run.seed, '-from', p * per, '-n', per, '-out', outp] + cflag + list(extra))
        if rc != 0:
            return ('error', o[-3000:])
        return vlib.read_jsonl(outp)

    outs = vlib.parallel(one, list(range(procs)), workers=procs)
    res = []
    for o in outs:
        if isinstance(o, tuple):
            return None, o[1]
        res += [r for r in o if 'spec' in r]
    return res, None


def run_specs(workdir, specs, mode, tag):
    inp = os.path.join(workdir, tag + '_in.jsonl')
    out = os.path.join(workdir, tag + '_out.jsonl')
    vlib.write_jsonl(inp, specs)
    rc, o = vlib.run_harness('c17', ['-mode', mode, '-in', inp, '-out', out])
    if rc != 0:
        return None
    return [r for r in vlib.read_jsonl(out) if 'spec' in r]


def fails(workdir, spec, mode, which):
    rs = run_specs(workdir, [spec], mode, 'shrink')
    if not rs:
        return False
    mm, ff = evaluate(workdir, rs, mode, 'shrink')
    if mm is None:
        return False
    return len(ff if which == 'monitor' else mm) > 0


def shrink(workdir, spec, mode, which):
    """delta-debug the step list (app) / log list (hook), re-running the real code each time"""
    field = 'steps' if mode == 'app' else 'logs'
    best = spec
    budget = 30
    changed = True
    while changed and budget > 0:
        changed = False
        items = best.get(field) or []
        for i in range(len(items)):
            if len(items) <= 1:
                break
            cand = dict(best)
            cand[field] = items[:i] + items[i + 1:]
            budget -= 1
            if fails(workdir, cand, mode, which):
                best, changed = cand, True
                break
            if budget <= 0:
                break
    return best


def tree_shape(n):
    if n is None:
        return '-'
    if n['k'] == 'sys':
        return 'sys'
    if n['k'] == 'emit':
        return 'emit'
    if n['k'] == 'batch':
        def item(it):
            fl = it.get('flags', 0)
            pre = ['', 'delegatecall:', 'staticcall:', 'callcode:'][fl & 3] + ('ignorefail:' if fl & 4 else '')
            return pre + tree_shape(it['inner'])
        return 'batch[%s]' % ','.join(item(it) for it in (n.get('items') or []))
    fl = n.get('flags', 0)
    s = ['call', 'delegatecall', 'staticcall', 'callcode'][fl & 3]
    if fl & 4:
        s += '+ignorefail'
    if fl & 8:
        s += '+revert'
    if fl & 16:
        s += '+twice'
    return s + '>' + tree_shape(n['inner'])


def leaf(n):
    while n and n['k'] == 'proxy':
        n = n['inner']
    return n


def leaves(n):
    """every system-contract call / emitter of a call tree"""
    if n is None:
        return []
    if n['k'] == 'proxy':
        return leaves(n['inner'])
    if n['k'] == 'batch':
        return [x for it in (n.get('items') or []) for x in leaves(it['inner'])]
    return [n]


CLASSES = {0: 'ok', 1: 'evm-failed', 2: 'hook-failed', 3: 'tx-rejected', 4: 'panic-recovered'}


def coqchk_wiring(run):
    """vlib's coqchk stage covers Props/C17 and Refuted/C17_*; the wiring obligations live in their own file"""
    import re
    with vlib.Lock('coq'):
        rc, out = vlib.sh(['coqchk', '-silent', '-o', '-Q', vlib.THEORIES, 'Teleport', 'Teleport.Props.C17_wiring'],
                          cwd=vlib.COQ, timeout=2400)
    m = re.search(r'\* Axioms:(.*?)\n\s*\n\* Constants', out, flags=re.S)
    axioms = m.group(1).strip() if m else 'unparsed'
    run.coverage['coqchk_wiring'] = dict(cmd='coqchk -silent -o -Q theories Teleport Teleport.Props.C17_wiring', rc=rc, axioms=axioms)
    if rc != 0 or axioms != '<none>':
        run.proof['build_ok'] = False
        run.proof['build_log'] += '\n[coqchk C17_wiring]\n' + out[-2000:]


def check(run):
    # Model/AdapterCheck.v (comparison + monitors evaluated on the traces) must be rebuilt with the models it imports
    # Props/C17_wiring.v: the obligations over the terms regenerated from app.go / adapter.go / handler.go / the ABI
    run.proof_stage(extra_modules=['theories/Props/C17_wiring.v', 'theories/Model/AdapterCheck.v'])
    if not run.quick():
        run.coqchk_stage()
        coqchk_wiring(run)
    ok, out = vlib.build_harness(['c17'])
    if not ok:
        run.violation(dict(kind='harness-build-failed', log=out[-3000:],
                           explanation='the correspondence harness no longer builds against /repo'), no_input=True)
        return run.finish()

    n_hook = run.budget(3000, 50000)
    n_app = run.budget(100, 1600)
    hooks, err = run_generated(run, 'hook', n_hook, 8)
    if hooks:
        env0 = vlib.read_jsonl(os.path.join(run.work, 'hook_out_0.jsonl'))[0]['env']
        corpus = run_specs(run.work, corpus_hook(env0), 'hook', 'corpus')
        if corpus is None:
            hooks, err = None, 'corpus run failed'
        else:
            # the refuted statements' witnesses must still behave as the faithful model says (class, #messages);
            # the model comparison below covers the details
            run.coverage['refuted_witnesses_replayed'] = [
                dict(id=c['spec']['id'], cls=c['class'], msgs=len(c['msgs']),
                     as_modelled=(c['class'], len(c['msgs'])) == CORPUS_EXPECT[c['spec']['id']]) for c in corpus]
            hooks = corpus + hooks
    apps, err2 = (None, None) if hooks is None else run_generated(run, 'app', n_app, 12, ['-steps', run.budget(10, 16)])
    n_corpus = 0
    if hooks is not None and apps is not None:
        # directed histories (harness/cmd/c17/corpus.go) run first on every check, whatever the seed
        capps, err2 = run_generated(run, 'appcorpus', 96, 12)
        if capps is None:
            apps = None
        else:
            n_corpus = len(capps)
            apps = capps + apps
            if not run.quick():
                # thorough: every depth-2 call shape of the helper contracts (480 one-transaction histories)
                sweep, err2 = run_generated(run, 'appsweep', 480, 12)
                if sweep is None:
                    apps = None
                else:
                    run.coverage['app_sweep_histories'] = len(sweep)
                    apps = apps + sweep
    if hooks is None or apps is None:
        run.violation(dict(kind='harness-crashed', log=(err or err2)), no_input=True)
        return run.finish()

    # the two evaluations are independent: run them side by side
    (hm, hf), (am, af) = vlib.parallel(lambda x: evaluate(run.work, x[0], x[1], 'cases'), [(hooks, 'hook'), (apps, 'app')], workers=2)
    if hm is None or am is None:
        run.violation(dict(kind='coq-evaluation-failed', log=hf if hm is None else af), no_input=True)
        return run.finish()

    # ---- measured coverage ---------------------------------------------------------------------
    dist = Counter()
    nontrivial = set()
    for h in hooks:
        dist['hook_class_' + {0: 'nil', 1: 'error', 2: 'panic'}[h['class']]] += 1
        dist['hook_msgs_%d' % min(len(h['msgs']), 4)] += 1
        if h['spec']['fail_at'] >= 0:
            dist['hook_injected_native_failure'] += 1
        if h['msgs']:
            nontrivial.add(json.dumps([h['spec']['which'], h['msgs']], sort_keys=True))
        for m in h['msgs']:
            dist['hook_msg_' + m['t']] += 1
    tx_steps = 0
    for a in apps:
        for st, o in zip(a['spec']['steps'], a['obs']):
            if st['t'] in ('tx', 'create'):
                tx_steps += 1
                lfs = leaves(st['call'])
                dist['tx_' + CLASSES[o['class']]] += 1
                shape = ('create>' if st['t'] == 'create' else '') + tree_shape(st['call'])
                dist['shape_' + (shape if 'batch' not in shape else 'batch_%d_calls' % len(lfs))] += 1
                for lf in lfs:
                    if lf['k'] == 'sys':
                        dist['fn_%s_%s' % (lf['fn'], CLASSES[o['class']])] += 1
                nsys = sum(1 for l in (o.get('logs') or []) if l['addr'] in (a['env']['staking'], a['env']['gov']))
                if o['class'] in (0, 2):
                    dist['tx_%s_sys_events_%s' % (CLASSES[o['class']], min(nsys, 3))] += 1
                if o['class'] == 0 and o['pre'] != o['post']:
                    nontrivial.add(json.dumps([shape, lfs], sort_keys=True))
            else:
                dist['env_' + st['t']] += 1
                if st['t'] in ('advance', 'slash', 'block'):
                    # "burned" coins.  Slash: what the fee collector received inside the block.  Governance: deposits
                    # leave the gov escrow in EndBlock either back to the depositor (always the faucet here) or, when
                    # burned, to the fee collector, which BeginBlock sweeps into the distribution module.
                    env = a['env']
                    pre = dict((x, int(y)) for x, y in (o['pre'].get('bal') or []))
                    post = dict((x, int(y)) for x, y in (o['post'].get('bal') or []))
                    delta = lambda k: post.get(env[k], 0) - pre.get(env[k], 0)
                    if st['t'] == 'slash' and delta('feecoll') > 0:
                        dist['env_slash_burn_to_fee_collector'] += 1
                    if delta('govmod') < 0:
                        if -delta('govmod') > delta('faucet'):
                            dist['env_%s_gov_deposit_burned' % st['t']] += 1
                        if delta('faucet') > 0:
                            dist['env_%s_gov_deposit_refunded' % st['t']] += 1
    run.coverage.update(dict(
        evaluations=len(hooks) + sum(len(a['obs']) for a in apps),
        hook_cases=len(hooks), app_histories=len(apps), app_corpus_histories=n_corpus, app_transactions=tx_steps,
        distinct_nontrivial=len(nontrivial),
        rule='pure hook: receipts of 0-6 logs (canonical / mutated event data, system / look-alike / near-miss addresses, '
             'missing / extra / foreign topics, injected native failures) through the real PostTxProcessing with a recording '
             'router — non-trivial = at least one native message, distinct = distinct (hook, message list); application: '
             'histories of Ethereum transactions through DeliverTx (EOA / proxy / nested / DELEGATECALL / CALLCODE / STATICCALL / '
             'reverting / twice / batch of several calls from one contract / look-alike emitter / constructor callers; boundary '
             'arguments; failing native actions at every position of a receipt), directed corpus first, and '
             'environment steps (rewards, time, slashing, proposal expiry) — non-trivial = successful tx that changed state, '
             'distinct = distinct (call shape, call)',
        distribution=dict(sorted(dist.items())), model_mismatches=len(hm) + len(am), monitor_failures=len(hf) + len(af),
        samples=[hooks[1]['spec'] if len(hooks) > 1 else None, apps[0]['spec'] if apps else None,
                 apps[n_corpus]['spec'] if len(apps) > n_corpus else None]))
    run.coverage['trusted_base'] += [
        'hand-written models Model/Adapter.v (hooks, handlers, go-ethereum ABI decoding, ValidateBasic) tied to adapter/*, '
        'syscontracts/parser.go by the pure-hook differential run; Model/AdapterEvm.v (Solidity emit + EVM call/log semantics of the '
        'helper contracts) and Model/AdapterNative.v (SDK staking/distribution/gov handlers at exchange rate 1) tied by the '
        'application run (generator bounds what it sees)',
        'NOT proved, only validated by the application run: EVM execution and the byte code of Staking/Gov, ethermint '
        'ApplyTransaction atomicity (temporary context, hook error => revert), BaseApp panic recovery, cosmos-sdk handlers',
        'oracles tabulated from the real code: validator string -> validator (bech32 + lookup), pending rewards per delegation',
        'hand-assembled EVM byte code of the helper contracts (harness/cmd/c17/asm.go)',
        'translator tools/gotocoq/adapterwiring (go/ast + own keccak256): hook list, bank keepers, filtered addresses, handler '
        'tables and ABI event schemas / ids regenerated from the Go source on every run; Props/C17_wiring.v proves the model\'s '
        'constants equal to them']
    run.assumptions += [
        'user Ethereum transactions (DeliverTx); module-originated EVM calls are out of scope: x/xibc CallEVMWithData runs the '
        'hooks on a state branch since 0a3e419 (covered by C03), x/aggregate CallEVMWithData never runs the EVM hooks',
        'the other EVM hooks of app.go (aggregate, xibc packet) ignore the logs of these transactions',
        'validators bonded at exchange rate 1 in the native model (slashing only ends a history)',
        'only the system contract\'s own code lives at a system address (adapters\' InitGenesis, run by the harness; necessity: '
        'Refuted/C17_refuted.v C17_wf_tx_necessary_refuted)']

    # ---- decide -----------------------------------------------------------------------------------
    def report(mode, results, lst, which):
        seen = set()
        for c, s, k in lst:
            if c in seen:
                continue
            seen.add(c)
            spec = dict(results[c]['spec'])
            if mode == 'app':
                spec['steps'] = spec['steps'][:s + 1]
            small = shrink(run.work, spec, mode, which)
            obj = dict(kind=which, mode=mode, code=k, what=KINDS.get(k), spec=small, failing_step=s)
            if which == 'monitor':
                run.violation(obj, name='replay_%s_%d.json' % (mode, c))
            else:
                obj.update(explanation='the model of the adapters no longer describes the code; the theorems of Props/C17.v are '
                                       'about the model, so the property is no longer shown to hold',
                           broken='correspondence Model.Adapter* <-> adapter/*, syscontracts')
                run.violation(obj, name='replay_corr_%s_%d.json' % (mode, c), no_input=True)
            if len(run.violations) >= 3:
                return

    report('app', apps, af, 'monitor')
    if len(run.violations) < 3:
        report('hook', hooks, hf, 'monitor')
    if not run.violations and (hm or am):
        # model and code disagree while the monitors are silent: search harder for a failing input first
        more, _ = run_generated(run, 'app', n_app * 4, 12, ['-steps', 16])
        if more:
            mm2, ff2 = evaluate(run.work, more, 'app', 'search')
            if mm2 is not None and ff2:
                report('app', more, ff2, 'monitor')
        if not run.violations:
            if am:
                report('app', apps, am[:1], 'correspondence')
            else:
                report('hook', hooks, hm[:1], 'correspondence')
    if not run.violations and not run.proof_ok():
        run.proof_violation()
    return run.finish()


def replay(path):
    rp = json.load(open(path))
    work = os.path.join(vlib.ROOT, 'work', 'C17_replay')
    os.makedirs(work, exist_ok=True)
    ok, out = vlib.build_harness(['c17'])
    if not ok or 'spec' not in rp:
        print('cannot replay: %s' % (out[-500:] if not ok else 'no spec in replay file (%s)' % rp.get('kind')))
        return 2
    mode = rp.get('mode', 'app')
    rs = run_specs(work, [rp['spec']], mode, 'replay')
    if not rs:
        print('harness failed on the replay spec')
        return 2
    mm, ff = evaluate(work, rs, mode, 'replay')
    if mode == 'app':
        last = rs[0]['obs'][-1]
        print('observed (last step): class', last['class'], 'logs', len(last['logs']), last.get('err', ''))
    else:
        print('observed: class', rs[0]['class'], 'messages', json.dumps(rs[0]['msgs']))
    print('model mismatches:', mm, ' monitor failures:', ff)
    if ff or mm:
        print('VIOLATION property=C17 replay=%s' % path)
        return 1
    print('replay passes on the current tree')
    return 0
