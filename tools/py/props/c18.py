"""C18 — client lifecycle. Model: coq/theories/Model/Lifecycle.v; harness: harness/cmd/c18."""
import json
import os
import re
from collections import Counter

import vlib

HEADER = ('From Teleport Require Import Base.Bytes Base.Outcome Model.Lifecycle Model.LifecycleCheck.\n'
          'Local Open Scope N_scope.\n')

KINDS = {
    1: 'model and code disagree on the result class (ok / error / panic) of a step',
    2: 'model and code disagree on the block time',
    3: 'model and code disagree on the contents of a client store (keys or values)',
    4: 'model and code disagree on the relayer registry',
    5: 'model and code disagree on Status()',
    6: 'model and code disagree on the outcome of VerifyPacketCommitment with an honest proof',
    7: 'the client store holds an entry the harness cannot decode, or a raw key that is not the rendering of its structured key '
       '(regenerated key format)',
    8: 'model and code disagree on which clients exist',
    9: 'the step is outside the modelled fragment (ETH fork)',
    10: 'the Validate() oracle contradicts a condition the model knows to be necessary',
    11: 'a FAILED create / upgrade / toggle / register / update changed the state',
    12: 'a successful step changed something else than its own client store / the relayer registry',
    13: 'a client was created under an invalid or already used chain name',
    14: 'an upgrade succeeded without a client of the same type, or a toggle without a client of another type',
    15: 'after a successful proposal the stored client / consensus state are not those of the proposal (TSS: a consensus state was stored)',
    16: 'after a successful proposal the metadata the (new) client type needs for the installed height is missing',
    17: 'after a successful create / toggle the client store holds leftovers, or a consensus state of another client type',
    18: 'valid content was installed but the client is not Active, or an honest proof at the installed height fails for a reason other than the delay',
    19: 'a proposal whose consensus state is of another client type than its client state succeeded',
    20: 'an update with a valid header from the authorised account failed',
    21: 'a step panicked',
    22: 'after a successful update the client type changed / the TSS key was not rotated / the consensus state of the header is not stored',
    24: 'an ETH proposal whose consensus state root is not (as a 32-byte hash) the state root of its header was installed',
    23: 'an installed, unexpired client: the proof gate at the installed height did not open once the delay had passed (or opened before), '
        'or the installed consensus state / its metadata vanished',
}

TYPES = {'tm': 'TM', 'bsc': 'BSC', 'eth': 'ETH', 'tss': 'TSS', 'tendermint': 'TM'}


class Terms:
    """Coq term builder with interning (one Definition per distinct byte string / header / entry)."""

    def __init__(self):
        self.defs = []
        self.cache = {}

    def intern(self, prefix, typ, term):
        k = (typ, term)
        n = self.cache.get(k)
        if n is None:
            n = '%s%d' % (prefix, len(self.cache))
            self.cache[k] = n
            self.defs.append('Definition %s : %s := %s.' % (n, typ, term))
        return n

    def B(self, hx):
        if not hx:
            return '[]'
        return self.intern('b', 'bytes', '[' + ';'.join('x' + hx[i:i + 2] for i in range(0, len(hx), 2)) + ']')

    @staticmethod
    def N(n):
        return '%d' % int(n)

    @staticmethod
    def H(h):
        return '(%d, %d)' % (int(h[0]), int(h[1]))

    def blist(self, l):
        return '[' + '; '.join(self.B(x) for x in l) + ']'

    def hdr(self, j):
        t = ('{| eh_height := %s; eh_hash := %s; eh_parent := %s; eh_root := %s; eh_time := %s; eh_dg := %s; eh_coinbase := %s; '
             'eh_signer := %s; eh_vals := %s; eh_cons_dg := %s |}' % (
                 self.H(j['h']), self.B(j['hash']), self.B(j['parent']), self.B(j['root']), self.N(j['time']), self.B(j['dg']),
                 self.B(j['coinbase']), 'None' if j['signer'] is None else '(Some %s)' % self.B(j['signer']),
                 'None' if j['vals'] is None else '(Some %s)' % self.blist(j['vals']), self.B(j['cons_dg'])))
        return self.intern('h', 'evm_hdr', t)

    def cons(self, j):
        return self.intern('k', 'cons_state', '{| cs_type := %s; cs_ts := %s; cs_root := %s; cs_dg := %s |}' % (
            TYPES[j['t']], self.N(j['ts']), self.B(j['root']), self.B(j['dg'])))

    def client(self, j):
        t = j['t']
        if t == 'tm':
            s = '(ClTm %s %s %s %s %s)' % (self.H(j['latest']), self.N(j['trusting']), self.N(j['drift']), self.N(j['delay']), self.B(j['rest']))
        elif t == 'bsc':
            s = '(ClBsc %s %s %s %s %s)' % (self.hdr(j['hdr']), self.N(j['epoch']), self.blist(j['vals']), self.N(j['trusting']), self.B(j['rest']))
        elif t == 'eth':
            s = '(ClEth %s %s %s %s)' % (self.hdr(j['hdr']), self.N(j['block_delay']), self.N(j['trusting']), self.B(j['rest']))
        else:
            s = '(ClTss %s %s)' % (self.B(j['addr']), self.B(j['rest']))
        return self.intern('c', 'client_state', s)

    def entry(self, e):
        k = e['k']
        kv = None
        if k == 'client':
            kv = ('KClient', '(VClient %s)' % self.client(e['client']))
        elif k == 'cons':
            kv = ('(KCons %s)' % self.H(e['h']), '(VCons %s)' % self.cons(e['cons']))
        elif k == 'ptime':
            kv = ('(KPTime %s)' % self.H(e['h']), '(VTime %s)' % self.N(e['time']))
        elif k == 'iter':
            kv = ('(KIter %s)' % self.H(e['h']), '(VRefCons %s)' % self.H(e['ref']))
        elif k == 'signer':
            kv = ('(KSigner %s)' % self.H(e['h']), '(VAddr %s)' % self.B(e['addr']))
        elif k == 'pending':
            kv = ('KPending', '(VVals %s)' % self.blist(e.get('vals') or []))
        elif k == 'hidx':
            kv = ('(KHIdx %s %s)' % (self.B(e['hash']), self.N(e['n'])), '(VHeader %s)' % self.hdr(e['hdr']))
        elif k == 'rootmain':
            kv = ('(KRootMain %s %s)' % (self.B(e['hash']), self.N(e['n'])), '(VRefHIdx %s %s)' % (self.B(e['rhash']), self.N(e['rn'])))
        t = '{| oe_raw := %s; oe_kv := %s |}' % (self.B(e['key']), 'None' if kv is None else '(Some (%s, %s))' % kv)
        return self.intern('e', 'oentry', t)

    def store(self, s):
        return self.intern('s', '(bytes * list oentry)%type',
                           '(%s, [%s])' % (self.B(s['name']), '; '.join(self.entry(e) for e in s['entries'])))

    def obs(self, o):
        probes = []
        for p in o['probes']:
            probes.append('{| pr_name := %s; pr_status := %d%%nat; pr_tssproof := %s; pr_gates := [%s] |}' % (
                self.B(p['name']), p['status'], self.B(p.get('tss_proof') or ''),
                '; '.join('(%s, %d%%nat)' % (self.H(g['h']), g['cls']) for g in p['gates'])))
        return ('{| o_class := %d%%nat; o_now := %s; o_stores := [%s]; o_relayers := [%s]; o_rest := %s; o_probes := [%s] |}' % (
            o['class'], self.N(o['now']), '; '.join(self.store(s) for s in o['stores']),
            '; '.join('(%s, %s)' % (self.B(r['addr']), self.blist(r['chains'])) for r in o['relayers']),
            self.B(o['rest_hash']), '; '.join(probes)))

    def proposal(self, j):
        # a client state the harness could not even project (its construction panicked) never validates
        cl = self.client(j['client']) if j.get('client') else '(ClTss [] [])'
        return '{| p_name := %s; p_client := %s; p_cons := %s; p_validate := %s |}' % (
            self.B(j.get('name') or ''), cl, self.cons(j['cons']), 'true' if j['validate'] and j.get('client') else 'false')

    def uhdr(self, j):
        if j['t'] == 'tm':
            return '(HTm %s %s %s %s)' % (self.H(j['trusted']), self.H(j['h']), self.cons(j['cons']), 'true' if j['hv'] else 'false')
        if j['t'] == 'evm':
            return '(HEvm %s %s %s)' % (TYPES[j['et']], self.hdr(j['hdr']), 'true' if j['hv'] else 'false')
        return '(HTss %s %s)' % (self.B(j['addr']), self.B(j['rest']))

    def op(self, j):
        k = j['k']
        if k in ('create', 'upgrade', 'toggle'):
            return '(%s %s)' % (k.capitalize(), self.proposal(j))
        if k == 'register':
            return '(Register %s %s %s)' % (self.B(j.get('addr') or ''), self.blist(j.get('chains') or []), 'true' if j['wf'] else 'false')
        if k == 'update':
            return '(Update %s %s %s %s)' % (self.B(j.get('name') or ''), self.uhdr(j['hdr']), self.B(j.get('signer') or ''), 'true' if j['vb'] else 'false')
        return '(Tick %s)' % self.N(j['dt'])

    def case(self, r):
        steps = '; '.join('{| os_op := %s; os_obs := %s |}' % (self.op(s['op']), self.obs(s['obs'])) for s in r['steps'])
        return '{| oc_tmfx := %s; oc_evmfx := %s; oc_init := %s; oc_steps := [%s] |}' % (
            self.B(r['tm_fx']), self.B(r['evm_fx']), self.obs(r['init']), steps)


SHARD = 20


def evaluate(workdir, results, tag='cases'):
    """returns (mismatches, monitor_failures) as lists of (case, step, kind), or (None, log) on a Coq failure"""
    shards = [results[i:i + SHARD] for i in range(0, len(results), SHARD)]

    def one(ix):
        i, sh = ix
        t = Terms()
        cases = [t.case(r) for r in sh]
        defs = '\n'.join(t.defs) + '\nDefinition cases : list ocase := [%s].\n' % ';\n '.join(cases)
        res = vlib.coq_eval_lists(workdir, '%s_%d.v' % (tag, i), HEADER, defs,
                                  [('M', 'mismatches cases'), ('F', 'monitor_failures cases')])
        m = vlib.parse_nat_tuples(res.get('M'), 3)
        f = vlib.parse_nat_tuples(res.get('F'), 3)
        if res['_rc'] != 0 or m is None or f is None:
            return ('error', res['_out'][-3000:])
        off = i * SHARD
        return ([(h + off, s, k) for h, s, k in m], [(h + off, s, k) for h, s, k in f])

    outs = vlib.parallel(one, list(enumerate(shards)), workers=12)
    mm, ff = [], []
    for o in outs:
        if o[0] == 'error':
            return None, o[1]
        mm += o[0]
        ff += o[1]
    return mm, ff


def run_specs(workdir, specs, tag):
    inp = os.path.join(workdir, tag + '_in.jsonl')
    out = os.path.join(workdir, tag + '_out.jsonl')
    vlib.write_jsonl(inp, specs)
    rc, o = vlib.run_harness('c18', ['-in', inp, '-out', out])
    if rc != 0:
        return None
    return vlib.read_jsonl(out)


def shrink(workdir, spec, want_kind, cls):
    """delta-debug the step list (re-running the real code each time); keeps the failure kind"""
    def fails(sp):
        rs = run_specs(workdir, [sp], 'shrink')
        if not rs:
            return False
        mm, ff = evaluate(workdir, rs, 'shrink_cases')
        if mm is None:
            return False
        got = ff if cls == 'monitor' else mm
        return any(k == want_kind for _, _, k in got)
    best = spec
    budget = 30
    changed = True
    while changed and budget > 0:
        changed = False
        for i in range(len(best['steps'])):
            if len(best['steps']) <= 1:
                break
            cand = dict(best)
            cand['steps'] = best['steps'][:i] + best['steps'][i + 1:]
            budget -= 1
            if fails(cand):
                best = cand
                changed = True
                break
            if budget <= 0:
                break
    return best


def describe(step_spec, op):
    d = op['k']
    if op.get('client'):
        d += ':' + op['client']['t'] + '+' + op['cons']['t']
    if op.get('hdr'):
        d += ':' + (op['hdr'].get('et') or op['hdr']['t'])
    return d


KNOWN_COLLISION = ('key=eth-revision-collision an ETH UpgradeClient proposal re-installed an already stored block under another revision '
                   'number (consistent content); the shared ethRootMain entry was deleted when the first consensus state was pruned and a '
                   'later valid update of the Active client is refused (header index missing)')


def hash32(hx):
    """common.BytesToHash on a hex string"""
    return hx[-64:] if len(hx) > 64 else hx.rjust(64, '0')


def store_of(obs, name):
    for st in obs['stores']:
        if st['name'] == name:
            return st['entries']
    return []


def is_revision_collision(r, s):
    """the SPECIFIC signature of KNOWN_FINDINGS eth-revision-collision for the refused update at step s of case r:
    (1) the refused step is an update with an ETH header of an ETH client;
    (2) earlier, with no create / toggle for the chain name in between, an ETH upgrade succeeded whose header has the
        revision HEIGHT and the state root of a consensus state stored at that moment under ANOTHER revision number;
    (3) when the update is refused, a stored ETH consensus state has no ethRootMain entry (root as 32-byte hash, height)."""
    op = r['steps'][s - 1]['op']
    if op['k'] != 'update' or op['hdr'].get('et') != 'eth':
        return False
    name = op.get('name')
    obs_before = [r['init']] + [st['obs'] for st in r['steps']]
    collided = False
    for j in range(1, s):
        o, ob = r['steps'][j - 1]['op'], r['steps'][j - 1]['obs']
        if ob['class'] != 0 or o.get('name') != name:
            continue
        if o['k'] in ('create', 'toggle'):
            collided = False
        elif o['k'] == 'upgrade' and o['client']['t'] == 'eth':
            rev, n = o['client']['hdr']['h']
            root = hash32(o['client']['hdr']['root'])
            for e in store_of(obs_before[j - 1], name):
                if e['k'] == 'cons' and e['cons']['t'] == 'eth' and e['h'][1] == n and e['h'][0] != rev and hash32(e['cons']['root']) == root:
                    collided = True
    if not collided:
        return False
    pre = store_of(obs_before[s - 1], name)
    mains = {(hash32(e['hash']), e['n']) for e in pre if e['k'] == 'rootmain'}
    return any(e['k'] == 'cons' and e['cons']['t'] == 'eth' and (hash32(e['cons']['root']), e['h'][1]) not in mains for e in pre)


def finding_key(kind, results, h, s):
    """signature of a monitor failure (the specific failing input) for KNOWN_FINDINGS.txt"""
    r = results[h]
    op = r['steps'][s - 1]['op']
    if kind == 20 and is_revision_collision(r, s):
        return 'eth-revision-collision'
    types_before = []
    for st in r['steps'][:s - 1]:
        if st['op']['k'] in ('create', 'toggle', 'upgrade') and st['obs']['class'] == 0 and st['op'].get('name') == op.get('name'):
            types_before.append(st['op']['client']['t'])
    if kind == 19:
        return 'consensus-type-mismatch'
    if kind == 24:
        return 'eth-foreign-root-prune'
    if kind == 16 and op['k'] == 'upgrade' and op['client']['t'] == 'tm':
        return 'tm-upgrade-no-metadata'
    if kind in (17, 20) and len(set(types_before)) > 1 or (kind == 17 and op['k'] == 'toggle'):
        return 'toggle-leftover-consensus'
    if kind in (15, 16, 18) and op['k'] == 'toggle':
        return 'toggle:%s->%s' % (types_before[-1] if types_before else '?', op['client']['t'])
    if kind in (20, 21) and op['k'] == 'update' and op['hdr']['t'] == 'tss':
        return 'tss-update'
    if kind == 15 and op['k'] == 'upgrade' and op['client']['t'] == 'tss':
        return 'tss-upgrade-zero-height-consensus'
    return 'kind-%d:%s' % (kind, describe(None, op))


def classify_error(err):
    """coarse class of a rejection, from the error text (used for the measured distribution only, never compared)"""
    e = (err or '').lower()
    for pat, name in (('unauthorized', 'unauthorized-relayer'), ('invalid tss address', 'tss-signer'), ('not active', 'client-not-active'),
                      ('recently signed', 'bsc-recently-signed'), ('unauthorized validator', 'bsc-unauthorized-validator'),
                      ('coinbase', 'bsc-coinbase-mismatch'), ('unknown ancestor', 'unknown-ancestor'), ('header index not found', 'eth-prune-unrooted'),
                      ('from the future', 'from-the-future'), ('failed to verify header', 'tm-light-verify'),
                      ('consensus state', 'consensus-state-missing-or-foreign'), ('client-type', 'client-type'), ('client type', 'client-type'),
                      ('already exists', 'client-exists'), ('not found', 'not-found'), ('identifier', 'invalid-identifier'),
                      ('expected type', 'header-of-another-type'), ('difficulty', 'wrong-difficulty'), ('genesis', 'invalid-genesis-block'),
                      ('epoch', 'bsc-epoch'), ('bloom', 'bloom'), ('address', 'bad-address')):
        if pat in e:
            return name
    return 'other' if e else 'none'


def cons_heights(store):
    return set(tuple(e['h']) for e in store['entries'] if e['k'] == 'cons')


def check(run):
    run.proof_stage(extra_modules=['theories/Model/LifecycleCheck.v'])
    if not run.quick():
        run.coqchk_stage()
    ok, out = vlib.build_harness(['c18'])
    if not ok:
        run.violation(dict(kind='harness-build-failed', log=out[-3000:],
                           explanation='the correspondence harness no longer builds against /repo'), no_input=True)
        return run.finish()
    n = run.budget(96, 1500)
    outp = os.path.join(run.work, 'out.jsonl')
    # thorough: the boundary histories of the corpus over a parameter grid (trusting periods, delays, epochs, validator counts)
    rc, o = vlib.run_harness('c18', ['-seed', run.seed, '-n', n, '-out', outp] + ([] if run.quick() else ['-sweep']))
    if rc != 0:
        run.violation(dict(kind='harness-crashed', log=o[-3000:]), no_input=True)
        return run.finish()
    tags = {}
    m = re.search(r'^tags (\{.*\})$', o, flags=re.M)
    if m:
        tags = json.loads(m.group(1))
    results = vlib.read_jsonl(outp)
    mm, ff = evaluate(run.work, results)
    if mm is None:
        run.violation(dict(kind='coq-evaluation-failed', log=ff), no_input=True)
        return run.finish()

    # measured coverage
    dist = Counter()
    nontrivial = set()
    toggles = set()
    steps = 0
    for r in results:
        cur = {}
        prev = r['init']
        for st in r['steps']:
            steps += 1
            op, ob = st['op'], st['obs']
            if ob['class'] != 0 and op['k'] != 'tick':
                dist['reject/%s/%s' % (op['k'], classify_error(ob.get('err')))] += 1
            if op['k'] == 'update' and ob['class'] == 0:
                # measured reach of the pruning / validator-switch branches of the light clients
                for a, b in zip(prev['stores'], ob['stores']):
                    if a['name'] == op.get('name'):
                        gone = cons_heights(a) - cons_heights(b)
                        if gone:
                            dist['update-pruned-a-consensus-state/%s' % (op['hdr'].get('et') or op['hdr']['t'])] += 1
                        ca = [e for e in a['entries'] if e['k'] == 'client']
                        cb = [e for e in b['entries'] if e['k'] == 'client']
                        if ca and cb and ca[0]['client']['t'] == 'bsc' and ca[0]['client']['vals'] != cb[0]['client']['vals']:
                            dist['bsc-validator-set-switched'] += 1
                        if sum(1 for e in a['entries'] if e['k'] == 'signer') >= sum(1 for e in b['entries'] if e['k'] == 'signer') and ca and ca[0]['client']['t'] == 'bsc':
                            dist['bsc-recent-signer-shifted-out'] += 1
            prev = ob
            d = describe(None, op)
            dist['%s/%s' % (op['k'], ['ok', 'error', 'panic'][ob['class']])] += 1
            if op['k'] != 'tick':
                nontrivial.add((d, cur.get(op.get('name')), ob['class'], ob['stage']))
            if op['k'] in ('create', 'upgrade', 'toggle') and ob['class'] == 0:
                if op['k'] == 'toggle':
                    toggles.add((cur.get(op['name']), op['client']['t']))
                cur[op['name']] = op['client']['t']
            for p in ob['probes']:
                for g in p['gates']:
                    dist['gate-class-%d' % g['cls']] += 1
                dist['status-%d' % p['status']] += 1
    dist['toggle_pairs_succeeded'] = len(toggles)
    run.coverage.update(dict(
        evaluations=steps, histories=len(results), distinct_nontrivial=len(nontrivial),
        rule='sequences of Create/Upgrade/Toggle/RegisterRelayer proposals (real proposal handler, gov cache-context discipline), '
             'MsgUpdateClient transactions (BaseApp.Deliver) and block-time steps on a fresh app per sequence; a step is non-trivial '
             'when it is not a clock step; distinct = distinct (operation with client/consensus/header types, client type before, '
             'result class, rejecting stage)',
        distribution=dict(dist), generator_tags=tags, toggle_pairs=sorted('%s->%s' % t for t in toggles),
        model_mismatches=len(mm), monitor_failures=len(ff),  # includes the failures attributed to a listed KNOWN finding (known_findings_met)
       
        traces_validated_against_impl=len(results) - len({h for h, _, _ in mm}),
        samples=[r['spec'] for r in results if r['spec'].get('tag') == 'corpus:back-tm->tss->tm'][:1] + ([results[-1]['spec']] if results else [])))
    run.coverage['trusted_base'] += [
        'hand-written model Model/Lifecycle.v tied to x/xibc/core/client + the four client types by this differential run '
        '(the generator bounds what it sees); key formats regenerated from the Go sources (Gen/KeysGen.v)',
        'oracles supplied by the real code per case: header hashes, BSC seal recovery and validator parsing, clientState.Validate(), '
        'MsgUpdateClient.ValidateBasic(); "remaining header checks pass" (hv) is the generator\'s construction intent (valid child '
        'header / deliberately corrupted one); honest proofs: real ICS-23 proof (cosmos-sdk rootmulti store) and real MPT account+storage '
        'proof (go-ethereum trie), verified by the real VerifyPacketCommitment',
        'cosmos-sdk: gov runs a passed proposal on a cache context written only on success; BaseApp discards the writes of a failed '
        'or panicking message (both reproduced by the harness: the first by construction, the second by BaseApp.Deliver itself)']
    run.assumptions += [
        'block times after 1970 and below 2^63 ns; Tendermint periods non-negative (time.Time/Duration arithmetic modelled in N)',
        'BSC validator addresses and all roots/hashes have their canonical length (20 / 32 bytes); BSC/ETH heights use revision 0',
        'ETH forks (RestrictChain) are outside this model (C10); a fork case is reported as mismatch kind 9, never accepted silently']

    reported = set()
    known_hits = []
    for h, s, k in ff:  # the property failed on the real code
        if h in reported:
            continue
        key = finding_key(k, results, h, s)
        what = '%s (key=%s, case tag %s, step %d: %s)' % (KINDS.get(k), key, results[h]['spec'].get('tag'), s, describe(None, results[h]['steps'][s - 1]['op']))
        spec = dict(results[h]['spec'])
        spec['steps'] = spec['steps'][:s]
        small = None
        if key == 'eth-revision-collision':
            # an unfixed, listed finding: the MINIMISED history has to show the same specific signature (the directed
            # corpus case is minimal already); anything else stays a violation
            tag = str(results[h]['spec'].get('tag'))
            if tag.startswith('corpus:') or tag.startswith('sweep:'):
                confirmed = True
            else:
                small = shrink(run.work, spec, k, 'monitor')
                rs = run_specs(run.work, [small], 'known')
                confirmed = False
                if rs:
                    _, ff2 = evaluate(run.work, rs, 'known_cases')
                    confirmed = any(k2 == 20 and is_revision_collision(rs[0], s2) for _, s2, k2 in (ff2 or []))
            if confirmed and run.known_finding(key, KNOWN_COLLISION):
                known_hits.append(dict(case=results[h]['spec'].get('tag'), step=s))
                continue  # a later, different failure of the same history is still looked at
        reported.add(h)
        if small is None:
            small = shrink(run.work, spec, k, 'monitor')
        run.violation(dict(kind='monitor', code=k, what=KINDS.get(k), key=key, spec=small, failing_step=s,
                           op=results[h]['steps'][s - 1]['op'], observed_class=results[h]['steps'][s - 1]['obs']['class'],
                           observed_error=results[h]['steps'][s - 1]['obs'].get('err')), name='replay_h%d.json' % h)
        if len(run.violations) >= 3:
            break
    run.coverage['known_findings_met'] = known_hits
    if not run.violations:
        for h, s, k in mm[:1]:  # model and code disagree, property monitor silent
            if s == 0:
                spec = dict(results[h]['spec'])
                small = spec
            else:
                spec = dict(results[h]['spec'])
                spec['steps'] = spec['steps'][:s]
                small = shrink(run.work, spec, k, 'model')
            run.violation(dict(kind='correspondence', code=k, what=KINDS.get(k), spec=small, failing_step=s,
                               op=results[h]['steps'][s - 1]['op'] if s else None,
                               observed=dict(cls=results[h]['steps'][s - 1]['obs']['class'], err=results[h]['steps'][s - 1]['obs'].get('err')) if s else None,
                               explanation='Model/Lifecycle.v (head_cfg) no longer describes the client lifecycle code; the theorems of '
                                           'Props/C18.v are about the model, so the property is no longer shown to hold',
                               broken='correspondence Model.Lifecycle <-> x/xibc/core/client + client types'),
                          name='replay_corr_h%d.json' % h, no_input=True)
        if not run.proof_ok():
            run.proof_violation()
    return run.finish()


def replay(path):
    rp = json.load(open(path))
    work = os.path.join(vlib.ROOT, 'work', 'C18_replay')
    os.makedirs(work, exist_ok=True)
    ok, out = vlib.build_harness(['c18'])
    if not ok or 'spec' not in rp:
        print('cannot replay: %s' % (out[-500:] if not ok else 'no spec in replay file (%s)' % rp.get('kind')))
        return 2
    rs = run_specs(work, [rp['spec']], 'replay')
    mm, ff = evaluate(work, rs, 'replay_cases')
    last = rs[0]['steps'][-1] if rs[0]['steps'] else None
    if last:
        print('last step:', json.dumps(last['op'])[:400])
        print('observed: class=%d stage=%s err=%s probes=%s' % (last['obs']['class'], last['obs']['stage'], last['obs'].get('err'), json.dumps(last['obs']['probes'])))
    print('model mismatches:', [(s, k, KINDS.get(k)) for _, s, k in (mm or [])], ' monitor failures:', [(s, k, KINDS.get(k)) for _, s, k in (ff or [])])
    if mm is None or ff or mm:
        print('VIOLATION property=C18 replay=%s' % path)
        return 1
    print('replay passes on the current tree')
    return 0
