"""C07 — Tendermint light client. Model: coq/theories/Model/Tendermint.v; harness: harness/cmd/c07."""
import json
import os
from collections import Counter

import vlib
from vlib import coq_literal_bytes as cb, coq_Z, coq_N, coq_bool, coq_list, coq_option

HEADER = ('From Teleport Require Import Base.Bytes Base.Outcome Model.Tendermint Model.TendermintCheck.\n'
          'Local Open Scope Z_scope.\nLocal Open Scope string_scope.\n')

KINDS = {
    1: 'model and code disagree on the result class of Header.ValidateBasic',
    2: 'model and code disagree on the result class of CheckHeaderAndUpdateState',
    3: 'model and code disagree on the client / consensus state returned by CheckHeaderAndUpdateState',
    4: 'model and code disagree on the client store left by CheckHeaderAndUpdateState',
    5: 'model and code disagree on the result class of ClientKeeper.UpdateClient',
    6: 'model and code disagree on the client store after ClientKeeper.UpdateClient',
    7: 'model and code disagree on the result class of VerifyPacketCommitment/Acknowledgement',
    8: 'VerifyPacketCommitment/Acknowledgement changed the client store',
    9: 'no client state in the observed client store',
    10: 'model and code disagree on the result class of ClientState.Validate',
    11: 'header accepted although the trusted validator set does not hash to the next-validators hash stored at the trusted height (or no such consensus state)',
    12: 'header accepted although it is not newer than the trusted height in the same revision',
    13: 'header accepted although the trusted state is expired or the header time is outside (trusted time, now + drift)',
    14: 'header accepted although header, validator set and commit are inconsistent',
    15: 'header accepted although not more than 2/3 of its own validator set signed',
    16: 'header accepted although not more than the trust level of the trusted set signed (non-adjacent) / own set is not the stored next set (adjacent)',
    17: 'accepted header changed the client store differently from: consensus state + processed time + iteration key at its height, client state latest height, earliest expired entry pruned (or a rejected update changed the store)',
    18: 'latest height lowered or not the maximum of old latest and header height',
    19: 'header accepted although the client was expired',
    21: 'proof honoured against a height above the latest height',
    22: 'proof honoured against a height without consensus state',
    23: 'proof honoured before processed time + delay period',
    24: 'proof honoured although the proof verification rejected it',
    25: 'proof verification changed the client store',
    26: 'proof honoured before (block time at which the last accepted header for that height was processed, per this trace) + delay period',
    27: 'proof honoured against a consensus state that is not the one of the last header accepted for that height in this trace',
}

SHARD = 30


_BYTES = None   # the Terms object collecting shared definitions while a shard is rendered


def hb(h):
    """byte string literal: hex string decoded inside Coq (Model/TendermintCheck.v: hx); every distinct longer string is
    defined once per file (Coq's cost is proportional to the literal text)"""
    if not h:
        return '[]'
    t = '(hx "%s")' % h.lower()
    if _BYTES is not None and len(h) >= 16:
        return _BYTES.share_bytes(t)
    return t


def height(h):
    return '(mkH %s %s)' % (coq_N(h['rev']), coq_N(h['h']))


def client(c):
    return ('(Build_client_state %s %s %s %s %s %s %s %s %s)' % (
                hb(c['chain_id']), coq_N(c['tl_num']), coq_N(c['tl_den']), coq_Z(c['trusting']), coq_Z(c['unbonding']),
                coq_Z(c['drift']), height(c['latest']), coq_N(c['delay']), hb(c['rest'])))


def cons(c):
    return '(Build_cons_state %s %s %s)' % (coq_Z(c['time']), hb(c['root']), hb(c['nvh']))


class Terms:
    """shares large sub-terms through Definitions (the same store entries occur in many dumps)"""

    def __init__(self):
        self.names = {}
        self.defs = []

    def share(self, term, ty):
        if len(term) < 120:
            return term
        n = self.names.get(term)
        if n is None:
            n = 'd%d' % len(self.names)
            self.names[term] = n
            self.defs.append('Definition %s : %s := %s.' % (n, ty, term))
        return n

    def share_bytes(self, term):
        n = self.names.get(term)
        if n is None:
            n = 'b%d' % len(self.names)
            self.names[term] = n
            self.defs.append('Definition %s : bytes := %s.' % (n, term))
        return n

    def entry(self, e):
        if e.get('client') is not None:
            v = '(VClient %s)' % client(e['client'])
        elif e.get('cons') is not None:
            v = '(VCons %s)' % cons(e['cons'])
        else:
            v = '(VBytes %s)' % hb(e['bytes'])
        return self.share('(%s, %s)' % (hb(e['k']), v), '(bytes * value)%type')

    def store(self, s):
        return self.share(coq_list([self.entry(e) for e in s]), 'store')


def pk(p):
    return 'None' if p is None else '(Some (%d%%nat, %s))' % (p['t'], hb(p['b']))


def pval(v):
    return '(Build_pvalidator %s %s %s)' % (hb(v['addr']), pk(v['pk']), coq_Z(v['power']))


def pvalset(vs):
    if vs is None:
        return 'None'
    return '(Some (Build_pvalset %s %s))' % (
        coq_list([pval(v) for v in vs['vals']]), 'None' if vs['proposer'] is None else '(Some %s)' % pval(vs['proposer']))


def block_id(b):
    return '(Build_block_id %s (Build_part_set_header %s %s))' % (hb(b['hash']), coq_N(b['total']), hb(b['phash']))


def pheader(h):
    return ('(Build_pheader %s %s %s %s %s %s %s %s %s %s %s %s %s %s %s)' % (
                coq_N(h['vb']), coq_N(h['va']), hb(h['chain']), coq_Z(h['height']), coq_Z(h['time']), block_id(h['last']),
                hb(h['last_commit']), hb(h['data']), hb(h['vals']), hb(h['next_vals']), hb(h['cons']), hb(h['app']),
                hb(h['last_res']), hb(h['evid']), hb(h['proposer'])))


def pcommit(c):
    sigs = ['(Build_commit_sig %s %s %s %s)' % (
        coq_N(s['flag']), hb(s['addr']), coq_Z(s['time']), hb(s['sig'])) for s in c['sigs']]
    return '(Build_pcommit %s %s %s %s)' % (
        coq_Z(c['height']), coq_Z(c['round']), block_id(c['block']), coq_list(sigs))


def header(h):
    if h['signed'] is None:
        sh = 'None'
    else:
        s = h['signed']
        sh = '(Some (Build_signed_header %s %s))' % (
            'None' if s['header'] is None else '(Some %s)' % pheader(s['header']),
            'None' if s['commit'] is None else '(Some %s)' % pcommit(s['commit']))
    return '(Build_header %s %s %s %s)' % (
        sh, pvalset(h['valset']), height(h['th']), pvalset(h['tvals']))


def hash_input(vs):
    """(key, power) list the model hashes; None when a key is missing (the model never hashes such a set)"""
    if vs is None or any(v['pk'] is None for v in vs['vals']):
        return None
    return coq_list(['((%d%%nat, %s), %s)' % (v['pk']['t'], hb(v['pk']['b']), coq_Z(v['power'])) for v in vs['vals']])


def oracle(o, h):
    vals = []
    for vs, hh in ((h['valset'], o['vals_hash']), (h['tvals'], o['tvals_hash'])):
        inp = hash_input(vs)
        if inp is not None and hh is not None:
            vals.append('(%s, %s)' % (inp, hb(hh)))
    chain = h['signed']['header']['chain'] if h['signed'] and h['signed']['header'] else ''
    sigs = ['((%d%%nat, %s), %d%%nat, %s)' % (s['t'], hb(s['pk']), s['idx'], coq_bool(s['ok'])) for s in o['sigs']]
    return '(Build_oracle_tab %s %s %s %s)' % (
        hb(o['header_hash']), coq_list(vals), hb(chain), coq_list(sigs))


def step_term(T, st, o):
    if o['kind'] == 'update':
        return '(OUpdate %s %s %s %d%%nat %d%%nat %s %s %s %d%%nat %s)' % (
            coq_Z(st['now']), T.share(header(o['hdr']), 'header'), T.share(oracle(o['oracle'], o['hdr']), 'oracle_tab'),
            o['vb_class'], o['chus_class'],
            'None' if o.get('chus_client') is None else '(Some %s)' % client(o['chus_client']),
            'None' if o.get('chus_cons') is None else '(Some %s)' % cons(o['chus_cons']),
            T.store(o.get('chus_store') or []), o['keeper_class'], T.store(o['store']))
    return '(OVerify %s %s %s %s %s %s %s %s %d%%nat %s)' % (
        coq_Z(st['now']), height(st['vheight']), coq_bool(o['proof_nil']), coq_bool(st['ack']), coq_N(st['seq']),
        hb(st['value']), coq_bool(o['decodes']), coq_bool(o['member']), o['v_class'], T.store(o['store']))


def hist_term(T, r):
    steps = [step_term(T, st, o) for st, o in zip(r['spec']['steps'], r['obs'])]
    return '(Build_hist %s %d%%nat %s)' % (T.store(r['init_store']), r.get('client_valid', 0), coq_list(steps))


def evaluate(workdir, results, tag='cases'):
    """returns (mismatches, monitor_failures) — lists of (hist, step, kind) — or (None, log) on a Coq failure"""
    shards = [results[i:i + SHARD] for i in range(0, len(results), SHARD)]

    global _BYTES
    texts = []
    for sh in shards:   # rendered sequentially (the sharing table is per file), evaluated in parallel
        T = Terms()
        _BYTES = T
        hs = [hist_term(T, r) for r in sh]
        _BYTES = None
        texts.append('\n'.join(T.defs) + '\nDefinition cases : list hist := %s.\n' % coq_list(hs))

    def one(ix):
        i, defs = ix
        res = vlib.coq_eval_lists(workdir, '%s_%d.v' % (tag, i), HEADER, defs,
                                  [('M', 'mismatches cases'), ('F', 'monitor_failures cases')])
        m = vlib.parse_nat_tuples(res.get('M'), 3)
        f = vlib.parse_nat_tuples(res.get('F'), 3)
        if res['_rc'] != 0 or m is None or f is None:
            return ('error', res['_out'][-3000:])
        off = i * SHARD
        sh3 = lambda l: [(h + off, s, k) for h, s, k in l]
        return (sh3(m), sh3(f))

    outs = vlib.parallel(one, list(enumerate(texts)), workers=14)
    mm, ff = [], []
    for o in outs:
        if o[0] == 'error':
            return None, o[1]
        mm += o[0]
        ff += o[1]
    return mm, ff


def run_specs(workdir, specs, tag):
    inp = os.path.join(workdir, tag + '_in.jsonl')
    out = os.path.join(workdir, tag + '_out.jsonl')
    vlib.write_jsonl(inp, specs)
    rc, o = vlib.run_harness('c07', ['-in', inp, '-out', out])
    if rc != 0:
        return None
    return vlib.read_jsonl(out)


def shrink(workdir, spec, which, kind):
    """drop steps of a failing history while the same kind of failure remains (re-running the real code)"""
    def fails(sp):
        rs = run_specs(workdir, [sp], 'shrink')
        if not rs:
            return False
        mm, ff = evaluate(workdir, rs, 'shrink_cases')
        if mm is None:
            return False
        got = ff if which == 'monitor' else mm
        return any(k == kind for _, _, k in got)
    best = spec
    budget = 30
    changed = True
    while changed and budget > 0:
        changed = False
        for i in range(len(best['steps']) - 1):   # the last step is the failing one
            cand = dict(best)
            cand['steps'] = best['steps'][:i] + best['steps'][i + 1:]
            budget -= 1
            if fails(cand):
                best = cand
                changed = True
                break
            if budget <= 0:
                break
    return best


def finding_key(spec, step, kind):
    """signature of a failing input; the delay-gate overflow is the one known class"""
    st = spec['steps'][step]
    if kind == 23 and st['kind'] == 'verify':
        return 'tm-delay-overflow'
    if kind == 16 and (spec['client']['tl_num'] >= 2 ** 63 or spec['client']['tl_den'] >= 2 ** 63):
        return 'tm-trust-level-int64'
    return None


def confirm_delay_overflow(results, h, s):
    """the failing verify step really is processedTime + TimeDelay >= 2^64 (computed from the observed store)"""
    r = results[h]
    pre = r['obs'][s - 1]['store'] if s > 0 else r['init_store']
    st = r['spec']['steps'][s]
    key = (b'consensusStates/' + st['vheight']['rev'].to_bytes(8, 'big') + st['vheight']['h'].to_bytes(8, 'big') + b'/processedTime').hex()
    for e in pre:
        if e['k'] == key and e.get('bytes'):
            pt = int(e['bytes'], 16)
            delay = None
            for e2 in pre:
                if e2.get('client'):
                    delay = e2['client']['delay']
            return delay is not None and pt + delay >= 2 ** 64 and (pt + delay) % 2 ** 64 <= st['now'], pt, delay
    return False, None, None


def coverage(run, results, mm, ff):
    dist = Counter()
    nontrivial = set()
    steps = 0
    for r in results:
        for st, o in zip(r['spec']['steps'], r['obs']):
            steps += 1
            toks = st.get('desc', '').split()
            if o['kind'] == 'update':
                cls = {0: 'accepted', 1: 'rejected', 2: 'panicked'}[o['keeper_class']]
                dist['update_' + cls] += 1
                dist['chus_' + {0: 'accepted', 1: 'rejected', 2: 'panicked'}[o['chus_class']]] += 1
                for t in toks:
                    dist['update:%s:%s' % (t, cls)] += 1
                h = o['hdr']
                nv = len(h['valset']['vals']) if h['valset'] else 0
                dist['own_set_size_%d' % nv] += 1
                nontrivial.add(json.dumps([toks, cls, nv]))
            else:
                cls = {0: 'honoured', 1: 'refused', 2: 'panicked'}[o['v_class']]
                dist['verify_' + cls] += 1
                for t in toks:
                    dist['verify:%s:%s' % (t, cls)] += 1
                nontrivial.add(json.dumps([toks, cls]))
    run.coverage.update(dict(
        evaluations=steps, histories=len(results), distinct_nontrivial=len(nontrivial),
        rule='a step = one header driven through Header.ValidateBasic, CheckHeaderAndUpdateState (on a discarded branch) and '
             'ClientKeeper.UpdateClient on a real client store, or one VerifyPacketCommitment/Acknowledgement call; distinct = '
             'distinct (scenario tokens of the generator, result class, own validator set size)',
        distribution=dict(sorted(dist.items())), model_mismatches=len(mm), monitor_failures=len(ff),
        directed_histories=sum(1 for r in results if 100000 <= r['spec']['id'] < 200000),
        sweep_histories=sum(1 for r in results if r['spec']['id'] >= 200000),
        sweep_rule='exhaustive: every power vector in {1,2,3}^n (n <= %d), every signer subset, trust levels 1/3 and 2/3, adjacent and '
                   'skipping header, own set = trusted set / first validator replaced by an outsider' % (2 if run.quick() else 3),
        samples=[dict(id=r['spec']['id'], client=r['spec']['client'],
                      steps=[dict(kind=st['kind'], now=st['now'], desc=st.get('desc'),
                                  result=(['accepted', 'rejected', 'panicked'][o['keeper_class']] if o['kind'] == 'update'
                                          else ['honoured', 'refused', 'panicked'][o['v_class']]),
                                  **({'height': o['hdr']['signed']['header']['height'], 'trusted_height': o['hdr']['th'],
                                      'own_powers': [v['power'] for v in (o['hdr']['valset'] or {'vals': []})['vals']],
                                      'sig_flags': [sg['flag'] for sg in ((o['hdr']['signed'] or {}).get('commit') or {'sigs': []})['sigs']]}
                                     if o['kind'] == 'update' and o['hdr']['signed'] and o['hdr']['signed']['header'] else
                                     ({'vheight': st['vheight']} if o['kind'] == 'verify' else {})))
                             for st, o in zip(r['spec']['steps'], r['obs'])])
                 for r in (results[6:8] + results[-3:])]))
    run.coverage['trusted_base'] += [
        'hand-written model Model/Tendermint.v (XIBC Tendermint client + specification of tendermint v0.34.16 light.Verify, '
        'ValidatorSetFromProto, VerifyCommitLight(Trusting), stateless validation) tied to the real code by this differential run '
        '(the generator bounds what it sees)',
        'oracles evaluated by the real code and tabulated per case: ValidatorSet.Hash, Header.Hash, '
        'PubKey.VerifySignature(Commit.VoteSignBytes), proto decoding of the Merkle proof, ICS-23 MerkleProof.VerifyMembership',
        'time.Time arithmetic does not saturate for timestamps inside the protobuf range (years 1..9999); store iteration is in '
        'ascending byte order of the keys']
    run.assumptions += [
        'tm_accept_sound (trust-level part): TrustLevel numerator and denominator below 2^63 (the Go code converts them to int64)',
        'adjacent headers: tendermint checks next-validators-hash equality instead of the trust-level tally; the uniform statement '
        'follows for trust levels <= 2/3 if ValidatorSet.Hash does not collide (lemma C07_adjacent_implies_trust_level)',
        'delay_gate: processedTime + TimeDelay < 2^64 (otherwise C07_delay_overflow_refuted)']


def search_monitor_failure(run, tag='search'):
    """model and code disagree but the monitor is silent on the cases of this run: look for a concrete property failure on
    the real code with a larger budget (other seeds, longer histories); returns (results, h, s, k) or None"""
    for i in range(3):
        outp = os.path.join(run.work, '%s_%d.jsonl' % (tag, i))
        rc, _ = vlib.run_harness('c07', ['-seed', int(run.seed) * 7919 + 104729 * (i + 1), '-n', run.budget(400, 1200), '-steps', 12,
                                         '-corpus=false', '-out', outp])
        if rc != 0:
            return None
        rs = vlib.read_jsonl(outp)
        mm, ff = evaluate(run.work, rs, '%s_cases_%d' % (tag, i))
        if mm is None:
            return None
        run.coverage['search_evaluations'] = run.coverage.get('search_evaluations', 0) + sum(len(r['obs']) for r in rs)
        for h, st, k in ff:
            spec = dict(rs[h]['spec'])
            spec['steps'] = spec['steps'][:st + 1]
            if finding_key(spec, st, k) is None:
                return rs, h, st, k
    return None


def check(run):
    run.proof_stage()
    if not run.quick():
        run.coqchk_stage()
    ok, out = vlib.build_harness(['c07'])
    if not ok:
        run.violation(dict(kind='harness-build-failed', log=out[-3000:],
                           explanation='the correspondence harness no longer builds against /repo'), no_input=True)
        return run.finish()
    n = run.budget(150, 2000)
    outp = os.path.join(run.work, 'out.jsonl')
    # corpus (directed histories) first, then the exhaustive threshold sweep (all power vectors in {1,2,3}^n, n <= 2 / 3, all signer
    # subsets, levels 1/3 and 2/3, adjacent and skipping), then the seeded random histories
    rc, o = vlib.run_harness('c07', ['-seed', run.seed, '-n', n, '-steps', run.budget(8, 12), '-sweep', run.budget(2, 3), '-out', outp])
    if rc != 0:
        run.violation(dict(kind='harness-crashed', log=o[-3000:]), no_input=True)
        return run.finish()
    results = vlib.read_jsonl(outp)
    mm, ff = evaluate(run.work, results)
    if mm is None:
        run.violation(dict(kind='coq-evaluation-failed', log=ff), no_input=True)
        return run.finish()
    coverage(run, results, mm, ff)

    reported = set()
    known_seen = 0
    for h, s, k in ff:  # the property failed on the real code
        if (h, k) in reported:
            continue
        reported.add((h, k))
        spec = dict(results[h]['spec'])
        spec['steps'] = spec['steps'][:s + 1]
        key = finding_key(spec, s, k)
        if key == 'tm-delay-overflow':
            okc, pt, delay = confirm_delay_overflow(results, h, s)
            if okc and run.known_finding(key, 'key=tm-delay-overflow VerifyPacketCommitment/Acknowledgement honours a proof before '
                                              'processedTime + TimeDelay because the uint64 sum wraps (processedTime=%d TimeDelay=%d)'
                                              % (pt, delay)):
                known_seen += 1
                continue
        if key == 'tm-trust-level-int64' and run.known_finding(
                key, 'key=tm-trust-level-int64 a configuration admitted by ClientState.Validate has trust level fields above MaxInt64; '
                     'a non-adjacent header was accepted without the trust level of the trusted set having signed'):
            known_seen += 1
            continue
        if len(run.violations) >= 3:
            continue
        small = shrink(run.work, spec, 'monitor', k)
        run.violation(dict(kind='monitor', code=k, what=KINDS.get(k), key=key, spec=small, failing_step=len(small['steps']) - 1,
                           observed={kk: vv for kk, vv in results[h]['obs'][s].items() if kk not in ('store', 'chus_store', 'hdr', 'oracle')}),
                      name='replay_h%d_k%d.json' % (h, k))
    run.coverage['known_finding_occurrences'] = known_seen
    if not run.violations:
        for h, s, k in mm[:1]:  # model and code disagree, property monitor silent: search for a concrete property failure
            found = search_monitor_failure(run)
            if found is not None:
                rs, fh, fs, fk = found
                spec = dict(rs[fh]['spec'])
                spec['steps'] = spec['steps'][:fs + 1]
                small = shrink(run.work, spec, 'monitor', fk)
                run.violation(dict(kind='monitor', code=fk, what=KINDS.get(fk), key=None, spec=small,
                                   failing_step=len(small['steps']) - 1, found_by='search after a model/code disagreement',
                                   observed={kk: vv for kk, vv in rs[fh]['obs'][fs].items()
                                             if kk not in ('store', 'chus_store', 'hdr', 'oracle')}),
                              name='replay_search_k%d.json' % fk)
                break
            spec = dict(results[h]['spec'])
            spec['steps'] = spec['steps'][:s + 1]
            small = shrink(run.work, spec, 'model', k)
            run.violation(dict(kind='correspondence', code=k, what=KINDS.get(k), spec=small,
                               explanation='Model/Tendermint.v no longer describes the Tendermint client of /repo; the theorems of '
                                           'Props/C07.v are about the model, so the property is no longer shown to hold',
                               broken='correspondence Model.Tendermint <-> x/xibc/clients/light-clients/tendermint'),
                          name='replay_corr_h%d.json' % h, no_input=True)
        if not run.proof_ok():
            run.proof_violation()
    return run.finish()


def replay(path):
    rp = json.load(open(path))
    work = os.path.join(vlib.ROOT, 'work', 'C07_replay')
    os.makedirs(work, exist_ok=True)
    ok, out = vlib.build_harness(['c07'])
    if not ok or 'spec' not in rp:
        print('cannot replay: %s' % (out[-500:] if not ok else 'no spec in replay file (%s)' % rp.get('kind')))
        return 2
    rs = run_specs(work, [rp['spec']], 'replay')
    mm, ff = evaluate(work, rs, 'replay_cases')
    last = rs[0]['obs'][-1]
    print('observed:', json.dumps({k: v for k, v in last.items() if k not in ('store', 'chus_store', 'hdr', 'oracle')}))
    print('model mismatches:', mm, ' monitor failures:', ff)
    for _, _, k in (ff or []) + (mm or []):
        print('  %d: %s' % (k, KINDS.get(k)))
    if ff or mm:
        print('VIOLATION property=C07 replay=%s' % path)
        return 1
    print('replay passes on the current tree')
    return 0
